package main

// R-GSAP-REWIND: the search set of the greedy suffix-array parser holds exactly the positions in front of W when
// Parse returns. The scan inserts every position of the block; when Parse hands trailing literals back (final
// position = literal cursor < block end, NoTrailingLiterals) the positions from the cursor to the block end have
// to leave the set again. Otherwise the next Parse finds positions it has not passed yet as nearest neighbours
// (negative offset, rejected) and emits literals or shorter matches although an earlier occurrence exists.

import (
	"fmt"
	"go/token"
	"go/types"
	"os"

	"golang.org/x/tools/go/ssa"
)

func init() {
	reg(&Rule{ID: "R-GSAP-REWIND", Min: 1,
		Doc: "when GSAP's Parse ends before the scanned block end (trailing literals handed back), a loop removes the ranks of all positions from the new W to the block end from the search set: the set holds only positions that were passed",
		Run: ruleGsapRewind})
}

// isRemover: a method on the set type that clears a bit (x &^ mask stored back into the word slice).
func isRemover(fn *ssa.Function) bool {
	if fn == nil || fn.Blocks == nil {
		return false
	}
	for _, b := range fn.Blocks {
		for _, in := range b.Instrs {
			bo, ok := in.(*ssa.BinOp)
			if !ok || bo.Op != token.AND_NOT {
				continue
			}
			for _, r := range *bo.Referrers() {
				if st, ok := r.(*ssa.Store); ok && st.Val == ssa.Value(bo) {
					if _, isIA := st.Addr.(*ssa.IndexAddr); isIA {
						return true
					}
				}
			}
		}
	}
	return false
}

func ruleGsapRewind(c *Ctx) {
	g := c.gsapOrFail("gsap:rewind")
	if g == nil {
		return
	}
	fn := g.scan.Fn
	fi := g.fi
	key := fnName(fn) + ":rewind"
	// the final store to W in a returning block after the scan loop
	var st *ssa.Store
	for _, b := range fn.Blocks {
		if g.scan.L.Blocks[b] {
			continue
		}
		if fi.loopOf(b) != nil {
			continue
		}
		for _, in := range b.Instrs {
			if s, ok := in.(*ssa.Store); ok {
				if _, pth, ok := pathStr(s.Addr); ok && lastField(pth) == "W" {
					reach := false
					for _, x := range g.scan.L.Header.Succs {
						if !g.scan.L.Blocks[x] && (x == b || x.Dominates(b)) {
							reach = true
						}
					}
					if reach && (st == nil || s.Pos() > st.Pos()) {
						st = s
					}
				}
			}
		}
	}
	if st == nil {
		c.fail(key, fn.Pos(), "final store to W after the scan not found")
		return
	}
	end := g.scan.Bound
	n := 0
	for _, lf := range mergeLeaves(stripConv(st.Val)) {
		l := fi.lin(lf.V)
		if l.eq(end) {
			continue
		}
		// a way out on which W ends before the scanned block end
		n++
		k := fmt.Sprintf("%s#%d", key, n)
		pos := st.Pos()
		from := st.Block()
		if lf.Pred != nil {
			from = lf.Pred
		}
		// a removal loop on this way: header dominated by the branch that selects this leaf, or the leaf's own
		// predecessor chain
		found := false
		why := "no loop removing positions from the search set on this path"
		for _, L := range fi.loops {
			if g.scan.L.Blocks[L.Header] {
				continue
			}
			// the loop lies on the way to the leaf: its header dominates the predecessor block of the leaf, or the
			// leaf is selected by a second evaluation of the very condition that guards the loop
			if !(L.Header == from || L.Header.Dominates(from)) && !c.sameGuard(fi, g.scan.L, L, from) {
				continue
			}
			// the removal calls of the loop and the position whose rank each of them passes: isa[lo:…][x] is the
			// rank of position lo + x (a range over a sub-slice and a counting loop over the array are the same walk)
			for b := range L.Blocks {
				for _, in := range b.Instrs {
					call, ok := in.(*ssa.Call)
					if !ok || call.Call.StaticCallee() == nil || len(call.Call.Args) == 0 {
						continue
					}
					if fieldOfAddr(call.Call.Args[0]) != g.setF || !isRemover(call.Call.StaticCallee()) {
						continue
					}
					f, at, okR := c.rankOperand(fi, call)
					if !okR || f != g.isaF {
						why = "the removal call does not pass the rank isa[k] of the loop position"
						continue
					}
					// the counter: an integer φ of the header that steps by one and enters the position with factor 1
					var ph *ssa.Phi
					for _, hin := range L.Header.Instrs {
						p, isPhi := hin.(*ssa.Phi)
						if !isPhi {
							break
						}
						if !isIntType(p.Type()) || at.t[p.Name()] != 1 {
							continue
						}
						okStart, okStep := false, true
						for i, pr := range L.Header.Preds {
							if L.Blocks[pr] {
								if !fi.lin(p.Edges[i]).eq(linAtom(p.Name()).addc(1)) {
									okStep = false
								}
							} else if at.sub(linAtom(p.Name())).add(fi.lin(p.Edges[i])).eq(l) {
								okStart = true
							}
						}
						if okStart && okStep {
							ph = p
						}
					}
					if ph == nil {
						why = "the loop on this path does not start at the new W and step by one"
						continue
					}
					// bound: the loop goes on exactly while the position is below the block end
					iff, ok := L.Header.Instrs[len(L.Header.Instrs)-1].(*ssa.If)
					if !ok {
						continue
					}
					bo, ok := iff.Cond.(*ssa.BinOp)
					if !ok || bo.Op != token.LSS || !L.Blocks[L.Header.Succs[0]] || !fi.lin(bo.X).sub(fi.lin(bo.Y)).eq(at.sub(end)) {
						why = "the removal loop does not run up to the scanned block end " + end.String()
						continue
					}
					every := true
					for _, la := range L.Latches {
						if !(b == la || b.Dominates(la)) {
							every = false
						}
					}
					if !every {
						why = "the removal is not executed on every iteration"
						continue
					}
					found = true
					pos = call.Pos()
				}
			}
		}
		if found {
			c.ok(k, pos, "W ends at %s < block end %s: the ranks of positions %s … %s−1 are removed from the search set", l, end, l, end)
		} else {
			c.fail(k, pos, "Parse can end at W = %s before the scanned block end %s (trailing literals handed back) while the positions in between stay in the search set (%s): the next Parse meets positions it has not passed as nearest neighbours, rejects them for their negative offset and emits literals or shorter matches although an earlier occurrence exists", l, end, why)
		}
	}
	if n == 0 {
		c.ok(key, st.Pos(), "Parse always ends at the scanned block end: nothing to remove")
	}
}

var _ = types.Typ

// sameGuard: loop L (behind the scan loop) is entered exactly when a set S of branch conditions holds, and the
// block `from` is reached only when conditions with the same meaning hold (the same operations on the same
// parameters, constants and loads of the same access path in the same state): every execution that reaches
// `from` has run L. This is the shape "if c { clean up }; …; if c { x = a } else { x = b }" that an extracted
// epilogue helper produces when it evaluates the condition again.
func (c *Ctx) sameGuard(fi *FuncInfo, scan, L *Loop, from *ssa.BasicBlock) bool {
	var pre *ssa.BasicBlock
	for _, p := range L.Header.Preds {
		if !L.Blocks[p] {
			if pre != nil {
				return false
			}
			pre = p
		}
	}
	if pre == nil {
		return false
	}
	var exit *ssa.BasicBlock
	for _, x := range scan.Header.Succs {
		if !scan.Blocks[x] && (x == pre || x.Dominates(pre)) {
			exit = x
		}
	}
	if exit == nil {
		return false
	}
	s1 := condsMinus(fi.condsAt(pre), fi.condsAt(exit))
	if len(s1) == 0 {
		return false
	}
	// S forces the way from the scan exit to the loop
	cur := exit
	for steps := 0; cur != pre; steps++ {
		if steps > 32 {
			return false
		}
		switch t := cur.Instrs[len(cur.Instrs)-1].(type) {
		case *ssa.Jump:
			cur = cur.Succs[0]
		case *ssa.If:
			next := (*ssa.BasicBlock)(nil)
			for _, cd := range s1 {
				if cd.V == t.Cond {
					if cd.True {
						next = cur.Succs[0]
					} else {
						next = cur.Succs[1]
					}
				}
			}
			if next == nil {
				return false
			}
			cur = next
		default:
			return false
		}
	}
	s2 := fi.condsAt(from)
	fi.anchor = exit.Instrs[0]
	defer func() { fi.anchor = nil }()
	for _, c1 := range s1 {
		u1 := unNot(c1)
		found := false
		for _, c2 := range s2 {
			u2 := unNot(c2)
			if u1.True == u2.True && fi.sameMeaning(u1.V, u2.V, 0) {
				found = true
			}
		}
		if !found {
			if os.Getenv("LZDBG5") != "" {
				fmt.Fprintf(os.Stderr, "DBG sameGuard: no partner for %v (%s) among %d conds at block %d\n", u1.V, u1.V.Name(), len(s2), from.Index)
				for _, c2 := range s2 {
					fmt.Fprintf(os.Stderr, "   cand %v %s true=%v\n", c2.V, c2.V.Name(), c2.True)
				}
			}
			return false
		}
	}
	return true
}

// sameMeaning: a and b compute the same value: the same operation applied to operands of the same meaning;
// loads agree when they read the same access path in the same state (equal version).
func (fi *FuncInfo) sameMeaning(a, b ssa.Value, depth int) bool {
	if a == b {
		return true
	}
	if depth > 8 {
		return false
	}
	switch x := a.(type) {
	case *ssa.Const:
		y, ok := b.(*ssa.Const)
		return ok && types.Identical(x.Type(), y.Type()) && x.Value != nil && y.Value != nil && x.Value.ExactString() == y.Value.ExactString()
	case *ssa.BinOp:
		y, ok := b.(*ssa.BinOp)
		return ok && x.Op == y.Op && fi.sameMeaning(x.X, y.X, depth+1) && fi.sameMeaning(x.Y, y.Y, depth+1)
	case *ssa.UnOp:
		y, ok := b.(*ssa.UnOp)
		if !ok || x.Op != y.Op {
			return false
		}
		if x.Op == token.MUL {
			r1, p1, ok1 := pathStr(x.X)
			r2, p2, ok2 := pathStr(y.X)
			if !ok1 || !ok2 || r1 != r2 || p1 != p2 || fieldOfAddr(x.X) == nil {
				return false
			}
			if _, isParam := r1.(*ssa.Parameter); !isParam {
				return false
			}
			if fi.version(x) == fi.version(y) {
				return true
			}
			// … or nothing writes the field between the anchor (a point both loads lie behind) and either load
			if fi.anchor != nil {
				fi.computeWriters()
				ws := fi.writers[fieldOfAddr(x.X)]
				return fi.instrReaches(fi.anchor, x) && fi.instrReaches(fi.anchor, y) && !fi.writerBetween(fi.anchor, x, ws) && !fi.writerBetween(fi.anchor, y, ws)
			}
			return false
		}
		return fi.sameMeaning(x.X, y.X, depth+1)
	case *ssa.Convert:
		y, ok := b.(*ssa.Convert)
		return ok && types.Identical(x.Type(), y.Type()) && fi.sameMeaning(x.X, y.X, depth+1)
	case *ssa.Call:
		y, ok := b.(*ssa.Call)
		if !ok {
			return false
		}
		bx, ok1 := x.Call.Value.(*ssa.Builtin)
		by, ok2 := y.Call.Value.(*ssa.Builtin)
		if !ok1 || !ok2 || bx.Name() != by.Name() || (bx.Name() != "len" && bx.Name() != "cap") {
			return false
		}
		return fi.sameMeaning(x.Call.Args[0], y.Call.Args[0], depth+1)
	}
	return false
}

// rankOperand: the call passes int(F[lo:…][x]) for an []int32 field F (directly or as the only element of a variadic
// argument); returns F and the position lo + x.
func (c *Ctx) rankOperand(fi *FuncInfo, call *ssa.Call) (*types.Var, Lin, bool) {
	check := func(v ssa.Value) (*types.Var, Lin, bool) {
		ld, ok := stripConv(v).(*ssa.UnOp)
		if !ok || ld.Op != token.MUL {
			return nil, Lin{}, false
		}
		ia, ok := ld.X.(*ssa.IndexAddr)
		if !ok {
			return nil, Lin{}, false
		}
		at := fi.lin(ia.Index)
		base := ia.X
		for {
			sl, isSl := base.(*ssa.Slice)
			if !isSl {
				break
			}
			if sl.Low != nil {
				at = at.add(fi.lin(sl.Low))
			}
			base = sl.X
		}
		f := loadedField(base)
		return f, at, f != nil
	}
	for _, a := range call.Call.Args[1:] {
		if f, at, ok := check(a); ok {
			return f, at, true
		}
		if sl, ok := a.(*ssa.Slice); ok {
			if arr, ok := sl.X.(*ssa.Alloc); ok {
				for _, ref := range *arr.Referrers() {
					if ia, isIA := ref.(*ssa.IndexAddr); isIA {
						for _, u := range *ia.Referrers() {
							if st, isSt := u.(*ssa.Store); isSt && st.Addr == ssa.Value(ia) {
								if f, at, ok := check(st.Val); ok {
									return f, at, true
								}
							}
						}
					}
				}
			}
		}
	}
	return nil, Lin{}, false
}

// ---------------------------------------------------------------- R-GSAP-WINFALLBACK

func init() {
	reg(&Rule{ID: "R-GSAP-WINFALLBACK", Min: 1,
		Doc: "GSAP: a candidate rejected by the window test is not the end of the search for this position: another neighbour query follows before the position is given up as a literal (otherwise a nearer occurrence inside the window — in a byte run the previous position — is never tried)",
		Run: ruleGsapWinFallback})
}

func ruleGsapWinFallback(c *Ctx) {
	g := c.gsapOrFail("gsap:window-reject")
	if g == nil {
		return
	}
	fi := g.fi
	L := g.scan.L
	fn := g.scan.Fn
	queryFns := map[*ssa.Function]bool{}
	for _, q := range g.qs {
		queryFns[q.Call.StaticCallee()] = true
	}
	emitBlocks := map[*ssa.BasicBlock]bool{}
	for _, e := range g.scan.Emits {
		emitBlocks[e.Block] = true
	}
	// reach(b): blocks reachable from b inside the loop without passing the header
	reach := func(b *ssa.BasicBlock) map[*ssa.BasicBlock]bool {
		seen := map[*ssa.BasicBlock]bool{}
		work := []*ssa.BasicBlock{b}
		for len(work) > 0 {
			x := work[len(work)-1]
			work = work[:len(work)-1]
			if seen[x] || !L.Blocks[x] || x == L.Header {
				continue
			}
			seen[x] = true
			work = append(work, x.Succs...)
		}
		return seen
	}
	n := 0
	for _, b := range fn.Blocks {
		if !L.Blocks[b] {
			continue
		}
		iff, ok := b.Instrs[len(b.Instrs)-1].(*ssa.If)
		if !ok {
			continue
		}
		mentionsWindow := false
		for _, f := range fi.factsOf([]Cond{{iff.Cond, true}}) {
			for a := range f.L.t {
				if hasSuffixAtom(a, ".WindowSize") {
					mentionsWindow = true
				}
			}
		}
		if !mentionsWindow {
			continue
		}
		for _, s := range b.Succs {
			r := reach(s)
			emits := false
			for e := range emitBlocks {
				if r[e] {
					emits = true
				}
			}
			if emits {
				continue
			}
			// the rejecting side: does it query again before the position is given up?
			n++
			key := fmt.Sprintf("%s:window-reject#%d:fallback", fnName(fn), n)
			again := false
			for x := range r {
				for _, in := range x.Instrs {
					if call, ok := in.(*ssa.Call); ok && queryFns[call.Call.StaticCallee()] {
						again = true
					}
				}
			}
			if again {
				c.ok(key, iff.Cond.Pos(), "after a candidate outside the window another neighbour is queried")
			} else {
				c.fail(key, iff.Cond.Pos(), "a candidate outside the window ends the search for this position: the byte becomes a literal although a nearer occurrence inside the window may exist (with BufferSize > WindowSize a block inside a byte run whose earlier copy lies outside the window consists of literals only)")
			}
		}
	}
	if n == 0 {
		c.fail(fnName(fn)+":window-reject", fn.Pos(), "no window test found in the scan loop")
	}
}

func hasSuffixAtom(a, suffix string) bool {
	base := a
	for i := 0; i < len(a); i++ {
		if a[i] == '@' {
			base = a[:i]
			break
		}
	}
	return len(base) >= len(suffix) && base[len(base)-len(suffix):] == suffix
}

// ---------------------------------------------------------------- R-BITSET-PAIR

func init() {
	reg(&Rule{ID: "R-BITSET-PAIR", Min: 1,
		Doc: "the search set's insert and delete address the same word and the same bit for a member x (word index and bit mask are the same expressions of x and of the set's offset): a delete that clears another bit leaves the member in the set or removes a different one",
		Run: ruleBitsetPair})
}

// exprKey prints the expression tree of v with every leaf that is neither a constant nor a field load written as $x.
func exprKey(fn *ssa.Function, v ssa.Value, depth int) string {
	if depth > 8 {
		return "…"
	}
	switch x := v.(type) {
	case *ssa.Const:
		if x.Value == nil {
			return "nil"
		}
		return x.Value.ExactString()
	case *ssa.Convert:
		return exprKey(fn, x.X, depth+1)
	case *ssa.ChangeType:
		return exprKey(fn, x.X, depth+1)
	case *ssa.BinOp:
		return x.Op.String() + "(" + exprKey(fn, x.X, depth+1) + "," + exprKey(fn, x.Y, depth+1) + ")"
	case *ssa.UnOp:
		if x.Op == token.MUL {
			if p, ok := recvPath(fn, x.X); ok && p != "" {
				return "." + lastField(p)
			}
			return "$x"
		}
		return x.Op.String() + "(" + exprKey(fn, x.X, depth+1) + ")"
	}
	return "$x"
}

// bitOps: the (word index, mask) expressions of every store words[k] = words[k] op mask in fn.
func bitOps(fn *ssa.Function, op token.Token) [][2]string {
	var out [][2]string
	for _, b := range fn.Blocks {
		for _, in := range b.Instrs {
			st, ok := in.(*ssa.Store)
			if !ok {
				continue
			}
			ia, ok := st.Addr.(*ssa.IndexAddr)
			if !ok {
				continue
			}
			bo, ok := st.Val.(*ssa.BinOp)
			if !ok || bo.Op != op {
				continue
			}
			out = append(out, [2]string{exprKey(fn, ia.Index, 0), exprKey(fn, bo.Y, 0)})
		}
	}
	return out
}

func ruleBitsetPair(c *Ctx) {
	g := c.gsapOrFail("gsap:bitset")
	if g == nil {
		return
	}
	if g.insFn == nil {
		c.fail("bitset:insert", token.NoPos, "the set's insert function was not found")
		return
	}
	ins := bitOps(g.insFn, token.OR)
	if len(ins) == 0 {
		c.fail(fnName(g.insFn)+":set-bit", g.insFn.Pos(), "insert does not set a bit with words[k] |= mask")
		return
	}
	c.ok(fnName(g.insFn)+":set-bit", g.insFn.Pos(), "insert sets bit %s of word %s", ins[0][1], ins[0][0])
	// every remover on the same receiver type
	recv := g.insFn.Signature.Recv()
	n := 0
	for _, fn := range c.allFuncs {
		if fn.Pkg != c.lz || fn.Blocks == nil || fn.Signature.Recv() == nil || recv == nil || !types.Identical(fn.Signature.Recv().Type(), recv.Type()) || !isRemover(fn) {
			continue
		}
		n++
		key := fnName(fn) + "~" + fnName(g.insFn)
		rm := bitOps(fn, token.AND_NOT)
		same := len(rm) > 0
		for _, r := range rm {
			if r != ins[0] {
				same = false
			}
		}
		if same {
			c.ok(key, fn.Pos(), "delete clears the bit insert sets (word %s, mask %s)", ins[0][0], ins[0][1])
		} else {
			c.fail(key, fn.Pos(), "delete clears %v, insert sets word %s mask %s: the two do not address the same bit for a member", rm, ins[0][0], ins[0][1])
		}
	}
	if n == 0 {
		c.ok("bitset:no-delete", g.insFn.Pos(), "the set has no delete operation")
	}
}

// ---------------------------------------------------------------- R-GSAP-WINEXACT

func init() {
	reg(&Rule{ID: "R-GSAP-WINEXACT", Min: 1,
		Doc: "GSAP rejects a candidate for its offset only if the offset is not positive or exceeds WindowSize: an offset equal to WindowSize is inside the window — the six sibling parsers and the decoder accept it — and the candidate at that distance is the longest match available",
		Run: ruleGsapWinExact})
}

func ruleGsapWinExact(c *Ctx) {
	g := c.gsapOrFail("gsap:window-exact")
	if g == nil {
		return
	}
	fi := g.fi
	L := g.scan.L
	fn := g.scan.Fn
	n := 0
	for _, e := range g.scan.Emits {
		off := fi.lin(stripConv(e.Offset))
		// rejecting edges: conditional edges in the scan loop that mention WindowSize and from which the emission
		// cannot be reached without passing the header
		for _, b := range fn.Blocks {
			if !L.Blocks[b] {
				continue
			}
			iff, ok := b.Instrs[len(b.Instrs)-1].(*ssa.If)
			if !ok {
				continue
			}
			mentions := false
			for _, f := range fi.factsOf([]Cond{{iff.Cond, true}}) {
				for a := range f.L.t {
					if hasSuffixAtom(a, ".WindowSize") {
						mentions = true
					}
				}
			}
			if !mentions {
				continue
			}
			for si, sc := range b.Succs {
				if fi.reachAvoidBoth(sc, L.Header, L.Header)[e.Block] || sc == e.Block {
					continue
				}
				n++
				key := fmt.Sprintf("%s:window-reject#%d:exact", fnName(fn), n)
				conds := append(append([]Cond{}, fi.condsAt(b)...), Cond{iff.Cond, si == 0})
				ok := false
				for _, w := range fi.atomsWithSuffix(".WindowSize") {
					// rejected ⇒ o ≥ WindowSize + 1, i.e. WindowSize + 1 − o ≤ 0
					if fi.proveLE0(linAtom(w).addc(1).sub(off), conds, nil, map[string]bool{}, 0) {
						ok = true
					}
				}
				c.check(ok, key, iff.Cond.Pos(), "a candidate is rejected by the window test only when its offset exceeds WindowSize",
					"the window test also rejects an offset equal to WindowSize (the rejection is not shown to imply Offset > WindowSize): the candidate at that distance is inside the window — the other six parsers and the decoder accept it — and the position becomes a literal or gets a shorter match")
			}
		}
	}
	if n == 0 {
		c.fail(fnName(fn)+":window-reject:exact", fn.Pos(), "no window test found in the scan loop")
	}
}
