package main

// Shared analyses A1 (dominating edge conditions), A2 (linear normal form),
// A3 (clamps via per-edge substitution of phi nodes), non-negativity, and a
// small entailment procedure over linear integer facts.

import (
	"fmt"
	"go/constant"
	"go/token"
	"go/types"
	"os"
	"sort"
	"strconv"
	"strings"

	"golang.org/x/tools/go/ssa"
)

// ---------------------------------------------------------------- Lin

// Lin is Σ t[a]·a + c over atom keys a.
type Lin struct {
	c int64
	t map[string]int64
}

func linConst(c int64) Lin { return Lin{c: c} }
func linAtom(a string) Lin { return Lin{t: map[string]int64{a: 1}} }

func (l Lin) clone() Lin {
	m := make(map[string]int64, len(l.t))
	for k, v := range l.t {
		m[k] = v
	}
	return Lin{l.c, m}
}
func (l Lin) add(o Lin) Lin { return l.addk(o, 1) }
func (l Lin) sub(o Lin) Lin { return l.addk(o, -1) }
func (l Lin) addk(o Lin, k int64) Lin {
	r := l.clone()
	r.c += k * o.c
	for a, v := range o.t {
		r.t[a] += k * v
		if r.t[a] == 0 {
			delete(r.t, a)
		}
	}
	return r
}
func (l Lin) scale(k int64) Lin {
	r := Lin{c: l.c * k, t: map[string]int64{}}
	if k == 0 {
		return r
	}
	for a, v := range l.t {
		r.t[a] = v * k
	}
	return r
}
func (l Lin) addc(c int64) Lin { r := l.clone(); r.c += c; return r }
func (l Lin) isConst() bool    { return len(l.t) == 0 }
func (l Lin) eq(o Lin) bool {
	d := l.sub(o)
	return len(d.t) == 0 && d.c == 0
}

// key is a cheap canonical rendering used for de-duplication.
func (l Lin) key() string {
	ks := make([]string, 0, len(l.t))
	for k := range l.t {
		ks = append(ks, k)
	}
	sort.Strings(ks)
	var sb strings.Builder
	for _, k := range ks {
		sb.WriteString(k)
		sb.WriteByte('*')
		sb.WriteString(strconv.FormatInt(l.t[k], 10))
		sb.WriteByte(';')
	}
	sb.WriteString(strconv.FormatInt(l.c, 10))
	return sb.String()
}

func (l Lin) String() string {
	var ks []string
	for k := range l.t {
		ks = append(ks, k)
	}
	sort.Strings(ks)
	var sb strings.Builder
	for i, k := range ks {
		v := l.t[k]
		switch {
		case v == 1 && i == 0:
			sb.WriteString(k)
		case v == 1:
			sb.WriteString(" + " + k)
		case v == -1 && i == 0:
			sb.WriteString("-" + k)
		case v == -1:
			sb.WriteString(" - " + k)
		case v < 0:
			fmt.Fprintf(&sb, " - %d·%s", -v, k)
		default:
			if i > 0 {
				sb.WriteString(" + ")
			}
			fmt.Fprintf(&sb, "%d·%s", v, k)
		}
	}
	if l.c != 0 || len(ks) == 0 {
		if len(ks) == 0 {
			fmt.Fprintf(&sb, "%d", l.c)
		} else if l.c > 0 {
			fmt.Fprintf(&sb, " + %d", l.c)
		} else {
			fmt.Fprintf(&sb, " - %d", -l.c)
		}
	}
	return sb.String()
}

// Fact: L ≤ 0 (LE), L == 0 (EQ), L != 0 (NE).
type Fact struct {
	L  Lin
	Op int
}

const (
	LE = iota
	EQ
	NE
)

func (f Fact) String() string {
	return f.L.String() + []string{" ≤ 0", " = 0", " ≠ 0"}[f.Op]
}

// ---------------------------------------------------------------- FuncInfo

type FuncInfo struct {
	ctx    *Ctx
	fn     *ssa.Function
	anchor ssa.Instruction                              // sameMeaning: a point behind which compared loads lie (rules_rewind.go)
	reach  map[*ssa.BasicBlock]map[*ssa.BasicBlock]bool // reach[a][b]: path of ≥1 edge from a to b
	lins   map[ssa.Value]Lin
	// writers of a field inside this function (stores and calls that may store)
	writers    map[*types.Var][]ssa.Instruction
	wdone      bool
	instrIx    map[ssa.Instruction]int
	loops      []*Loop
	phis       []*ssa.Phi
	av         map[string]ssa.Value
	vers       map[*ssa.UnOp]string
	lemmas     []Fact
	lemmasDone bool
	proveMemo  map[string]int
	budget     int // remaining prover steps of the current top-level query
	nested     int
	loadAtoms  map[string]ssa.Value
	ra         map[[2]*ssa.BasicBlock]map[*ssa.BasicBlock]bool
	noAxioms   int // 0 unknown, 1 axioms allowed, 2 not allowed
}

func (c *Ctx) info(fn *ssa.Function) *FuncInfo {
	if fi, ok := c.fi[fn]; ok {
		return fi
	}
	fi := &FuncInfo{ctx: c, fn: fn, lins: map[ssa.Value]Lin{}}
	c.fi[fn] = fi
	fi.reach = map[*ssa.BasicBlock]map[*ssa.BasicBlock]bool{}
	for _, b := range fn.Blocks {
		m := map[*ssa.BasicBlock]bool{}
		var stack []*ssa.BasicBlock
		stack = append(stack, b.Succs...)
		for len(stack) > 0 {
			x := stack[len(stack)-1]
			stack = stack[:len(stack)-1]
			if m[x] {
				continue
			}
			m[x] = true
			stack = append(stack, x.Succs...)
		}
		fi.reach[b] = m
	}
	fi.instrIx = map[ssa.Instruction]int{}
	for _, b := range fn.Blocks {
		for i, in := range b.Instrs {
			fi.instrIx[in] = i
			if p, ok := in.(*ssa.Phi); ok {
				fi.phis = append(fi.phis, p)
			}
		}
	}
	fi.findLoops()
	return fi
}

// instrReaches reports whether execution can go from instruction a to b.
// instrReachesInIteration: b can execute after a within one iteration of loop L (without passing L's header).
func (fi *FuncInfo) instrReachesInIteration(a, b ssa.Instruction, L *Loop) bool {
	ba, bb := a.Block(), b.Block()
	if ba == bb {
		return fi.instrIx[a] < fi.instrIx[b]
	}
	seen := map[*ssa.BasicBlock]bool{}
	work := append([]*ssa.BasicBlock{}, ba.Succs...)
	for len(work) > 0 {
		x := work[len(work)-1]
		work = work[:len(work)-1]
		if seen[x] || x == L.Header || !L.Blocks[x] {
			continue
		}
		seen[x] = true
		if x == bb {
			return true
		}
		work = append(work, x.Succs...)
	}
	return false
}

func (fi *FuncInfo) instrReaches(a, b ssa.Instruction) bool {
	ba, bb := a.Block(), b.Block()
	if ba == bb {
		if fi.instrIx[a] < fi.instrIx[b] {
			return true
		}
		return fi.reach[ba][ba]
	}
	return fi.reach[ba][bb]
}

// ---------------------------------------------------------------- loops

type Loop struct {
	Header  *ssa.BasicBlock
	Blocks  map[*ssa.BasicBlock]bool
	Latches []*ssa.BasicBlock
}

func (fi *FuncInfo) findLoops() {
	byHeader := map[*ssa.BasicBlock]*Loop{}
	for _, b := range fi.fn.Blocks {
		for _, s := range b.Succs {
			if s.Dominates(b) {
				l := byHeader[s]
				if l == nil {
					l = &Loop{Header: s, Blocks: map[*ssa.BasicBlock]bool{s: true}}
					byHeader[s] = l
					fi.loops = append(fi.loops, l)
				}
				l.Latches = append(l.Latches, b)
				// body: blocks that reach b without passing s
				stack := []*ssa.BasicBlock{b}
				for len(stack) > 0 {
					x := stack[len(stack)-1]
					stack = stack[:len(stack)-1]
					if l.Blocks[x] {
						continue
					}
					l.Blocks[x] = true
					stack = append(stack, x.Preds...)
				}
			}
		}
	}
	sort.Slice(fi.loops, func(i, j int) bool { return fi.loops[i].Header.Index < fi.loops[j].Header.Index })
}

func (fi *FuncInfo) loopOf(b *ssa.BasicBlock) *Loop {
	var best *Loop
	for _, l := range fi.loops {
		if l.Blocks[b] && (best == nil || len(l.Blocks) < len(best.Blocks)) {
			best = l
		}
	}
	return best
}

// ---------------------------------------------------------------- access paths

// pathStr renders the access path of an address or of a value loaded from
// one: root.field.field.[*]. ok=false when the root cannot be named.
// copyOfAlloc: al is a struct local written exactly once, as a whole, with the value loaded from another
// struct local of the same type that is itself written exactly once as a whole (no field stores to
// either, no address escapes): then al.f ≡ src.f everywhere after the copy. Returns src, else nil.
func copyOfAlloc(al *ssa.Alloc) *ssa.Alloc {
	if _, isStruct := al.Type().Underlying().(*types.Pointer).Elem().Underlying().(*types.Struct); !isStruct {
		return nil
	}
	onlyWhole := func(a *ssa.Alloc) *ssa.Store {
		var st *ssa.Store
		for _, ref := range *a.Referrers() {
			switch x := ref.(type) {
			case *ssa.Store:
				if x.Addr != ssa.Value(a) || st != nil {
					return nil
				}
				st = x
			case *ssa.FieldAddr:
				for _, r2 := range *x.Referrers() {
					if ld, ok := r2.(*ssa.UnOp); !ok || ld.Op != token.MUL {
						return nil // field store or escaping field address
					}
				}
			case *ssa.UnOp:
				if x.Op != token.MUL {
					return nil
				}
			case *ssa.DebugRef:
			default:
				return nil
			}
		}
		return st
	}
	st := onlyWhole(al)
	if st == nil {
		return nil
	}
	ld, ok := st.Val.(*ssa.UnOp)
	if !ok || ld.Op != token.MUL {
		return nil
	}
	src, ok := ld.X.(*ssa.Alloc)
	if !ok || src == al || !types.Identical(src.Type(), al.Type()) {
		return nil
	}
	if onlyWhole(src) == nil {
		return nil
	}
	// the source's single store must come before the copy (it dominates it)
	if s0 := onlyWhole(src); !(s0.Block() == st.Block() || s0.Block().Dominates(st.Block())) {
		return nil
	}
	return src
}

func pathStr(v ssa.Value) (root ssa.Value, path string, ok bool) {
	return pathStr0(v, map[*ssa.Phi]bool{})
}

func pathStr0(v ssa.Value, inPhi map[*ssa.Phi]bool) (root ssa.Value, path string, ok bool) {
	var parts []string
	for depth := 0; depth < 64; depth++ {
		switch x := v.(type) {
		case *ssa.FieldAddr:
			st := derefStruct(x.X.Type())
			parts = append(parts, st.Field(x.Field).Name())
			v = x.X
		case *ssa.Field:
			st := x.X.Type().Underlying().(*types.Struct)
			parts = append(parts, st.Field(x.Field).Name())
			v = x.X
		case *ssa.IndexAddr:
			parts = append(parts, "[*]")
			v = x.X
		case *ssa.Index:
			parts = append(parts, "[*]")
			v = x.X
		case *ssa.UnOp:
			if x.Op != token.MUL {
				return nil, "", false
			}
			// a parameter spilled into a cell because a closure captures it
			// (t0 = new *T (s); *t0 = s; t1 = *t0): the loaded pointer IS the parameter
			if sp := spilledParam(x.X); sp != nil {
				v = sp
				continue
			}
			v = x.X
		case *ssa.Slice:
			v = x.X
		case *ssa.ChangeType:
			v = x.X
		case *ssa.Call:
			callee := x.Call.StaticCallee()
			idx, cp, ok := returnAlias(callee)
			if !ok || idx >= len(x.Call.Args) {
				return nil, "", false
			}
			// callee path components are appended in reverse order
			cparts := strings.Split(cp, ".")
			for i := len(cparts) - 1; i >= 0; i-- {
				if cparts[i] != "" {
					parts = append(parts, cparts[i])
				}
			}
			v = x.Call.Args[idx]
		case *ssa.Alloc:
			// a struct local that is nothing but a copy of another struct local (an item handed on to a
			// helper's parameter): its fields are the source's fields
			if src := copyOfAlloc(x); src != nil && depth < 60 {
				v = src
				continue
			}
			for i, j := 0, len(parts)-1; i < j; i, j = i+1, j-1 {
				parts[i], parts[j] = parts[j], parts[i]
			}
			return x, strings.Join(parts, "."), true
		case *ssa.Parameter, *ssa.FreeVar, *ssa.Global:
			// reverse parts
			for i, j := 0, len(parts)-1; i < j; i, j = i+1, j-1 {
				parts[i], parts[j] = parts[j], parts[i]
			}
			return x, strings.Join(parts, "."), true
		case *ssa.Phi:
			// all incoming must agree
			if inPhi[x] {
				return nil, "", false
			}
			inPhi[x] = true
			defer delete(inPhi, x)
			var r0 ssa.Value
			var p0 string
			for i, e := range x.Edges {
				if e == x {
					continue
				}
				if c, ok := e.(*ssa.Const); ok && c.Value == nil {
					continue
				}
				r, p, ok := pathStr0(e, inPhi)
				if !ok {
					// a cycle back into this phi web through a re-slice (q = q[8:]) keeps the path
					if cyclesBack(e, inPhi) {
						continue
					}
				}
				if !ok {
					return nil, "", false
				}
				if i == 0 || r0 == nil {
					r0, p0 = r, p
				} else if r != r0 || p != p0 {
					return nil, "", false
				}
			}
			if r0 == nil {
				return nil, "", false
			}
			for i, j := 0, len(parts)-1; i < j; i, j = i+1, j-1 {
				parts[i], parts[j] = parts[j], parts[i]
			}
			if p0 != "" && len(parts) > 0 {
				return r0, p0 + "." + strings.Join(parts, "."), true
			}
			return r0, p0 + strings.Join(parts, "."), true
		default:
			return nil, "", false
		}
	}
	return nil, "", false
}

func derefStruct(t types.Type) *types.Struct {
	if p, ok := t.Underlying().(*types.Pointer); ok {
		t = p.Elem()
	}
	st, _ := t.Underlying().(*types.Struct)
	return st
}

func rootName(r ssa.Value) string {
	switch x := r.(type) {
	case *ssa.Global:
		return x.Pkg.Pkg.Name() + "." + x.Name()
	case *ssa.Alloc:
		if x.Comment != "" {
			return x.Name() + "(" + x.Comment + ")"
		}
	}
	return r.Name()
}

// fieldOfAddr returns the final struct field an address designates (nil if
// the address is not a field address).
func fieldOfAddr(v ssa.Value) *types.Var {
	if fa, ok := v.(*ssa.FieldAddr); ok {
		return derefStruct(fa.X.Type()).Field(fa.Field)
	}
	return nil
}

// lastField returns the last named field on the path of v ("" if none).
func lastField(path string) string {
	parts := strings.Split(path, ".")
	for i := len(parts) - 1; i >= 0; i-- {
		if parts[i] != "[*]" && parts[i] != "" {
			return parts[i]
		}
	}
	return ""
}

// ---------------------------------------------------------------- writers / versions

func (fi *FuncInfo) computeWriters() {
	if fi.wdone {
		return
	}
	fi.wdone = true
	fi.writers = map[*types.Var][]ssa.Instruction{}
	for _, b := range fi.fn.Blocks {
		for _, in := range b.Instrs {
			switch x := in.(type) {
			case *ssa.Store:
				if f := fieldOfAddr(x.Addr); f != nil {
					fi.writers[f] = append(fi.writers[f], in)
					// a store of a struct value overwrites nested fields too
					addNested(fi.writers, f.Type(), in)
				} else if st := derefStruct(x.Addr.Type()); st != nil {
					if _, isAlloc := x.Addr.(*ssa.Alloc); !isAlloc {
						for i := 0; i < st.NumFields(); i++ {
							fi.writers[st.Field(i)] = append(fi.writers[st.Field(i)], in)
							addNested(fi.writers, st.Field(i).Type(), in)
						}
					}
				}
			case ssa.CallInstruction:
				callee := x.Common().StaticCallee()
				if callee == nil || callee.Blocks == nil {
					continue
				}
				for f := range fi.ctx.fieldWrites(callee) {
					fi.writers[f] = append(fi.writers[f], in)
				}
			}
		}
	}
}

func addNested(m map[*types.Var][]ssa.Instruction, t types.Type, in ssa.Instruction) {
	st, ok := t.Underlying().(*types.Struct)
	if !ok {
		return
	}
	for i := 0; i < st.NumFields(); i++ {
		m[st.Field(i)] = append(m[st.Field(i)], in)
		addNested(m, st.Field(i).Type(), in)
	}
}

// version of a load. Two loads of the same access path get the same version
// when one dominates the other and no writer of the field can execute
// between them. The version is named after the outermost such dominating
// load; it is empty when no writer can reach the load at all (entry value).
func (fi *FuncInfo) version(ld *ssa.UnOp) string {
	if v, ok := fi.vers[ld]; ok {
		return v
	}
	v := fi.version0(ld)
	if fi.vers == nil {
		fi.vers = map[*ssa.UnOp]string{}
	}
	fi.vers[ld] = v
	return v
}

func (fi *FuncInfo) version0(ld *ssa.UnOp) string {
	f := fieldOfAddr(ld.X)
	if f == nil {
		return ""
	}
	fi.computeWriters()
	ws := fi.writers[f]
	reached := false
	for _, w := range ws {
		if fi.instrReaches(w, ld) {
			reached = true
			break
		}
	}
	if !reached {
		return ""
	}
	// a unique dominating writer with no other writer in between names the state
	var best ssa.Instruction
	for _, w := range ws {
		wb := w.Block()
		dom := (wb == ld.Block() && fi.instrIx[w] < fi.instrIx[ld]) || (wb != ld.Block() && wb.Dominates(ld.Block()))
		if !dom {
			continue
		}
		var others []ssa.Instruction
		for _, o := range ws {
			if o != w {
				others = append(others, o)
			}
		}
		if fi.writerBetween(w, ld, others) {
			continue
		}
		if best == nil || best.Block().Dominates(wb) || (best.Block() == wb && fi.instrIx[best] < fi.instrIx[w]) {
			best = w
		}
	}
	if best != nil {
		return fmt.Sprintf("@w%d.%d", best.Block().Index, fi.instrIx[best])
	}
	r0, p0, ok0 := pathStr(ld.X)
	if !ok0 {
		return "@" + ld.Name()
	}
	// candidate representatives: loads of the same path that dominate ld
	var cands []*ssa.UnOp
	for _, b := range fi.fn.Blocks {
		if !(b == ld.Block() || b.Dominates(ld.Block())) {
			continue
		}
		for _, in := range b.Instrs {
			u, ok := in.(*ssa.UnOp)
			if !ok || u.Op != token.MUL || u == ld {
				continue
			}
			if b == ld.Block() && fi.instrIx[u] > fi.instrIx[ld] {
				continue
			}
			if r, p, ok := pathStr(u.X); ok && r == r0 && p == p0 {
				cands = append(cands, u)
			}
		}
	}
	// outermost first: blocks in dominator order = increasing depth; fn.Blocks order is not
	// dominance order in general, so sort by "dominates"
	sort.SliceStable(cands, func(i, j int) bool {
		bi, bj := cands[i].Block(), cands[j].Block()
		if bi == bj {
			return fi.instrIx[cands[i]] < fi.instrIx[cands[j]]
		}
		return bi.Dominates(bj)
	})
	for _, c := range cands {
		if !fi.writerBetween(c, ld, ws) {
			return "@" + c.Name()
		}
	}
	return "@" + ld.Name()
}

// reachAvoid: blocks reachable from the successors of b without entering avoid.
func (fi *FuncInfo) reachAvoid(b, avoid *ssa.BasicBlock) map[*ssa.BasicBlock]bool {
	key := [2]*ssa.BasicBlock{b, avoid}
	if m, ok := fi.ra[key]; ok {
		return m
	}
	m := map[*ssa.BasicBlock]bool{}
	var stack []*ssa.BasicBlock
	stack = append(stack, b.Succs...)
	for len(stack) > 0 {
		x := stack[len(stack)-1]
		stack = stack[:len(stack)-1]
		if x == avoid || m[x] {
			continue
		}
		m[x] = true
		stack = append(stack, x.Succs...)
	}
	if fi.ra == nil {
		fi.ra = map[[2]*ssa.BasicBlock]map[*ssa.BasicBlock]bool{}
	}
	fi.ra[key] = m
	return m
}

// writerBetween: a dominates b; can a writer execute after a and before b
// without a being executed again in between?
func (fi *FuncInfo) writerBetween(a, b ssa.Instruction, ws []ssa.Instruction) bool {
	ab, bb := a.Block(), b.Block()
	for _, w := range ws {
		wb := w.Block()
		// w after a
		after := false
		if wb == ab {
			after = fi.instrIx[w] > fi.instrIx[a]
		} else {
			after = fi.reachAvoid(ab, ab)[wb]
		}
		if !after {
			continue
		}
		// b after w (without re-entering a's block)
		switch {
		case wb == bb && fi.instrIx[w] < fi.instrIx[b]:
			if wb != ab || fi.instrIx[w] > fi.instrIx[a] {
				return true
			}
		case wb == ab:
			// w later in a's block, b in another block reached from it
			if bb != ab && fi.reachAvoid(ab, ab)[bb] {
				return true
			}
		default:
			if fi.reachAvoid(wb, ab)[bb] {
				return true
			}
		}
	}
	return false
}

// ---------------------------------------------------------------- lin of values

func isIntType(t types.Type) bool {
	b, ok := t.Underlying().(*types.Basic)
	return ok && b.Info()&types.IsInteger != 0
}

func constInt(v ssa.Value) (int64, bool) {
	c, ok := v.(*ssa.Const)
	if !ok || c.Value == nil {
		return 0, false
	}
	if c.Value.Kind() != constant.Int {
		return 0, false
	}
	if i, ok := constant.Int64Val(c.Value); ok {
		return i, true
	}
	if u, ok := constant.Uint64Val(c.Value); ok {
		return int64(u), true
	}
	return 0, false
}

// key names a non-integer value (slice, pointer) for use inside an atom.
func (fi *FuncInfo) key(v ssa.Value) string {
	switch x := v.(type) {
	case *ssa.UnOp:
		if x.Op == token.MUL {
			if r, p, ok := pathStr(x.X); ok {
				return rootName(r) + "." + p + fi.version(x)
			}
		}
	case *ssa.ChangeType:
		return fi.key(x.X)
	case *ssa.Const:
		if x.Value == nil {
			return "nil"
		}
	}
	return v.Name()
}

// lenOf gives the linear form of len(v).
func (fi *FuncInfo) lenOf(v ssa.Value) Lin {
	switch x := v.(type) {
	case *ssa.Slice:
		var lo Lin
		if x.Low != nil {
			lo = fi.lin(x.Low)
		}
		if x.High != nil {
			return fi.lin(x.High).sub(lo)
		}
		if _, isPtr := x.X.Type().Underlying().(*types.Pointer); isPtr {
			if arr, ok := x.X.Type().Underlying().(*types.Pointer).Elem().Underlying().(*types.Array); ok {
				return linConst(arr.Len()).sub(lo)
			}
		}
		return fi.lenOf(x.X).sub(lo)
	case *ssa.Const:
		if x.Value == nil {
			return linConst(0)
		}
		if x.Value.Kind() == constant.String {
			return linConst(int64(len(constant.StringVal(x.Value))))
		}
	case *ssa.ChangeType:
		return fi.lenOf(x.X)
	case *ssa.Call:
		// append(a, b...) has len(a)+len(b)
		if bi, ok := x.Call.Value.(*ssa.Builtin); ok && bi.Name() == "append" && len(x.Call.Args) == 2 {
			return fi.lenOf(x.Call.Args[0]).add(fi.lenOf(x.Call.Args[1]))
		}
		// f(…, s, …) every result of which is s itself or a fresh slice of len(s) (a growing helper)
		if callee := x.Call.StaticCallee(); callee != nil && !x.Call.IsInvoke() {
			if i, ok := fi.ctx.lenOfResult(callee); ok {
				off := 0
				if callee.Signature.Recv() != nil {
					off = 0 // Params and Args both include the receiver
				}
				if i+off < len(x.Call.Args) {
					return fi.lenOf(x.Call.Args[i+off])
				}
			}
		}
	case *ssa.MakeSlice:
		return fi.lin(x.Len)
	case *ssa.UnOp:
		if x.Op == token.MUL {
			if st := fi.uniqueReachingStore(x); st != nil {
				if _, isLoad := st.Val.(*ssa.UnOp); !isLoad {
					return fi.lenOf(st.Val)
				}
			}
			if l, ok := fi.mergedStoreLen(x); ok {
				return l
			}
		}
	}
	if ld, ok := v.(*ssa.UnOp); ok && ld.Op == token.MUL {
		if r, p, ok := pathStr(ld.X); ok {
			return linAtom("len(" + rootName(r) + "." + p + fi.lenVersion(ld) + ")")
		}
	}
	return linAtom("len(" + fi.key(v) + ")")
}

// lenVersion is the version of a load when only writers that can change the
// LENGTH of the loaded slice count: calls to functions all of whose stores to
// the field keep its length (grow: make([]T, len(old), c); copy) are ignored.
func (fi *FuncInfo) lenVersion(ld *ssa.UnOp) string {
	f := fieldOfAddr(ld.X)
	if f == nil {
		return fi.version(ld)
	}
	fi.computeWriters()
	all := fi.writers[f]
	var ws []ssa.Instruction
	for _, w := range all {
		if call, ok := w.(*ssa.Call); ok {
			if callee := call.Call.StaticCallee(); callee != nil && fi.ctx.lenPreserving(callee, f) {
				continue
			}
		}
		// x.F = g(x.F, …) with g's result as long as that argument (a functional growing helper)
		if st, ok := w.(*ssa.Store); ok && fi.storeKeepsLen(st, f, all) {
			continue
		}
		ws = append(ws, w)
	}
	if len(ws) == len(all) {
		return fi.version(ld)
	}
	saved := fi.writers[f]
	fi.writers[f] = ws
	v := fi.version0(ld)
	fi.writers[f] = saved
	return v
}

// storeKeepsLen: st stores, to field f, the result of a call that is as long as one of its arguments (lenOfResult),
// and that argument is a load of the same access path whose value is still the field's value at the store.
func (fi *FuncInfo) storeKeepsLen(st *ssa.Store, f *types.Var, all []ssa.Instruction) bool {
	call, ok := st.Val.(*ssa.Call)
	if !ok || call.Call.IsInvoke() || call.Call.StaticCallee() == nil {
		return false
	}
	i, ok := fi.ctx.lenOfResult(call.Call.StaticCallee())
	if !ok || i >= len(call.Call.Args) {
		return false
	}
	ld, ok := call.Call.Args[i].(*ssa.UnOp)
	if !ok || ld.Op != token.MUL || fieldOfAddr(ld.X) != f {
		return false
	}
	r0, p0, ok0 := pathStr(st.Addr)
	r1, p1, ok1 := pathStr(ld.X)
	if !ok0 || !ok1 || r0 != r1 || p0 != p1 {
		return false
	}
	if !(ld.Block() == st.Block() && fi.instrIx[ld] < fi.instrIx[st]) && !(ld.Block() != st.Block() && ld.Block().Dominates(st.Block())) {
		return false
	}
	return !fi.writerBetween(ld, st, all)
}

// lenPreserving: every store of fn to field f (directly; callees must not
// write f) stores a slice whose length is the field's length at entry.
func (c *Ctx) lenPreserving(fn *ssa.Function, f *types.Var) bool {
	if c.lenPres == nil {
		c.lenPres = map[[2]any]bool{}
	}
	key := [2]any{fn, f}
	if r, ok := c.lenPres[key]; ok {
		return r
	}
	c.lenPres[key] = false
	fi := c.info(fn)
	ok := true
	n := 0
	for _, b := range fn.Blocks {
		for _, in := range b.Instrs {
			switch x := in.(type) {
			case *ssa.Store:
				if fieldOfAddr(x.Addr) != f {
					continue
				}
				n++
				l := fi.lenOf(x.Val)
				good := false
				if len(l.t) == 1 && l.c == 0 {
					for a, co := range l.t {
						if co == 1 && strings.HasPrefix(a, "len(") && !strings.Contains(a, "@") && strings.HasSuffix(a, "."+f.Name()+")") {
							good = true
						}
					}
				}
				if !good {
					ok = false
				}
			case ssa.CallInstruction:
				if callee := x.Common().StaticCallee(); callee != nil && callee.Blocks != nil {
					if c.fieldWrites(callee)[f] {
						ok = false
					}
				}
			}
		}
	}
	c.lenPres[key] = ok && n > 0
	return ok && n > 0
}

// lenOfResult: fn returns one slice and every returned value is parameter #i itself or a slice made with the length
// of parameter #i: the result is as long as that argument.
func (c *Ctx) lenOfResult(fn *ssa.Function) (int, bool) {
	if c.lenRes == nil {
		c.lenRes = map[*ssa.Function]int{}
	}
	if r, ok := c.lenRes[fn]; ok {
		return r, r >= 0
	}
	c.lenRes[fn] = -1
	if fn.Blocks == nil || fn.Signature.Results().Len() != 1 {
		return -1, false
	}
	if _, ok := fn.Signature.Results().At(0).Type().Underlying().(*types.Slice); !ok {
		return -1, false
	}
	fi := c.info(fn)
	idx := -1
	for _, b := range fn.Blocks {
		ret, ok := b.Instrs[len(b.Instrs)-1].(*ssa.Return)
		if !ok {
			continue
		}
		for _, lf := range phiLeaves(ret.Results[0]) {
			leaf := lf.V
			found := -1
			for i, p := range fn.Params {
				if leaf == ssa.Value(p) {
					found = i
				} else if mk, ok := leaf.(*ssa.MakeSlice); ok {
					if _, isS := p.Type().Underlying().(*types.Slice); isS && fi.lin(mk.Len).eq(fi.lenOf(p)) {
						found = i
					}
				}
			}
			if found < 0 || (idx >= 0 && idx != found) {
				return -1, false
			}
			idx = found
		}
	}
	c.lenRes[fn] = idx
	return idx, idx >= 0
}

// uniqueReachingStore: the load sees exactly one writer of its field, that
// writer is a direct store to the same access path, dominates the load and is
// not in a cycle with it: the loaded value is the stored value.
func (fi *FuncInfo) uniqueReachingStore(ld *ssa.UnOp) *ssa.Store {
	f := fieldOfAddr(ld.X)
	if f == nil {
		return nil
	}
	fi.computeWriters()
	var only ssa.Instruction
	for _, w := range fi.writers[f] {
		if fi.instrReaches(w, ld) {
			if only != nil {
				return nil
			}
			only = w
		}
	}
	st, ok := only.(*ssa.Store)
	if !ok || fi.instrReaches(ld, st) {
		return nil
	}
	if !(st.Block() == ld.Block() || st.Block().Dominates(ld.Block())) {
		return nil
	}
	r1, p1, ok1 := pathStr(st.Addr)
	r2, p2, ok2 := pathStr(ld.X)
	if !ok1 || !ok2 || r1 != r2 || p1 != p2 {
		return nil
	}
	return st
}

func (fi *FuncInfo) lin(v ssa.Value) Lin {
	if l, ok := fi.lins[v]; ok {
		return l
	}
	l := fi.lin0(v)
	fi.lins[v] = l
	return l
}

// capturedConst: the closure's free variable fv is a cell of the parent function that is written exactly
// once, before the closure is made, and only read elsewhere (in the parent and in every closure that
// captures it); the written value's linear form over field reads (no SSA temporaries, no versions: the
// same names mean the same in the closure, whose receiver is the same captured pointer).
func (fi *FuncInfo) capturedConst(fv *ssa.FreeVar) (Lin, bool) {
	fn := fi.fn
	parent := fn.Parent()
	if parent == nil {
		return Lin{}, false
	}
	idx := -1
	for i, f := range fn.FreeVars {
		if f == fv {
			idx = i
		}
	}
	if idx < 0 {
		return Lin{}, false
	}
	var cell *ssa.Alloc
	for _, b := range parent.Blocks {
		for _, in := range b.Instrs {
			if mc, ok := in.(*ssa.MakeClosure); ok && mc.Fn == ssa.Value(fn) && idx < len(mc.Bindings) {
				a, isAlloc := mc.Bindings[idx].(*ssa.Alloc)
				if !isAlloc || (cell != nil && cell != a) {
					return Lin{}, false
				}
				cell = a
			}
		}
	}
	if cell == nil {
		return Lin{}, false
	}
	var st *ssa.Store
	for _, ref := range *cell.Referrers() {
		switch r := ref.(type) {
		case *ssa.Store:
			if r.Addr != ssa.Value(cell) || st != nil {
				return Lin{}, false
			}
			st = r
		case *ssa.UnOp:
			if r.Op != token.MUL {
				return Lin{}, false
			}
		case *ssa.MakeClosure:
			// every closure capturing the cell only reads it
			cf, _ := r.Fn.(*ssa.Function)
			if cf == nil {
				return Lin{}, false
			}
			for i, bnd := range r.Bindings {
				if bnd != ssa.Value(cell) || i >= len(cf.FreeVars) {
					continue
				}
				for _, fr := range *cf.FreeVars[i].Referrers() {
					if ld, ok := fr.(*ssa.UnOp); !ok || ld.Op != token.MUL {
						return Lin{}, false
					}
				}
			}
		case *ssa.DebugRef:
		default:
			return Lin{}, false
		}
	}
	if st == nil {
		return Lin{}, false
	}
	pfi := fi.ctx.info(parent)
	l := pfi.lin(st.Val)
	for a := range l.t {
		if strings.Contains(a, "@") || strings.HasPrefix(a, "len(") || strings.HasPrefix(a, "cap(") {
			return Lin{}, false
		}
		if len(a) > 1 && a[0] == 't' && a[1] >= '0' && a[1] <= '9' {
			return Lin{}, false
		}
		if !strings.Contains(a, ".") {
			return Lin{}, false
		}
	}
	return l, true
}

func (fi *FuncInfo) lin0(v ssa.Value) Lin {
	if c, ok := constInt(v); ok {
		return linConst(c)
	}
	switch x := v.(type) {
	case *ssa.BinOp:
		if !isIntType(x.Type()) {
			break
		}
		switch x.Op {
		case token.ADD:
			return fi.lin(x.X).add(fi.lin(x.Y))
		case token.SUB:
			return fi.lin(x.X).sub(fi.lin(x.Y))
		case token.MUL:
			if c, ok := constInt(x.X); ok {
				return fi.lin(x.Y).scale(c)
			}
			if c, ok := constInt(x.Y); ok {
				return fi.lin(x.X).scale(c)
			}
		case token.SHL:
			if c, ok := constInt(x.Y); ok && c >= 0 && c < 62 {
				return fi.lin(x.X).scale(1 << uint(c))
			}
		}
	case *ssa.Convert:
		if isIntType(x.Type()) && isIntType(x.X.Type()) {
			return fi.lin(x.X)
		}
	case *ssa.ChangeType:
		return fi.lin(x.X)
	case *ssa.UnOp:
		if x.Op == token.SUB && isIntType(x.Type()) {
			return fi.lin(x.X).scale(-1)
		}
		if x.Op == token.MUL {
			// a captured local of the enclosing function that is assigned exactly once there (an
			// invariant hoisted out of the closure): its value, when that is made of field reads only
			if fv, isFV := x.X.(*ssa.FreeVar); isFV && isIntType(x.Type()) {
				if l, ok := fi.capturedConst(fv); ok {
					return l
				}
			}
			if r, p, ok := pathStr(x.X); ok && !strings.Contains(p, "[*]") {
				if a, isAlloc := r.(*ssa.Alloc); isAlloc {
					// address-taken local with a single dominating store: forward the value
					if sv := fi.singleStore(a, p, x); sv != nil {
						return fi.lin(sv)
					}
				}
				a := rootName(r) + "." + p + fi.version(x)
				if fi.loadAtoms == nil {
					fi.loadAtoms = map[string]ssa.Value{}
				}
				if _, ok := fi.loadAtoms[a]; !ok {
					fi.loadAtoms[a] = x
				}
				return linAtom(a)
			}
		}
	case *ssa.Call:
		if bi, ok := x.Call.Value.(*ssa.Builtin); ok {
			switch bi.Name() {
			case "len":
				return fi.lenOf(x.Call.Args[0])
			case "cap":
				return linAtom("cap(" + fi.key(x.Call.Args[0]) + ")")
			}
		}
		// s.Len() for a local struct s and an accessor that only adds up fields of its value receiver: the sum
		// of those fields of s
		if l, ok := fi.accessorCall(x); ok {
			return l
		}
	}
	return linAtom(v.Name())
}

// fieldSum: fn is a straight-line function without calls whose single integer result is a linear combination
// of fields of its first (struct value) parameter; returns the coefficients by field name.
func (c *Ctx) fieldSum(fn *ssa.Function) (map[string]int64, int64, bool) {
	if c.fieldSums == nil {
		c.fieldSums = map[*ssa.Function]*fieldSumT{}
	}
	if r, ok := c.fieldSums[fn]; ok {
		return r.t, r.c, r.ok
	}
	res := &fieldSumT{}
	c.fieldSums[fn] = res
	if len(fn.Blocks) != 1 || len(fn.Params) == 0 || fn.Signature.Results().Len() != 1 || !isIntType(fn.Signature.Results().At(0).Type()) {
		return nil, 0, false
	}
	if _, isS := fn.Params[0].Type().Underlying().(*types.Struct); !isS {
		return nil, 0, false
	}
	var spill *ssa.Alloc
	for _, in := range fn.Blocks[0].Instrs {
		switch x := in.(type) {
		case *ssa.Call, *ssa.Go, *ssa.Defer, *ssa.Panic:
			return nil, 0, false
		case *ssa.Store:
			a, isA := x.Addr.(*ssa.Alloc)
			if !isA || x.Val != ssa.Value(fn.Params[0]) || spill != nil {
				return nil, 0, false
			}
			spill = a
		}
	}
	ret, ok := fn.Blocks[0].Instrs[len(fn.Blocks[0].Instrs)-1].(*ssa.Return)
	if !ok || spill == nil {
		return nil, 0, false
	}
	l := c.info(fn).lin(ret.Results[0])
	pre := rootName(spill) + "."
	t := map[string]int64{}
	for a, co := range l.t {
		if !strings.HasPrefix(a, pre) || strings.ContainsAny(a[len(pre):], ".@()[] ") {
			return nil, 0, false
		}
		t[a[len(pre):]] = co
	}
	if len(t) == 0 {
		return nil, 0, false
	}
	res.t, res.c, res.ok = t, l.c, true
	return res.t, res.c, true
}

type fieldSumT struct {
	t  map[string]int64
	c  int64
	ok bool
}

func (fi *FuncInfo) accessorCall(call *ssa.Call) (Lin, bool) {
	callee := call.Call.StaticCallee()
	if callee == nil || call.Call.IsInvoke() || callee.Blocks == nil || len(call.Call.Args) == 0 || !isIntType(call.Type()) {
		return Lin{}, false
	}
	ld, ok := call.Call.Args[0].(*ssa.UnOp)
	if !ok || ld.Op != token.MUL {
		return Lin{}, false
	}
	al, ok := ld.X.(*ssa.Alloc)
	if !ok || al.Referrers() == nil {
		return Lin{}, false
	}
	// the local is only ever written as a whole: its field atoms carry no version
	for _, r := range *al.Referrers() {
		if fa, isFA := r.(*ssa.FieldAddr); isFA && fa.Referrers() != nil {
			for _, u := range *fa.Referrers() {
				if ld2, isLd := u.(*ssa.UnOp); !isLd || ld2.Op != token.MUL {
					return Lin{}, false
				}
			}
		}
	}
	t, k, ok := fi.ctx.fieldSum(callee)
	if !ok {
		return Lin{}, false
	}
	out := linConst(k)
	for f, co := range t {
		out = out.add(linAtom(rootName(al) + "." + f).scale(co))
	}
	return out, true
}

// singleStore: for a load of alloc.path find the unique store to exactly
// that field path of the alloc (or a whole-value store followed by field
// selection) that dominates the load, if no other store to it exists.
func (fi *FuncInfo) singleStore(a *ssa.Alloc, path string, ld *ssa.UnOp) ssa.Value {
	var found ssa.Value
	n := 0
	for _, ref := range *a.Referrers() {
		switch r := ref.(type) {
		case *ssa.Store:
			if r.Addr == a {
				if path == "" {
					n++
					found = r.Val
				} else {
					// whole-value store; select the field from the stored value if it is a load of a path
					n++
					found = nil
				}
			}
		case *ssa.FieldAddr:
			if rr := r.Referrers(); rr != nil {
				for _, u := range *rr {
					if st, ok := u.(*ssa.Store); ok && st.Addr == r {
						_, p, _ := pathStr(r)
						if p == path {
							n++
							found = st.Val
						} else if path == "" {
							n += 2
						}
					}
				}
			}
		}
	}
	if n == 1 && found != nil {
		return found
	}
	return nil
}

// ---------------------------------------------------------------- conditions

// Cond is a branch condition that holds (True) or fails on every path to a block.
type Cond struct {
	V    ssa.Value
	True bool
}

// condsAt returns the conditions established by dominating branch edges.
func (fi *FuncInfo) condsAt(b *ssa.BasicBlock) []Cond {
	var out []Cond
	for d := b.Idom(); d != nil; d = d.Idom() {
		iff, ok := d.Instrs[len(d.Instrs)-1].(*ssa.If)
		if !ok {
			continue
		}
		t, f := d.Succs[0], d.Succs[1]
		if t == f {
			continue
		}
		tOK := len(t.Preds) == 1 && (t == b || t.Dominates(b))
		fOK := len(f.Preds) == 1 && (f == b || f.Dominates(b))
		if tOK && !fOK {
			out = append(out, Cond{iff.Cond, true})
		} else if fOK && !tOK {
			out = append(out, Cond{iff.Cond, false})
		}
	}
	return out
}

// edgeConds: conditions holding when control flows along p→s.
func (fi *FuncInfo) edgeConds(p, s *ssa.BasicBlock) []Cond {
	out := fi.condsAt(p)
	if iff, ok := p.Instrs[len(p.Instrs)-1].(*ssa.If); ok && p.Succs[0] != p.Succs[1] {
		if p.Succs[0] == s {
			out = append(out, Cond{iff.Cond, true})
		} else if p.Succs[1] == s {
			out = append(out, Cond{iff.Cond, false})
		}
	}
	return out
}

// condAlternatives: for a condition on a boolean φ (the materialised value of a short-circuit
// expression) the alternative condition lists it stands for; nil for any other condition.
// φ = [c₁ from P₁, v₂ from P₂, …] is `want` iff control came along some edge i whose value is `want`:
// a constant edge contributes the branch conditions of that edge, a computed one additionally v_i = want.
func (fi *FuncInfo) condAlternatives(c Cond, depth int) [][]Cond {
	c = unNot(c)
	if bo, isBo := c.V.(*ssa.BinOp); isBo && (bo.Op == token.EQL || bo.Op == token.NEQ) && depth <= 4 {
		// φ == nil / φ != nil on a merged pointer or interface (err of an inlined validator): the ways
		// in whose value is known to be nil resp. non-nil drop out
		var ph *ssa.Phi
		if k, isC := bo.Y.(*ssa.Const); isC && k.Value == nil {
			ph, _ = bo.X.(*ssa.Phi)
		} else if k, isC := bo.X.(*ssa.Const); isC && k.Value == nil {
			ph, _ = bo.Y.(*ssa.Phi)
		}
		if ph == nil {
			return nil
		}
		for _, p := range ph.Block().Preds {
			if ph.Block().Dominates(p) {
				return nil
			}
		}
		wantNil := (bo.Op == token.EQL) == c.True
		var alts [][]Cond
		dropped := false
		for i, e := range ph.Edges {
			if l, ok := fi.nilLin(e); ok && l.isConst() {
				if (l.c == 1) != wantNil {
					dropped = true
					continue
				}
			}
			pred := ph.Block().Preds[i]
			var ec []Cond
			if iff, ok := pred.Instrs[len(pred.Instrs)-1].(*ssa.If); ok && pred.Succs[0] != pred.Succs[1] {
				ec = append(ec, Cond{iff.Cond, pred.Succs[0] == ph.Block()})
			}
			for _, cd := range fi.condsAt(pred) {
				dup := false
				for _, x := range fi.condsAt(ph.Block()) {
					if x == cd {
						dup = true
					}
				}
				if !dup {
					ec = append(ec, cd)
				}
			}
			alts = append(alts, ec)
		}
		if !dropped {
			return nil // nothing learnt
		}
		return alts
	}
	ph, ok := c.V.(*ssa.Phi)
	if !ok || depth > 4 {
		return nil
	}
	if b, isB := ph.Type().Underlying().(*types.Basic); !isB || b.Kind() != types.Bool {
		return nil
	}
	// only φs of pure control merges (not loop headers)
	for _, p := range ph.Block().Preds {
		if ph.Block().Dominates(p) {
			return nil
		}
	}
	var alts [][]Cond
	base := fi.condsAt(ph.Block())
	for i, e := range ph.Edges {
		pred := ph.Block().Preds[i]
		var ec []Cond
		if iff, ok := pred.Instrs[len(pred.Instrs)-1].(*ssa.If); ok && pred.Succs[0] != pred.Succs[1] {
			if pred.Succs[0] == ph.Block() {
				ec = append(ec, Cond{iff.Cond, true})
			} else {
				ec = append(ec, Cond{iff.Cond, false})
			}
		}
		if k, isC := e.(*ssa.Const); isC {
			if k.Value == nil {
				return nil
			}
			if constant.BoolVal(k.Value) != c.True {
				continue
			}
		}
		// the conditions under which pred itself is reached, below the φ's own dominator (merges on
		// the way are split)
		for _, w := range fi.waysTo(pred, ph.Block().Idom(), base, 0) {
			a := append(append([]Cond{}, ec...), w...)
			if _, isC := e.(*ssa.Const); !isC {
				a = append(a, Cond{e, c.True})
			}
			alts = append(alts, a)
		}
	}
	return alts
}

// waysTo: the alternative condition lists under which block b is reached from the block stop (which
// dominates it): single-predecessor chains are followed edge by edge; a merge on the way (¬(a && b)
// reaches its continuation from two branches) is split into its incoming edges, up to three merges deep;
// loop headers are not crossed (then the plain dominating conditions, minus base, are used).
func (fi *FuncInfo) waysTo(b, stop *ssa.BasicBlock, base []Cond, depth int) [][]Cond {
	minus := func(cs []Cond) []Cond {
		var out []Cond
		for _, cd := range cs {
			dup := false
			for _, x := range base {
				if x == cd {
					dup = true
				}
			}
			if !dup {
				out = append(out, cd)
			}
		}
		return out
	}
	if b == stop {
		return [][]Cond{{}}
	}
	fallback := [][]Cond{minus(fi.condsAt(b))}
	if stop == nil || !stop.Dominates(b) || depth > 12 {
		return fallback
	}
	for _, p := range b.Preds {
		if b.Dominates(p) {
			return fallback // loop header
		}
	}
	merges := 0
	if len(b.Preds) >= 2 {
		merges = 1
	}
	if len(b.Preds) == 0 {
		return fallback
	}
	var out [][]Cond
	for _, p := range b.Preds {
		var ec []Cond
		if iff, ok := p.Instrs[len(p.Instrs)-1].(*ssa.If); ok && p.Succs[0] != p.Succs[1] {
			ec = append(ec, Cond{iff.Cond, p.Succs[0] == b})
		}
		for _, w := range fi.waysTo(p, stop, base, depth+1+3*merges) {
			out = append(out, append(append([]Cond{}, ec...), w...))
		}
	}
	if len(out) > 12 {
		return fallback
	}
	return out
}

// expandConds: nil when no condition is a boolean φ; otherwise the list of alternative condition
// lists (cartesian product over the disjunctive ones, capped), free of boolean φs.
func (fi *FuncInfo) expandConds(conds []Cond) [][]Cond {
	has := false
	for _, c := range conds {
		switch unNot(c).V.(type) {
		case *ssa.Phi, *ssa.BinOp:
			if fi.condAlternatives(c, 0) != nil {
				has = true
			}
		}
	}
	if !has {
		return nil
	}
	out := [][]Cond{{}}
	for _, c := range conds {
		alts := fi.condAlternatives(c, 0)
		if alts == nil {
			for i := range out {
				out[i] = append(out[i], c)
			}
			continue
		}
		if len(alts) == 0 {
			// the condition cannot hold on any edge: the point is unreachable; keep a contradiction
			return [][]Cond{}
		}
		var next [][]Cond
		for _, o := range out {
			for _, a := range alts {
				n := append(append([]Cond{}, o...), a...)
				next = append(next, n)
			}
		}
		if len(next) > 16 {
			// too many alternatives: drop this condition (sound: fewer hypotheses)
			continue
		}
		out = next
	}
	// nested boolean φs introduced by the alternatives
	var final [][]Cond
	for _, o := range out {
		if sub := fi.expandConds(o); sub != nil {
			final = append(final, sub...)
		} else {
			final = append(final, o)
		}
	}
	return final
}

func unNot(c Cond) Cond {
	for {
		u, ok := c.V.(*ssa.UnOp)
		if !ok || u.Op != token.NOT {
			return c
		}
		c = Cond{u.X, !c.True}
	}
}

// factsOf converts integer comparison conditions into linear facts.
func (fi *FuncInfo) factsOf(conds []Cond) []Fact {
	var out []Fact
	for _, c := range conds {
		c = unNot(c)
		bo, ok := c.V.(*ssa.BinOp)
		if !ok {
			continue
		}
		if !isIntType(bo.X.Type()) || !isIntType(bo.Y.Type()) {
			// v == nil / v != nil on pointers and interfaces: the pseudo-atom nil?(v) ∈ {0, 1}
			if bo.Op == token.EQL || bo.Op == token.NEQ {
				lx, okx := fi.nilLin(bo.X)
				ly, oky := fi.nilLin(bo.Y)
				_, xc := bo.X.(*ssa.Const)
				_, yc := bo.Y.(*ssa.Const)
				if okx && oky && (xc || yc) {
					// comparison with the nil constant: nil?(v) = 1 (equal) or 0 (unequal)
					eq := (bo.Op == token.EQL) == c.True
					d := lx.sub(ly) // nil?(v) − 1 or 1 − nil?(v)
					if eq {
						out = append(out, Fact{d, EQ})
					} else if xc {
						out = append(out, Fact{ly, EQ}) // nil?(Y) = 0
					} else {
						out = append(out, Fact{lx, EQ})
					}
				}
			}
			continue
		}
		d := fi.lin(bo.X).sub(fi.lin(bo.Y)) // X - Y
		op := bo.Op
		if !c.True {
			switch op {
			case token.LSS:
				op = token.GEQ
			case token.LEQ:
				op = token.GTR
			case token.GTR:
				op = token.LEQ
			case token.GEQ:
				op = token.LSS
			case token.EQL:
				op = token.NEQ
			case token.NEQ:
				op = token.EQL
			}
		}
		switch op {
		case token.LSS: // X - Y < 0  ≡ X - Y + 1 ≤ 0
			out = append(out, Fact{d.addc(1), LE})
		case token.LEQ:
			out = append(out, Fact{d, LE})
		case token.GTR: // Y - X + 1 ≤ 0
			out = append(out, Fact{d.scale(-1).addc(1), LE})
		case token.GEQ:
			out = append(out, Fact{d.scale(-1), LE})
		case token.EQL:
			out = append(out, Fact{d, EQ})
		case token.NEQ:
			out = append(out, Fact{d, NE})
		}
	}
	return out
}

func (fi *FuncInfo) factsAt(b *ssa.BasicBlock) []Fact { return fi.factsOf(fi.condsAt(b)) }

// nilLin: the linear form of nil?(v) for a pointer or interface value: 1 for the nil constant, 0 for
// the address of something and for the value of a package-level error variable (these are initialised
// once and never stored again: R-NOGLOBAL), otherwise the pseudo-atom "nil?<name>".
func (fi *FuncInfo) nilLin(v ssa.Value) (Lin, bool) {
	switch v.Type().Underlying().(type) {
	case *types.Pointer, *types.Interface, *types.Slice, *types.Map, *types.Signature, *types.Chan:
	default:
		return Lin{}, false
	}
	switch x := v.(type) {
	case *ssa.Const:
		if x.Value == nil {
			return linConst(1), true
		}
		return Lin{}, false
	case *ssa.Alloc, *ssa.FieldAddr, *ssa.IndexAddr, *ssa.MakeInterface, *ssa.MakeSlice, *ssa.MakeMap, *ssa.MakeClosure, *ssa.Global, *ssa.Function:
		return linConst(0), true
	case *ssa.UnOp:
		if g, ok := x.X.(*ssa.Global); ok && x.Op == token.MUL && isErrorType(x.Type()) && g.Pkg != nil && (g.Pkg == fi.ctx.lz || g.Pkg == fi.ctx.suffix) {
			return linConst(0), true
		}
	case *ssa.Call:
		// the error constructors of the standard library never return nil
		if cl := x.Call.StaticCallee(); cl != nil && cl.Pkg != nil {
			switch cl.Pkg.Pkg.Path() + "." + cl.Name() {
			case "fmt.Errorf", "errors.New":
				return linConst(0), true
			}
		}
	}
	return linAtom("nil?" + v.Name()), true
}

// ---------------------------------------------------------------- non-negativity

var bitsNonNeg = map[string]bool{
	"TrailingZeros64": true, "TrailingZeros32": true, "LeadingZeros64": true, "LeadingZeros32": true,
	"Len32": true, "Len64": true, "Len": true, "OnesCount64": true, "TrailingZeros": true, "LeadingZeros": true,
}

func (c *Ctx) nonneg(v ssa.Value) bool {
	if c.nnMemo == nil {
		c.nnMemo = map[ssa.Value]bool{}
	}
	if r, ok := c.nnMemo[v]; ok {
		return r
	}
	r := c.nonneg0(v, map[ssa.Value]bool{}, 0)
	if c.nnDepth == 0 {
		c.nnMemo[v] = r
	}
	return r
}

func (c *Ctx) nonneg0(v ssa.Value, seen map[ssa.Value]bool, depth int) bool {
	if depth > 12 {
		return false
	}
	if seen[v] {
		return true // coinductive
	}
	seen[v] = true
	if k, ok := constInt(v); ok {
		return k >= 0
	}
	if b, ok := v.Type().Underlying().(*types.Basic); ok && b.Info()&types.IsUnsigned != 0 {
		return true
	}
	switch x := v.(type) {
	case *ssa.UnOp:
		if x.Op == token.MUL {
			if _, p, ok := pathStr(x.X); ok {
				for suf, lo := range axiomLower {
					if strings.HasSuffix("."+p, suf) && lo >= 0 {
						return true
					}
				}
			}
		}
	case *ssa.Convert:
		if b, ok := x.X.Type().Underlying().(*types.Basic); ok && b.Info()&types.IsUnsigned != 0 {
			// unsigned → signed of at least the same width keeps the value for ≤ 32-bit sources
			return true
		}
		return c.nonneg0(x.X, seen, depth+1)
	case *ssa.ChangeType:
		return c.nonneg0(x.X, seen, depth+1)
	case *ssa.BinOp:
		switch x.Op {
		case token.ADD, token.MUL:
			return c.nonneg0(x.X, seen, depth+1) && c.nonneg0(x.Y, seen, depth+1)
		case token.SHR, token.SHL, token.QUO, token.REM:
			return c.nonneg0(x.X, seen, depth+1)
		case token.AND:
			return c.nonneg0(x.X, seen, depth+1) || c.nonneg0(x.Y, seen, depth+1)
		}
	case *ssa.Phi:
		for i, e := range x.Edges {
			if !c.nonneg0(e, seen, depth+1) {
				// fall back to the dominating facts of the incoming edge
				if c.nnDepth > 2 || x.Parent() == nil {
					return false
				}
				c.nnDepth++
				fi := c.info(x.Parent())
				ok := fi.proveLE0(fi.lin(e).scale(-1), fi.edgeConds(x.Block().Preds[i], x.Block()), nil, map[string]bool{}, 2)
				c.nnDepth--
				if !ok {
					return false
				}
			}
		}
		return true
	case *ssa.Call:
		if bi, ok := x.Call.Value.(*ssa.Builtin); ok {
			switch bi.Name() {
			case "len", "cap", "copy":
				return true
			case "min":
				for _, a := range x.Call.Args {
					if !c.nonneg0(a, seen, depth+1) {
						return false
					}
				}
				return true
			case "max":
				for _, a := range x.Call.Args {
					if c.nonneg0(a, seen, depth+1) {
						return true
					}
				}
			}
			return false
		}
		callee := x.Call.StaticCallee()
		if callee == nil {
			return false
		}
		if callee.Pkg != nil && callee.Pkg.Pkg.Path() == "math/bits" && bitsNonNeg[callee.Name()] {
			return true
		}
		if callee.Blocks == nil || callee.Signature.Results().Len() != 1 {
			return false
		}
		if c.isDoz(callee) {
			return true
		}
		if c.isMin(callee) {
			return c.nonneg0(x.Call.Args[0], seen, depth+1) && c.nonneg0(x.Call.Args[1], seen, depth+1)
		}
		// all returns nonneg
		for _, b := range callee.Blocks {
			if r, ok := b.Instrs[len(b.Instrs)-1].(*ssa.Return); ok {
				if !c.nonneg0(r.Results[0], seen, depth+1) {
					return false
				}
			}
		}
		return true
	case *ssa.Extract:
		if call, ok := x.Tuple.(*ssa.Call); ok {
			if bi, ok := call.Call.Value.(*ssa.Builtin); ok && bi.Name() == "copy" {
				return true
			}
		}
	}
	return false
}

// ---------------------------------------------------------------- helper recognisers (ints.go)

// isIverson: func(bool) int returning 1 on true and 0 on false.
func (c *Ctx) isIverson(fn *ssa.Function) bool {
	if fn == nil || len(fn.Params) != 1 || len(fn.Blocks) != 3 {
		return false
	}
	iff, ok := fn.Blocks[0].Instrs[len(fn.Blocks[0].Instrs)-1].(*ssa.If)
	if !ok || iff.Cond != fn.Params[0] {
		return false
	}
	retv := func(b *ssa.BasicBlock) (int64, bool) {
		r, ok := b.Instrs[len(b.Instrs)-1].(*ssa.Return)
		if !ok || len(r.Results) != 1 {
			return 0, false
		}
		return constInt(r.Results[0])
	}
	t, ok1 := retv(fn.Blocks[0].Succs[0])
	f, ok2 := retv(fn.Blocks[0].Succs[1])
	return ok1 && ok2 && t == 1 && f == 0
}

func singleReturn(fn *ssa.Function) ssa.Value {
	if fn == nil || len(fn.Blocks) != 1 {
		return nil
	}
	r, ok := fn.Blocks[0].Instrs[len(fn.Blocks[0].Instrs)-1].(*ssa.Return)
	if !ok || len(r.Results) != 1 {
		return nil
	}
	return r.Results[0]
}

// isDoz: (x - y) & (-iverson(x >= y))  — positive difference or zero.
func (c *Ctx) isDoz(fn *ssa.Function) bool {
	rv := singleReturn(fn)
	if rv == nil || len(fn.Params) != 2 {
		return false
	}
	and, ok := rv.(*ssa.BinOp)
	if !ok || and.Op != token.AND {
		return false
	}
	try := func(a, b ssa.Value) bool {
		sub, ok := a.(*ssa.BinOp)
		if !ok || sub.Op != token.SUB || sub.X != fn.Params[0] || sub.Y != fn.Params[1] {
			return false
		}
		neg, ok := b.(*ssa.UnOp)
		if !ok || neg.Op != token.SUB {
			return false
		}
		call, ok := neg.X.(*ssa.Call)
		if !ok || !c.isIverson(call.Call.StaticCallee()) {
			return false
		}
		cmp, ok := call.Call.Args[0].(*ssa.BinOp)
		if !ok {
			return false
		}
		return (cmp.Op == token.GEQ || cmp.Op == token.GTR) && cmp.X == fn.Params[0] && cmp.Y == fn.Params[1] ||
			(cmp.Op == token.LEQ || cmp.Op == token.LSS) && cmp.X == fn.Params[1] && cmp.Y == fn.Params[0]
	}
	return try(and.X, and.Y) || try(and.Y, and.X)
}

// isMin: x - doz(x, y).
func (c *Ctx) isMin(fn *ssa.Function) bool {
	rv := singleReturn(fn)
	if rv == nil || len(fn.Params) != 2 {
		return false
	}
	sub, ok := rv.(*ssa.BinOp)
	if !ok || sub.Op != token.SUB || sub.X != fn.Params[0] {
		return false
	}
	call, ok := sub.Y.(*ssa.Call)
	if !ok || !c.isDoz(call.Call.StaticCallee()) {
		return false
	}
	return call.Call.Args[0] == fn.Params[0] && call.Call.Args[1] == fn.Params[1]
}

// ---------------------------------------------------------------- entailment

// Prover proves L ≤ 0 at a program point.
type Prover struct {
	fi    *FuncInfo
	extra []Fact // additional hypotheses
	steps int
}

// valueFacts: facts that hold for an SSA value wherever it is defined:
// non-negativity and helper calls (min/doz/builtin min,max).
func (fi *FuncInfo) valueFacts(vals []ssa.Value) []Fact {
	var out []Fact
	for _, v := range vals {
		l := fi.lin(v)
		if fi.ctx.nonneg(v) && !l.isConst() {
			out = append(out, Fact{l.scale(-1), LE})
		}
		if bo, ok := v.(*ssa.BinOp); ok && bo.Op == token.SHR {
			if k, isC := constInt(bo.Y); isC && k >= 0 && k < 8 {
				if call, ok := bo.X.(*ssa.Call); ok {
					if callee := call.Call.StaticCallee(); callee != nil && callee.Pkg != nil && callee.Pkg.Pkg.Path() == "math/bits" {
						max := int64(-1)
						switch callee.Name() {
						case "TrailingZeros64", "LeadingZeros64", "Len64":
							max = 64
						case "TrailingZeros32", "LeadingZeros32", "Len32":
							max = 32
						}
						if max > 0 {
							out = append(out, Fact{l.addc(-(max >> uint(k))), LE})
						}
					}
				}
			}
		}
		if call, ok := v.(*ssa.Call); ok {
			args := call.Call.Args
			if bi, ok := call.Call.Value.(*ssa.Builtin); ok {
				switch bi.Name() {
				case "min":
					for _, a := range args {
						out = append(out, Fact{l.sub(fi.lin(a)), LE})
					}
				case "max":
					for _, a := range args {
						out = append(out, Fact{fi.lin(a).sub(l), LE})
					}
				}
			} else if callee := call.Call.StaticCallee(); callee != nil {
				switch {
				case fi.ctx.isByteCompare(callee) || (fi.ctx.suffix != nil && callee.Pkg == fi.ctx.suffix && callee.Signature.Params().Len() == 2 && callee.Signature.Results().Len() == 1 &&
					isByteSlice(callee.Signature.Params().At(0).Type()) && isByteSlice(callee.Signature.Params().At(1).Type()) && isIntType(callee.Signature.Results().At(0).Type())):
					// common prefix / suffix helpers return at most min(len(p), len(q)) (trusted summary;
					// attached to the value so that it is only used where the value is mentioned)
					out = append(out, Fact{l.sub(fi.lenOf(args[0])), LE}, Fact{l.sub(fi.lenOf(args[1])), LE}, Fact{l.scale(-1), LE})
				case fi.ctx.isMin(callee):
					out = append(out, Fact{l.sub(fi.lin(args[0])), LE}, Fact{l.sub(fi.lin(args[1])), LE})
				case fi.ctx.isDoz(callee):
					// r ≥ x-y, r ≥ 0
					out = append(out, Fact{fi.lin(args[0]).sub(fi.lin(args[1])).sub(l), LE}, Fact{l.scale(-1), LE})
				}
			}
		}
	}
	return out
}

// atomValues maps atom names used by lin back to SSA values of this function.
func (fi *FuncInfo) atomValues() map[string]ssa.Value {
	if fi.av != nil {
		return fi.av
	}
	m := map[string]ssa.Value{}
	fi.av = m
	for _, p := range fi.fn.Params {
		m[p.Name()] = p
	}
	for _, b := range fi.fn.Blocks {
		for _, in := range b.Instrs {
			if v, ok := in.(ssa.Value); ok {
				m[v.Name()] = v
			}
		}
	}
	return m
}

// entails: do facts imply L ≤ 0?  Depth-limited search for a non-negative
// combination of LE facts (each used with coefficient 1, repeated use allowed).
var entailBudget = 1 << 30

// entails: do the facts imply goal ≤ 0 ?  Decided by Fourier–Motzkin
// elimination on the rows connected to the goal: the system
// {facts, goal ≥ 1} has no rational solution. (Sound for integers; the depth
// argument is kept for the callers and only scales the row cap.)
var statProve, statEntail, statFM int
var traceProve = os.Getenv("LZTRACE") != ""

func entails(facts []Fact, goal Lin, depth int) bool {
	if goal.isConst() && goal.c <= 0 {
		return true
	}
	statEntail++
	var all []Lin
	for _, f := range facts {
		switch f.Op {
		case LE:
			all = append(all, f.L)
		case EQ:
			all = append(all, f.L, f.L.scale(-1))
		}
	}
	// relevance: rows connected to the goal through shared atoms (all rows for a contradiction query)
	var rows []Lin
	if goal.isConst() {
		rows = all
	} else {
		atoms := map[string]bool{}
		for a := range goal.t {
			atoms[a] = true
		}
		used := make([]bool, len(all))
		for changed := true; changed; {
			changed = false
			for i, r := range all {
				if used[i] {
					continue
				}
				hit := false
				for a := range r.t {
					if atoms[a] {
						hit = true
						break
					}
				}
				if r.isConst() && r.c > 0 {
					hit = true
				}
				if hit {
					used[i] = true
					changed = true
					rows = append(rows, r)
					for a := range r.t {
						atoms[a] = true
					}
				}
			}
		}
	}
	rows = append(rows, goal.scale(-1).addc(1))
	return fmInfeasible(rows, 60+20*depth)
}

func gcd64(a, b int64) int64 {
	if a < 0 {
		a = -a
	}
	if b < 0 {
		b = -b
	}
	for b != 0 {
		a, b = b, a%b
	}
	return a
}

func normRow(r Lin) Lin {
	var g int64
	for _, v := range r.t {
		g = gcd64(g, v)
	}
	if g > 1 {
		out := Lin{t: map[string]int64{}}
		for a, v := range r.t {
			out.t[a] = v / g
		}
		// floor division keeps the integer meaning: Σ ≤ −c  ⇒  Σ/g ≤ floor(−c/g)
		c := r.c
		if c >= 0 {
			out.c = (c + g - 1) / g
		} else {
			out.c = -((-c) / g)
		}
		return out
	}
	return r
}

// fmInfeasible: the rows (each meaning row ≤ 0) have no solution.
func fmInfeasible(rows []Lin, cap int) bool {
	seen := map[string]bool{}
	var cur []Lin
	add := func(dst []Lin, r Lin) ([]Lin, bool) {
		r = normRow(r)
		if r.isConst() {
			return dst, r.c > 0
		}
		k := r.key()
		if seen[k] {
			return dst, false
		}
		seen[k] = true
		return append(dst, r), false
	}
	for _, r := range rows {
		var bad bool
		cur, bad = add(cur, r)
		if bad {
			return true
		}
	}
	for {
		statFM++
		entailBudget--
		if entailBudget < 0 {
			return false
		}
		// choose the variable with the smallest pos·neg product
		pos, neg := map[string]int{}, map[string]int{}
		for _, r := range cur {
			for a, v := range r.t {
				if v > 0 {
					pos[a]++
				} else {
					neg[a]++
				}
			}
		}
		best, bestCost := "", 1<<30
		for a := range pos {
			c := pos[a] * neg[a]
			if c < bestCost || (c == bestCost && a < best) {
				best, bestCost = a, c
			}
		}
		for a := range neg {
			if _, ok := pos[a]; !ok {
				if 0 < bestCost || best == "" {
					best, bestCost = a, 0
				}
			}
		}
		if best == "" {
			return false
		}
		var P, N, next []Lin
		for _, r := range cur {
			v := r.t[best]
			switch {
			case v > 0:
				P = append(P, r)
			case v < 0:
				N = append(N, r)
			default:
				next = append(next, r)
			}
		}
		seen = map[string]bool{}
		for _, r := range next {
			seen[r.key()] = true
		}
		for _, p := range P {
			for _, n := range N {
				a, b := p.t[best], -n.t[best]
				comb := p.scale(b).add(n.scale(a))
				delete(comb.t, best)
				var bad bool
				next, bad = add(next, comb)
				if bad {
					return true
				}
				if len(next) > cap {
					return false
				}
			}
		}
		cur = next
		if len(cur) == 0 {
			return false
		}
	}
}

// proveLE proves L ≤ 0 at block b (facts of dominating edges, value facts,
// per-edge case split over phi nodes occurring in L).
func (fi *FuncInfo) proveLE(goal Lin, b *ssa.BasicBlock, extra []Fact) bool {
	return fi.proveLE0(goal, fi.condsAt(b), extra, map[string]bool{}, 0)
}

func (fi *FuncInfo) proveLE0(goal Lin, conds []Cond, extra []Fact, hyp map[string]bool, depth int) bool {
	if goal.isConst() && goal.c <= 0 {
		return true
	}
	// conditions on materialised booleans (φ of `a && b` / `a || b` in value position, e.g. a switch
	// case): replaced by the branch conditions they stand for; a disjunction is proved per alternative
	if alts := fi.expandConds(conds); alts != nil {
		for _, alt := range alts {
			if !fi.proveLE0(goal, alt, extra, hyp, depth) {
				return false
			}
		}
		return true
	}
	// every outermost query gets a fixed budget of prover steps
	if fi.nested == 0 {
		fi.budget = proverBudget
		entailBudget = 400000
	}
	fi.nested++
	defer func() { fi.nested-- }()
	statProve++
	// memo: identical sub-queries recur massively in the search
	var mk strings.Builder
	mk.WriteString(goal.key())
	mk.WriteByte('|')
	for _, cd := range conds {
		fmt.Fprintf(&mk, "%p%v,", cd.V, cd.True)
	}
	mk.WriteByte('|')
	for _, f := range extra {
		mk.WriteString(f.L.key())
		mk.WriteByte(byte('0' + f.Op))
		mk.WriteByte(',')
	}
	mk.WriteByte('|')
	{
		hs := make([]string, 0, len(hyp))
		for h := range hyp {
			hs = append(hs, h)
		}
		sort.Strings(hs)
		for _, h := range hs {
			mk.WriteString(h)
			mk.WriteByte(',')
		}
	}
	memoKey := mk.String()
	if fi.proveMemo == nil {
		fi.proveMemo = map[string]int{}
	}
	if v, ok := fi.proveMemo[memoKey]; ok {
		if v == -1 {
			return true
		}
		if v <= depth+1 { // failed before with at least as much remaining depth
			return false
		}
	}
	res := fi.proveLE1(goal, conds, extra, hyp, depth)
	if res {
		fi.proveMemo[memoKey] = -1
	} else if fi.budget >= 0 {
		if old, ok := fi.proveMemo[memoKey]; !ok || depth+1 < old {
			fi.proveMemo[memoKey] = depth + 1
		}
	}
	return res
}

func (fi *FuncInfo) proveLE1(goal Lin, conds []Cond, extra []Fact, hyp map[string]bool, depth int) bool {
	fi.budget--
	if fi.budget < 0 {
		return false
	}
	facts := append(fi.factsOf(conds), extra...)
	av := fi.atomValues()
	var vals []ssa.Value
	seenAtom := map[string]bool{}
	collect := func(l Lin) {
		for a := range l.t {
			if seenAtom[a] {
				continue
			}
			seenAtom[a] = true
			if v, ok := av[a]; ok {
				vals = append(vals, v)
			} else if v, ok := fi.loadAtoms[a]; ok {
				vals = append(vals, v)
			}
		}
	}
	collect(goal)
	for _, f := range facts {
		collect(f.L)
	}
	facts = append(facts, fi.valueFacts(vals)...)
	for a := range seenAtom {
		facts = append(facts, fi.axioms(a)...)
	}
	// L ≠ 0 together with L ≥ 0 (resp. ≤ 0) gives L ≥ 1 (resp. ≤ −1)
	for _, f := range facts {
		if f.Op != NE {
			continue
		}
		if entails(facts, f.L.scale(-1), 2) {
			facts = append(facts, Fact{f.L.scale(-1).addc(1), LE})
		} else if entails(facts, f.L, 2) {
			facts = append(facts, Fact{f.L.addc(1), LE})
		} else if depth == 0 && sharesAtom(f.L, goal) {
			// the sign may need a case split over a phi (range index ≥ 0)
			var others []Cond
			if fi.proveLE0(f.L.scale(-1), conds, extra, hyp, 3) {
				facts = append(facts, Fact{f.L.scale(-1).addc(1), LE})
			} else if fi.proveLE0(f.L, conds, extra, hyp, 3) {
				facts = append(facts, Fact{f.L.addc(1), LE})
			}
			_ = others
		}
	}
	if entails(facts, goal, 4) {
		if traceProve {
			fmt.Fprintf(os.Stderr, "%*sTRACE entails %s ≤ 0 from %s\n", depth*2, "", goal, factStrings(facts))
		}
		return true
	}
	// ex falso: contradictory conditions make the point unreachable
	if len(extra) > 0 && depth <= 2 && entails(facts, linConst(1), 3) {
		if traceProve {
			fmt.Fprintf(os.Stderr, "%*sTRACE exfalso for %s from %s\n", depth*2, "", goal, factStrings(facts))
		}
		return true
	}
	if depth >= 6 {
		return false
	}
	// one resolution step with a fact whose residual goal mentions a phi:
	// the residual may then be closed by a case split (e.g. k ≥ M, M = φ(3, inputLen) ≥ 1)
	nres := 0
	for k := range hyp {
		if strings.HasPrefix(k, "#res") {
			nres++
		}
	}
	if nres < 2 {
		resFacts := append(fi.factsOf(conds), extra...)
		for _, f := range resFacts {
			if f.Op != LE {
				continue
			}
			cancels := false
			for a, v := range f.L.t {
				if gv, ok := goal.t[a]; ok && (gv > 0) == (v > 0) {
					cancels = true
				}
			}
			if !cancels {
				continue
			}
			rest := goal.sub(f.L)
			hasPhi := false
			for a := range rest.t {
				name := a
				if strings.HasPrefix(name, "len(") && strings.HasSuffix(name, ")") {
					name = name[4 : len(name)-1]
				}
				if _, ok := av[name].(*ssa.Phi); ok {
					if _, inGoal := goal.t[a]; !inGoal {
						hasPhi = true
					}
				}
			}
			if hasPhi {
				h2 := map[string]bool{}
				for k := range hyp {
					h2[k] = true
				}
				h2[fmt.Sprintf("#res%d", nres)] = true
				if fi.proveLE0(rest, conds, extra, h2, depth+1) {
					return true
				}
			}
		}
	}
	// case split on a phi atom of the goal
	var atoms []string
	for a := range goal.t {
		atoms = append(atoms, a)
	}
	sort.Strings(atoms)
	for _, a := range atoms {
		phi, ok := av[a].(*ssa.Phi)
		if !ok && strings.HasPrefix(a, "len(") && strings.HasSuffix(a, ")") {
			phi, ok = av[a[4:len(a)-1]].(*ssa.Phi)
		}
		if !ok {
			continue
		}
		key := goal.String() + "|" + a
		if hyp[key] {
			continue
		}
		hyp2 := map[string]bool{}
		for k := range hyp {
			hyp2[k] = true
		}
		hyp2[key] = true
		all := true
		for i := range phi.Edges {
			pred := phi.Block().Preds[i]
			// substitute every phi of this block that occurs in the goal (they
			// are assigned together on the edge)
			sub := goal.clone()
			for _, a2 := range atoms {
				p2, ok2 := av[a2].(*ssa.Phi)
				isLen2 := false
				if !ok2 && strings.HasPrefix(a2, "len(") && strings.HasSuffix(a2, ")") {
					p2, ok2 = av[a2[4:len(a2)-1]].(*ssa.Phi)
					isLen2 = true
				}
				if !ok2 || p2.Block() != phi.Block() {
					continue
				}
				co := goal.t[a2]
				delete(sub.t, a2)
				if isLen2 {
					sub = sub.addk(fi.lenOf(p2.Edges[i]), co)
				} else {
					sub = sub.addk(fi.lin(p2.Edges[i]), co)
				}
			}
			ex := extra
			var cs []Cond
			if phi.Block().Dominates(pred) {
				// back edge: coinduction. The incoming values are expressed over
				// the PREVIOUS instance of the header's phis, so only the edge
				// conditions (evaluated in that iteration) and the induction
				// hypothesis may be used, not the conditions of the site. To keep
				// them apart from facts about the FINAL values (site conditions,
				// conditions met later on the way to other loops), every value
				// defined inside this loop is renamed (primed) in the hypothesis,
				// the edge conditions and the goal of this step.
				var lp *Loop
				for _, l := range fi.loops {
					if l.Header == phi.Block() {
						lp = l
					}
				}
				prime := func(l Lin) Lin { return l }
				if lp != nil {
					prime = func(l Lin) Lin { return fi.primeLoopAtoms(l, lp) }
				}
				ex = append([]Fact{}, extra...)
				var vals []ssa.Value
				addVals := func(l Lin) {
					for a := range l.t {
						if v := fi.atomValue(a); v != nil {
							vals = append(vals, v)
						}
					}
				}
				for _, f := range fi.factsOf(fi.edgeConds(pred, phi.Block())) {
					ex = append(ex, Fact{prime(f.L), f.Op})
					addVals(f.L)
				}
				ex = append(ex, Fact{prime(goal), LE})
				addVals(goal)
				addVals(sub)
				for _, vf := range fi.valueFacts(vals) {
					ex = append(ex, Fact{prime(vf.L), vf.Op})
				}
				sub = prime(sub)
				cs = nil
			} else {
				cs = append(append([]Cond{}, conds...), fi.edgeConds(pred, phi.Block())...)
				// on a forward edge the phi's current value IS the incoming value
				ex = append([]Fact{}, extra...)
				for _, a2 := range atoms {
					p2, ok2 := av[a2].(*ssa.Phi)
					if ok2 && p2.Block() == phi.Block() {
						ex = append(ex, Fact{linAtom(a2).sub(fi.lin(p2.Edges[i])), EQ})
					}
				}
			}
			if !fi.proveLE0(sub, cs, ex, hyp2, depth+1) {
				all = false
				break
			}
		}
		if all {
			return true
		}
	}
	return false
}

// proveAt is proveLE with one level of path sensitivity: if the goal cannot
// be proved from the dominating conditions of b, the nearest dominating
// merge blocks are split into their incoming edges (an edge whose
// conditions are contradictory is vacuous).
func (fi *FuncInfo) proveAt(goal Lin, b *ssa.BasicBlock, extra []Fact) bool {
	return fi.proveAny([]Lin{goal}, b, extra)
}

// proveAny proves the disjunction of goals (each "≤ 0") at b: directly, or
// per incoming edge of a dominating merge block.
func (fi *FuncInfo) proveAny(goals []Lin, b *ssa.BasicBlock, extra []Fact) bool {
	for _, g := range goals {
		if fi.proveLE(g, b, extra) {
			return true
		}
	}
	// a dominating disjunction (¬(a && b) in value position): some goal per alternative
	if alts := fi.expandConds(fi.condsAt(b)); len(alts) > 1 {
		all := true
		for _, alt := range alts {
			one := false
			for _, g := range goals {
				if fi.proveLE0(g, alt, extra, map[string]bool{}, 1) {
					one = true
					break
				}
			}
			if !one && !fi.proveLE0(linConst(1), alt, extra, map[string]bool{}, 2) {
				all = false
				break
			}
		}
		if all {
			return true
		}
	}
	levels := 0
	for m := b; m != nil && levels < 3; m = m.Idom() {
		if len(m.Preds) < 2 {
			continue
		}
		// skip loop headers: their back edges are not alternatives of one visit
		isHeader := false
		for _, p := range m.Preds {
			if m.Dominates(p) {
				isHeader = true
			}
		}
		if isHeader {
			continue
		}
		levels++
		all := true
		for _, p := range m.Preds {
			cs := append(append([]Cond{}, fi.condsAt(b)...), fi.edgeConds(p, m)...)
			one := false
			for _, goal := range goals {
				if fi.proveLE0(goal, cs, extra, map[string]bool{}, 1) {
					one = true
					break
				}
			}
			if one {
				continue
			}
			// vacuous edge?
			if fi.proveLE0(linConst(1), cs, extra, map[string]bool{}, 2) {
				continue
			}
			all = false
			break
		}
		if all {
			return true
		}
	}
	return false
}

// leq proves x ≤ y + k at block b.
func (fi *FuncInfo) leq(x, y Lin, k int64, b *ssa.BasicBlock) bool {
	return fi.proveLE(x.sub(y).addc(-k), b, nil)
}

// axiomFacts: range facts about configuration values that other rules
// (R-VERIFY-REQ, C16) establish from the Verify functions; used here as
// hypotheses and recorded as cross-rule assumptions.
var axiomLower = map[string]int64{
	".inputLen":    2,
	".InputLen":    2,
	".MinMatchLen": 2,
	".BlockSize":   1,
	".BufferSize":  1,
	".WindowSize":  0,
	".ShrinkSize":  0,
	".bucketSize":  1,
	".BucketSize":  1,
}

func axiomFacts(atom string) []Fact {
	base := atom
	if i := strings.Index(base, "@"); i >= 0 {
		base = base[:i]
	}
	if strings.HasPrefix(base, "len(") || strings.HasPrefix(base, "cap(") {
		return []Fact{{linAtom(atom).scale(-1), LE}}
	}
	for suf, lo := range axiomLower {
		if strings.HasSuffix(base, suf) {
			return []Fact{{linAtom(atom).scale(-1).addc(lo), LE}}
		}
	}
	return nil
}

// cyclesBack: v is derived (by re-slicing) from a phi that is currently being resolved.
func cyclesBack(v ssa.Value, inPhi map[*ssa.Phi]bool) bool {
	for i := 0; i < 16; i++ {
		switch x := v.(type) {
		case *ssa.Slice:
			v = x.X
		case *ssa.ChangeType:
			v = x.X
		case *ssa.Phi:
			return inPhi[x]
		default:
			return false
		}
	}
	return false
}

var aliasMemo = map[*ssa.Function][3]any{}

// returnAlias: the function has a single result which on every return is a
// (sub-slice of a) location reachable from one parameter: result aliases
// param idx at path.
func returnAlias(fn *ssa.Function) (idx int, path string, ok bool) {
	if fn == nil || fn.Blocks == nil || fn.Signature.Results().Len() != 1 {
		return 0, "", false
	}
	if fn.Pkg == nil || !strings.HasPrefix(fn.Pkg.Pkg.Path(), lzPath) {
		return 0, "", false
	}
	if m, ok := aliasMemo[fn]; ok {
		return m[0].(int), m[1].(string), m[2].(bool)
	}
	aliasMemo[fn] = [3]any{0, "", false}
	idx = -1
	for _, b := range fn.Blocks {
		r, isR := b.Instrs[len(b.Instrs)-1].(*ssa.Return)
		if !isR {
			continue
		}
		switch r.Results[0].Type().Underlying().(type) {
		case *types.Slice, *types.Pointer:
		default:
			return 0, "", false
		}
		root, p, ok := pathStr(r.Results[0])
		if !ok {
			return 0, "", false
		}
		par, isP := root.(*ssa.Parameter)
		if !isP {
			return 0, "", false
		}
		pi := -1
		for i, q := range fn.Params {
			if q == par {
				pi = i
			}
		}
		if idx >= 0 && (pi != idx || p != path) {
			return 0, "", false
		}
		idx, path = pi, p
	}
	if idx < 0 {
		return 0, "", false
	}
	aliasMemo[fn] = [3]any{idx, path, true}
	return idx, path, true
}

func sharesAtom(a, b Lin) bool {
	for k := range a.t {
		if _, ok := b.t[k]; ok {
			return true
		}
	}
	return false
}

// mergedStoreLen: every writer that reaches the load is a direct store to the
// same path, all stored values have the same length form (over values that
// are not themselves loads of the field), and no path from the entry reaches
// the load without passing one of the stores: the loaded slice has that length.
func (fi *FuncInfo) mergedStoreLen(ld *ssa.UnOp) (Lin, bool) {
	f := fieldOfAddr(ld.X)
	if f == nil {
		return Lin{}, false
	}
	fi.computeWriters()
	r0, p0, ok := pathStr(ld.X)
	if !ok {
		return Lin{}, false
	}
	var stores []*ssa.Store
	for _, w := range fi.writers[f] {
		if !fi.instrReaches(w, ld) {
			continue
		}
		st, ok := w.(*ssa.Store)
		if !ok || fi.instrReaches(ld, st) {
			return Lin{}, false
		}
		r, p, ok := pathStr(st.Addr)
		if !ok || r != r0 || p != p0 {
			return Lin{}, false
		}
		stores = append(stores, st)
	}
	if len(stores) < 2 {
		return Lin{}, false
	}
	var l Lin
	for i, st := range stores {
		var li Lin
		switch v := st.Val.(type) {
		case *ssa.MakeSlice:
			li = fi.lin(v.Len)
		case *ssa.Slice:
			if v.High == nil {
				return Lin{}, false
			}
			li = fi.lin(v.High)
			if v.Low != nil {
				li = li.sub(fi.lin(v.Low))
			}
		default:
			return Lin{}, false
		}
		if i == 0 {
			l = li
		} else if !l.eq(li) {
			return Lin{}, false
		}
	}
	// coverage: entry cannot reach the load avoiding all store blocks
	avoid := map[*ssa.BasicBlock]bool{}
	for _, st := range stores {
		if st.Block() == ld.Block() {
			return Lin{}, false
		}
		avoid[st.Block()] = true
	}
	seen := map[*ssa.BasicBlock]bool{}
	stack := []*ssa.BasicBlock{fi.fn.Blocks[0]}
	for len(stack) > 0 {
		b := stack[len(stack)-1]
		stack = stack[:len(stack)-1]
		if seen[b] || avoid[b] {
			continue
		}
		seen[b] = true
		if b == ld.Block() {
			return Lin{}, false
		}
		stack = append(stack, b.Succs...)
	}
	return l, true
}

// proveFlat is the cheap front end of proveLE0: Fourier–Motzkin entailment
// from the path conditions, the extra facts, value facts of the atoms
// involved and NE tightening — no case split over phis. Sound; used where
// the needed facts are already path-specific (expanded cases, lemmas).
func (fi *FuncInfo) proveFlat(goal Lin, conds []Cond, extra []Fact) bool {
	if goal.isConst() && goal.c <= 0 {
		return true
	}
	facts := append(fi.factsOf(conds), extra...)
	// keep only facts connected to the goal (transitively through shared atoms)
	rel := map[string]bool{}
	for a := range goal.t {
		rel[a] = true
	}
	for changed := true; changed; {
		changed = false
		for _, f := range facts {
			hit := false
			for a := range f.L.t {
				if rel[a] {
					hit = true
				}
			}
			if hit {
				for a := range f.L.t {
					if !rel[a] {
						rel[a] = true
						changed = true
					}
				}
			}
		}
	}
	var kept []Fact
	for _, f := range facts {
		for a := range f.L.t {
			if rel[a] {
				kept = append(kept, f)
				break
			}
		}
	}
	facts = kept
	av := fi.atomValues()
	var vals []ssa.Value
	for a := range rel {
		if v, ok := av[a]; ok {
			vals = append(vals, v)
		} else if v, ok := fi.loadAtoms[a]; ok {
			vals = append(vals, v)
		}
	}
	facts = append(facts, fi.valueFacts(vals)...)
	for a := range rel {
		facts = append(facts, fi.axioms(a)...)
	}
	saved := entailBudget
	entailBudget = 200000
	defer func() { entailBudget = saved }()
	// NE tightening to a fixpoint: len ≠ 0, len ≠ 1, … with len ≥ 0 gives len ≥ 8
	used := map[int]bool{}
	for round := 0; round < 12; round++ {
		changed := false
		for i, f := range facts {
			if f.Op != NE || used[i] {
				continue
			}
			if entails(facts, f.L.scale(-1), 2) {
				facts = append(facts, Fact{f.L.scale(-1).addc(1), LE})
				used[i] = true
				changed = true
			} else if entails(facts, f.L, 2) {
				facts = append(facts, Fact{f.L.addc(1), LE})
				used[i] = true
				changed = true
			}
		}
		if !changed {
			break
		}
	}
	return entails(facts, goal, 4)
}

// proveCheap: proveFlat, then the full prover.
func (fi *FuncInfo) proveCheap(goal Lin, conds []Cond, extra []Fact) bool {
	if fi.proveFlat(goal, conds, extra) {
		return true
	}
	if os.Getenv("LZDBG") != "" {
		fmt.Fprintf(os.Stderr, "FLAT-FAIL %s: %s ≤ 0 ; facts %s ; extra %s\n", fnName(fi.fn), goal, factStrings(fi.factsOf(conds)), factStrings(extra))
	}
	return fi.proveLE0(goal, conds, extra, map[string]bool{}, 0)
}

// atomValue maps an atom (possibly wrapped in len()/cap()) to the SSA value it names.
func (fi *FuncInfo) atomValue(a string) ssa.Value {
	name := a
	for _, w := range []string{"len(", "cap("} {
		if strings.HasPrefix(name, w) && strings.HasSuffix(name, ")") {
			name = name[len(w) : len(name)-1]
		}
	}
	if v, ok := fi.atomValues()[name]; ok {
		return v
	}
	if v, ok := fi.loadAtoms[name]; ok {
		return v
	}
	if v, ok := fi.loadAtoms[a]; ok {
		return v
	}
	return nil
}

// primeLoopAtoms renames every atom whose value is defined inside loop lp:
// in a coinductive step these denote values of the previous iteration and
// must not be confused with the final values that site conditions mention.
func (fi *FuncInfo) primeLoopAtoms(l Lin, lp *Loop) Lin {
	out := Lin{c: l.c, t: map[string]int64{}}
	for a, co := range l.t {
		na := a
		if v := fi.atomValue(a); v != nil {
			if in, ok := v.(ssa.Instruction); ok && in.Block() != nil && lp.Blocks[in.Block()] && !strings.HasSuffix(a, "′") {
				na = a + "′"
			}
		}
		out.t[na] += co
		if out.t[na] == 0 {
			delete(out.t, na)
		}
	}
	return out
}

// axioms: the Verify-established ranges may be used only in code that runs
// on a verified configuration. Inside the configuration methods themselves
// (SetDefaults, Verify, …: receiver is a config type) and inside the
// initialisers that call them, the fields may still hold unverified values.
// fieldAliases maps an unexported integer struct field to the exported
// configuration field it is a copy of: every store to it stores (a conversion
// of) a load of that configuration field, directly or through parameters at
// all static call sites. Private names (inputLen, bucketSize, …) therefore
// carry no meaning for the analysis.
func (c *Ctx) fieldAliases() map[*types.Var]string {
	if c.aliases != nil {
		return c.aliases
	}
	c.aliases = map[*types.Var]string{}
	cand := map[*types.Var]map[string]bool{}
	var origin func(v ssa.Value, fn *ssa.Function, depth int) string
	origin = func(v ssa.Value, fn *ssa.Function, depth int) string {
		v = stripConv(v)
		switch x := v.(type) {
		case *ssa.UnOp:
			if x.Op == token.MUL {
				if fa, ok := x.X.(*ssa.FieldAddr); ok {
					st := derefStruct(fa.X.Type())
					fld := st.Field(fa.Field)
					if fld.Exported() && isIntType(fld.Type()) {
						return fld.Name()
					}
					if a, ok := c.aliases[fld]; ok {
						return a
					}
				}
			}
		case *ssa.Field:
			if st, ok := x.X.Type().Underlying().(*types.Struct); ok {
				fld := st.Field(x.Field)
				if fld.Exported() && isIntType(fld.Type()) {
					return fld.Name()
				}
			}
		case *ssa.Parameter:
			if depth > 3 {
				return ""
			}
			idx := -1
			for i, p := range fn.Params {
				if p == x {
					idx = i
				}
			}
			res := ""
			n := 0
			for _, g := range c.allFuncs {
				for _, b := range g.Blocks {
					for _, in := range b.Instrs {
						call, ok := in.(ssa.CallInstruction)
						if !ok || call.Common().StaticCallee() != fn || idx >= len(call.Common().Args) {
							continue
						}
						n++
						o := origin(call.Common().Args[idx], g, depth+1)
						if o == "" || (res != "" && o != res) {
							return ""
						}
						res = o
					}
				}
			}
			if n == 0 {
				return ""
			}
			return res
		}
		return ""
	}
	for pass := 0; pass < 2; pass++ {
		for _, fn := range c.allFuncs {
			if fn.Pkg != c.lz {
				continue
			}
			for _, b := range fn.Blocks {
				for _, in := range b.Instrs {
					st, ok := in.(*ssa.Store)
					if !ok {
						continue
					}
					fa, ok := st.Addr.(*ssa.FieldAddr)
					if !ok {
						continue
					}
					fld := derefStruct(fa.X.Type()).Field(fa.Field)
					if fld.Exported() || !isIntType(fld.Type()) {
						continue
					}
					if cand[fld] == nil {
						cand[fld] = map[string]bool{}
					}
					cand[fld][origin(st.Val, fn, 0)] = true
				}
			}
		}
		for fld, set := range cand {
			if len(set) == 1 {
				for o := range set {
					if o != "" {
						c.aliases[fld] = o
					}
				}
			}
		}
		cand = map[*types.Var]map[string]bool{}
	}
	return c.aliases
}

// fieldNameOfAtom: the (alias-resolved) field name an atom's load reads, "" if it is not a field load.
func (fi *FuncInfo) fieldNameOfAtom(atom string) string {
	v := fi.atomValue(atom)
	ld, ok := v.(*ssa.UnOp)
	if !ok || ld.Op != token.MUL {
		return ""
	}
	f := fieldOfAddr(ld.X)
	if f == nil {
		return ""
	}
	if a, ok := fi.ctx.fieldAliases()[f]; ok {
		return a
	}
	return f.Name()
}

func (fi *FuncInfo) axioms(atom string) []Fact {
	if fi.noAxioms == 0 {
		fi.noAxioms = 1
		fn := fi.fn
		name := fn.Name()
		if name == "init" || name == "Init" || name == "NewParser" || name == "NewDecoder" || name == "SetDefaults" || name == "Verify" {
			fi.noAxioms = 2
		}
		// (by role as well: a function that itself completes or verifies a configuration)
		for _, b := range fn.Blocks {
			for _, in := range b.Instrs {
				if call, ok := in.(ssa.CallInstruction); ok {
					if cl := call.Common().StaticCallee(); cl != nil && cl.Signature.Recv() != nil && (cl.Name() == "SetDefaults" || cl.Name() == "Verify") {
						fi.noAxioms = 2
					}
				}
			}
		}
		if recv := fn.Signature.Recv(); recv != nil {
			t := recv.Type()
			if p, ok := t.(*types.Pointer); ok {
				t = p.Elem()
			}
			if n, ok := t.(*types.Named); ok && strings.HasSuffix(strings.ToLower(n.Obj().Name()), "config") {
				fi.noAxioms = 2
			}
		}
	}
	if fi.noAxioms == 2 {
		return nil
	}
	if fs := axiomFacts(atom); fs != nil {
		return fs
	}
	// private copies of configuration fields inherit the range of the field they copy
	if !strings.HasPrefix(atom, "len(") && !strings.HasPrefix(atom, "cap(") {
		if name := fi.fieldNameOfAtom(atom); name != "" {
			if lo, ok := axiomLower["."+name]; ok {
				return []Fact{{linAtom(atom).scale(-1).addc(lo), LE}}
			}
		}
	}
	return nil
}

var proverBudget = func() int {
	if v := os.Getenv("LZBUDGET"); v != "" {
		var n int
		fmt.Sscanf(v, "%d", &n)
		if n > 0 {
			return n
		}
	}
	return 4000
}()

// proveByCases proves goal ≤ 0 at block `at` by splitting every merge phi
// (two or more incoming edges, not a loop header, defined in a block that
// dominates `at`) that occurs in the goal or — transitively — in the facts,
// into its incoming edges: each case adds the edge's conditions and the
// equality phi = incoming value (sibling phis take the same edge) and must be
// entailed (or be contradictory) by the cheap prover. This is the path-wise
// counterpart of proveLE's phi split for phis that only occur in conditions
// (nested min/max clamps).
func (fi *FuncInfo) proveByCases(goal Lin, at *ssa.BasicBlock, extra []Fact) bool {
	return fi.proveByCasesFrom(goal, at, fi.condsAt(at), extra)
}

// proveByCasesFrom: proveByCases with explicit initial conditions (a path to `at`).
func (fi *FuncInfo) proveByCasesFrom(goal Lin, at *ssa.BasicBlock, conds0 []Cond, extra []Fact, via ...*ssa.BasicBlock) bool {
	isHeader := func(b *ssa.BasicBlock) bool {
		for _, lp := range fi.loops {
			if lp.Header == b {
				return true
			}
		}
		return false
	}
	av := fi.atomValues()
	type cs struct {
		conds  []Cond
		eqs    []Fact
		chosen map[*ssa.BasicBlock]bool
	}
	work := []cs{{conds: conds0, chosen: map[*ssa.BasicBlock]bool{}}}
	nCases := 0
	for len(work) > 0 {
		c := work[len(work)-1]
		work = work[:len(work)-1]
		nCases++
		if nCases > 300 {
			return false
		}
		ex := append(append([]Fact{}, extra...), c.eqs...)
		if fi.proveFlat(goal, c.conds, ex) || fi.proveFlat(linConst(1), c.conds, ex) {
			continue
		}
		// pick a merge phi mentioned by the goal or the facts
		atoms := map[string]bool{}
		for a := range goal.t {
			atoms[a] = true
		}
		for _, f := range append(fi.factsOf(c.conds), ex...) {
			for a := range f.L.t {
				atoms[a] = true
			}
		}
		// value facts of the mentioned values (e.g. r ≤ len(arg) of a compare helper) may mention further phis
		{
			var vals []ssa.Value
			for a := range atoms {
				if v := fi.atomValue(a); v != nil {
					vals = append(vals, v)
				}
			}
			for _, vf := range fi.valueFacts(vals) {
				for a := range vf.L.t {
					atoms[a] = true
				}
			}
		}
		var names []string
		for a := range atoms {
			names = append(names, a)
		}
		sort.Strings(names)
		var pick *ssa.Phi
		for _, a := range names {
			ph, ok := av[a].(*ssa.Phi)
			if !ok || isHeader(ph.Block()) || c.chosen[ph.Block()] {
				continue
			}
			onPath := ph.Block() == at || ph.Block().Dominates(at)
			for _, v := range via {
				if ph.Block() == v || ph.Block().Dominates(v) {
					onPath = true
				}
			}
			if !onPath {
				continue
			}
			pick = ph
			break
		}
		if pick == nil || len(c.chosen) >= 8 {
			return false
		}
		for k := range pick.Edges {
			pred := pick.Block().Preds[k]
			n := cs{chosen: map[*ssa.BasicBlock]bool{}}
			for b := range c.chosen {
				n.chosen[b] = true
			}
			n.chosen[pick.Block()] = true
			n.conds = append(append([]Cond{}, c.conds...), fi.edgeConds(pred, pick.Block())...)
			n.eqs = append([]Fact{}, c.eqs...)
			for _, in := range pick.Block().Instrs {
				if sib, isPhi := in.(*ssa.Phi); isPhi && isIntType(sib.Type()) {
					n.eqs = append(n.eqs, Fact{fi.lin(sib).sub(fi.lin(sib.Edges[k])), EQ})
				}
			}
			work = append(work, n)
		}
	}
	return true
}

// spilledParam: cell is an Alloc of pointer type that is stored exactly once,
// with a parameter of the function, and no closure capturing the cell stores
// into it: loads of the cell yield that parameter.
func spilledParam(cell ssa.Value) *ssa.Parameter {
	al, ok := cell.(*ssa.Alloc)
	if !ok {
		return nil
	}
	if _, isPtr := al.Type().(*types.Pointer).Elem().Underlying().(*types.Pointer); !isPtr {
		return nil
	}
	var par *ssa.Parameter
	n := 0
	for _, ref := range *al.Referrers() {
		switch r := ref.(type) {
		case *ssa.Store:
			if r.Addr == ssa.Value(al) {
				n++
				par, _ = r.Val.(*ssa.Parameter)
			}
		case *ssa.MakeClosure:
			cf, _ := r.Fn.(*ssa.Function)
			if cf == nil {
				return nil
			}
			for i, bnd := range r.Bindings {
				if bnd != ssa.Value(al) || i >= len(cf.FreeVars) {
					continue
				}
				fv := cf.FreeVars[i]
				for _, b := range cf.Blocks {
					for _, in := range b.Instrs {
						if st, isSt := in.(*ssa.Store); isSt && st.Addr == ssa.Value(fv) {
							return nil
						}
					}
				}
			}
		case *ssa.UnOp:
		default:
			return nil
		}
	}
	if n != 1 || par == nil {
		return nil
	}
	return par
}
