package main

// Third normalisation of the retry pass (see normalize.go, expand.go): scalar replacement of local record
// variables. A maintainer who groups two or three locals into a small struct (best := match{offset, length}) does
// not change what the function computes, but the values then travel through memory cells (go/ssa keeps a struct
// that is assigned field by field in an Alloc) and the rules, which follow SSA values, lose them. A local
// variable of a struct type all of whose fields have basic types is split into one variable per field when every
// use of it is a field selection, a whole-value assignment from another such local or from a composite literal with
// call-free elements, or its declaration. Anything else — address taken, passed, returned, compared, captured by a
// closure, ranged over — leaves the variable (and every local it is assigned from or to) alone.

import (
	"fmt"
	"go/ast"
	"go/token"
	"go/types"
)

func (in *inliner) scalarizeLocals(f *ast.File) bool {
	any := false
	for _, d := range f.Decls {
		fd, ok := d.(*ast.FuncDecl)
		if !ok || fd.Body == nil {
			continue
		}
		if in.scalarizeFunc(fd) {
			any = true
		}
	}
	return any
}

func basicStruct(t types.Type) *types.Struct {
	st, ok := t.Underlying().(*types.Struct)
	if !ok || st.NumFields() == 0 || st.NumFields() > 8 {
		return nil
	}
	for i := 0; i < st.NumFields(); i++ {
		f := st.Field(i)
		if f.Embedded() || f.Name() == "_" {
			return nil
		}
		// the field type must be writable as an identifier in any file of the package: a predeclared basic type
		bt, ok := f.Type().(*types.Basic)
		if !ok || bt.Info()&types.IsUntyped != 0 || bt.Kind() == types.UnsafePointer || bt.Kind() == types.Invalid {
			return nil
		}
	}
	return st
}

func (in *inliner) scalarizeFunc(fd *ast.FuncDecl) bool {
	info := in.pkg.TypesInfo
	// candidates: local variables (not parameters, not results) of a basic struct type
	cand := map[*types.Var]*types.Struct{}
	ast.Inspect(fd.Body, func(n ast.Node) bool {
		id, ok := n.(*ast.Ident)
		if !ok {
			return true
		}
		v, ok := info.Defs[id].(*types.Var)
		if !ok || v.IsField() {
			return true
		}
		if st := basicStruct(v.Type()); st != nil {
			if _, isPtr := v.Type().(*types.Pointer); !isPtr {
				cand[v] = st
			}
		}
		return true
	})
	if len(cand) == 0 {
		return false
	}
	bad := map[*types.Var]bool{}
	link := map[*types.Var][]*types.Var{}
	okUse := map[*ast.Ident]bool{}
	varOf := func(e ast.Expr) *types.Var {
		id, ok := e.(*ast.Ident)
		if !ok {
			return nil
		}
		if v, ok := info.Uses[id].(*types.Var); ok && cand[v] != nil {
			return v
		}
		if v, ok := info.Defs[id].(*types.Var); ok && cand[v] != nil {
			return v
		}
		return nil
	}
	// a right-hand side a candidate may be set from
	rhsOK := func(lv *types.Var, e ast.Expr) bool {
		if rv := varOf(e); rv != nil {
			if !types.Identical(rv.Type(), lv.Type()) {
				return false
			}
			link[lv] = append(link[lv], rv)
			link[rv] = append(link[rv], lv)
			okUse[e.(*ast.Ident)] = true
			return true
		}
		cl, ok := e.(*ast.CompositeLit)
		if !ok {
			return false
		}
		if tv, has := info.Types[cl]; !has || !types.Identical(tv.Type, lv.Type()) {
			return false
		}
		keyed := 0
		for _, el := range cl.Elts {
			val := el
			if kv, isKV := el.(*ast.KeyValueExpr); isKV {
				keyed++
				val = kv.Value
			}
			if !in.noCalls(val) || !in.noFuncLit(val) {
				return false
			}
			// an element must not mention a candidate (its value would be read half-way through the split)
			mentions := false
			ast.Inspect(val, func(m ast.Node) bool {
				if id, isId := m.(*ast.Ident); isId && varOf(id) != nil {
					mentions = true
				}
				return true
			})
			if mentions {
				return false
			}
		}
		if keyed != 0 && keyed != len(cl.Elts) {
			return false
		}
		if keyed == 0 && len(cl.Elts) != 0 && len(cl.Elts) != cand[lv].NumFields() {
			return false
		}
		return true
	}
	depthLit := 0
	// a whole-value assignment in the init or post position of a statement cannot be followed by the blank uses
	// that keep the split variables "used": such a variable is left alone
	markInit := func(s ast.Stmt) {
		if as, ok := s.(*ast.AssignStmt); ok {
			for _, l := range as.Lhs {
				if v := varOf(l); v != nil {
					bad[v] = true
				}
			}
		}
	}
	var visit func(n ast.Node) bool
	visit = func(n ast.Node) bool {
		switch x := n.(type) {
		case *ast.FuncLit:
			depthLit++
			ast.Inspect(x.Body, visit)
			depthLit--
			return false
		case *ast.SelectorExpr:
			if v := varOf(x.X); v != nil {
				if sel := info.Selections[x]; sel != nil && sel.Kind() == types.FieldVal && len(sel.Index()) == 1 && depthLit == 0 {
					okUse[x.X.(*ast.Ident)] = true
				}
			}
		case *ast.IfStmt:
			markInit(x.Init)
		case *ast.ForStmt:
			markInit(x.Init)
			markInit(x.Post)
		case *ast.SwitchStmt:
			markInit(x.Init)
		case *ast.TypeSwitchStmt:
			markInit(x.Init)
		case *ast.AssignStmt:
			if len(x.Lhs) == len(x.Rhs) && (x.Tok == token.ASSIGN || x.Tok == token.DEFINE) && depthLit == 0 {
				for i, l := range x.Lhs {
					if lv := varOf(l); lv != nil {
						if len(x.Lhs) == 1 && rhsOK(lv, x.Rhs[i]) {
							okUse[l.(*ast.Ident)] = true
						}
					}
				}
			}
		case *ast.DeclStmt:
			gd, ok := x.Decl.(*ast.GenDecl)
			if !ok || gd.Tok != token.VAR || depthLit != 0 {
				return true
			}
			for _, sp := range gd.Specs {
				vs, ok := sp.(*ast.ValueSpec)
				if !ok {
					continue
				}
				for i, nm := range vs.Names {
					lv := varOf(nm)
					if lv == nil {
						continue
					}
					switch {
					case len(vs.Values) == 0 && len(gd.Specs) == 1 && len(vs.Names) == 1:
						okUse[nm] = true
					case len(vs.Values) == len(vs.Names) && len(gd.Specs) == 1 && len(vs.Names) == 1 && rhsOK(lv, vs.Values[i]):
						okUse[nm] = true
					}
				}
			}
		}
		return true
	}
	ast.Inspect(fd.Body, visit)
	// every mention must be an accepted use
	ast.Inspect(fd.Body, func(n ast.Node) bool {
		id, ok := n.(*ast.Ident)
		if !ok {
			return true
		}
		if v := varOf(id); v != nil && !okUse[id] {
			bad[v] = true
		}
		return true
	})
	// parameters and results are never candidates, but they may be linked: they are simply not in cand
	for changed := true; changed; {
		changed = false
		for v := range cand {
			if bad[v] {
				continue
			}
			for _, w := range link[v] {
				if bad[w] && !bad[v] {
					bad[v] = true
					changed = true
				}
			}
		}
	}
	todo := map[*types.Var]bool{}
	for v := range cand {
		if !bad[v] {
			todo[v] = true
		}
	}
	if len(todo) == 0 {
		return false
	}
	// fresh names: <var>_<field>, renamed apart from everything visible in the function
	used := map[string]bool{}
	ast.Inspect(fd, func(n ast.Node) bool {
		if id, ok := n.(*ast.Ident); ok {
			used[id.Name] = true
		}
		return true
	})
	for _, nm := range in.pkg.Types.Scope().Names() {
		used[nm] = true
	}
	names := map[*types.Var][]string{}
	for v := range todo {
		st := cand[v]
		var ns []string
		for i := 0; i < st.NumFields(); i++ {
			*in.serial++
			base := fmt.Sprintf("%s_%s_sr%d", v.Name(), st.Field(i).Name(), *in.serial)
			for used[base] {
				base += "x"
			}
			used[base] = true
			ns = append(ns, base)
		}
		names[v] = ns
	}
	fieldIdx := func(st *types.Struct, name string) int {
		for i := 0; i < st.NumFields(); i++ {
			if st.Field(i).Name() == name {
				return i
			}
		}
		return -1
	}
	zero := func(t types.Type) ast.Expr {
		bt := t.(*types.Basic)
		switch {
		case bt.Info()&types.IsString != 0:
			return &ast.CallExpr{Fun: ast.NewIdent(bt.Name()), Args: []ast.Expr{&ast.BasicLit{Kind: token.STRING, Value: `""`}}}
		case bt.Info()&types.IsBoolean != 0:
			return &ast.CallExpr{Fun: ast.NewIdent(bt.Name()), Args: []ast.Expr{ast.NewIdent("false")}}
		default:
			return &ast.CallExpr{Fun: ast.NewIdent(bt.Name()), Args: []ast.Expr{&ast.BasicLit{Kind: token.INT, Value: "0"}}}
		}
	}
	idents := func(ns []string) []ast.Expr {
		var out []ast.Expr
		for _, n := range ns {
			out = append(out, ast.NewIdent(n))
		}
		return out
	}
	// the values a right-hand side contributes, per field, converted to the field's type
	rhsValues := func(lv *types.Var, e ast.Expr) []ast.Expr {
		st := cand[lv]
		if rv := varOf(e); rv != nil {
			return idents(names[rv])
		}
		cl := e.(*ast.CompositeLit)
		out := make([]ast.Expr, st.NumFields())
		for i, el := range cl.Elts {
			idx := i
			val := el
			if kv, isKV := el.(*ast.KeyValueExpr); isKV {
				idx = fieldIdx(st, kv.Key.(*ast.Ident).Name)
				val = kv.Value
			}
			out[idx] = &ast.CallExpr{Fun: ast.NewIdent(st.Field(idx).Type().(*types.Basic).Name()), Args: []ast.Expr{val}}
		}
		for i := range out {
			if out[i] == nil {
				out[i] = zero(st.Field(i).Type())
			}
		}
		return out
	}
	changed := false
	// statements first (they consume whole-variable mentions), then the remaining selectors
	var rewriteList func(list []ast.Stmt)
	rewriteStmt := func(s ast.Stmt) ast.Stmt {
		switch x := s.(type) {
		case *ast.AssignStmt:
			if len(x.Lhs) == 1 && len(x.Rhs) == 1 {
				if lv := varOf(x.Lhs[0]); lv != nil && todo[lv] {
					changed = true
					as := &ast.AssignStmt{Lhs: idents(names[lv]), Tok: x.Tok, Rhs: rhsValues(lv, x.Rhs[0])}
					if x.Tok == token.DEFINE {
						return &ast.BlockStmt{List: append([]ast.Stmt{as}, blankUses(names[lv])...)}
					}
					return as
				}
			}
		case *ast.DeclStmt:
			gd := x.Decl.(*ast.GenDecl)
			if gd.Tok == token.VAR && len(gd.Specs) == 1 {
				vs := gd.Specs[0].(*ast.ValueSpec)
				if len(vs.Names) == 1 {
					if lv := varOf(vs.Names[0]); lv != nil && todo[lv] {
						changed = true
						st := cand[lv]
						var specs []ast.Spec
						var vals []ast.Expr
						if len(vs.Values) == 1 {
							vals = rhsValues(lv, vs.Values[0])
						}
						for i := 0; i < st.NumFields(); i++ {
							sp := &ast.ValueSpec{Names: []*ast.Ident{ast.NewIdent(names[lv][i])}, Type: ast.NewIdent(st.Field(i).Type().(*types.Basic).Name())}
							specs = append(specs, sp)
						}
						if vals == nil {
							return &ast.BlockStmt{List: append([]ast.Stmt{&ast.DeclStmt{Decl: &ast.GenDecl{Tok: token.VAR, Lparen: 1, Rparen: 1, Specs: specs}}}, blankUses(names[lv])...)}
						}
						// var x T = rhs: declare, then one parallel assignment (the elements are call-free and
						// do not mention a candidate, so declaring first changes nothing)
						return &ast.BlockStmt{List: append([]ast.Stmt{
							&ast.DeclStmt{Decl: &ast.GenDecl{Tok: token.VAR, Lparen: 1, Rparen: 1, Specs: specs}},
							&ast.AssignStmt{Lhs: idents(names[lv]), Tok: token.ASSIGN, Rhs: vals},
						}, blankUses(names[lv])...)}
					}
				}
			}
		}
		return s
	}
	rewriteList = func(list []ast.Stmt) {}
	_ = rewriteList
	var walk func(n ast.Node) bool
	splice := func(list []ast.Stmt) []ast.Stmt {
		var out []ast.Stmt
		for _, s := range list {
			r := rewriteStmt(s)
			if blk, isBlk := r.(*ast.BlockStmt); isBlk && r != s {
				out = append(out, blk.List...)
				continue
			}
			out = append(out, r)
		}
		return out
	}
	walk = func(n ast.Node) bool {
		switch x := n.(type) {
		case *ast.FuncLit:
			return false
		case *ast.BlockStmt:
			x.List = splice(x.List)
		case *ast.CaseClause:
			x.Body = splice(x.Body)
		case *ast.CommClause:
			x.Body = splice(x.Body)
		case *ast.IfStmt:
			if x.Init != nil {
				if r := rewriteStmt(x.Init); r != x.Init {
					if _, isBlk := r.(*ast.BlockStmt); !isBlk {
						x.Init = r
					}
				}
			}
		case *ast.ForStmt:
			if x.Init != nil {
				if r := rewriteStmt(x.Init); r != x.Init {
					if _, isBlk := r.(*ast.BlockStmt); !isBlk {
						x.Init = r
					}
				}
			}
			if x.Post != nil {
				if r := rewriteStmt(x.Post); r != x.Post {
					if _, isBlk := r.(*ast.BlockStmt); !isBlk {
						x.Post = r
					}
				}
			}
		case *ast.SwitchStmt:
			if x.Init != nil {
				if r := rewriteStmt(x.Init); r != x.Init {
					if _, isBlk := r.(*ast.BlockStmt); !isBlk {
						x.Init = r
					}
				}
			}
		}
		return true
	}
	ast.Inspect(fd.Body, walk)
	// selectors
	var fix func(e *ast.Expr)
	fix = func(e *ast.Expr) {
		if se, ok := (*e).(*ast.SelectorExpr); ok {
			if v := varOf(se.X); v != nil && todo[v] {
				if i := fieldIdx(cand[v], se.Sel.Name); i >= 0 {
					*e = ast.NewIdent(names[v][i])
					changed = true
				}
			}
		}
	}
	rewriteExprs(fd.Body, fix)
	if changed {
		in.counts["local record variable split into one variable per field"] += len(todo)
	}
	return changed
}

func blankUses(ns []string) []ast.Stmt {
	var out []ast.Stmt
	for _, n := range ns {
		out = append(out, &ast.AssignStmt{Lhs: []ast.Expr{ast.NewIdent("_")}, Tok: token.ASSIGN, Rhs: []ast.Expr{ast.NewIdent(n)}})
	}
	return out
}

// rewriteExprs calls fix on every expression slot below n (post-order), so that fix may replace the expression.
func rewriteExprs(n ast.Node, fix func(e *ast.Expr)) {
	var ex func(e *ast.Expr)
	var st func(s ast.Stmt)
	exs := func(l []ast.Expr) {
		for i := range l {
			ex(&l[i])
		}
	}
	ex = func(e *ast.Expr) {
		if *e == nil {
			return
		}
		switch x := (*e).(type) {
		case *ast.ParenExpr:
			ex(&x.X)
		case *ast.SelectorExpr:
			ex(&x.X)
		case *ast.IndexExpr:
			ex(&x.X)
			ex(&x.Index)
		case *ast.SliceExpr:
			ex(&x.X)
			ex(&x.Low)
			ex(&x.High)
			ex(&x.Max)
		case *ast.TypeAssertExpr:
			ex(&x.X)
		case *ast.CallExpr:
			ex(&x.Fun)
			exs(x.Args)
		case *ast.StarExpr:
			ex(&x.X)
		case *ast.UnaryExpr:
			ex(&x.X)
		case *ast.BinaryExpr:
			ex(&x.X)
			ex(&x.Y)
		case *ast.KeyValueExpr:
			ex(&x.Value)
		case *ast.CompositeLit:
			exs(x.Elts)
		case *ast.FuncLit:
			st(x.Body)
		}
		fix(e)
	}
	st = func(s ast.Stmt) {
		switch x := s.(type) {
		case nil:
		case *ast.BlockStmt:
			if x == nil {
				return
			}
			for _, y := range x.List {
				st(y)
			}
		case *ast.ExprStmt:
			ex(&x.X)
		case *ast.SendStmt:
			ex(&x.Chan)
			ex(&x.Value)
		case *ast.IncDecStmt:
			ex(&x.X)
		case *ast.AssignStmt:
			exs(x.Lhs)
			exs(x.Rhs)
		case *ast.GoStmt:
			var e ast.Expr = x.Call
			ex(&e)
		case *ast.DeferStmt:
			var e ast.Expr = x.Call
			ex(&e)
		case *ast.ReturnStmt:
			exs(x.Results)
		case *ast.IfStmt:
			st(x.Init)
			ex(&x.Cond)
			st(x.Body)
			st(x.Else)
		case *ast.CaseClause:
			exs(x.List)
			for _, y := range x.Body {
				st(y)
			}
		case *ast.SwitchStmt:
			st(x.Init)
			ex(&x.Tag)
			st(x.Body)
		case *ast.TypeSwitchStmt:
			st(x.Init)
			st(x.Assign)
			st(x.Body)
		case *ast.CommClause:
			st(x.Comm)
			for _, y := range x.Body {
				st(y)
			}
		case *ast.SelectStmt:
			st(x.Body)
		case *ast.ForStmt:
			st(x.Init)
			ex(&x.Cond)
			st(x.Post)
			st(x.Body)
		case *ast.RangeStmt:
			ex(&x.Key)
			ex(&x.Value)
			ex(&x.X)
			st(x.Body)
		case *ast.LabeledStmt:
			st(x.Stmt)
		case *ast.DeclStmt:
			if gd, ok := x.Decl.(*ast.GenDecl); ok {
				for _, sp := range gd.Specs {
					if vs, ok := sp.(*ast.ValueSpec); ok {
						exs(vs.Values)
					}
				}
			}
		}
	}
	if s, ok := n.(ast.Stmt); ok {
		st(s)
	}
}
