package main

// Normalisation by inlining (second chance for refactored trees).
//
// The rules look at the shape of the functions the properties are anchored in.
// A maintainer who moves part of such a function into a new unexported helper
// changes that shape without changing behaviour. When (and only when) the
// analysis of the tree as it is reports a failure, the unexported helpers that
// did not exist at the pinned commit (knownHelpers) are inlined back into their
// callers at source level — in memory, through a go/packages overlay; /repo is
// never written — and the rules are run again on the result. Inlining is
// semantics-preserving, so a verdict on the normalised program is a verdict on
// the program under analysis; the list of helpers only chooses the
// normalisation and never decides an obligation.
//
// Inlined are calls in statement position
//
//	h(a…)            x, y := h(a…)      x = h(a…)      x += h(a…)
//	return h(a…)     if x := h(a…); c {…}
//
// of non-recursive, non-variadic, non-generic helpers without defer/go/recover.
// Parameters are bound once (p_inK := a), every identifier declared in the
// helper is renamed apart, labels included; a helper with returns other than one
// trailing return is wrapped in a single-pass block `L: for { …; break L }`
// whose returns become assignments to result variables plus `break L` (no back
// edge exists, so no loop appears in the flow graph). A call site is left alone
// when a name the helper uses means something else at the call site, or when an
// argument's type differs from the parameter's type in a way a plain binding
// would not preserve.

import (
	"bytes"
	"fmt"
	"go/ast"
	"go/parser"
	"go/printer"
	"go/token"
	"go/types"
	"os"
	"path/filepath"
	"reflect"
	"sort"
	"strings"

	"golang.org/x/tools/go/packages"
)

type normResult struct {
	overlay map[string][]byte
	inlined []string // helper → number of sites
	left    []string // helpers (or sites) that could not be inlined, with reason
}

func helperKey(pkgName string, fd *ast.FuncDecl) string {
	recv := ""
	if fd.Recv != nil && len(fd.Recv.List) == 1 {
		t := fd.Recv.List[0].Type
		if s, ok := t.(*ast.StarExpr); ok {
			t = s.X
		}
		if id, ok := t.(*ast.Ident); ok {
			recv = id.Name
		}
	}
	return pkgName + "." + recv + "." + fd.Name.Name
}

// sigOf: parameter and result types as written (the form stored in knownHelpers).
func sigOf(fd *ast.FuncDecl) string {
	var ps, rs []string
	list := func(fl *ast.FieldList, out *[]string) {
		if fl == nil {
			return
		}
		for _, f := range fl.List {
			n := len(f.Names)
			if n == 0 {
				n = 1
			}
			for i := 0; i < n; i++ {
				*out = append(*out, types.ExprString(f.Type))
			}
		}
	}
	list(fd.Type.Params, &ps)
	list(fd.Type.Results, &rs)
	return "(" + strings.Join(ps, ",") + ")(" + strings.Join(rs, ",") + ")"
}

func normalize(repo, arch string) (*normResult, error) {
	res := &normResult{overlay: map[string][]byte{}}
	counts := map[string]int{}
	serial := 0
	for round := 0; round < 6; round++ {
		env := append(os.Environ(),
			"GOFLAGS=-mod=mod", "GOPROXY=off", "GOSUMDB=off", "GOTOOLCHAIN=local",
			"GOWORK=off", "GOOS=linux", "GOARCH="+arch, "CGO_ENABLED=0")
		cfg := &packages.Config{
			Mode:    packages.NeedName | packages.NeedFiles | packages.NeedSyntax | packages.NeedTypes | packages.NeedTypesInfo | packages.NeedImports | packages.NeedDeps,
			Dir:     repo,
			Env:     env,
			Overlay: res.overlay,
		}
		pkgs, err := packages.Load(cfg, "./...")
		if err != nil {
			return nil, err
		}
		changed := false
		for _, p := range pkgs {
			if !strings.HasPrefix(p.PkgPath, lzPath) {
				continue
			}
			if len(p.Errors) > 0 {
				return nil, fmt.Errorf("normalised tree does not type-check: %v", p.Errors[0])
			}
			in := &inliner{pkg: p, serial: &serial, counts: counts, res: res}
			if in.run() {
				changed = true
			}
		}
		if !changed {
			break
		}
	}
	for k, n := range counts {
		res.inlined = append(res.inlined, fmt.Sprintf("%s (%d call sites)", k, n))
	}
	sort.Strings(res.inlined)
	sort.Strings(res.left)
	return res, nil
}

type inliner struct {
	pkg       *packages.Package
	serial    *int
	counts    map[string]int
	res       *normResult
	cands     map[*types.Func]*ast.FuncDecl
	dirty     map[*ast.File]bool
	remain    map[*types.Func]int // references that were not inlined
	inClosure bool
	// local closures that are only ever called: name := func(…) {…}; … name(args) …
	lits     map[*types.Var]*ast.FuncDecl
	litDefs  map[*types.Var]*ast.AssignStmt
	litCalls map[*types.Var]int
}

func (in *inliner) note(format string, a ...any) {
	s := fmt.Sprintf(format, a...)
	for _, l := range in.res.left {
		if l == s {
			return
		}
	}
	in.res.left = append(in.res.left, s)
}

func (in *inliner) run() bool {
	p := in.pkg
	info := p.TypesInfo
	in.cands = map[*types.Func]*ast.FuncDecl{}
	in.dirty = map[*ast.File]bool{}
	in.remain = map[*types.Func]int{}
	in.collectLits()
	// signatures of the listed helpers of this package that no longer exist under their name
	present := map[string]bool{}
	for _, f := range p.Syntax {
		for _, d := range f.Decls {
			if fd, ok := d.(*ast.FuncDecl); ok {
				present[helperKey(p.Name, fd)] = true
			}
		}
	}
	renamed := map[string]bool{}
	for k, sig := range knownHelpers {
		if strings.HasPrefix(k, p.Name+".") && !present[k] {
			renamed[sig] = true
		}
	}
	for _, f := range p.Syntax {
		if strings.HasSuffix(p.Fset.File(f.Pos()).Name(), "_test.go") {
			continue
		}
		for _, d := range f.Decls {
			fd, ok := d.(*ast.FuncDecl)
			if !ok || fd.Body == nil || ast.IsExported(fd.Name.Name) || fd.Name.Name == "init" || fd.Name.Name == "main" || fd.Name.Name == "_" {
				continue
			}
			if _, known := knownHelpers[helperKey(p.Name, fd)]; known {
				continue
			}
			// a known helper that is missing from the tree and has this signature: this is it, renamed
			if renamed[sigOf(fd)] {
				in.note("%s: taken for a renamed helper of the pinned commit (same signature as a missing one)", helperKey(p.Name, fd))
				continue
			}
			fn, _ := info.Defs[fd.Name].(*types.Func)
			if fn == nil {
				continue
			}
			if why := in.inlinable(fd, fn); why != "" {
				in.note("%s: not inlined (%s)", helperKey(p.Name, fd), why)
				continue
			}
			in.cands[fn] = fd
		}
	}
	if len(in.cands) == 0 && len(in.lits) == 0 {
		return in.expandRound()
	}
	// leaves first: a candidate that calls another candidate waits for the next round
	leaf := map[*types.Func]*ast.FuncDecl{}
	for fn, fd := range in.cands {
		callsCand := false
		ast.Inspect(fd.Body, func(n ast.Node) bool {
			if id, ok := n.(*ast.Ident); ok {
				if o, ok := info.Uses[id].(*types.Func); ok && in.cands[o] != nil && o != fn {
					callsCand = true
				}
			}
			return true
		})
		if !callsCand {
			leaf[fn] = fd
		}
	}
	if len(leaf) == 0 && len(in.lits) == 0 {
		return in.expandRound()
	}
	in.cands = leaf
	any := false
	for _, f := range p.Syntax {
		if strings.HasSuffix(p.Fset.File(f.Pos()).Name(), "_test.go") {
			continue
		}
		for _, d := range f.Decls {
			fd, ok := d.(*ast.FuncDecl)
			if !ok || fd.Body == nil {
				continue
			}
			if in.block(f, fd, fd.Body) {
				in.dirty[f] = true
				any = true
			}
		}
	}
	// references that remain (method values, calls in expression position, …)
	for _, f := range p.Syntax {
		ast.Inspect(f, func(n ast.Node) bool {
			if id, ok := n.(*ast.Ident); ok {
				if o, ok := info.Uses[id].(*types.Func); ok && in.cands[o] != nil {
					in.remain[o]++
				}
			}
			return true
		})
	}
	if !any {
		for fn := range in.cands {
			if in.remain[fn] > 0 {
				in.note("%s.%s: call sites are not in statement position", p.Name, fn.Name())
			}
		}
		return in.expandRound()
	}
	// closure definitions whose calls are all inlined
	drop := map[ast.Stmt]bool{}
	for v, def := range in.litDefs {
		if in.litCalls[v] == 0 && in.lits[v] != nil {
			drop[def] = true
		}
	}
	if len(drop) > 0 {
		for _, f := range p.Syntax {
			ast.Inspect(f, func(n ast.Node) bool {
				filter := func(list []ast.Stmt) []ast.Stmt {
					var out []ast.Stmt
					for _, st := range list {
						if !drop[st] {
							out = append(out, st)
						}
					}
					return out
				}
				switch x := n.(type) {
				case *ast.BlockStmt:
					x.List = filter(x.List)
				case *ast.CaseClause:
					x.Body = filter(x.Body)
				case *ast.CommClause:
					x.Body = filter(x.Body)
				}
				return true
			})
		}
	}
	// drop helpers without remaining references
	for _, f := range p.Syntax {
		var keep []ast.Decl
		for _, d := range f.Decls {
			if fd, ok := d.(*ast.FuncDecl); ok {
				if fn, _ := info.Defs[fd.Name].(*types.Func); fn != nil && in.cands[fn] != nil && in.remain[fn] == 0 && in.counts[helperKey(p.Name, fd)] > 0 {
					in.dirty[f] = true
					continue
				}
			}
			keep = append(keep, d)
		}
		f.Decls = keep
	}
	in.flush()
	return true
}

// collectLits finds local closures that are defined once (name := func…), never assigned again and
// used only as the callee of calls; they are inlined like helpers (their free variables are the
// enclosing function's own, so they mean the same at the call sites unless shadowed — checked per site).
func (in *inliner) collectLits() {
	info := in.pkg.TypesInfo
	in.lits = map[*types.Var]*ast.FuncDecl{}
	in.litDefs = map[*types.Var]*ast.AssignStmt{}
	in.litCalls = map[*types.Var]int{}
	for _, f := range in.pkg.Syntax {
		if strings.HasSuffix(in.pkg.Fset.File(f.Pos()).Name(), "_test.go") {
			continue
		}
		defs := map[*types.Var]*ast.AssignStmt{}
		lit := map[*types.Var]*ast.FuncLit{}
		ast.Inspect(f, func(n ast.Node) bool {
			as, ok := n.(*ast.AssignStmt)
			if !ok || as.Tok != token.DEFINE || len(as.Lhs) != 1 || len(as.Rhs) != 1 {
				return true
			}
			fl, isLit := as.Rhs[0].(*ast.FuncLit)
			id, isId := as.Lhs[0].(*ast.Ident)
			if !isLit || !isId {
				return true
			}
			if v, ok := info.Defs[id].(*types.Var); ok {
				defs[v] = as
				lit[v] = fl
			}
			return true
		})
		if len(defs) == 0 {
			continue
		}
		uses := map[*types.Var]int{}
		calls := map[*types.Var]int{}
		ast.Inspect(f, func(n ast.Node) bool {
			switch x := n.(type) {
			case *ast.CallExpr:
				if id, ok := x.Fun.(*ast.Ident); ok {
					if v, ok := info.Uses[id].(*types.Var); ok && defs[v] != nil {
						calls[v]++
					}
				}
			case *ast.Ident:
				if v, ok := info.Uses[x].(*types.Var); ok && defs[v] != nil {
					uses[v]++
				}
			}
			return true
		})
		for v, as := range defs {
			fl := lit[v]
			if uses[v] == 0 || uses[v] != calls[v] {
				continue // passed around as a value, or unused
			}
			bad := false
			ast.Inspect(fl.Body, func(n ast.Node) bool {
				switch x := n.(type) {
				case *ast.DeferStmt, *ast.GoStmt, *ast.FuncLit:
					bad = true
				case *ast.Ident:
					if info.Uses[x] == types.Object(v) {
						bad = true // recursive
					}
				}
				return true
			})
			for _, fld := range fl.Type.Params.List {
				if len(fld.Names) == 0 {
					bad = true
				}
			}
			if sig, ok := v.Type().(*types.Signature); !ok || sig.Variadic() {
				bad = true
			}
			if bad {
				continue
			}
			in.lits[v] = &ast.FuncDecl{Name: ast.NewIdent(v.Name()), Type: fl.Type, Body: fl.Body}
			in.litDefs[v] = as
			in.litCalls[v] = calls[v]
		}
	}
}

// flush prints the changed files into the overlay.
func (in *inliner) flush() {
	p := in.pkg
	for f := range in.dirty {
		f.Comments = nil
		ast.Inspect(f, func(n ast.Node) bool {
			switch x := n.(type) {
			case *ast.FuncDecl:
				x.Doc = nil
			case *ast.GenDecl:
				x.Doc = nil
			case *ast.Field:
				x.Doc, x.Comment = nil, nil
			case *ast.ValueSpec:
				x.Doc, x.Comment = nil, nil
			case *ast.TypeSpec:
				x.Doc, x.Comment = nil, nil
			case *ast.ImportSpec:
				x.Doc, x.Comment = nil, nil
			}
			return true
		})
		f.Doc = nil
		var buf bytes.Buffer
		if err := (&printer.Config{Mode: printer.UseSpaces | printer.TabIndent, Tabwidth: 8}).Fprint(&buf, p.Fset, f); err != nil {
			continue
		}
		name, _ := filepath.Abs(p.Fset.File(f.Pos()).Name())
		in.res.overlay[name] = buf.Bytes()
		if d := os.Getenv("LZ_DUMP_NORM"); d != "" {
			os.WriteFile(filepath.Join(d, filepath.Base(name)), buf.Bytes(), 0o644)
		}
	}
}

// expandRound: a round without inlining expands min/max calls and clear() (expand.go).
func (in *inliner) expandRound() bool {
	if in.dirty == nil {
		in.dirty = map[*ast.File]bool{}
	}
	any := false
	for _, f := range in.pkg.Syntax {
		if strings.HasSuffix(in.pkg.Fset.File(f.Pos()).Name(), "_test.go") {
			continue
		}
		if in.expandFile(f) {
			in.dirty[f] = true
			any = true
		} else if in.promoteLocalCopies(f) {
			in.dirty[f] = true
			any = true
		} else if in.scalarizeLocals(f) {
			in.dirty[f] = true
			any = true
		}
	}
	if any {
		in.flush()
	}
	return any
}

// inlinable: "" or the reason why the helper is left alone.
func (in *inliner) inlinable(fd *ast.FuncDecl, fn *types.Func) string {
	sig := fn.Type().(*types.Signature)
	if sig.Variadic() {
		return "variadic"
	}
	if sig.TypeParams() != nil || sig.RecvTypeParams() != nil {
		return "generic"
	}
	why := ""
	ast.Inspect(fd.Body, func(n ast.Node) bool {
		switch x := n.(type) {
		case *ast.DeferStmt:
			why = "defer"
		case *ast.GoStmt:
			why = "go statement"
		case *ast.FuncLit:
			// a closure may return on its own; keep it simple
			why = "function literal"
		case *ast.Ident:
			if o, ok := in.pkg.TypesInfo.Uses[x].(*types.Func); ok && o == fn {
				why = "recursive"
			}
			if x.Name == "recover" {
				if _, isB := in.pkg.TypesInfo.Uses[x].(*types.Builtin); isB {
					why = "recover"
				}
			}
		}
		return true
	})
	if why != "" {
		return why
	}
	for _, f := range fd.Type.Params.List {
		if len(f.Names) == 0 {
			return "unnamed parameter"
		}
	}
	return ""
}

// block rewrites the statement lists below n; reports whether anything changed.
func (in *inliner) block(file *ast.File, encl *ast.FuncDecl, n ast.Node) bool {
	changed := false
	var lists []*[]ast.Stmt
	inLit := map[*[]ast.Stmt]bool{}
	var collect func(n ast.Node, lit bool)
	collect = func(n ast.Node, lit bool) {
		ast.Inspect(n, func(x ast.Node) bool {
			switch s := x.(type) {
			case *ast.BlockStmt:
				lists = append(lists, &s.List)
				inLit[&s.List] = lit
			case *ast.CaseClause:
				lists = append(lists, &s.Body)
				inLit[&s.Body] = lit
			case *ast.CommClause:
				lists = append(lists, &s.Body)
				inLit[&s.Body] = lit
			case *ast.FuncLit:
				// statements of a closure: calls are inlined there too, except `return h(…)`
				// (the return belongs to the closure, whose signature is not the enclosing function's)
				if !lit {
					collect(s.Body, true)
					return false
				}
			}
			return true
		})
	}
	collect(n, false)
	for _, lp := range lists {
		in.inClosure = inLit[lp]
		var out []ast.Stmt
		for _, st := range *lp {
			// if x := h(); cond {…}  →  { x := h(); if cond {…} }
			if is, ok := st.(*ast.IfStmt); ok && is.Init != nil {
				if rep := in.site(file, encl, is.Init); rep != nil {
					is.Init = nil
					out = append(out, &ast.BlockStmt{List: append(rep, is)})
					changed = true
					continue
				}
			}
			if rep := in.site(file, encl, st); rep != nil {
				out = append(out, rep...)
				changed = true
				continue
			}
			// f(h(x)) with h a candidate: bind h's result first (the next round inlines the binding)
			if pre := in.hoistNested(st); len(pre) > 0 {
				out = append(out, pre...)
				changed = true
			}
			out = append(out, st)
		}
		*lp = out
	}
	return changed
}

// hoistNested: for a statement whose main call has a candidate call as a direct argument,
//
//	k, err := d.buf.Write(d.chunk(p))   →   h := d.chunk(p); k, err := d.buf.Write(h)
//
// provided everything the original evaluates before that argument cannot be changed by it: the
// receiver path and earlier arguments are plain identifiers of local variables (or field paths used
// only for their address) and constants.
func (in *inliner) hoistNested(st ast.Stmt) []ast.Stmt {
	info := in.pkg.TypesInfo
	// return h(x), nil  →  r := h(x); return r, nil   (the other results are constants or plain
	// identifiers, which a call cannot change before they are read… except variables the helper
	// assigns: named results of the caller are excluded)
	if rs, ok := st.(*ast.ReturnStmt); ok && len(rs.Results) > 1 {
		for i, r := range rs.Results {
			call, isCall := r.(*ast.CallExpr)
			if !isCall {
				continue
			}
			var fn *types.Func
			switch f := call.Fun.(type) {
			case *ast.Ident:
				fn, _ = info.Uses[f].(*types.Func)
			case *ast.SelectorExpr:
				fn, _ = info.Uses[f.Sel].(*types.Func)
			}
			if fn == nil || in.cands[fn] == nil || fn.Type().(*types.Signature).Results().Len() != 1 {
				continue
			}
			okOthers := true
			for k, o := range rs.Results {
				if k == i {
					continue
				}
				switch x := o.(type) {
				case *ast.BasicLit:
				case *ast.Ident:
					if obj := info.Uses[x]; obj != nil {
						if _, isVar := obj.(*types.Var); isVar && k < i {
							okOthers = false // read before the call in the original; keep it simple
						}
					}
				default:
					okOthers = false
				}
			}
			if !okOthers {
				continue
			}
			*in.serial++
			name := fmt.Sprintf("h_x%d", *in.serial)
			rs.Results[i] = ast.NewIdent(name)
			in.counts["nested helper call bound to a temporary"]++
			return []ast.Stmt{&ast.AssignStmt{Lhs: []ast.Expr{ast.NewIdent(name)}, Tok: token.DEFINE, Rhs: []ast.Expr{call}}}
		}
	}
	var call *ast.CallExpr
	switch s := st.(type) {
	case *ast.ExprStmt:
		call, _ = s.X.(*ast.CallExpr)
	case *ast.AssignStmt:
		if len(s.Rhs) == 1 {
			call, _ = s.Rhs[0].(*ast.CallExpr)
		}
	case *ast.ReturnStmt:
		if len(s.Results) == 1 {
			call, _ = s.Results[0].(*ast.CallExpr)
		}
	}
	if call == nil {
		return nil
	}
	stable := func(e ast.Expr) bool {
		ok := true
		ast.Inspect(e, func(n ast.Node) bool {
			switch x := n.(type) {
			case *ast.Ident, *ast.BasicLit, *ast.ParenExpr:
			case *ast.SelectorExpr:
				_ = x
			default:
				if n != nil {
					ok = false
				}
			}
			return true
		})
		return ok
	}
	if sel, ok := call.Fun.(*ast.SelectorExpr); ok {
		if !stable(sel.X) {
			return nil
		}
		// a value receiver would be copied before the arguments are evaluated
		if s := info.Selections[sel]; s != nil {
			if fn, ok := s.Obj().(*types.Func); ok {
				if _, ptr := fn.Type().(*types.Signature).Recv().Type().(*types.Pointer); !ptr {
					return nil
				}
			}
		}
	} else if _, ok := call.Fun.(*ast.Ident); !ok {
		return nil
	}
	var pre []ast.Stmt
	for i, a := range call.Args {
		inner, ok := a.(*ast.CallExpr)
		if !ok {
			if !stable(a) {
				break
			}
			// an earlier argument that is a field read could be changed by a later hoisted call
			if _, isSel := a.(*ast.SelectorExpr); isSel {
				break
			}
			continue
		}
		var fn *types.Func
		switch f := inner.Fun.(type) {
		case *ast.Ident:
			fn, _ = info.Uses[f].(*types.Func)
		case *ast.SelectorExpr:
			fn, _ = info.Uses[f.Sel].(*types.Func)
		}
		if fn == nil || in.cands[fn] == nil || fn.Type().(*types.Signature).Results().Len() != 1 {
			break
		}
		*in.serial++
		name := fmt.Sprintf("h_x%d", *in.serial)
		pre = append(pre, &ast.AssignStmt{Lhs: []ast.Expr{ast.NewIdent(name)}, Tok: token.DEFINE, Rhs: []ast.Expr{inner}})
		call.Args[i] = ast.NewIdent(name)
		in.counts["nested helper call bound to a temporary"]++
		break // one per statement and round: later arguments are re-examined next round
	}
	return pre
}

// site: the replacement of statement st when it is an inlinable call of a candidate, else nil.
func (in *inliner) site(file *ast.File, encl *ast.FuncDecl, st ast.Stmt) []ast.Stmt {
	info := in.pkg.TypesInfo
	var call *ast.CallExpr
	kind := ""
	var asg *ast.AssignStmt
	switch s := st.(type) {
	case *ast.ExprStmt:
		call, _ = s.X.(*ast.CallExpr)
		kind = "expr"
	case *ast.AssignStmt:
		if len(s.Rhs) == 1 {
			call, _ = s.Rhs[0].(*ast.CallExpr)
			kind = "assign"
			asg = s
		}
	case *ast.ReturnStmt:
		if len(s.Results) == 1 && !in.inClosure {
			call, _ = s.Results[0].(*ast.CallExpr)
			kind = "return"
		}
	}
	if call == nil {
		return nil
	}
	var fn *types.Func
	var recvExpr ast.Expr
	switch f := call.Fun.(type) {
	case *ast.Ident:
		fn, _ = info.Uses[f].(*types.Func)
	case *ast.SelectorExpr:
		fn, _ = info.Uses[f.Sel].(*types.Func)
		if sel := info.Selections[f]; sel != nil && sel.Kind() == types.MethodVal {
			recvExpr = f.X
			if len(sel.Index()) != 1 {
				// promoted through embedded fields: spell the path out
				t := info.TypeOf(f.X)
				x := f.X
				for _, i := range sel.Index()[:len(sel.Index())-1] {
					stt := derefStruct(t)
					if stt == nil {
						return nil
					}
					fld := stt.Field(i)
					x = &ast.SelectorExpr{X: x, Sel: ast.NewIdent(fld.Name())}
					t = fld.Type()
				}
				recvExpr = x
				in.pkg.TypesInfo.Types[x] = types.TypeAndValue{Type: t}
			}
		} else if fn != nil && fn.Type().(*types.Signature).Recv() != nil {
			return nil // method expression
		}
	}
	var fd *ast.FuncDecl
	var sig *types.Signature
	var litVar *types.Var
	if fn == nil {
		// a local closure that is only ever called
		if id, ok := call.Fun.(*ast.Ident); ok {
			if v, ok := info.Uses[id].(*types.Var); ok && in.lits[v] != nil {
				fd = in.lits[v]
				sig, _ = v.Type().(*types.Signature)
				litVar = v
			}
		}
		if fd == nil || sig == nil {
			return nil
		}
	} else {
		fd = in.cands[fn]
		if fd == nil {
			return nil
		}
		if encl != nil {
			if efn, _ := info.Defs[encl.Name].(*types.Func); efn == fn {
				return nil
			}
		}
		sig = fn.Type().(*types.Signature)
	}
	key := helperKey(in.pkg.Name, fd)
	if litVar != nil {
		key = in.pkg.Name + "." + encl.Name.Name + "$" + litVar.Name()
	}
	skip := func(why string) []ast.Stmt {
		in.note("%s: a call in %s is not inlined (%s)", key, encl.Name.Name, why)
		return nil
	}
	if kind == "return" {
		// the caller must return exactly the helper's results
		esig := info.Defs[encl.Name].(*types.Func).Type().(*types.Signature)
		if esig.Results().Len() != sig.Results().Len() {
			return skip("result count differs")
		}
		for i := 0; i < sig.Results().Len(); i++ {
			if !types.Identical(esig.Results().At(i).Type(), sig.Results().At(i).Type()) {
				return skip("result type differs")
			}
		}
		// named results of the caller could be observed by a deferred function: not in this code base
	}
	if kind == "expr" && sig.Results().Len() > 0 {
		// results dropped: fine
	}
	if kind == "assign" && sig.Results().Len() != len(asg.Lhs) {
		return skip("assignment shape")
	}
	// names the helper uses from outside must mean the same at the call site
	scope := in.pkg.Types.Scope().Innermost(call.Pos())
	capture := ""
	var inspectFree func(n ast.Node) bool
	inspectFree = func(n ast.Node) bool {
		if se, isSel := n.(*ast.SelectorExpr); isSel {
			// x.f: only x can be captured (f is a field, a method or a member of an imported package)
			ast.Inspect(se.X, inspectFree)
			return false
		}
		id, ok := n.(*ast.Ident)
		if !ok {
			return true
		}
		obj := info.Uses[id]
		if obj == nil || (obj.Pos() >= fd.Pos() && obj.Pos() < fd.End()) {
			return true
		}
		if v, isVar := obj.(*types.Var); isVar && v.IsField() {
			return true
		}
		if f2, isFn := obj.(*types.Func); isFn && f2.Type().(*types.Signature).Recv() != nil {
			return true
		}
		if scope == nil {
			capture = id.Name
			return true
		}
		_, o2 := scope.LookupParent(id.Name, call.Pos())
		if pn, isPkg := obj.(*types.PkgName); isPkg {
			if pn2, ok := o2.(*types.PkgName); !ok || pn2.Imported() != pn.Imported() {
				capture = id.Name
			}
			return true
		}
		if o2 != obj {
			if os.Getenv("LZDBG3") != "" {
				fmt.Fprintf(os.Stderr, "DBG capture %s: obj=%v (pos %d) o2=%v fd=[%d,%d) call=%d\n", id.Name, obj, obj.Pos(), o2, fd.Pos(), fd.End(), call.Pos())
			}
			capture = id.Name
		}
		return true
	}
	ast.Inspect(fd.Body, inspectFree)
	if capture != "" {
		return skip("the name " + capture + " means something else at the call site")
	}
	*in.serial++
	suffix := fmt.Sprintf("_in%d", *in.serial)
	// deep copy of the body with a map back to the original identifiers
	back := map[*ast.Ident]*ast.Ident{}
	body := deepCopy(reflect.ValueOf(fd.Body), back).Interface().(*ast.BlockStmt)
	local := func(o types.Object) bool {
		if o == nil || o.Pos() < fd.Pos() || o.Pos() >= fd.End() {
			return false
		}
		if v, ok := o.(*types.Var); ok && v.IsField() {
			return false
		}
		return true
	}
	ast.Inspect(body, func(n ast.Node) bool {
		if id, ok := n.(*ast.Ident); ok {
			o := back[id]
			if o == nil || id.Name == "_" {
				return true
			}
			obj := info.Defs[o]
			if obj == nil {
				obj = info.Uses[o]
			}
			if obj == nil {
				// implicit objects (type switch symbolic variables): renamed by name below
				return true
			}
			if local(obj) {
				id.Name += suffix
			}
		}
		return true
	})
	// type-switch symbolic variables have implicit objects per clause: rename by name
	ast.Inspect(body, func(n ast.Node) bool {
		ts, ok := n.(*ast.TypeSwitchStmt)
		if !ok {
			return true
		}
		if as, ok := ts.Assign.(*ast.AssignStmt); ok && len(as.Lhs) == 1 {
			if id, ok := as.Lhs[0].(*ast.Ident); ok && !strings.HasSuffix(id.Name, suffix) {
				old := id.Name
				id.Name += suffix
				ast.Inspect(ts.Body, func(m ast.Node) bool {
					if u, ok := m.(*ast.Ident); ok && u.Name == old {
						if ob := back[u]; ob != nil && info.Defs[ob] == nil {
							if _, isImpl := info.Uses[ob].(*types.Var); isImpl && !strings.HasSuffix(u.Name, suffix) {
								u.Name += suffix
							}
						}
					}
					return true
				})
			}
		}
		return true
	})
	var pre []ast.Stmt
	useAll := func(names ...string) {
		for _, n := range names {
			if n != "_" {
				pre = append(pre, &ast.AssignStmt{Lhs: []ast.Expr{ast.NewIdent("_")}, Tok: token.ASSIGN, Rhs: []ast.Expr{ast.NewIdent(n)}})
			}
		}
	}
	// bindings: receiver and parameters, evaluated once, left to right, in the caller's scope
	var lhs, rhs []ast.Expr
	if sig.Recv() != nil {
		if recvExpr == nil || fd.Recv == nil || len(fd.Recv.List) != 1 {
			return skip("receiver")
		}
		rt := sig.Recv().Type()
		at := info.TypeOf(recvExpr)
		if at == nil {
			return skip("receiver type unknown")
		}
		var r ast.Expr
		_, recvIsPtr := rt.(*types.Pointer)
		_, argIsPtr := at.Underlying().(*types.Pointer)
		switch {
		case recvIsPtr == argIsPtr:
			r = recvExpr
		case recvIsPtr && !argIsPtr:
			r = &ast.UnaryExpr{Op: token.AND, X: &ast.ParenExpr{X: recvExpr}}
		default:
			r = &ast.StarExpr{X: &ast.ParenExpr{X: recvExpr}}
		}
		if len(fd.Recv.List[0].Names) == 1 && fd.Recv.List[0].Names[0].Name != "_" {
			lhs = append(lhs, ast.NewIdent(fd.Recv.List[0].Names[0].Name+suffix))
			rhs = append(rhs, r)
		} else {
			lhs = append(lhs, ast.NewIdent("_"))
			rhs = append(rhs, r)
		}
	}
	ai := 0
	for _, f := range fd.Type.Params.List {
		for _, nm := range f.Names {
			if ai >= len(call.Args) {
				return skip("argument count")
			}
			arg := call.Args[ai]
			pt := sig.Params().At(ai).Type()
			tv := info.Types[arg]
			var a ast.Expr = arg
			if tv.Type == nil {
				return skip("argument type unknown")
			}
			if b, isBasic := pt.(*types.Basic); isBasic && tv.Value != nil {
				a = &ast.CallExpr{Fun: ast.NewIdent(b.Name()), Args: []ast.Expr{arg}}
			} else if tv.Value != nil && !types.Identical(tv.Type, types.Default(tv.Type)) {
				return skip("constant argument of a named type")
			} else if !types.Identical(tv.Type, pt) {
				if tv.IsNil() {
					// the zero value of the parameter's type is nil: declare it instead of binding
					ts := types.TypeString(pt, func(p *types.Package) string {
						if p == in.pkg.Types {
							return ""
						}
						return p.Name()
					})
					texpr, err := parseTypeExpr(ts)
					if err != nil || !in.typeUsable(file, pt) || nm.Name == "_" {
						return skip("nil argument")
					}
					pre = append(pre, &ast.DeclStmt{Decl: &ast.GenDecl{Tok: token.VAR, Specs: []ast.Spec{&ast.ValueSpec{Names: []*ast.Ident{ast.NewIdent(nm.Name + suffix)}, Type: texpr}}}})
					useAll(nm.Name + suffix)
					ai++
					continue
				} else if in.concreteBindable(fd, nm, pt, tv.Type) {
					// an interface parameter that the helper only calls methods on and hands on to
					// parameters of the same interface type: binding the concrete argument selects the
					// very methods the interface value would dispatch to
				} else {
					return skip("argument type differs from parameter type")
				}
			}
			name := nm.Name
			if name != "_" {
				name += suffix
			}
			lhs = append(lhs, ast.NewIdent(name))
			rhs = append(rhs, a)
			ai++
		}
	}
	if ai != len(call.Args) {
		return skip("argument count")
	}
	allBlank := true
	for _, l := range lhs {
		if l.(*ast.Ident).Name != "_" {
			allBlank = false
		}
	}
	if len(lhs) > 0 {
		tok := token.DEFINE
		if allBlank {
			tok = token.ASSIGN
		}
		pre = append(pre, &ast.AssignStmt{Lhs: lhs, Tok: tok, Rhs: rhs})
		for _, l := range lhs {
			useAll(l.(*ast.Ident).Name)
		}
	}
	// result variables (named results are ordinary locals of the helper)
	var resNames []string
	named := fd.Type.Results != nil && len(fd.Type.Results.List) > 0 && len(fd.Type.Results.List[0].Names) > 0
	// returns
	var rets []*ast.ReturnStmt
	ast.Inspect(body, func(n ast.Node) bool {
		if r, ok := n.(*ast.ReturnStmt); ok {
			rets = append(rets, r)
		}
		return true
	})
	tailOnly := len(rets) == 0
	if len(rets) == 1 && len(body.List) > 0 && body.List[len(body.List)-1] == ast.Stmt(rets[0]) {
		tailOnly = true
	}
	qual := func(p *types.Package) string {
		if p == in.pkg.Types {
			return ""
		}
		return p.Name()
	}
	declResults := func() bool {
		for i := 0; i < sig.Results().Len(); i++ {
			rv := sig.Results().At(i)
			name := fmt.Sprintf("r%d%s", i, suffix)
			if named && rv.Name() != "" && rv.Name() != "_" {
				name = rv.Name() + suffix
			}
			ts := types.TypeString(rv.Type(), qual)
			if !in.typeUsable(file, rv.Type()) {
				return false
			}
			texpr, err := parseTypeExpr(ts)
			if err != nil {
				return false
			}
			pre = append(pre, &ast.DeclStmt{Decl: &ast.GenDecl{Tok: token.VAR, Specs: []ast.Spec{&ast.ValueSpec{Names: []*ast.Ident{ast.NewIdent(name)}, Type: texpr}}}})
			useAll(name)
			resNames = append(resNames, name)
		}
		return true
	}
	resExprs := func() []ast.Expr {
		var out []ast.Expr
		for _, n := range resNames {
			out = append(out, ast.NewIdent(n))
		}
		return out
	}
	var stmts []ast.Stmt
	switch {
	case kind == "return" && !named:
		// the helper's returns are the caller's returns
		stmts = append(pre, body.List...)
		// a helper that can fall off its end has no results; then the caller has none either
		if sig.Results().Len() == 0 {
			stmts = append(stmts, &ast.ReturnStmt{})
		}
	case tailOnly && !named:
		stmts = append(pre, body.List...)
		var results []ast.Expr
		if len(rets) == 1 {
			results = rets[0].Results
			stmts = stmts[:len(stmts)-1]
		}
		switch kind {
		case "expr":
			if len(results) > 0 {
				var blanks []ast.Expr
				for range results {
					blanks = append(blanks, ast.NewIdent("_"))
				}
				if len(results) == 1 && sig.Results().Len() > 1 {
					// return g(): keep the call as a statement
					stmts = append(stmts, &ast.ExprStmt{X: results[0]})
				} else {
					stmts = append(stmts, &ast.AssignStmt{Lhs: blanks, Tok: token.ASSIGN, Rhs: results})
				}
			}
		case "assign":
			stmts = append(stmts, &ast.AssignStmt{Lhs: asg.Lhs, Tok: asg.Tok, Rhs: results})
		case "return":
			stmts = append(stmts, &ast.ReturnStmt{Results: results})
		}
	default:
		if !declResults() {
			return skip("result type cannot be spelled in the caller's file")
		}
		label := "L" + suffix
		// every return → results assigned, leave the single-pass block
		var rewrite func(list []ast.Stmt) []ast.Stmt
		retStmts := func(r *ast.ReturnStmt) []ast.Stmt {
			var o []ast.Stmt
			if len(r.Results) > 0 {
				o = append(o, &ast.AssignStmt{Lhs: resExprs(), Tok: token.ASSIGN, Rhs: r.Results})
			}
			o = append(o, &ast.BranchStmt{Tok: token.BREAK, Label: ast.NewIdent(label)})
			return o
		}
		rewrite = func(list []ast.Stmt) []ast.Stmt {
			var o []ast.Stmt
			for _, s := range list {
				if r, ok := s.(*ast.ReturnStmt); ok {
					o = append(o, retStmts(r)...)
					continue
				}
				o = append(o, s)
			}
			return o
		}
		var fix func(n ast.Node)
		fix = func(n ast.Node) {
			ast.Inspect(n, func(x ast.Node) bool {
				switch s := x.(type) {
				case *ast.BlockStmt:
					s.List = rewrite(s.List)
				case *ast.CaseClause:
					s.Body = rewrite(s.Body)
				case *ast.CommClause:
					s.Body = rewrite(s.Body)
				case *ast.LabeledStmt:
					if r, ok := s.Stmt.(*ast.ReturnStmt); ok {
						s.Stmt = &ast.BlockStmt{List: retStmts(r)}
					}
				case *ast.IfStmt:
					// else-return without braces cannot occur (else takes a block or an if)
				}
				return true
			})
		}
		fix(body)
		inner := append([]ast.Stmt{}, body.List...)
		inner = append(inner, &ast.BranchStmt{Tok: token.BREAK, Label: ast.NewIdent(label)})
		loop := &ast.LabeledStmt{Label: ast.NewIdent(label), Stmt: &ast.ForStmt{Body: &ast.BlockStmt{List: inner}}}
		stmts = append(pre, loop)
		switch kind {
		case "assign":
			stmts = append(stmts, &ast.AssignStmt{Lhs: asg.Lhs, Tok: asg.Tok, Rhs: resExprs()})
		case "return":
			stmts = append(stmts, &ast.ReturnStmt{Results: resExprs()})
		}
	}
	clearPos(stmts)
	in.counts[key]++
	if litVar != nil {
		in.litCalls[litVar]--
	}
	return stmts
}

// typeUsable: every package the type mentions is imported by that file under its own name (or is the file's package).
func (in *inliner) typeUsable(file *ast.File, t types.Type) bool {
	ok := true
	imported := map[string]bool{}
	for _, im := range file.Imports {
		path := strings.Trim(im.Path.Value, `"`)
		if im.Name == nil {
			imported[path] = true
		}
	}
	var walk func(t types.Type, depth int)
	walk = func(t types.Type, depth int) {
		if depth > 6 {
			return
		}
		switch x := t.(type) {
		case *types.Named:
			if p := x.Obj().Pkg(); p != nil && p != in.pkg.Types && !imported[p.Path()] {
				ok = false
			}
			if x.Obj().Parent() != nil && x.Obj().Pkg() != nil && x.Obj().Parent() != x.Obj().Pkg().Scope() {
				ok = false // function-local type
			}
		case *types.Pointer:
			walk(x.Elem(), depth+1)
		case *types.Slice:
			walk(x.Elem(), depth+1)
		case *types.Array:
			walk(x.Elem(), depth+1)
		case *types.Map:
			walk(x.Key(), depth+1)
			walk(x.Elem(), depth+1)
		case *types.Basic:
		default:
			ok = false // struct/func/interface/chan literals: not needed here
		}
	}
	walk(t, 0)
	return ok
}

func parseTypeExpr(s string) (ast.Expr, error) {
	return parser.ParseExpr(s)
}

// deepCopy clones an AST value; identifiers are recorded in back (copy → original).
func deepCopy(v reflect.Value, back map[*ast.Ident]*ast.Ident) reflect.Value {
	switch v.Kind() {
	case reflect.Ptr:
		if v.IsNil() {
			return v
		}
		if _, isObj := v.Interface().(*ast.Object); isObj {
			return reflect.Zero(v.Type())
		}
		if _, isScope := v.Interface().(*ast.Scope); isScope {
			return reflect.Zero(v.Type())
		}
		n := reflect.New(v.Type().Elem())
		n.Elem().Set(deepCopy(v.Elem(), back))
		if id, ok := v.Interface().(*ast.Ident); ok {
			back[n.Interface().(*ast.Ident)] = id
		}
		return n
	case reflect.Interface:
		if v.IsNil() {
			return v
		}
		c := deepCopy(v.Elem(), back)
		n := reflect.New(v.Type()).Elem()
		n.Set(c)
		return n
	case reflect.Struct:
		n := reflect.New(v.Type()).Elem()
		for i := 0; i < v.NumField(); i++ {
			if n.Field(i).CanSet() {
				n.Field(i).Set(deepCopy(v.Field(i), back))
			}
		}
		return n
	case reflect.Slice:
		if v.IsNil() {
			return v
		}
		n := reflect.MakeSlice(v.Type(), v.Len(), v.Len())
		for i := 0; i < v.Len(); i++ {
			n.Index(i).Set(deepCopy(v.Index(i), back))
		}
		return n
	}
	return v
}

// clearPos removes source positions from inserted statements so that the printer lays them out afresh.
func clearPos(stmts []ast.Stmt) {
	var zero func(v reflect.Value, depth int)
	seen := map[uintptr]bool{}
	zero = func(v reflect.Value, depth int) {
		if depth > 200 {
			return
		}
		switch v.Kind() {
		case reflect.Ptr:
			if v.IsNil() || seen[v.Pointer()] {
				return
			}
			// identifiers point back to their declarations (Ident.Obj.Decl): never follow those
			if _, isObj := v.Interface().(*ast.Object); isObj {
				return
			}
			if _, isScope := v.Interface().(*ast.Scope); isScope {
				return
			}
			seen[v.Pointer()] = true
			zero(v.Elem(), depth+1)
		case reflect.Interface:
			if !v.IsNil() {
				zero(v.Elem(), depth+1)
			}
		case reflect.Struct:
			for i := 0; i < v.NumField(); i++ {
				f := v.Field(i)
				if f.Type() == reflect.TypeOf(token.NoPos) && f.CanSet() {
					// keep "present" markers (a non-zero Lparen/Ellipsis/Arrow means something): use 1? no:
					// the printer only needs validity for a few fields
					name := v.Type().Field(i).Name
					switch name {
					case "Ellipsis", "Arrow", "Assign", "Func":
						// validity carries meaning (f(xs...), chan direction, alias, func keyword)
						if f.Int() != 0 {
							continue
						}
					}
					f.SetInt(0)
					continue
				}
				zero(f, depth+1)
			}
		case reflect.Slice:
			for i := 0; i < v.Len(); i++ {
				zero(v.Index(i), depth+1)
			}
		}
	}
	for _, s := range stmts {
		zero(reflect.ValueOf(s), 0)
	}
}

// concreteBindable: parameter nm of helper fd has interface type pt, the argument has the concrete type at
// (which implements pt), and every use of the parameter in the helper's body is the receiver of a method call
// or a direct argument for a parameter of exactly the type pt.
func (in *inliner) concreteBindable(fd *ast.FuncDecl, nm *ast.Ident, pt, at types.Type) bool {
	if _, isI := pt.Underlying().(*types.Interface); !isI || nm.Name == "_" {
		return false
	}
	if _, isI := at.Underlying().(*types.Interface); isI || !types.AssignableTo(at, pt) {
		return false
	}
	info := in.pkg.TypesInfo
	obj := info.Defs[nm]
	if obj == nil {
		return false
	}
	allowed := map[*ast.Ident]bool{}
	ast.Inspect(fd.Body, func(n ast.Node) bool {
		call, isCall := n.(*ast.CallExpr)
		if !isCall {
			return true
		}
		if sel, isSel := call.Fun.(*ast.SelectorExpr); isSel {
			if id, isId := sel.X.(*ast.Ident); isId && info.Uses[id] == obj {
				if s := info.Selections[sel]; s != nil && s.Kind() == types.MethodVal {
					allowed[id] = true
				}
			}
		}
		var sig *types.Signature
		if tv, has := info.Types[call.Fun]; has && !tv.IsType() && !tv.IsBuiltin() && tv.Type != nil {
			sig, _ = tv.Type.Underlying().(*types.Signature)
		}
		if sig != nil && !sig.Variadic() && sig.TypeParams() == nil && sig.Params().Len() == len(call.Args) {
			for i, a := range call.Args {
				if id, isId := a.(*ast.Ident); isId && info.Uses[id] == obj && types.Identical(sig.Params().At(i).Type(), pt) {
					allowed[id] = true
				}
			}
		}
		return true
	})
	ok := true
	ast.Inspect(fd.Body, func(n ast.Node) bool {
		if id, isId := n.(*ast.Ident); isId && info.Uses[id] == obj && !allowed[id] {
			ok = false
		}
		return true
	})
	return ok
}
