package main

// C11: the shape of OSAP's dynamic program and of its edge builder.
// R-DP-LIT, R-DP-MATCH, R-DP-BACK, R-COSTTABLE, R-EDGE-NEAREST, R-SEGCALL.
//
// Optimality itself is a statement about all alternative parses and is not
// decided; these rules decide structural necessary conditions: a shortest
// path computation that does not relax the literal step from every position,
// skips an edge or a length, or an edge builder that does not pair every
// occurrence with its nearest predecessor, cannot be optimal for all inputs.

import (
	"fmt"
	"go/constant"
	"go/token"
	"go/types"
	"sort"
	"strings"

	"golang.org/x/tools/go/ssa"
)

func init() {
	reg(&Rule{ID: "R-DP-LIT", Min: 1,
		Doc: "OSAP DP: at every position i the literal step is relaxed: d[i+a] is replaced by {a, 0, d[i].c + cost(a,0)} under a strict cost comparison, a = 1, executed on every iteration of the position loop",
		Run: ruleDPLit})
	reg(&Rule{ID: "R-DP-MATCH", Min: 6,
		Doc: "OSAP DP: for every edge of position i (the edge loop covers all indexes and no edge is skipped) and every length m from MinMatchLen to min(edge.m, n−i), d[i+m] is relaxed with d[i].c + cost(m, edge.o) under a strict comparison and stores exactly (m, edge.o)",
		Run: ruleDPMatch})
	reg(&Rule{ID: "R-DP-BACK", Min: 3,
		Doc: "OSAP DP: the backtrack starts at n, emits (d[i].m, d[i].o), steps by d[i].m and stops at 0; the position loop covers all n positions of the block",
		Run: ruleDPBack})
	reg(&Rule{ID: "R-COSTTABLE", Min: 3,
		Doc: "the Cost strings accepted by OSAPConfig.Verify are exactly those for which init installs a cost function; the DP uses that one function value for literal and match steps",
		Run: ruleCostTable})
	reg(&Rule{ID: "R-EDGE-NEAREST", Min: 6,
		Doc: "OSAP edge builder: the segment is sorted first; every adjacent pair (j, j−1) is visited; the edge offset is seg[j]−seg[j−1]; the only early exit is the monotone one (slot index < 0); an edge is appended unless its offset exceeds the window or is not smaller than the last stored one; it stores the callback's m",
		Run: ruleEdgeNearest})
	reg(&Rule{ID: "R-SEGCALL", Min: 3,
		Doc: "OSAP calls suffix.Segments with the suffix array and LCP table of the same text, minLen = MinMatchLen and maxLen ≤ MaxMatchLen",
		Run: ruleSegCall})
}

type osapInfo struct {
	p       *Parser
	err     string
	dp      *ssa.Function
	dfi     *FuncInfo
	d       ssa.Value // the DP table (make)
	optT    *types.Struct
	cF      int // cost field
	costF   *types.Var
	builder *ssa.Function
	segCall *ssa.Call
	cl      *ssa.Function
	mk      *ssa.MakeClosure
	posLoop *Loop
	posIdx  ssa.Value // position index i of the position loop
	edgesAt ssa.Value // the per-position edge list q
}

func (c *Ctx) osap() *osapInfo {
	o := &osapInfo{}
	for _, e := range c.emits() {
		if isFieldFlow(e.Offset) {
			if o.p != nil && o.p != e.P {
				o.err = "more than one parser emits stored records"
				return o
			}
			o.p = e.P
		}
	}
	if o.p == nil {
		o.err = "no parser that emits stored (m, o) records (optimizing parser) found"
		return o
	}
	var fns []*ssa.Function
	for fn := range c.reachable(o.p.Parse) {
		if fn.Pkg == c.lz {
			fns = append(fns, fn)
		}
	}
	sort.Slice(fns, func(i, j int) bool { return fns[i].String() < fns[j].String() })
	seg := c.suffix.Func("Segments")
	for _, fn := range fns {
		for _, b := range fn.Blocks {
			for _, in := range b.Instrs {
				switch x := in.(type) {
				case *ssa.MakeSlice:
					if st, ok := x.Type().Underlying().(*types.Slice).Elem().Underlying().(*types.Struct); ok {
						for i := 0; i < st.NumFields(); i++ {
							if bt, isB := st.Field(i).Type().Underlying().(*types.Basic); isB && bt.Kind() == types.Uint64 {
								if o.dp != nil && o.dp != fn {
									o.err = "more than one cost table"
									return o
								}
								o.dp, o.d, o.optT, o.cF = fn, x, st, i
							}
						}
					}
				case *ssa.Call:
					if seg != nil && x.Call.StaticCallee() == seg {
						o.builder, o.segCall = fn, x
						if mc, ok := x.Call.Args[len(x.Call.Args)-1].(*ssa.MakeClosure); ok {
							o.mk = mc
							o.cl, _ = mc.Fn.(*ssa.Function)
						} else if ld, ok := x.Call.Args[len(x.Call.Args)-1].(*ssa.UnOp); ok {
							// f := func…; stored in a local
							_ = ld
						}
					}
				}
			}
		}
	}
	if o.dp == nil {
		o.err = "no cost table (slice of records with a uint64 cost) found in the optimizing parser"
		return o
	}
	o.dfi = c.info(o.dp)
	// cost function field: func-typed field of the parser loaded and called in dp
	for _, b := range o.dp.Blocks {
		for _, in := range b.Instrs {
			if call, ok := in.(*ssa.Call); ok && call.Call.StaticCallee() == nil && !call.Call.IsInvoke() {
				if f := loadedField(call.Call.Value); f != nil {
					if o.costF != nil && o.costF != f {
						o.err = "the DP calls more than one cost function field"
						return o
					}
					o.costF = f
				}
			}
		}
	}
	if o.costF == nil {
		o.err = "the DP does not call a cost function stored in the parser"
		return o
	}
	return o
}

// nLin: the block length n of the DP, by role: the cost table is made with n + 1 entries.
func (o *osapInfo) nLin() Lin {
	if mk, ok := o.d.(*ssa.MakeSlice); ok {
		return o.dfi.lin(mk.Len).addc(-1)
	}
	return o.dfi.lin(o.dp.Params[len(o.dp.Params)-1])
}

func (c *Ctx) osapOrFail(key string) *osapInfo {
	o := c.osap()
	if o.err != "" {
		c.fail(key+":anchor", token.NoPos, "unresolved anchor: %s", o.err)
		return nil
	}
	return o
}

// dLoad: v is a load of field f of d[idx].
func (o *osapInfo) dLoad(v ssa.Value) (idx ssa.Value, field int, ok bool) {
	ld, isLd := stripConv(v).(*ssa.UnOp)
	if !isLd || ld.Op != token.MUL {
		return nil, 0, false
	}
	fa, isFA := ld.X.(*ssa.FieldAddr)
	if !isFA {
		return nil, 0, false
	}
	ia, isIA := fa.X.(*ssa.IndexAddr)
	if !isIA || ia.X != o.d {
		return nil, 0, false
	}
	return ia.Index, fa.Field, true
}

type dStore struct {
	st     *ssa.Store
	idx    ssa.Value
	fields map[int]ssa.Value
}

// dStores: whole-record stores d[idx] = rec{…}.
func (o *osapInfo) dStores() []*dStore {
	var out []*dStore
	for _, b := range o.dp.Blocks {
		for _, in := range b.Instrs {
			st, ok := in.(*ssa.Store)
			if !ok {
				continue
			}
			ia, isIA := st.Addr.(*ssa.IndexAddr)
			if !isIA || ia.X != o.d {
				continue
			}
			ds := &dStore{st: st, idx: ia.Index, fields: map[int]ssa.Value{}}
			if ld, isLd := st.Val.(*ssa.UnOp); isLd && ld.Op == token.MUL {
				if al, isAl := ld.X.(*ssa.Alloc); isAl {
					for _, ref := range *al.Referrers() {
						if fa, isFA := ref.(*ssa.FieldAddr); isFA {
							for _, u := range *fa.Referrers() {
								if s2, isSt := u.(*ssa.Store); isSt && s2.Addr == ssa.Value(fa) {
									ds.fields[fa.Field] = s2.Val
								}
							}
						}
					}
				}
			}
			out = append(out, ds)
		}
	}
	return out
}

// costCall: v is a call of the parser's cost function value.
func (o *osapInfo) costCall(v ssa.Value) *ssa.Call {
	call, ok := v.(*ssa.Call)
	if !ok || call.Call.StaticCallee() != nil || call.Call.IsInvoke() || len(call.Call.Args) != 2 {
		return nil
	}
	if loadedField(call.Call.Value) != o.costF {
		return nil
	}
	return call
}

// sumParts: v = load(d[y].c) + cost(a, b).
func (o *osapInfo) sumParts(v ssa.Value) (y ssa.Value, call *ssa.Call, ok bool) {
	bo, isB := v.(*ssa.BinOp)
	if !isB || bo.Op != token.ADD {
		return nil, nil, false
	}
	for _, pair := range [][2]ssa.Value{{bo.X, bo.Y}, {bo.Y, bo.X}} {
		if idx, f, isD := o.dLoad(pair[0]); isD && f == o.cF {
			if cc := o.costCall(pair[1]); cc != nil {
				return idx, cc, true
			}
		}
	}
	return nil, nil, false
}

// strictlyGuarded: the store block is dominated by sum < load(d[x].c) (or ≤).
func (o *osapInfo) strictlyGuarded(ds *dStore, sum ssa.Value) (strict bool, ok bool) {
	fi := o.dfi
	for _, cd := range fi.condsAt(ds.st.Block()) {
		cd = unNot(cd)
		bo, isB := cd.V.(*ssa.BinOp)
		if !isB {
			continue
		}
		var small, big ssa.Value
		op := bo.Op
		if !cd.True {
			switch op {
			case token.LSS:
				op = token.GEQ
			case token.LEQ:
				op = token.GTR
			case token.GTR:
				op = token.LEQ
			case token.GEQ:
				op = token.LSS
			default:
				continue
			}
		}
		switch op {
		case token.LSS, token.LEQ:
			small, big = bo.X, bo.Y
		case token.GTR, token.GEQ:
			small, big = bo.Y, bo.X
		default:
			continue
		}
		if small != sum {
			continue
		}
		if idx, f, isD := o.dLoad(big); isD && f == o.cF && fi.lin(idx).eq(fi.lin(ds.idx)) {
			return op == token.LSS || op == token.GTR, true
		}
	}
	return false, false
}

// positionLoop finds the loop of the DP that reads the per-position edge
// list: the outermost loop containing a relaxation store.
func (o *osapInfo) positionLoop() (*Loop, ssa.Value) {
	fi := o.dfi
	if o.posLoop != nil {
		return o.posLoop, o.posIdx
	}
	for _, ds := range o.dStores() {
		cv := ds.fields[o.cF]
		if cv == nil {
			continue
		}
		if y, _, ok := o.sumParts(cv); ok {
			l := fi.outerLoopOf(ds.st.Block())
			if l != nil {
				o.posLoop = l
				o.posIdx = y
			}
		}
	}
	return o.posLoop, o.posIdx
}

// ---------------------------------------------------------------- R-DP-LIT

func ruleDPLit(c *Ctx) {
	o := c.osapOrFail("osap")
	if o == nil {
		return
	}
	fi := o.dfi
	name := fnName(o.dp)
	found := false
	var reasons []string
	for _, ds := range o.dStores() {
		cv := ds.fields[o.cF]
		if cv == nil {
			continue
		}
		y, cc, ok := o.sumParts(cv)
		if !ok {
			continue
		}
		if !isConstZero(cc.Call.Args[1]) {
			continue // a match step
		}
		a, isC := constInt(cc.Call.Args[0])
		if !isC || a < 1 {
			reasons = append(reasons, "literal step of non-constant length")
			continue
		}
		// target index = y + a
		if !fi.lin(ds.idx).eq(fi.lin(y).addc(a)) {
			reasons = append(reasons, fmt.Sprintf("literal step from %s stores to %s, expected +%d", fi.lin(y), fi.lin(ds.idx), a))
			continue
		}
		// stored (m, o) = (a, 0)
		good := true
		for f, v := range ds.fields {
			if f == o.cF {
				continue
			}
			k, isK := constInt(v)
			if !isK || !(k == a || k == 0) {
				good = false
			}
		}
		nA, nZ := 0, 0
		for f, v := range ds.fields {
			if f == o.cF {
				continue
			}
			if k, _ := constInt(v); k == a {
				nA++
			} else {
				nZ++
			}
		}
		if !good || nA != 1 || nZ != 1 {
			reasons = append(reasons, "the literal relaxation does not store the record (step, offset 0)")
			continue
		}
		_, guarded := o.strictlyGuarded(ds, cv)
		if !guarded {
			reasons = append(reasons, "the literal relaxation is not guarded by a comparison with the target's current cost")
			continue
		}
		// executed on every iteration of the position loop: the comparison block dominates all latches
		l := fi.outerLoopOf(ds.st.Block())
		if l == nil {
			reasons = append(reasons, "the literal relaxation is not inside the position loop")
			continue
		}
		cmpBlk := ds.st.Block().Idom()
		every := true
		for _, lt := range l.Latches {
			if !(cmpBlk == lt || cmpBlk.Dominates(lt)) {
				every = false
			}
		}
		if !every || fi.loopOf(cmpBlk) != l {
			reasons = append(reasons, "the literal relaxation is not executed for every position (it is nested in an inner loop or bypassed on some iteration)")
			continue
		}
		found = true
		c.ok(name+":literal-step", ds.st.Pos(), "d[i+%d] relaxed with d[i].c + cost(%d,0) under a cost comparison on every position", a, a)
	}
	if !found {
		why := "no store to the cost table combines a loaded entry cost with the literal cost cost(a,0)"
		if len(reasons) > 0 {
			why = strings.Join(reasons, "; ")
		}
		c.fail(name+":literal-step", o.dp.Pos(), "the dynamic program never relaxes a literal step from a position reached by a match (%s): parses of the form match, literal, … are over-priced and cheaper parses are missed", why)
	}
}

// ---------------------------------------------------------------- R-DP-MATCH

func ruleDPMatch(c *Ctx) {
	o := c.osapOrFail("osap")
	if o == nil {
		return
	}
	fi := o.dfi
	name := fnName(o.dp)
	var ms *dStore
	var mcall *ssa.Call
	var ypos ssa.Value
	for _, ds := range o.dStores() {
		cv := ds.fields[o.cF]
		if cv == nil {
			continue
		}
		y, cc, ok := o.sumParts(cv)
		if !ok || isConstZero(cc.Call.Args[1]) {
			continue
		}
		if ms != nil {
			c.fail(name+":match-step", ds.st.Pos(), "more than one match relaxation; shape not recognised")
			return
		}
		ms, mcall, ypos = ds, cc, y
	}
	if ms == nil {
		c.fail(name+":match-step", o.dp.Pos(), "no relaxation d[i+m] = d[i].c + cost(m, o) found")
		return
	}
	mV, oV := stripConv(mcall.Call.Args[0]), stripConv(mcall.Call.Args[1])
	// target index i + m
	c.check(fi.lin(ms.idx).eq(fi.lin(ypos).add(fi.lin(mV))), name+":match-step:target", ms.st.Pos(),
		"target = i + m", fmt.Sprintf("match relaxation from %s with length %s stores to %s", fi.lin(ypos), fi.lin(mV), fi.lin(ms.idx)))
	// stored (m, o)
	nM, nO := 0, 0
	for f, v := range ms.fields {
		if f == o.cF {
			continue
		}
		if stripConv(v) == mV {
			nM++
		} else if stripConv(v) == oV {
			nO++
		}
	}
	c.check(nM == 1 && nO == 1, name+":match-step:record", ms.st.Pos(), "stores exactly the (m, o) that were priced",
		"the record stored by the match relaxation is not the (m, o) pair whose cost was computed: the emitted sequence would differ from the priced one")
	strict, guarded := o.strictlyGuarded(ms, ms.fields[o.cF])
	_ = strict
	c.check(guarded, name+":match-step:guard", ms.st.Pos(), "guarded by a comparison with the target's current cost",
		"the match relaxation overwrites the target without comparing costs")
	// length loop
	mphi, isPhi := mV.(*ssa.Phi)
	lenLoop := fi.loopOf(ms.st.Block())
	if !isPhi || lenLoop == nil || mphi.Block() != lenLoop.Header {
		c.fail(name+":length-loop", ms.st.Pos(), "the priced length is not the induction variable of a loop over all lengths")
		return
	}
	var initV ssa.Value
	stepOK := true
	for k, e := range mphi.Edges {
		if lenLoop.Blocks[mphi.Block().Preds[k]] {
			if !fi.lin(e).eq(fi.lin(mphi).addc(1)) {
				stepOK = false
			}
		} else {
			initV = e
		}
	}
	isMin := false
	if initV != nil {
		l := fi.lin(initV)
		if len(l.t) == 1 && l.c == 0 {
			for a, co := range l.t {
				if co == 1 && strings.HasSuffix(strings.SplitN(a, "@", 2)[0], ".MinMatchLen") {
					isMin = true
				}
			}
		}
	}
	c.check(isMin && stepOK, name+":length-loop:from", mphi.Pos(), "lengths start at MinMatchLen and advance by 1",
		"the length loop does not start at MinMatchLen / step by 1: some admissible match lengths are never priced")
	// bound: stays while m ≤ max with max = min(edge.m, n − i)
	iff, _ := lenLoop.Header.Instrs[len(lenLoop.Header.Instrs)-1].(*ssa.If)
	boundOK := false
	detail := "length loop has no header test"
	var edgePtr ssa.Value
	if iff != nil {
		stay := lenLoop.Blocks[lenLoop.Header.Succs[0]]
		fs := fi.factsOf([]Cond{{iff.Cond, stay}})
		if len(fs) == 1 && fs[0].Op == LE {
			// m − max ≤ 0
			mx := fi.lin(mphi).sub(fs[0].L)
			detail = "bound " + mx.String()
			// max must be min(e.m, lim) with lim = n − i: a two-way phi clamp, the
			// builtin min, or e.m itself where e.m ≤ lim is established
			av := fi.atomValues()
			lim := o.nLin().sub(fi.lin(ypos))
			if len(mx.t) == 1 && mx.c == 0 {
				for a := range mx.t {
					v := av[a]
					if v == nil {
						v = fi.loadAtoms[a]
					}
					var cands []ssa.Value
					var condsPer [][]Cond
					switch x := v.(type) {
					case *ssa.Phi:
						for k, e := range x.Edges {
							cands = append(cands, e)
							condsPer = append(condsPer, fi.edgeConds(x.Block().Preds[k], x.Block()))
						}
					case *ssa.Call:
						if bi, isB := x.Call.Value.(*ssa.Builtin); isB && bi.Name() == "min" && len(x.Call.Args) == 2 {
							// min(a, b) is min by definition; find the edge-length operand
							for _, e := range x.Call.Args {
								if p, _, isFL := fieldLoad(e); isFL && !fi.lin(e).eq(lim) {
									edgePtr = p
								}
							}
							other := false
							for _, e := range x.Call.Args {
								if fi.lin(e).eq(lim) {
									other = true
								}
							}
							if edgePtr != nil && other {
								boundOK = true
							} else {
								detail = "min(…) does not combine an edge length with n − i"
							}
						}
					default:
						if v != nil {
							cands = []ssa.Value{v}
							condsPer = [][]Cond{fi.condsAt(lenLoop.Header)}
						}
					}
					if len(cands) > 0 {
						var em ssa.Value
						good := true
						for k, e := range cands {
							if fi.lin(e).eq(lim) {
								// lim chosen: requires em ≥ lim on this path — checked below once em is known
								continue
							}
							if _, _, isFL := fieldLoad(e); !isFL {
								good = false
								detail = fmt.Sprintf("bound candidate %s is neither an edge length nor n − i", fi.lin(e))
								continue
							}
							em = e
							if !fi.proveLE0(fi.lin(e).sub(lim), condsPer[k], nil, map[string]bool{}, 0) {
								good = false
								detail = fmt.Sprintf("edge length %s is used as bound without being ≤ n − i = %s on that path", fi.lin(e), lim)
							}
						}
						if em == nil {
							good = false
							detail = "no edge length among the bound candidates"
						} else {
							for k, e := range cands {
								if fi.lin(e).eq(lim) && !fi.proveLE0(lim.sub(fi.lin(em)), condsPer[k], nil, map[string]bool{}, 0) {
									good = false
									detail = fmt.Sprintf("n − i is used as bound on a path where edge.m ≥ n − i is not established")
								}
							}
						}
						if good {
							p, _, _ := fieldLoad(em)
							edgePtr = p
							boundOK = true
						}
					}
				}
			}
		}
	}
	c.check(boundOK, name+":length-loop:to", mphi.Pos(), "lengths run to min(edge.m, n − i) inclusive",
		"the length loop does not run to min(edge.m, n − i) inclusive ("+detail+"): the longest admissible lengths are never priced or lengths past the block end are")
	// offset = the same edge's o
	if edgePtr != nil {
		p2, _, isFL := fieldLoad(oV)
		same := isFL && sameElem(fi, p2, edgePtr)
		c.check(same, name+":match-step:offset", mcall.Pos(), "priced offset is the o of the edge whose m bounds the lengths",
			"the priced offset does not come from the edge whose length bounds the loop")
	}
	// edge loop: covers every index of the position's edge list and never skips the length loop
	edgeLoop := (*Loop)(nil)
	for _, l := range fi.loops {
		if l.Blocks[lenLoop.Header] && l != lenLoop && l != fi.outerLoopOf(lenLoop.Header) {
			if edgeLoop == nil || len(l.Blocks) < len(edgeLoop.Blocks) {
				edgeLoop = l
			}
		}
	}
	if edgeLoop == nil {
		c.fail(name+":edge-loop", ms.st.Pos(), "no loop over the edges of a position encloses the length loop")
		return
	}
	skip := false
	for _, lt := range edgeLoop.Latches {
		if !(lenLoop.Header == lt || lenLoop.Header.Dominates(lt)) {
			skip = true
		}
	}
	c.check(!skip, name+":edge-loop:no-skip", edgeLoop.Header.Instrs[0].Pos(), "every edge reaches the length loop (no edge is skipped)",
		"an iteration of the edge loop can bypass the length loop: an edge (e.g. one longer than the rest of the block) is skipped instead of clipped, so its admissible shorter lengths are never priced")
	// coverage of indexes
	cov, why := o.coversAll(edgeLoop, edgePtr)
	c.check(cov, name+":edge-loop:all", edgeLoop.Header.Instrs[0].Pos(), "the edge loop visits every index of the position's edge list", "the edge loop does not visit every edge of the position: "+why)
	// no early exit from the edge loop or the length loop
	early := ""
	for _, l := range []*Loop{edgeLoop, lenLoop} {
		for b := range l.Blocks {
			if b == l.Header {
				continue
			}
			for _, sc := range b.Succs {
				if !l.Blocks[sc] {
					early = fmt.Sprintf("block %d leaves the loop at %s early", b.Index, c.pos(l.Header.Instrs[0].Pos()))
				}
			}
		}
	}
	c.check(early == "", name+":loops:no-break", edgeLoop.Header.Instrs[0].Pos(), "neither the edge loop nor the length loop has an early exit", "early exit: "+early+": remaining edges or lengths are not priced")
}

// sameElem: two pointers address the same slice element (same base value, equal index).
func sameElem(fi *FuncInfo, a, b ssa.Value) bool {
	if a == b {
		return true
	}
	ia, ok1 := a.(*ssa.IndexAddr)
	ib, ok2 := b.(*ssa.IndexAddr)
	return ok1 && ok2 && ia.X == ib.X && fi.lin(ia.Index).eq(fi.lin(ib.Index))
}

// coversAll: the loop's induction variable indexes the edge list q through
// all of 0 … len(q)−1 (descending, ascending or range form).
func (o *osapInfo) coversAll(l *Loop, edgePtr ssa.Value) (bool, string) {
	fi := o.dfi
	ia, ok := edgePtr.(*ssa.IndexAddr)
	if !ok {
		// a local copy of the element (e := q[k]), written once from the element
		if al, isAl := edgePtr.(*ssa.Alloc); isAl {
			var st *ssa.Store
			n := 0
			for _, ref := range *al.Referrers() {
				if x, isSt := ref.(*ssa.Store); isSt && x.Addr == ssa.Value(al) {
					st = x
					n++
				}
			}
			if n == 1 {
				if ld, isLd := st.Val.(*ssa.UnOp); isLd && ld.Op == token.MUL {
					ia, ok = ld.X.(*ssa.IndexAddr)
				}
			}
		}
	}
	if !ok {
		return false, "edge is not an element of a slice"
	}
	q := ia.X
	lq := fi.lenOf(q)
	idx := fi.lin(ia.Index)
	for _, in := range l.Header.Instrs {
		ph, isPhi := in.(*ssa.Phi)
		if !isPhi || !isIntType(ph.Type()) {
			continue
		}
		var initL Lin
		var step int64
		stepSet := false
		for k, e := range ph.Edges {
			if l.Blocks[ph.Block().Preds[k]] {
				d := fi.lin(e).sub(fi.lin(ph))
				if d.isConst() {
					step = d.c
					stepSet = true
				}
			} else {
				initL = fi.lin(e)
			}
		}
		if !stepSet {
			continue
		}
		iff, isIf := l.Header.Instrs[len(l.Header.Instrs)-1].(*ssa.If)
		if !isIf {
			continue
		}
		stay := l.Blocks[l.Header.Succs[0]]
		fs := fi.factsOf([]Cond{{iff.Cond, stay}})
		if len(fs) != 1 || fs[0].Op != LE {
			continue
		}
		switch {
		case step == -1 && idx.eq(fi.lin(ph)):
			// init len−1, stay: −k ≤ 0
			if initL.eq(lq.addc(-1)) && fs[0].L.eq(fi.lin(ph).scale(-1)) {
				return true, ""
			}
			return false, fmt.Sprintf("descending loop from %s while %s", initL, fs[0])
		case step == 1 && idx.eq(fi.lin(ph)):
			if initL.isConst() && initL.c == 0 && fs[0].L.eq(fi.lin(ph).addc(1).sub(lq)) {
				return true, ""
			}
			return false, fmt.Sprintf("ascending loop from %s while %s", initL, fs[0])
		case step == 1 && idx.eq(fi.lin(ph).addc(1)):
			// range form: phi from −1, index = phi+1, stay: phi+1 < len
			if initL.isConst() && initL.c == -1 && fs[0].L.eq(fi.lin(ph).addc(2).sub(lq)) {
				return true, ""
			}
			return false, fmt.Sprintf("range loop from %s while %s", initL, fs[0])
		}
	}
	return false, "no induction variable indexing the edge list found"
}

// ---------------------------------------------------------------- R-DP-BACK

// walkCoversPath: the loop of Parse that turns the path into sequences visits every element of the path slice:
// its index starts at len(path) − 1, steps by −1, and the loop is left only with the index below 0.
func (c *Ctx) walkCoversPath(o *osapInfo) {
	parse := o.p.Parse
	fi := c.info(parse)
	for _, e := range c.emitsIn(parse) {
		l := fi.loopOf(e.Block)
		if l == nil {
			continue
		}
		key := e.Key + ":walk-all"
		// the path slice: the base of an element load F[j] in the loop with j a header φ
		ok := false
		why := "no index φ over the path slice found in the loop of the emission"
		for _, in := range l.Header.Instrs {
			ph, isPhi := in.(*ssa.Phi)
			if !isPhi {
				break
			}
			if !isIntType(ph.Type()) {
				continue
			}
			var base ssa.Value
			for b := range l.Blocks {
				for _, bin := range b.Instrs {
					if ia, isIA := bin.(*ssa.IndexAddr); isIA && stripConv(ia.Index) == ssa.Value(ph) {
						base = ia.X
					}
				}
			}
			if base == nil {
				continue
			}
			okInit, okStep := false, true
			for i, p := range l.Header.Preds {
				if l.Blocks[p] {
					if !fi.lin(ph.Edges[i]).eq(linAtom(ph.Name()).addc(-1)) {
						okStep = false
					}
				} else if fi.lin(ph.Edges[i]).eq(fi.lenOf(base).addc(-1)) {
					okInit = true
				}
			}
			// left only below 0: on every exit edge of the header the conditions contradict φ ≥ 0
			okExit := true
			nExit := 0
			for _, sc := range l.Header.Succs {
				if l.Blocks[sc] {
					continue
				}
				nExit++
				if !fi.refute(fi.edgeConds(l.Header, sc), []Fact{{linAtom(ph.Name()).scale(-1), LE}}, 0) {
					okExit = false
				}
			}
			if okInit && okStep && okExit && nExit > 0 {
				ok = true
			} else {
				why = fmt.Sprintf("the walk over the path does not cover it (starts at len−1: %v, steps by −1: %v, left only below 0: %v)", okInit, okStep, okExit && nExit > 0)
			}
		}
		c.check(ok, key, e.Pos, "the loop that emits the path visits every element of it (index from len−1 down to 0)", why+": a step of the minimum-cost path that is not visited is not emitted — its bytes become trailing literals and the block is no longer a minimum-cost parse")
	}
}

func ruleDPBack(c *Ctx) {
	o := c.osapOrFail("osap")
	if o == nil {
		return
	}
	c.walkCoversPath(o)
	fi := o.dfi
	name := fnName(o.dp)
	// backtrack loop: header phi i with init n, back value i − load(d[i].F)
	var bl *Loop
	var iphi *ssa.Phi
	mF := -1
	for _, l := range fi.loops {
		for _, in := range l.Header.Instrs {
			ph, ok := in.(*ssa.Phi)
			if !ok || !isIntType(ph.Type()) {
				continue
			}
			for k, e := range ph.Edges {
				if !l.Blocks[ph.Block().Preds[k]] {
					continue
				}
				bo, isB := stripConv(e).(*ssa.BinOp)
				if !isB || bo.Op != token.SUB || stripConv(bo.X) != ssa.Value(ph) {
					continue
				}
				if idx, f, isD := o.dLoad(bo.Y); isD && stripConv(idx) == ssa.Value(ph) {
					bl, iphi, mF = l, ph, f
				}
			}
		}
	}
	if bl == nil {
		c.fail(name+":backtrack", o.dp.Pos(), "no backtrack loop i -= d[i].m found")
		return
	}
	// init = n
	initOK := false
	for k, e := range iphi.Edges {
		if !bl.Blocks[iphi.Block().Preds[k]] && fi.lin(e).eq(o.nLin()) {
			initOK = true
		}
	}
	c.check(initOK, name+":backtrack:start", iphi.Pos(), "backtrack starts at the block end n", "backtrack does not start at n")
	// stay while i != 0
	iff, _ := bl.Header.Instrs[len(bl.Header.Instrs)-1].(*ssa.If)
	stopOK := false
	if iff != nil {
		stay := bl.Blocks[bl.Header.Succs[0]]
		fs := fi.factsOf([]Cond{{iff.Cond, stay}})
		if len(fs) == 1 && (fs[0].Op == NE && (fs[0].L.eq(fi.lin(iphi)) || fs[0].L.eq(fi.lin(iphi).scale(-1))) ||
			fs[0].Op == LE && fs[0].L.eq(fi.lin(iphi).scale(-1).addc(1))) {
			stopOK = true
		}
	}
	c.check(stopOK, name+":backtrack:stop", iphi.Pos(), "backtrack stops exactly at position 0", "backtrack does not run until position 0")
	// appended record = (d[i].m, d[i].o)
	recOK := false
	for b := range bl.Blocks {
		for _, in := range b.Instrs {
			call := isBuiltinCall(in, "append")
			if call == nil {
				continue
			}
			sl, ok := call.Call.Args[1].(*ssa.Slice)
			if !ok {
				continue
			}
			arr, ok := sl.X.(*ssa.Alloc)
			if !ok {
				continue
			}
			for _, ref := range *arr.Referrers() {
				ia, isIA := ref.(*ssa.IndexAddr)
				if !isIA {
					continue
				}
				for _, u := range *ia.Referrers() {
					st, isSt := u.(*ssa.Store)
					if !isSt {
						continue
					}
					ld, isLd := st.Val.(*ssa.UnOp)
					if !isLd {
						continue
					}
					al, isAl := ld.X.(*ssa.Alloc)
					if !isAl {
						continue
					}
					seenM, seenO, bad := false, false, false
					for _, r2 := range *al.Referrers() {
						fa, isFA := r2.(*ssa.FieldAddr)
						if !isFA {
							continue
						}
						for _, u2 := range *fa.Referrers() {
							s2, isS2 := u2.(*ssa.Store)
							if !isS2 || s2.Addr != ssa.Value(fa) {
								continue
							}
							idx, f, isD := o.dLoad(s2.Val)
							if !isD || stripConv(idx) != ssa.Value(iphi) {
								bad = true
								continue
							}
							if f == mF {
								seenM = true
							} else if f != o.cF {
								seenO = true
							}
						}
					}
					if seenM && seenO && !bad {
						recOK = true
					}
				}
			}
		}
	}
	c.check(recOK, name+":backtrack:record", iphi.Pos(), "each backtrack step appends (d[i].m, d[i].o) of the current position", "the backtrack does not append the (m, o) stored for the current position")
	// position loop covers positions 0 … n−1: a range loop over a slice of length n
	pl, pidx := o.positionLoop()
	covOK := false
	detail := "position loop not found"
	if pl != nil && pidx != nil {
		// index = rangeindex phi + 1 from −1 while < len(X) with len(X) = n
		for _, in := range pl.Header.Instrs {
			ph, ok := in.(*ssa.Phi)
			if !ok || !isIntType(ph.Type()) {
				continue
			}
			iff, isIf := pl.Header.Instrs[len(pl.Header.Instrs)-1].(*ssa.If)
			if !isIf {
				continue
			}
			stay := pl.Blocks[pl.Header.Succs[0]]
			fs := fi.factsOf([]Cond{{iff.Cond, stay}})
			if len(fs) != 1 || fs[0].Op != LE {
				continue
			}
			var initL Lin
			step := false
			for k, e := range ph.Edges {
				if pl.Blocks[ph.Block().Preds[k]] {
					step = fi.lin(e).eq(fi.lin(ph).addc(1))
				} else {
					initL = fi.lin(e)
				}
			}
			if !step {
				continue
			}
			n := o.nLin()
			pi := fi.lin(pidx)
			// forms: (idx = ph+1, init −1, stay ph+2−n ≤ 0) or (idx = ph, init 0, stay ph+1−n ≤ 0)
			if pi.eq(fi.lin(ph).addc(1)) && initL.isConst() && initL.c == -1 && fs[0].L.eq(fi.lin(ph).addc(2).sub(n)) {
				covOK = true
			} else if pi.eq(fi.lin(ph)) && initL.isConst() && initL.c == 0 && fs[0].L.eq(fi.lin(ph).addc(1).sub(n)) {
				covOK = true
			} else {
				detail = fmt.Sprintf("position index %s, start %s, continues while %s (n = %s)", pi, initL, fs[0], n)
			}
		}
	}
	c.check(covOK, name+":positions", o.dp.Pos(), "the position loop covers 0 … n−1", "the position loop does not cover all positions 0 … n−1 of the block: "+detail)
}

// ---------------------------------------------------------------- R-COSTTABLE

// stringCases: string constants compared for equality with a load of the
// named field in fn, with the block reached when equal.
func (c *Ctx) stringCases(fn *ssa.Function, field string) map[string]*ssa.BasicBlock {
	out := map[string]*ssa.BasicBlock{}
	for _, b := range fn.Blocks {
		iff, ok := b.Instrs[len(b.Instrs)-1].(*ssa.If)
		if !ok {
			continue
		}
		bo, ok := iff.Cond.(*ssa.BinOp)
		if !ok || bo.Op != token.EQL {
			continue
		}
		for _, pr := range [][2]ssa.Value{{bo.X, bo.Y}, {bo.Y, bo.X}} {
			k, isK := pr[1].(*ssa.Const)
			if !isK || k.Value == nil || k.Value.Kind() != constant.String {
				continue
			}
			if f := loadedField(pr[0]); f != nil && f.Name() == field {
				out[constant.StringVal(k.Value)] = b.Succs[0]
			}
		}
	}
	return out
}

func ruleCostTable(c *Ctx) {
	o := c.osapOrFail("osap")
	if o == nil {
		return
	}
	// C11 fixes one value of the cost function: a literal (offset 0) costs 9 bits. In the exported cost function
	// (two uint32 parameters, the second the offset) every return under offset == 0 returns 9·m (m the first parameter), and
	// there is such a return.
	if xz := c.lzFunc("XZCost"); xz != nil && len(xz.Params) == 2 {
		xfi := c.info(xz)
		n9, bad := 0, ""
		for _, b := range xz.Blocks {
			r, ok := b.Instrs[len(b.Instrs)-1].(*ssa.Return)
			if !ok || len(r.Results) != 1 {
				continue
			}
			zero := false
			for _, w := range xfi.flagWays(b) {
				for _, cd := range w {
					u := unNot(cd)
					if bo, isBo := u.V.(*ssa.BinOp); isBo && (bo.Op == token.EQL || bo.Op == token.NEQ) {
						if (bo.X == ssa.Value(xz.Params[1]) && isConstZero(bo.Y)) || (bo.Y == ssa.Value(xz.Params[1]) && isConstZero(bo.X)) {
							if (bo.Op == token.EQL) == u.True {
								zero = true
							}
						}
					}
				}
			}
			if !zero {
				continue
			}
			if xfi.lin(r.Results[0]).eq(xfi.lin(xz.Params[0]).scale(9)) {
				n9++
			} else {
				bad = c.pos(r.Pos())
			}
		}
		c.check(n9 > 0 && bad == "", "lz.XZCost:literal-9", xz.Pos(), "a run of m literals (offset 0) costs 9·m bits", "XZCost does not return 9·m for offset 0 on every way (C11: XZCost(1,0) = 9 bits per literal): the DP weighs literals against matches with another price than the property names")
	}
	if o.p.Cfg == nil {
		c.fail("osap:cost-table", token.NoPos, "config type of the optimizing parser not found")
		return
	}
	verify := c.method(o.p.Cfg, "Verify")
	var initFn *ssa.Function
	for _, fn := range c.allFuncs {
		if fn.Signature.Recv() != nil && fn.Name() == "init" {
			if pt, ok := fn.Signature.Recv().Type().(*types.Pointer); ok && types.Identical(pt.Elem(), o.p.T) {
				initFn = fn
			}
		}
	}
	// any function storing to the cost field
	var setters []*ssa.Function
	for _, fn := range c.allFuncs {
		for _, b := range fn.Blocks {
			for _, in := range b.Instrs {
				if st, ok := in.(*ssa.Store); ok && fieldOfAddr(st.Addr) == o.costF {
					if len(setters) == 0 || setters[len(setters)-1] != fn {
						setters = append(setters, fn)
					}
				}
			}
		}
	}
	if verify == nil || len(setters) != 1 {
		c.fail("osap:cost-table", token.NoPos, "Verify of the config or the unique function installing the cost function not found (%d setters)", len(setters))
		return
	}
	if initFn == nil {
		initFn = setters[0]
	}
	set := setters[0]
	vfi := c.info(verify)
	// accepted strings: cases whose target does not lead to a failure return only
	accepted := map[string]bool{}
	for s, blk := range c.stringCases(verify, "Cost") {
		// accepted if a success return is reachable from blk
		succ := false
		for _, b := range verify.Blocks {
			if r, ok := b.Instrs[len(b.Instrs)-1].(*ssa.Return); ok && !c.isFailureReturn(vfi, r) && (b == blk || vfi.reach[blk][b]) {
				succ = true
			}
		}
		if succ {
			accepted[s] = true
		}
	}
	// default branch must reject: from the last comparison's false successor no success return is reachable…
	// decided by: every success return of Verify is reachable only through an equal-branch
	defReject := true
	cases := c.stringCases(verify, "Cost")
	if len(cases) == 0 {
		defReject = false
	}
	for _, b := range verify.Blocks {
		r, ok := b.Instrs[len(b.Instrs)-1].(*ssa.Return)
		if !ok || c.isFailureReturn(vfi, r) {
			continue
		}
		dom := false
		for _, blk := range cases {
			if blk == b || blk.Dominates(b) || vfi.reach[blk][b] {
				dom = true
			}
		}
		// is there a path to b avoiding all case targets?  approximate: b must not be reachable when all equal-tests fail
		pruned := func(p, s *ssa.BasicBlock) bool {
			for _, blk := range cases {
				if s == blk {
					if iff, ok := p.Instrs[len(p.Instrs)-1].(*ssa.If); ok {
						if bo, ok := iff.Cond.(*ssa.BinOp); ok && bo.Op == token.EQL && p.Succs[0] == s {
							return true
						}
					}
				}
			}
			return false
		}
		if !dom || c.reachableUnder(verify, b, pruned) {
			defReject = false
		}
	}
	c.check(defReject, fnName(verify)+":cost:default", verify.Pos(), "Verify succeeds only for an enumerated Cost string", "Verify can succeed for a Cost string that is not one of the enumerated cases")
	installed := map[string]bool{}
	for s, blk := range c.stringCases(set, "Cost") {
		// a store of a non-nil function to the cost field in blk (or dominated by it)
		for _, b := range set.Blocks {
			if !(b == blk || blk.Dominates(b)) {
				continue
			}
			for _, in := range b.Instrs {
				if st, ok := in.(*ssa.Store); ok && fieldOfAddr(st.Addr) == o.costF {
					if k, isK := st.Val.(*ssa.Const); isK && k.Value == nil {
						continue
					}
					installed[s] = true
				}
			}
		}
	}
	var acc, inst []string
	for s := range accepted {
		acc = append(acc, s)
	}
	for s := range installed {
		inst = append(inst, s)
	}
	sort.Strings(acc)
	sort.Strings(inst)
	c.check(len(acc) > 0 && strings.Join(acc, ",") == strings.Join(inst, ","), fnName(set)+":cost:cases", set.Pos(),
		fmt.Sprintf("accepted Cost strings %v = installed cost functions %v", acc, inst),
		fmt.Sprintf("Verify accepts Cost strings %v but %s installs a cost function for %v: a parser with a nil or stale cost function can be created", acc, fnName(set), inst))
	c.ok(fnName(o.dp)+":cost:single", o.dp.Pos(), "literal and match steps are priced by the same function value (%s)", o.costF.Name())
}

// ---------------------------------------------------------------- R-EDGE-NEAREST

func ruleEdgeNearest(c *Ctx) {
	o := c.osapOrFail("osap")
	if o == nil {
		return
	}
	if o.cl == nil || o.builder == nil {
		c.fail("osap:edge-builder", token.NoPos, "the callback passed to suffix.Segments is not a closure literal of the edge builder")
		return
	}
	cl := o.cl
	fi := c.info(cl)
	name := fnName(cl)
	seg := cl.Params[1]
	mParam := cl.Params[0]
	// sorted first
	var sortCall *ssa.Call
	for _, b := range cl.Blocks {
		for _, in := range b.Instrs {
			if call, ok := in.(*ssa.Call); ok && call.Call.StaticCallee() != nil && len(call.Call.Args) >= 1 && call.Call.Args[0] == ssa.Value(seg) {
				callee := call.Call.StaticCallee()
				pk := ""
				if callee.Pkg != nil {
					pk = callee.Pkg.Pkg.Path()
				} else if callee.Origin() != nil && callee.Origin().Pkg != nil {
					pk = callee.Origin().Pkg.Pkg.Path()
				}
				if (strings.HasSuffix(pk, "slices") || pk == "sort") && strings.HasPrefix(callee.Name(), "Sort") && len(call.Call.Args) == 1 {
					sortCall = call
				}
			}
		}
	}
	var loop *Loop
	if len(fi.loops) > 0 {
		loop = fi.loops[0]
	}
	if loop == nil {
		c.fail(name+":loop", cl.Pos(), "no loop over the segment")
		return
	}
	c.check(sortCall != nil && (sortCall.Block() == loop.Header || sortCall.Block().Dominates(loop.Header)), name+":sorted", cl.Pos(),
		"the segment is sorted ascending (slices.Sort) before the pairs are formed", "the segment is not sorted by position before adjacent pairs are formed: predecessors would not be the nearest earlier occurrences")
	// induction j: init len−1, step −1, stay j > 0
	var jphi *ssa.Phi
	for _, in := range loop.Header.Instrs {
		if ph, ok := in.(*ssa.Phi); ok && isIntType(ph.Type()) {
			jphi = ph
		}
	}
	if jphi == nil {
		c.fail(name+":pairs", cl.Pos(), "no induction variable")
		return
	}
	lseg := fi.lenOf(seg)
	var initL Lin
	var step int64
	for k, e := range jphi.Edges {
		if loop.Blocks[jphi.Block().Preds[k]] {
			if d := fi.lin(e).sub(fi.lin(jphi)); d.isConst() {
				step = d.c
			}
		} else {
			initL = fi.lin(e)
		}
	}
	iff, _ := loop.Header.Instrs[len(loop.Header.Instrs)-1].(*ssa.If)
	pairsOK := false
	detail := ""
	if iff != nil {
		stay := loop.Blocks[loop.Header.Succs[0]]
		fs := fi.factsOf([]Cond{{iff.Cond, stay}})
		if len(fs) == 1 && fs[0].Op == LE {
			j := fi.lin(jphi)
			switch {
			case step == -1 && initL.eq(lseg.addc(-1)) && fs[0].L.eq(j.scale(-1).addc(1)):
				pairsOK = true // j = len−1 … 1
			case step == 1 && initL.isConst() && initL.c == 1 && fs[0].L.eq(j.addc(1).sub(lseg)):
				pairsOK = true // j = 1 … len−1
			default:
				detail = fmt.Sprintf("j from %s step %d while %s", initL, step, fs[0])
			}
		}
	}
	c.check(pairsOK, name+":pairs", jphi.Pos(), "every adjacent pair (j, j−1), j = 1 … len−1, is visited", "not every adjacent pair of the sorted segment is visited ("+detail+"): some occurrences get no edge to their predecessor")
	// the appended edge
	var app *ssa.Call
	for b := range loop.Blocks {
		for _, in := range b.Instrs {
			if call := isBuiltinCall(in, "append"); call != nil {
				app = call
			}
		}
	}
	if app == nil {
		c.fail(name+":append", cl.Pos(), "no edge is appended")
		return
	}
	// decode edge{m, o}
	var mv, ov ssa.Value
	if sl, ok := app.Call.Args[1].(*ssa.Slice); ok {
		if arr, ok := sl.X.(*ssa.Alloc); ok {
			for _, ref := range *arr.Referrers() {
				if ia, isIA := ref.(*ssa.IndexAddr); isIA {
					for _, u := range *ia.Referrers() {
						if st, isSt := u.(*ssa.Store); isSt {
							if ld, isLd := st.Val.(*ssa.UnOp); isLd {
								if al, isAl := ld.X.(*ssa.Alloc); isAl {
									for _, r2 := range *al.Referrers() {
										if fa, isFA := r2.(*ssa.FieldAddr); isFA {
											for _, u2 := range *fa.Referrers() {
												if s2, isS2 := u2.(*ssa.Store); isS2 && s2.Addr == ssa.Value(fa) {
													if stripConv(s2.Val) == ssa.Value(mParam) {
														mv = s2.Val
													} else {
														ov = s2.Val
													}
												}
											}
										}
									}
								}
							}
						}
					}
				}
			}
		}
	}
	c.check(mv != nil, name+":edge:m", app.Pos(), "the edge length is the callback's m", "the appended edge does not carry the callback's m")
	// o = seg[j] − seg[j−1]
	offOK := false
	var posLoad ssa.Value
	if ov != nil {
		if bo, ok := stripConv(ov).(*ssa.BinOp); ok && bo.Op == token.SUB {
			x, okx := segLoad(bo.X, seg)
			y, oky := segLoad(bo.Y, seg)
			if okx && oky && fi.lin(x).eq(fi.lin(jphi)) && fi.lin(y).eq(fi.lin(jphi).addc(-1)) {
				offOK = true
				posLoad = bo.X
			}
		}
	}
	c.check(offOK, name+":edge:o", app.Pos(), "edge offset = seg[j] − seg[j−1] (nearest earlier occurrence in the sorted segment)",
		"the edge offset is not the distance between ADJACENT elements seg[j] − seg[j−1] of the sorted segment: a farther (more expensive) occurrence is used")
	// slot index = seg[j] + w
	slotOK := false
	if st := storeOfAppend(app); st != nil && posLoad != nil {
		if ia, ok := st.Addr.(*ssa.IndexAddr); ok {
			idx := fi.lin(ia.Index)
			d := idx.sub(fi.lin(stripConv(posLoad)))
			if len(d.t) == 1 {
				slotOK = true
			}
		} else if ld, ok := st.Addr.(*ssa.UnOp); ok {
			_ = ld
		}
	}
	c.check(slotOK, name+":edge:slot", app.Pos(), "the edge is appended to the list of position seg[j] (+ constant base)", "the edge is not appended to the list of the later position seg[j]")
	// early exits: only under slot index < 0
	exitOK := true
	detail = ""
	nExit := 0
	for b := range loop.Blocks {
		if b == loop.Header {
			continue
		}
		for _, sc := range b.Succs {
			if loop.Blocks[sc] {
				continue
			}
			nExit++
			cs := condsMinus(fi.edgeConds(b, sc), fi.condsAt(loop.Header))
			// must entail seg[j] + w + 1 ≤ 0 for the slot index
			good := false
			if st := storeOfAppend(app); st != nil {
				if ia, ok := st.Addr.(*ssa.IndexAddr); ok {
					if fi.proveLE0(fi.lin(ia.Index).addc(1), cs, nil, map[string]bool{}, 0) {
						good = true
					}
				}
			}
			if !good {
				exitOK = false
				detail = fmt.Sprintf("exit from block %d under %s", b.Index, factStrings(fi.factsOf(cs)))
			}
		}
	}
	c.check(exitOK, name+":early-exit", cl.Pos(), fmt.Sprintf("the pair loop is left early only when the slot index is negative (monotone in the sorted order); %d early exits", nExit),
		"the pair loop is left early on a condition that is not monotone in the sorted order ("+detail+"): all earlier occurrences of the segment lose their edge")
	// skip conditions: append reached unless o > WindowSize or last.o ≤ o
	// every in-loop edge that bypasses the append from the body must carry one of the two reasons
	appBlk := app.Block()
	skipOK := true
	detail = ""
	for b := range loop.Blocks {
		if b == loop.Header || b == appBlk {
			continue
		}
		iffb, ok := b.Instrs[len(b.Instrs)-1].(*ssa.If)
		if !ok {
			continue
		}
		_ = iffb
		for _, sc := range b.Succs {
			if !loop.Blocks[sc] {
				continue
			}
			// successor from which the append is no longer reachable within this iteration
			if sc == appBlk || fi.reachAvoid(sc, loop.Header)[appBlk] {
				continue
			}
			if !fi.reachAvoid(b, loop.Header)[appBlk] {
				continue // already past the append
			}
			cs := fi.edgeLast(b, sc)
			fs := fi.factsOf(cs)
			good := false
			if len(fs) == 1 && fs[0].Op == LE && ov != nil {
				ol := fi.lin(stripConv(ov))
				// o > WindowSize:  W − o + 1 ≤ 0
				for _, w := range c.winAtoms(fi) {
					if fs[0].L.eq(linAtom(w).sub(ol).addc(1)) {
						good = true
					}
				}
				// last.o ≤ o: last − o ≤ 0 where last is a load of field o of the last element of the slot list
				rest := fs[0].L.add(ol)
				if len(rest.t) == 1 && rest.c == 0 {
					av := fi.atomValues()
					for a, co := range rest.t {
						if co != 1 {
							continue
						}
						if v, ok := av[a]; ok {
							if p, _, isFL := fieldLoad(v); isFL {
								if ia, isIA := p.(*ssa.IndexAddr); isIA && fi.lin(ia.Index).eq(fi.lenOf(ia.X).addc(-1)) {
									good = true
								}
							}
						}
					}
				}
			}
			if !good {
				skipOK = false
				detail = fmt.Sprintf("block %d skips the append under %s", b.Index, factStrings(fs))
			}
		}
	}
	c.check(skipOK, name+":skip", app.Pos(), "a pair is dropped only when its offset exceeds the window or is not smaller than the last edge stored for the position",
		"a pair can be dropped for another reason ("+detail+"): a usable nearest occurrence is lost")
}

func segLoad(v ssa.Value, seg ssa.Value) (idx ssa.Value, ok bool) {
	ld, isLd := stripConv(v).(*ssa.UnOp)
	if !isLd || ld.Op != token.MUL {
		return nil, false
	}
	ia, isIA := ld.X.(*ssa.IndexAddr)
	if !isIA || ia.X != seg {
		return nil, false
	}
	return ia.Index, true
}

// storeOfAppend: the store that writes the append result back.
func storeOfAppend(app *ssa.Call) *ssa.Store {
	for _, ref := range *app.Referrers() {
		if st, ok := ref.(*ssa.Store); ok && st.Val == ssa.Value(app) {
			return st
		}
	}
	return nil
}

// ---------------------------------------------------------------- R-SEGCALL

func ruleSegCall(c *Ctx) {
	o := c.osapOrFail("osap")
	if o == nil {
		return
	}
	if o.segCall == nil {
		c.fail("osap:segments-call", token.NoPos, "no call of suffix.Segments")
		return
	}
	fi := c.info(o.builder)
	name := fnName(o.builder)
	call := o.segCall
	args := call.Call.Args
	// minLen = MinMatchLen
	mn := fi.lin(args[2])
	isMin := len(mn.t) == 1 && mn.c == 0
	for a, co := range mn.t {
		if co != 1 || !strings.HasSuffix(strings.SplitN(a, "@", 2)[0], ".MinMatchLen") {
			isMin = false
		}
	}
	c.check(isMin, name+":segments:minLen", call.Pos(), "minLen = MinMatchLen", "suffix.Segments is not called with minLen = MinMatchLen ("+mn.String()+"): groups of admissible match lengths are not reported or shorter ones are")
	// maxLen ≤ MaxMatchLen
	okMax := false
	for _, a := range fi.atomsWithSuffix(".MaxMatchLen") {
		if fi.proveAt(fi.lin(args[3]).sub(linAtom(a)), call.Block(), nil) {
			okMax = true
		}
	}
	c.check(okMax, name+":segments:maxLen", call.Pos(), "maxLen ≤ MaxMatchLen on every path (clamp)", "the maxLen passed to suffix.Segments is not clamped by MaxMatchLen: edges longer than MaxMatchLen can be created")
	// sa and lcp belong together: lcp filled by suffix.LCP(t, sa, …, lcp) and sa by suffix.Sort(t, sa) for the same t
	var t1, t2 ssa.Value
	okPair := false
	for _, b := range o.builder.Blocks {
		for _, in := range b.Instrs {
			cc, ok := in.(*ssa.Call)
			if !ok || cc.Call.StaticCallee() == nil || cc.Call.StaticCallee().Pkg != c.suffix {
				continue
			}
			switch cc.Call.StaticCallee().Name() {
			case "Sort":
				if cc.Call.Args[1] == args[0] {
					t1 = cc.Call.Args[0]
				}
			case "LCP":
				if cc.Call.Args[3] == args[1] && cc.Call.Args[1] == args[0] {
					t2 = cc.Call.Args[0]
				}
			}
		}
	}
	if t1 != nil && t1 == t2 {
		okPair = true
	}
	c.check(okPair, name+":segments:tables", call.Pos(), "sa = Sort(t), lcp = LCP(t, sa) for the same text t", "the suffix array and LCP table passed to suffix.Segments are not computed from the same text")
	// the builder returns in front of the Segments call only when there is no data: on every return that the call
	// does not dominate the conditions contradict len(data) ≥ 1 for a []byte the function reads
	var datas []Lin
	for _, b := range o.builder.Blocks {
		for _, in := range b.Instrs {
			if ld, ok := in.(*ssa.UnOp); ok && ld.Op == token.MUL && isByteSlice(ld.Type()) {
				if f := fieldOfAddr(ld.X); f != nil && f.Name() == "Data" {
					datas = appendLin(datas, fi.lenOf(ld))
				}
			}
		}
	}
	okEarly := true
	nEarly := 0
	for _, b := range o.builder.Blocks {
		if _, isRet := b.Instrs[len(b.Instrs)-1].(*ssa.Return); !isRet {
			continue
		}
		if call.Block() == b || call.Block().Dominates(b) {
			continue
		}
		nEarly++
		refuted := false
		for _, dl := range datas {
			all := true
			for _, w := range fi.flagWays(b) {
				if !fi.refute(w, []Fact{{linConst(1).sub(dl), LE}}, 0) {
					all = false
				}
			}
			if all {
				refuted = true
			}
		}
		if !refuted {
			okEarly = false
		}
	}
	c.check(okEarly, name+":segments:reached", call.Pos(), fmt.Sprintf("the edge builder returns without calling suffix.Segments only for empty data (%d early return(s))", nEarly),
		"the edge builder can return in front of the suffix.Segments call although there is data: no edges, every block is emitted as literals (not a minimum-cost parse, runs stay uncompressed)")
	// maxLen is the maximum of the LCP table (clamped): a φ of a loop that ranges over the very table passed to
	// Segments and takes the element whenever it exceeds the φ
	okScan := false
	var walkMax func(v ssa.Value, d int)
	walkMax = func(v ssa.Value, d int) {
		if d > 6 || okScan {
			return
		}
		switch x := stripConv(v).(type) {
		case *ssa.Phi:
			if l := fi.loopOf(x.Block()); l != nil && l.Header == x.Block() {
				for i, p := range x.Block().Preds {
					if !l.Blocks[p] {
						continue
					}
					// the back-edge value: φ(x, elem) taken under elem > x, elem an element of args[1]
					for _, lf := range mergeLeaves(x.Edges[i]) {
						el, isLd := stripConv(lf.V).(*ssa.UnOp)
						if !isLd || el.Op != token.MUL {
							continue
						}
						ia, isIA := el.X.(*ssa.IndexAddr)
						if !isIA || ia.X != args[1] {
							continue
						}
						from := lf.Pred
						if from == nil {
							from = p
						}
						for _, cd := range fi.condsAt(from) {
							u := unNot(cd)
							if bo, isBo := u.V.(*ssa.BinOp); isBo {
								gt := (bo.Op == token.GTR && bo.X == ssa.Value(el) && bo.Y == ssa.Value(x) && u.True) ||
									(bo.Op == token.LSS && bo.Y == ssa.Value(el) && bo.X == ssa.Value(x) && u.True) ||
									(bo.Op == token.GEQ && bo.X == ssa.Value(el) && bo.Y == ssa.Value(x) && u.True)
								if gt {
									okScan = true
								}
							}
						}
					}
				}
			}
			for _, e := range x.Edges {
				if e != ssa.Value(x) {
					walkMax(e, d+1)
				}
			}
		case *ssa.Call:
			if bi, isB := x.Call.Value.(*ssa.Builtin); isB && (bi.Name() == "min" || bi.Name() == "max") {
				for _, a := range x.Call.Args {
					walkMax(a, d+1)
				}
			}
			// slices.Max(lcp) and the like
			if callee := x.Call.StaticCallee(); callee != nil && callee.Name() == "Max" && len(x.Call.Args) == 1 && x.Call.Args[0] == args[1] {
				okScan = true
			}
		}
	}
	walkMax(args[3], 0)
	c.check(okScan, name+":segments:maxLen-is-max", call.Pos(), "the maxLen passed to suffix.Segments is the largest entry of the LCP table (clamped by MaxMatchLen)",
		"the maxLen passed to suffix.Segments is not the running maximum of the LCP table it is called with (no loop over that table that takes every larger element): with a smaller bound the groups of longer common prefixes are cut short or not reported at all")
}

// ---------------------------------------------------------------- R-OSAP-FASTPATH

func init() {
	reg(&Rule{ID: "R-OSAP-FASTPATH", Min: 2,
		Doc: "OSAP's literal-only shortcut (a block emitted without running the DP) is guarded by a counter == 0 that is written only by the functions that (re)build or drop the edge table, and grows there with every edge appended: a counter changed elsewhere goes stale and the shortcut drops matches that exist",
		Run: ruleOsapFastPath})
}

func ruleOsapFastPath(c *Ctx) {
	o := c.osap()
	if o.err != "" || o.p == nil || o.p.Parse == nil {
		c.fail("osap", token.NoPos, "OSAP parser not recognised")
		return
	}
	parse := o.p.Parse
	fi := c.info(parse)
	bp := blockParam(parse)
	edgesName, _ := c.osapFieldNames()
	// shortcut blocks: a literal append to blk.Literals in a block that is not an emission block and returns
	// success without passing the DP call; its guard: field == 0
	type shortcut struct {
		b *ssa.BasicBlock
		f *types.Var
	}
	var cuts []shortcut
	for _, b := range parse.Blocks {
		if _, ok := b.Instrs[len(b.Instrs)-1].(*ssa.Return); !ok {
			continue
		}
		hasApp := false
		for _, in := range b.Instrs {
			if st, ok := in.(*ssa.Store); ok {
				if fa, ok := st.Addr.(*ssa.FieldAddr); ok && fa.X == ssa.Value(bp) {
					if isBuiltinCall(valueInstr(st.Val), "append") != nil {
						hasApp = true
					}
				}
			}
		}
		if !hasApp {
			continue
		}
		isEmit := false
		for _, e := range c.emitsIn(parse) {
			if e.Block == b || e.Block.Dominates(b) {
				isEmit = true
			}
		}
		if isEmit {
			continue
		}
		var guard *types.Var
		for _, cd := range fi.condsAt(b) {
			cd = unNot(cd)
			bo, ok := cd.V.(*ssa.BinOp)
			if !ok || bo.Op != token.EQL || !cd.True {
				continue
			}
			for _, pr := range [][2]ssa.Value{{bo.X, bo.Y}, {bo.Y, bo.X}} {
				if isConstZero(pr[1]) {
					if f := loadedField(pr[0]); f != nil && isIntType(f.Type()) {
						if _, _, ok := recvPathOf(parse, pr[0]); ok {
							guard = f
						}
					}
				}
			}
		}
		if guard != nil {
			cuts = append(cuts, shortcut{b, guard})
			continue
		}
		// a literal-only return that does not stand behind "<edge count> == 0": the block is emitted as
		// literals although the DP might find matches (or the test has its sense turned round)
		reachesDP := false
		for _, pb := range parse.Blocks {
			for _, in := range pb.Instrs {
				if call, ok := in.(*ssa.Call); ok && call.Call.StaticCallee() == o.dp && (pb == b || pb.Dominates(b)) {
					reachesDP = true
				}
			}
		}
		if !reachesDP {
			c.fail(fmt.Sprintf("lz.(*%s).Parse:shortcut-unguarded", o.p.Name), b.Instrs[len(b.Instrs)-1].Pos(), "a return that hands out the block as literals without running the DP is not guarded by a test \"number of edges == 0\": blocks that have matches are emitted as literals (not a minimum-cost parse; runs stay uncompressed)")
		}
	}
	if len(cuts) == 0 {
		c.ok("lz.(*"+o.p.Name+").Parse:no-shortcut", parse.Pos(), "no literal-only shortcut: every block goes through the DP")
		c.ok("lz.(*"+o.p.Name+").Parse:no-shortcut:writers", parse.Pos(), "nothing to check")
		return
	}
	for i, cut := range cuts {
		key := fmt.Sprintf("lz.(*%s).Parse:shortcut#%d", o.p.Name, i+1)
		// writers of the guard field: functions with a direct store; each must also (re)assign the edge table
		var bad []string
		nW, grows := 0, false
		for _, fn := range c.allFuncs {
			if fn.Pkg != c.lz || fn.Blocks == nil {
				continue
			}
			writesGuard, writesEdges := false, false
			for _, b := range fn.Blocks {
				for _, in := range b.Instrs {
					st, ok := in.(*ssa.Store)
					if !ok {
						continue
					}
					f := fieldOfAddr(st.Addr)
					if f == cut.f {
						writesGuard = true
						if bo, ok := st.Val.(*ssa.BinOp); ok && bo.Op == token.ADD {
							grows = true
						}
					}
					if f != nil && f.Name() == edgesName {
						writesEdges = true
					}
					// storing into a slot of the edge table counts as building it
					if ia, ok := st.Addr.(*ssa.IndexAddr); ok {
						if ef := loadedField(ia.X); ef != nil && ef.Name() == edgesName {
							writesEdges = true
						}
					}
				}
			}
			// closures of a builder belong to it
			if writesGuard {
				nW++
				root := fn
				for root.Parent() != nil {
					root = root.Parent()
				}
				if !writesEdges && root != fn {
					for _, b := range root.Blocks {
						for _, in := range b.Instrs {
							if st, ok := in.(*ssa.Store); ok {
								if f := fieldOfAddr(st.Addr); f != nil && f.Name() == edgesName {
									writesEdges = true
								}
							}
						}
					}
				}
				// a store of a whole zero/new receiver value (init, Reset through *s = T{…}) is no field store here
				if !writesEdges {
					bad = append(bad, fnName(fn))
				}
			}
		}
		sort.Strings(bad)
		c.check(len(bad) == 0 && nW > 0, key+":writers", cut.b.Instrs[0].Pos(),
			fmt.Sprintf("the shortcut's counter %s is written only where the edge table is built or dropped (%d functions)", cut.f.Name(), nW),
			fmt.Sprintf("the counter %s that guards the literal-only shortcut is written by %v, which do not build the edge table: it no longer counts the edges of the table and the shortcut can drop matches that exist", cut.f.Name(), bad))
		c.check(grows, key+":counts", cut.b.Instrs[0].Pos(), "the counter is incremented where edges are stored", "the counter guarding the literal-only shortcut is never incremented: the shortcut would always be taken")
	}
}

// ---------------------------------------------------------------- R-SLOT-CAP
//
// OSAP hands every position a slot of a shared buffer (edges[i] = edgeBuf[4i : 4i : 4i+4]) and appends edges to the
// slots later. The append stays inside the slot only because the slice expression limits the capacity; written
// as edgeBuf[4i:4i] the fifth edge of a position silently lands in the slot of the next position, and the parser
// — which never compares bytes — emits matches that do not exist. Decided for every store of a sub-slice of one
// slice field into an element of a slice-of-slices field of the same receiver: the expression has a max index,
// max − low is a constant d ≥ 1, and low advances by at least d per element (low = c·i + e with c ≥ d).

func init() {
	reg(&Rule{ID: "R-SLOT-CAP", Min: 1,
		Doc: "a per-element slot carved out of a shared buffer field (x.F[i] = x.G[lo:hi:max]) is capacity-limited to its own region: max is given, max − lo is a constant d ≥ 1 and lo advances by at least d per element, so appending to one slot cannot overwrite the next",
		Run: ruleSlotCap})
}

func ruleSlotCap(c *Ctx) {
	n := 0
	for _, fn := range c.allFuncs {
		if fn.Pkg != c.lz || fn.Blocks == nil {
			continue
		}
		fi := c.info(fn)
		for _, b := range fn.Blocks {
			for _, in := range b.Instrs {
				st, ok := in.(*ssa.Store)
				if !ok {
					continue
				}
				ia, ok := st.Addr.(*ssa.IndexAddr)
				if !ok {
					continue
				}
				sl, ok := st.Val.(*ssa.Slice)
				if !ok {
					continue
				}
				dstF := loadedField(ia.X)
				srcF := loadedField(sl.X)
				if dstF == nil || srcF == nil || dstF == srcF {
					continue
				}
				// F is a slice of slices of G's type
				ft, ok := dstF.Type().Underlying().(*types.Slice)
				if !ok || !types.Identical(ft.Elem(), srcF.Type()) {
					continue
				}
				n++
				key := fmt.Sprintf("%s:slot#%d", fnName(fn), n)
				if sl.Max == nil || sl.Low == nil {
					c.fail(key, st.Pos(), "the slot %s[i] is a plain sub-slice of the shared buffer %s: its capacity reaches to the end of the buffer, so an append to it that exceeds the room meant for it overwrites the slots of the following elements instead of reallocating", dstF.Name(), srcF.Name())
					continue
				}
				d := fi.lin(sl.Max).sub(fi.lin(sl.Low))
				lo := fi.lin(sl.Low)
				idx := fi.lin(ia.Index)
				okD := len(d.t) == 0 && d.c >= 1
				// low = c·idx + e: the coefficient of the (single) index atom
				okStride := false
				if okD && len(idx.t) == 1 {
					for a, co := range idx.t {
						if co == 1 && lo.t[a] >= d.c {
							okStride = true
						}
					}
				}
				// the table of slots is sized anew on every way to the slot loop: a re-slice dropped on one branch leaves
				// the length the previous fill (or a reset) gave it — a table that claims to cover positions it has no
				// edges for, or none at all
				// (only the table of slots: the slot expression itself is checked against the capacity of the shared
				// buffer, not against its length, so a stale length of the buffer is harmless — a sub-agent asked
				// for a demonstration of the opposite showed that)
				for _, F := range []*types.Var{dstF} {
					avoid := map[*ssa.BasicBlock]bool{}
					for _, sb := range fn.Blocks {
						for _, sin := range sb.Instrs {
							if st2, isSt := sin.(*ssa.Store); isSt && fieldOfAddr(st2.Addr) == F {
								avoid[sb] = true
							}
						}
					}
					seenB := map[*ssa.BasicBlock]bool{}
					stack := []*ssa.BasicBlock{fn.Blocks[0]}
					reached := false
					for len(stack) > 0 {
						x := stack[len(stack)-1]
						stack = stack[:len(stack)-1]
						if seenB[x] || avoid[x] {
							continue
						}
						seenB[x] = true
						if x == b {
							reached = true
							break
						}
						stack = append(stack, x.Succs...)
					}
					c.check(!reached && len(avoid) > 0, fmt.Sprintf("%s:sized:%s", key, F.Name()), st.Pos(), F.Name()+" is sized anew on every way to the slot loop",
						fmt.Sprintf("%s is not (re)sized on every way to the loop that hands out the slots: it keeps the length of the previous fill, so the table claims positions it has no edges for (stale matches are emitted) or the slot expression runs past the buffer", F.Name()))
				}
				c.check(okD && okStride, key, st.Pos(), fmt.Sprintf("slot %s[%s] = %s[lo:…:lo+%d] with lo = %s: capacity limited to the slot, slots do not overlap", dstF.Name(), idx, srcF.Name(), d.c, lo),
					fmt.Sprintf("the slot %s[%s] carved out of %s is not limited to its own region (max − low = %s, low = %s): an append to one slot can overwrite the next", dstF.Name(), idx, srcF.Name(), d, lo))
			}
		}
	}
	if n == 0 {
		c.fail("slots", token.NoPos, "no per-element slot carved out of a shared buffer found (the optimizing parser's edge slots are the reference instance)")
	}
}
