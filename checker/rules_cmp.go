package main

// R-CMP-ALIGNED: the byte-compare helpers compare the two slices at equal offsets.
//
// The helpers func(p, q []byte) int (lcp, lcs, matchLen) are trusted by the parser rules to return the length of the
// common prefix / suffix. One structural necessary condition is decided here: whenever bytes or words loaded from
// the two arguments are compared (XOR of two loads, == / != of two elements), the two operands are read at the same
// offset of an aligned pair of slices. A pair is aligned when it is the two parameters (in either order: the helpers
// swap them so that q is the shorter one), when both are re-sliced by the same amount from an aligned pair, when one
// is cut to the length of the other from the front (x[len(x)−len(y):], y: the end-aligned frame of a suffix compare),
// or when both are merges (φ) whose incoming pairs are aligned. A compare at different offsets counts bytes as equal
// that are not at corresponding positions: matches are reported too long and the decoder reproduces other bytes.

import (
	"fmt"
	"go/token"
	"go/types"
	"sort"

	"golang.org/x/tools/go/ssa"
)

func init() {
	reg(&Rule{ID: "R-CMP-ALIGNED", Min: 6,
		Doc: "in the byte-compare helpers func(p, q []byte) int every comparison of loaded bytes/words takes both operands at the same offset of an aligned pair of slices (the parameters, equal re-slicings of them, the end-aligned frame x[len(x)−len(y):] / y, merges of aligned pairs)",
		Run: ruleCmpAligned})
}

type cmpCtx struct {
	c      *Ctx
	fi     *FuncInfo
	fn     *ssa.Function
	assume map[[2]ssa.Value]bool
}

// aligned decides whether slices a and b form an aligned pair.
func (x *cmpCtx) aligned(a, b ssa.Value, depth int) bool {
	if depth > 12 {
		return false
	}
	if x.assume[[2]ssa.Value{a, b}] {
		return true
	}
	pa, isPa := a.(*ssa.Parameter)
	pb, isPb := b.(*ssa.Parameter)
	if isPa && isPb {
		return pa != pb
	}
	// merges
	fa, isFa := a.(*ssa.Phi)
	fb, isFb := b.(*ssa.Phi)
	if isFa && isFb && fa.Block() == fb.Block() {
		x.assume[[2]ssa.Value{a, b}] = true
		ok := true
		for i := range fa.Edges {
			if !x.aligned(fa.Edges[i], fb.Edges[i], depth+1) {
				ok = false
				break
			}
		}
		if !ok {
			delete(x.assume, [2]ssa.Value{a, b})
		}
		return ok
	}
	sa, isSa := a.(*ssa.Slice)
	sb, isSb := b.(*ssa.Slice)
	low := func(s *ssa.Slice) Lin {
		if s.Low == nil {
			return linConst(0)
		}
		return x.fi.lin(s.Low)
	}
	if isSa && isSb {
		if low(sa).eq(low(sb)) && x.aligned(sa.X, sb.X, depth+1) {
			return true
		}
	}
	// end-aligned frame: a = X[len(X)−len(b):], b (or the other way round)
	endFrame := func(s *ssa.Slice, other ssa.Value) bool {
		if s.High != nil {
			return false
		}
		want := x.fi.lenOf(s.X).sub(x.fi.lenOf(other))
		return low(s).eq(want) && x.aligned(s.X, other, depth+1)
	}
	if isSa && endFrame(sa, b) {
		return true
	}
	if isSb && endFrame(sb, a) {
		return true
	}
	// one side re-sliced by zero
	if isSa && sa.High == nil && low(sa).eq(linConst(0)) {
		return x.aligned(sa.X, b, depth+1)
	}
	if isSb && sb.High == nil && low(sb).eq(linConst(0)) {
		return x.aligned(a, sb.X, depth+1)
	}
	return false
}

// loadOf describes v as a load from a byte slice: (slice, offset) for an element load s[i], or (slice, 0) for a word
// load through one of the package's load helpers f([]byte) uintN.
func (x *cmpCtx) loadOf(v ssa.Value, depth int) (ssa.Value, Lin, bool) {
	if depth > 6 {
		return nil, Lin{}, false
	}
	switch y := v.(type) {
	case *ssa.Convert:
		return x.loadOf(y.X, depth+1)
	case *ssa.ChangeType:
		return x.loadOf(y.X, depth+1)
	case *ssa.BinOp:
		// a shifted word (x << s): still the word loaded from that slice
		if y.Op == token.SHL || y.Op == token.SHR {
			return x.loadOf(y.X, depth+1)
		}
	case *ssa.Call:
		callee := y.Call.StaticCallee()
		if callee != nil && len(y.Call.Args) == 1 && isByteSlice(y.Call.Args[0].Type()) && isIntType(y.Type()) {
			return y.Call.Args[0], linConst(0), true
		}
	case *ssa.UnOp:
		if y.Op == token.MUL {
			if ia, ok := y.X.(*ssa.IndexAddr); ok && isByteSlice(ia.X.Type()) {
				return ia.X, x.fi.lin(ia.Index), true
			}
		}
	case *ssa.Index:
		if isByteSlice(y.X.Type()) {
			return y.X, x.fi.lin(y.Index), true
		}
	}
	return nil, Lin{}, false
}

func ruleCmpAligned(c *Ctx) {
	var fns []*ssa.Function
	for _, fn := range c.allFuncs {
		if fn.Blocks == nil || fn.Parent() != nil || (fn.Pkg != c.lz && fn.Pkg != c.suffix) {
			continue
		}
		sig := fn.Signature
		if sig.Recv() != nil || sig.Params().Len() != 2 || sig.Results().Len() != 1 || !isIntType(sig.Results().At(0).Type()) {
			continue
		}
		if !isByteSlice(sig.Params().At(0).Type()) || !isByteSlice(sig.Params().At(1).Type()) {
			continue
		}
		fns = append(fns, fn)
	}
	sort.Slice(fns, func(i, j int) bool { return fns[i].String() < fns[j].String() })
	for _, fn := range fns {
		x := &cmpCtx{c: c, fi: c.info(fn), fn: fn, assume: map[[2]ssa.Value]bool{}}
		n := 0
		for _, b := range fn.Blocks {
			for _, in := range b.Instrs {
				bo, ok := in.(*ssa.BinOp)
				if !ok {
					continue
				}
				switch bo.Op {
				case token.XOR, token.EQL, token.NEQ, token.SUB:
				default:
					continue
				}
				sa, oa, okA := x.loadOf(bo.X, 0)
				sb, ob, okB := x.loadOf(bo.Y, 0)
				if !okA || !okB {
					// x ^= load: the accumulated operand may itself be a load wrapped in the XOR chain
					continue
				}
				n++
				key := fmt.Sprintf("%s:compare#%d", fnName(fn), n)
				switch {
				case !oa.eq(ob):
					c.fail(key, bo.Pos(), "the operands are read at different offsets (%s and %s): bytes that do not correspond are compared", oa, ob)
				case !x.aligned(sa, sb, 0):
					c.fail(key, bo.Pos(), "the operands are read from %s and %s, which are not an aligned pair of the two arguments (equal re-slicing of both, or the end-aligned frame): bytes that do not correspond are compared and counted as common", sa.Name(), sb.Name())
				default:
					c.ok(key, bo.Pos(), "both operands at offset %s of an aligned pair (%s, %s)", oa, sa.Name(), sb.Name())
				}
			}
		}
		if n == 0 {
			c.fail(fnName(fn)+":compare", fn.Pos(), "no comparison of loaded bytes found in a byte-compare helper")
		}
	}
}

var _ = types.Typ
