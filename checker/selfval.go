package main

// Thorough tier: checker self-validation. The confirmed seeded changes under
// /verif/seeded (each breaks one property while compiling and passing the
// pinned tests) and a set of behaviour-preserving rewrites are applied to
// scratch copies of the CURRENT /repo working tree (outside /repo and
// /verif, removed immediately), and the property's rules are re-run on each
// copy in a separate process. The tally is recorded in the evidence file. It
// measures the checker, not the repository: it never prints VIOLATION and
// never changes the exit code.

import (
	"encoding/json"
	"fmt"
	"os"
	"os/exec"
	"path/filepath"
	"sort"
	"strings"
	"sync"
)

type seedMeta struct {
	Property string   `json:"property"`
	Detected []string `json:"detected_by_checks"`
	Files    []string `json:"files_changed"`
}

func copyTree(src, dst string) error {
	return filepath.Walk(src, func(p string, info os.FileInfo, err error) error {
		if err != nil {
			return err
		}
		rel, _ := filepath.Rel(src, p)
		if info.IsDir() {
			if info.Name() == ".git" || rel == "testdata" {
				return filepath.SkipDir
			}
			return os.MkdirAll(filepath.Join(dst, rel), 0o755)
		}
		if !info.Mode().IsRegular() || info.Size() > 4<<20 {
			return nil
		}
		b, err := os.ReadFile(p)
		if err != nil {
			return err
		}
		return os.WriteFile(filepath.Join(dst, rel), b, 0o644)
	})
}

// failsOn runs this binary on repo copy dir and reports whether any
// obligation of prop failed there (and which rules).
func failsOn(dir, prop string) (bool, []string, error) {
	self, err := os.Executable()
	if err != nil {
		return false, nil, err
	}
	cmd := exec.Command(self, "-repo", dir, "-verif", *flagVerif, "-property", prop, "-tier", "quick", "-no-evidence", "-json")
	cmd.Env = append(os.Environ(), "GOFLAGS=-mod=mod", "GOPROXY=off", "GOSUMDB=off", "GOTOOLCHAIN=local")
	out, _ := cmd.Output()
	var obs []Obligation
	// the JSON line is the first line starting with '['
	for _, line := range strings.Split(string(out), "\n") {
		if strings.HasPrefix(line, "[") {
			if err := json.Unmarshal([]byte(line), &obs); err != nil {
				return false, nil, err
			}
			break
		}
	}
	if obs == nil {
		return true, []string{"analysis-error"}, nil // load/type error counts as detected (check exits 2)
	}
	known := loadKnown(filepath.Join(*flagVerif, "known_findings.txt"))
	rules := map[string]bool{}
	for _, o := range obs {
		if o.Status != "fail" {
			continue
		}
		if _, ok := known[prop+" "+o.Rule+" "+o.Construct]; ok {
			continue
		}
		rules[o.Rule] = true
	}
	var rs []string
	for r := range rules {
		rs = append(rs, r)
	}
	sort.Strings(rs)
	return len(rs) > 0, rs, nil
}

func selfValidate(prop string) map[string]any {
	res := map[string]any{}
	seedDir := filepath.Join(*flagVerif, "seeded")
	ents, _ := os.ReadDir(seedDir)
	type job struct {
		id    string
		patch string
		own   bool
	}
	var jobs []job
	for _, e := range ents {
		if !e.IsDir() {
			continue
		}
		b, err := os.ReadFile(filepath.Join(seedDir, e.Name(), "meta.json"))
		if err != nil {
			continue
		}
		var m seedMeta
		if json.Unmarshal(b, &m) != nil {
			continue
		}
		rel := m.Property == prop
		for _, d := range m.Detected {
			if d == prop {
				rel = true
			}
		}
		if !rel {
			continue
		}
		jobs = append(jobs, job{e.Name(), filepath.Join(seedDir, e.Name(), "patch.diff"), m.Property == prop})
	}
	sort.Slice(jobs, func(i, j int) bool { return jobs[i].id < jobs[j].id })
	tmpRoot, err := os.MkdirTemp("", "lzcheck-selfval-")
	if err != nil {
		res["error"] = err.Error()
		return res
	}
	defer os.RemoveAll(tmpRoot)
	var mu sync.Mutex
	var detected, missed, skipped []string
	byRule := map[string][]string{}
	sem := make(chan struct{}, 8)
	var wg sync.WaitGroup
	for _, j := range jobs {
		wg.Add(1)
		sem <- struct{}{}
		go func(j job) {
			defer wg.Done()
			defer func() { <-sem }()
			dir := filepath.Join(tmpRoot, j.id)
			defer os.RemoveAll(dir)
			if err := copyTree(*flagRepo, dir); err != nil {
				mu.Lock()
				skipped = append(skipped, j.id+" (copy failed)")
				mu.Unlock()
				return
			}
			ap := exec.Command("git", "apply", j.patch)
			ap.Dir = dir
			ap.Env = append(os.Environ(), "GIT_CEILING_DIRECTORIES="+filepath.Dir(dir))
			if _, err := ap.CombinedOutput(); err != nil {
				mu.Lock()
				skipped = append(skipped, j.id+" (patch no longer applies)")
				mu.Unlock()
				return
			}
			f, rules, err := failsOn(dir, prop)
			mu.Lock()
			defer mu.Unlock()
			switch {
			case err != nil:
				skipped = append(skipped, j.id+" ("+err.Error()+")")
			case f:
				detected = append(detected, j.id)
				byRule[j.id] = rules
			case j.own:
				missed = append(missed, j.id)
			default:
				// a change seeded for another property that this check reported once; not counted as a miss
				skipped = append(skipped, j.id+" (foreign, not reported now)")
			}
		}(j)
	}
	wg.Wait()
	sort.Strings(detected)
	sort.Strings(missed)
	sort.Strings(skipped)
	res["seeded_applied"] = len(detected) + len(missed)
	res["seeded_detected"] = len(detected)
	res["seeded_detected_ids"] = detected
	res["seeded_missed_ids"] = missed
	res["seeded_skipped"] = skipped
	res["seeded_rules"] = byRule
	// behaviour-preserving rewrites: the check must stay silent
	res["preserving"] = preservingRuns(prop, tmpRoot)
	res["refactorings"] = benignRuns(prop, tmpRoot)
	res["cross_reference"] = crossReference()
	res["note"] = "self-validation measures the checker on scratch copies of the current tree; it never raises a VIOLATION"
	return res
}

// benignRuns applies the behaviour-preserving refactorings kept under /verif/benign (written by
// sub-agents for this property, or once seen to make this check fire) to scratch copies and records
// whether the check stays silent. A refactoring listed in benign/<id>/meta.json with "triage" set is a
// known false alarm (explained in DESIGN.md) and is tallied separately.
func benignRuns(prop, tmpRoot string) map[string]any {
	out := map[string]any{}
	dir := filepath.Join(*flagVerif, "benign")
	ents, _ := os.ReadDir(dir)
	type bmeta struct {
		Property string   `json:"property"`
		Alarms   []string `json:"alarms"`
		Triage   string   `json:"triage"`
	}
	var mu sync.Mutex
	var wg sync.WaitGroup
	sem := make(chan struct{}, 8)
	var silent, alarms, known, skipped []string
	for _, e := range ents {
		if !e.IsDir() {
			continue
		}
		b, err := os.ReadFile(filepath.Join(dir, e.Name(), "meta.json"))
		if err != nil {
			continue
		}
		var m bmeta
		if json.Unmarshal(b, &m) != nil {
			continue
		}
		rel := m.Property == prop
		for _, a := range m.Alarms {
			if a == prop {
				rel = true
			}
		}
		if !rel {
			continue
		}
		wg.Add(1)
		sem <- struct{}{}
		go func(id, triage string) {
			defer wg.Done()
			defer func() { <-sem }()
			d := filepath.Join(tmpRoot, "benign-"+id)
			defer os.RemoveAll(d)
			if err := copyTree(*flagRepo, d); err != nil {
				return
			}
			ap := exec.Command("git", "apply", filepath.Join(dir, id, "patch.diff"))
			ap.Dir = d
			ap.Env = append(os.Environ(), "GIT_CEILING_DIRECTORIES="+filepath.Dir(d))
			if _, err := ap.CombinedOutput(); err != nil {
				mu.Lock()
				skipped = append(skipped, id+" (patch no longer applies)")
				mu.Unlock()
				return
			}
			f, rules, err := failsOn(d, prop)
			mu.Lock()
			defer mu.Unlock()
			switch {
			case err != nil:
				skipped = append(skipped, id+" ("+err.Error()+")")
			case f && triage != "":
				known = append(known, id+": "+strings.Join(rules, ","))
			case f:
				alarms = append(alarms, id+": "+strings.Join(rules, ","))
			default:
				silent = append(silent, id)
			}
		}(e.Name(), m.Triage)
	}
	wg.Wait()
	sort.Strings(silent)
	sort.Strings(alarms)
	sort.Strings(known)
	sort.Strings(skipped)
	out["silent_on"] = silent
	out["false_alarms"] = alarms
	out["known_false_alarms"] = known
	out["not_run"] = skipped
	return out
}

// preservingRuns applies each behaviour-preserving rewrite of bin/lzrewrite
// to a scratch copy and records whether the property check stays silent.
func preservingRuns(prop, tmpRoot string) map[string]any {
	out := map[string]any{}
	self, _ := os.Executable()
	rw := filepath.Join(filepath.Dir(self), "lzrewrite")
	if _, err := os.Stat(rw); err != nil {
		out["error"] = "lzrewrite not built"
		return out
	}
	modes := []string{"flipcmp", "demorgan", "opassign", "rename", "swapadd", "negateif", "renamepkg", "rangeidx"}
	var mu sync.Mutex
	var wg sync.WaitGroup
	var silent, alarms, broken []string
	for _, m := range modes {
		wg.Add(1)
		go func(m string) {
			defer wg.Done()
			dir := filepath.Join(tmpRoot, "rw-"+m)
			defer os.RemoveAll(dir)
			if err := copyTree(*flagRepo, dir); err != nil {
				return
			}
			cmd := exec.Command(rw, "-mode", m, "-dir", dir)
			cmd.Env = append(os.Environ(), "GOFLAGS=-mod=mod", "GOPROXY=off", "GOSUMDB=off", "GOTOOLCHAIN=local")
			if o, err := cmd.CombinedOutput(); err != nil {
				mu.Lock()
				broken = append(broken, fmt.Sprintf("%s (%v: %s)", m, err, strings.TrimSpace(lastLine(string(o)))))
				mu.Unlock()
				return
			}
			f, rules, err := failsOn(dir, prop)
			mu.Lock()
			defer mu.Unlock()
			if err != nil {
				broken = append(broken, m+" ("+err.Error()+")")
			} else if f {
				alarms = append(alarms, m+": "+strings.Join(rules, ","))
			} else {
				silent = append(silent, m)
			}
		}(m)
	}
	wg.Wait()
	sort.Strings(silent)
	sort.Strings(alarms)
	sort.Strings(broken)
	out["rewrites"] = modes
	out["silent_on"] = silent
	out["false_alarms"] = alarms
	out["not_run"] = broken
	return out
}

func lastLine(s string) string {
	ls := strings.Split(strings.TrimSpace(s), "\n")
	return ls[len(ls)-1]
}

// crossReference runs the generic linters once on /repo (read-only) and
// records how much they report. They give no verdict on any property; the
// record only documents that the property checks do not duplicate them.
func crossReference() map[string]any {
	out := map[string]any{}
	env := append(os.Environ(), "GOFLAGS=-mod=mod", "GOPROXY=off", "GOSUMDB=off", "GOTOOLCHAIN=local")
	run := func(name string, args ...string) {
		path, err := exec.LookPath(args[0])
		if err != nil {
			out[name] = "not available"
			return
		}
		cmd := exec.Command(path, args[1:]...)
		cmd.Dir = *flagRepo
		cmd.Env = env
		b, _ := cmd.CombinedOutput()
		lines := []string{}
		for _, l := range strings.Split(strings.TrimSpace(string(b)), "\n") {
			if strings.TrimSpace(l) != "" && !strings.HasPrefix(l, "#") {
				lines = append(lines, l)
			}
		}
		first := lines
		if len(first) > 5 {
			first = first[:5]
		}
		out[name] = map[string]any{"diagnostics": len(lines), "first": first}
	}
	run("go vet", "go", "vet", "./...")
	run("staticcheck", "staticcheck", "./...")
	out["note"] = "generic linters; cross-reference only, no property verdict"
	return out
}
