package main

// C16: requirements that downstream code relies on vs. what Verify rejects,
// reachable explicit panics with their discharge, the set of errors that can
// leave the parser API, termination templates for the parser-side loops.

import (
	"fmt"
	"go/token"
	"go/types"
	"sort"
	"strings"

	"golang.org/x/tools/go/ssa"
)

func init() {
	reg(&Rule{ID: "R-VERIFY-REQ", Min: 20,
		Doc: "every range requirement that code downstream of NewParser/NewDecoder relies on is implied by the dominating conditions of each success return of the responsible Verify (or hash.init)",
		Run: ruleVerifyReq})
	reg(&Rule{ID: "R-PANIC", Min: 8,
		Doc: "every explicit panic reachable from the exported API is in the discharge table and its discharge holds (excluded by a Verify requirement, excluded by construction at every call site, or a named algorithm invariant listed as assumption)",
		Run: rulePanic})
	reg(&Rule{ID: "R-ERRSET", Min: 5,
		Doc: "the error values that can flow out of Parse, Write, ReadFrom, Reset and WrappedParser.Parse are exactly the documented ones",
		Run: ruleErrSet})
	reg(&Rule{ID: "R-LOOPS-PARSER", Min: 30,
		Doc: "every loop of package lz reachable from the parser API matches a termination template (range, counting incl. scan loops with stride ≥ 1, slice-shrinking, DP backtrack, fill loop, wrap loop)",
		Run: ruleLoopsParser})
}

// ---------------------------------------------------------------- R-VERIFY-REQ

type verifyReq struct {
	Type   string // receiver type of Verify (or "hash.init")
	Fn     string // method name
	Terms  map[string]int64
	Const  int64
	Text   string
	Relied string
}

// requirement: Σ coef·field + Const ≤ 0 at every success return.
func req(typ, fn, text, relied string, c int64, terms ...any) verifyReq {
	m := map[string]int64{}
	for i := 0; i+1 < len(terms); i += 2 {
		m[terms[i].(string)] = int64(terms[i+1].(int))
	}
	return verifyReq{typ, fn, m, c, text, relied}
}

const maxInt32 = 1<<31 - 1

var verifyReqs = []verifyReq{
	req("BufConfig", "Verify", "1 ≤ BufferSize", "grow/Write allocate BufferSize bytes; WrappedParser.Reset(nil) must not fail", 1, "BufferSize", -1),
	req("BufConfig", "Verify", "BufferSize ≤ MaxUint32 − 7", "buffer positions are stored as uint32 (hashEntry.pos)", -(1<<32 - 1 - 7), "BufferSize", 1),
	req("BufConfig", "Verify", "0 ≤ ShrinkSize", "Shrink keeps ShrinkSize bytes", 0, "ShrinkSize", -1),
	req("BufConfig", "Verify", "ShrinkSize < BufferSize", "WrappedParser.Parse answers the reader's data with ErrFullBuffer when Shrink cannot free space (a buffer that is full of parsed data must have room after Shrink)", 1, "ShrinkSize", 1, "BufferSize", -1),
	req("BufConfig", "Verify", "0 ≤ WindowSize", "window guard o ≤ WindowSize", 0, "WindowSize", -1),
	req("BufConfig", "Verify", "1 ≤ BlockSize", "Parse must make progress (n ≥ 1)", 1, "BlockSize", -1),
	req("hashConfig", "Verify", "2 ≤ InputLen", "minimum match length min(3, InputLen) ≥ 2; mask 1<<(8·InputLen)−1", 2, "InputLen", -1),
	req("hashConfig", "Verify", "InputLen ≤ 8", "8-byte loads", -8, "InputLen", 1),
	req("hashConfig", "Verify", "0 ≤ HashBits", "1 << HashBits table", 0, "HashBits", -1),
	req("hashConfig", "Verify", "HashBits ≤ 24", "table allocation", -24, "HashBits", 1),
	req("hashConfig", "Verify", "HashBits ≤ 8·InputLen", "hash.init repeats the check; the hash uses only 8·InputLen input bits", 0, "HashBits", 1, "InputLen", -8),
	// hash.init(inputLen, hashBits): parameters are addressed by position (#1, #2), not by name
	req("hash", "init", "2 ≤ inputLen", "hash.init agrees with hashConfig.Verify", 2, "#1", -1),
	req("hash", "init", "inputLen ≤ 8", "hash.init agrees with hashConfig.Verify", -8, "#1", 1),
	req("hash", "init", "0 ≤ hashBits ≤ 24", "hash.init agrees with hashConfig.Verify", -24, "#2", 1),
	req("bucketConfig", "Verify", "2 ≤ InputLen", "minimum match length", 2, "InputLen", -1),
	req("bucketConfig", "Verify", "InputLen ≤ 8", "8-byte loads", -8, "InputLen", 1),
	req("bucketConfig", "Verify", "0 ≤ HashBits", "1 << HashBits buckets", 0, "HashBits", -1),
	req("bucketConfig", "Verify", "HashBits ≤ 23", "bucket table allocation", -23, "HashBits", 1),
	req("bucketConfig", "Verify", "1 ≤ BucketSize", "bucket index arithmetic", 1, "BucketSize", -1),
	req("bucketConfig", "Verify", "BucketSize ≤ 128", "bucket write index is kept in a byte", -128, "BucketSize", 1),
	req("dhConfig", "Verify", "H1.InputLen < H2.InputLen", "double-hash scan loops (e2 ≤ e1) and processSegment", 1, "H1.InputLen", 1, "H2.InputLen", -1),
	req("GSAPConfig", "Verify", "2 ≤ MinMatchLen", "C02 lower bound", 2, "MinMatchLen", -1),
	req("GSAPConfig", "Verify", "WindowSize ≤ MaxInt32", "int32 suffix array", -maxInt32, "WindowSize", 1),
	req("GSAPConfig", "Verify", "BufferSize ≤ MaxInt32", "gsap.sort panics(\"n too large\") and suffix.Sort uses int32 indexes for len(Data) ≤ BufferSize", -maxInt32, "BufferSize", 1),
	req("OSAPConfig", "Verify", "2 ≤ MinMatchLen", "C02 lower bound", 2, "MinMatchLen", -1),
	req("OSAPConfig", "Verify", "MinMatchLen ≤ MaxMatchLen", "Segments(minLen ≤ maxLen)", 0, "MinMatchLen", 1, "MaxMatchLen", -1),
	req("OSAPConfig", "Verify", "MinMatchLen ≤ MaxInt32", "suffix.Segments panics when minLen > MaxInt32", -maxInt32, "MinMatchLen", 1),
	req("OSAPConfig", "Verify", "BufferSize ≤ MaxInt32", "computeEdges panics when len(data) > MaxInt32; suffix.LCP likewise", -maxInt32, "BufferSize", 1),
	req("DecoderConfig", "Verify", "1 ≤ BufferSize", "decoder buffer", 1, "BufferSize", -1),
	req("DecoderConfig", "Verify", "0 ≤ WindowSize", "decoder window", 0, "WindowSize", -1),
	req("DecoderConfig", "Verify", "WindowSize < BufferSize", "every drain frees at least one byte (Decoder retry loops)", 1, "WindowSize", 1, "BufferSize", -1),
}

func (c *Ctx) reqHolds(r verifyReq) (bool, string) {
	T := c.resolveType(r.Type)
	if T == nil {
		return false, "type " + r.Type + " not found"
	}
	fn := c.method(T, r.Fn)
	if r.Type == "hash" && r.Fn == "init" {
		fn = c.roles().hashInit
	}
	if fn == nil {
		return false, r.Type + "." + r.Fn + " not found"
	}
	fi := c.info(fn)
	any := false
	for _, b := range fn.Blocks {
		ret, ok := b.Instrs[len(b.Instrs)-1].(*ssa.Return)
		if !ok || c.isFailureReturn(fi, ret) {
			continue
		}
		// returns that propagate a callee's error unchanged are success only if the callee succeeded;
		// the requirement must hold on every return that can yield nil
		any = true
		// candidate atoms per term
		goals := []Lin{linConst(r.Const)}
		for field, co := range r.Terms {
			var next []Lin
			cands := fi.atomsWithSuffix("." + field)
			if !strings.Contains(field, ".") {
				// parameters of init functions
				if strings.HasPrefix(field, "#") {
					var idx int
					fmt.Sscanf(field, "#%d", &idx)
					if idx >= 1 && idx < len(fn.Params) {
						cands = append(cands, fn.Params[idx].Name())
					}
				}
			}
			for _, g := range goals {
				for _, a := range cands {
					if strings.Contains(a, "@") {
						continue
					}
					next = append(next, g.addk(linAtom(a), co))
				}
			}
			goals = next
		}
		ok2 := false
		for _, g := range goals {
			if fi.proveAt(g, b, nil) {
				ok2 = true
				break
			}
		}
		if !ok2 {
			return false, fmt.Sprintf("not implied at the success return %s (facts: %s)", c.pos(ret.Pos()), factStrings(fi.factsAt(b)))
		}
	}
	if !any {
		return false, "no success return"
	}
	return true, ""
}

func ruleVerifyReq(c *Ctx) {
	for _, r := range verifyReqs {
		key := fmt.Sprintf("lz.%s.%s:%s", r.Type, r.Fn, strings.ReplaceAll(r.Text, " ", ""))
		T := c.resolveType(r.Type)
		var pos token.Pos
		if T != nil {
			if fn := c.method(T, r.Fn); fn != nil {
				pos = fn.Pos()
			}
		}
		ok, why := c.reqHolds(r)
		if ok {
			c.ok(key, pos, "%s holds on every success return (relied on by: %s)", r.Text, r.Relied)
		} else {
			c.fail(key, pos, "%s.%s accepts configurations violating %s, which %s relies on: %s", r.Type, r.Fn, r.Text, r.Relied, why)
		}
	}
	// composite Verify methods call the part validators on values read from the same receiver and return their errors
	for _, T := range c.configTypes() {
		fn := c.method(T, "Verify")
		if fn == nil {
			c.fail("lz."+T.Obj().Name()+".Verify", T.Obj().Pos(), "Verify not found")
			continue
		}
		fi := c.info(fn)
		n := 0
		for _, b := range fn.Blocks {
			for _, in := range b.Instrs {
				call, ok := in.(*ssa.Call)
				if !ok || call.Call.StaticCallee() == nil || call.Call.StaticCallee().Name() != "Verify" {
					continue
				}
				n++
				key := fmt.Sprintf("lz.%s.Verify:part#%d", T.Obj().Name(), n)
				// its error is returned when non-nil
				returned := false
				for _, bb := range fn.Blocks {
					r, ok := bb.Instrs[len(bb.Instrs)-1].(*ssa.Return)
					if !ok {
						continue
					}
					if r.Results[0] == call {
						if bb == b {
							returned = true
						}
						for _, cd := range fi.condsAt(bb) {
							if isNilCmp(cd, call) == +1 {
								returned = true
							}
						}
						// unconditional `return err` at the end
						if fi.instrReaches(call, r) {
							returned = true
						}
					}
				}
				// the validated value comes from a getter applied to the receiver
				fromRecv := false
				if al, ok := call.Call.Args[0].(*ssa.Alloc); ok {
					for _, ref := range *al.Referrers() {
						if st, ok := ref.(*ssa.Store); ok && st.Addr == al {
							src := st.Val
							if ex, ok := src.(*ssa.Extract); ok {
								src = ex.Tuple
							}
							if gc, ok := src.(*ssa.Call); ok && len(gc.Call.Args) > 0 {
								if mi, ok := gc.Call.Args[0].(*ssa.MakeInterface); ok && mi.X == fn.Params[0] {
									fromRecv = true
								}
							}
						}
					}
				}
				c.check(returned && fromRecv, key, call.Pos(), "part validator applied to the receiver's values and its error returned", "the part validator's error is dropped or it validates a value not read from the receiver")
			}
		}
		if n == 0 {
			c.fail("lz."+T.Obj().Name()+".Verify:parts", fn.Pos(), "composite Verify does not call the buffer validator")
		}
	}
}

// ---------------------------------------------------------------- R-PANIC

type panicDischarge struct {
	Fn    string // short function name as printed by fnName
	Match string // substring of the panic argument (message) or "" for any
	Kind  string // "verify", "construction", "assumed"
	Why   string
	Check func(c *Ctx, site *ssa.Panic) (bool, string)
}

func msgOfPanic(p *ssa.Panic) string {
	v := p.X
	for i := 0; i < 4; i++ {
		switch x := v.(type) {
		case *ssa.MakeInterface:
			v = x.X
		case *ssa.ChangeInterface:
			v = x.X
		}
	}
	if s, ok := constString(v); ok {
		return s
	}
	if call, ok := v.(*ssa.Call); ok {
		for _, a := range call.Call.Args {
			if s, ok := constString(a); ok {
				return s
			}
		}
		return call.Call.Value.Name()
	}
	return v.Name()
}

func reqByText(typ, text string) verifyReq {
	for _, r := range verifyReqs {
		if r.Type == typ && r.Text == text {
			return r
		}
	}
	panic("no requirement " + typ + " " + text)
}

func viaReq(reqs ...verifyReq) func(c *Ctx, site *ssa.Panic) (bool, string) {
	return func(c *Ctx, site *ssa.Panic) (bool, string) {
		for _, r := range reqs {
			if ok, why := c.reqHolds(r); !ok {
				return false, fmt.Sprintf("requires %s.%s to establish %s: %s", r.Type, r.Fn, r.Text, why)
			}
		}
		return true, ""
	}
}

// both: two discharge checks, both must hold. A discharge that quotes a Verify requirement also needs the panic to
// stand behind the very test the requirement excludes (a guard with the sense of its comparison turned round is
// not excluded by anything).
func both(a, b func(c *Ctx, site *ssa.Panic) (bool, string)) func(c *Ctx, site *ssa.Panic) (bool, string) {
	return func(c *Ctx, site *ssa.Panic) (bool, string) {
		if ok, why := a(c, site); !ok {
			return false, why
		}
		return b(c, site)
	}
}

// guardedByFailedResetNil: the panic is reached only under err != nil for the error of a Reset call that was
// given a nil slice.
func guardedByFailedResetNil(c *Ctx, site *ssa.Panic) (bool, string) {
	fn := site.Parent()
	fi := c.info(fn)
	for _, cd := range fi.condsAt(site.Block()) {
		u := unNot(cd)
		bo, ok := u.V.(*ssa.BinOp)
		if !ok {
			continue
		}
		for _, v := range []ssa.Value{bo.X, bo.Y} {
			call, isCall := v.(*ssa.Call)
			if !isCall || !isErrorType(call.Type()) {
				continue
			}
			name := ""
			if call.Call.IsInvoke() {
				name = call.Call.Method.Name()
			} else if callee := call.Call.StaticCallee(); callee != nil {
				name = callee.Name()
			}
			if name != "Reset" || len(call.Call.Args) == 0 {
				continue
			}
			last := call.Call.Args[len(call.Call.Args)-1]
			if k, isK := last.(*ssa.Const); !isK || k.Value != nil {
				continue
			}
			if isNilCmp(cd, call) == +1 {
				return true, ""
			}
		}
	}
	return false, "the panic is not guarded by err != nil for the error of a Reset(nil) call (with the test turned round it is reached on every successful reset)"
}

// guardedByLenAbove: the branch conditions of the panic contradict len(x) ≤ MaxInt32 for a slice length x that
// occurs in them: it is reached only for a length above the limit the configuration excludes.
func guardedByLenAbove(c *Ctx, site *ssa.Panic) (bool, string) {
	fn := site.Parent()
	fi := c.info(fn)
	conds := fi.condsAt(site.Block())
	for _, f := range fi.factsOf(conds) {
		for a := range f.L.t {
			if strings.HasPrefix(a, "len(") {
				if fi.refute(conds, []Fact{{linAtom(a).addc(-(1<<31 - 1)), LE}}, 0) {
					return true, ""
				}
			}
		}
	}
	return false, "the branch conditions of the panic do not say that a slice length exceeds MaxInt32 (a guard with the comparison turned round, or on another quantity, is not excluded by the configuration check)"
}

// callersPassEqualLens: every static call of fn passes slices a, b (parameter
// indexes) with len(a) == len(b) by construction (b allocated with len(a), or
// both loaded from equal-length fields).
func callersEqualLen(fn string, ia, ib int) func(c *Ctx, site *ssa.Panic) (bool, string) {
	return func(c *Ctx, site *ssa.Panic) (bool, string) {
		return c.equalLenAtCallers(site.Parent(), ia, ib, 0)
	}
}

func (c *Ctx) equalLenAtCallers(callee *ssa.Function, ia, ib, depth int) (bool, string) {
	{
		n := 0
		for _, g := range c.allFuncs {
			gi := c.info(g)
			for _, b := range g.Blocks {
				for _, in := range b.Instrs {
					call, ok := in.(ssa.CallInstruction)
					if !ok || call.Common().StaticCallee() != callee {
						continue
					}
					n++
					la, lb := gi.lenOf(call.Common().Args[ia]), gi.lenOf(call.Common().Args[ib])
					// both arguments are the caller's own parameters: lift to its callers
					pa, okA := call.Common().Args[ia].(*ssa.Parameter)
					pb, okB := call.Common().Args[ib].(*ssa.Parameter)
					if okA && okB && depth < 2 {
						ja, jb := -1, -1
						for k, q := range g.Params {
							if q == pa {
								ja = k
							}
							if q == pb {
								jb = k
							}
						}
						if ok, why := c.equalLenAtCallers(g, ja, jb, depth+1); !ok {
							return false, why
						}
						continue
					}
					if !la.eq(lb) {
						// equal after the guard of the caller?
						if !(gi.proveAt(la.sub(lb), b, nil) && gi.proveAt(lb.sub(la), b, nil)) {
							return false, fmt.Sprintf("call at %s passes slices of lengths %s and %s", c.pos(in.Pos()), la, lb)
						}
					}
				}
			}
		}
		if n == 0 {
			return true, "no internal caller (API precondition, documented)"
		}
		return true, ""
	}
}

func (c *Ctx) panicTable() []panicDischarge {
	return []panicDischarge{
		// no entry for a panic("unexpected ErrFullBuffer") in WrappedParser.Parse: ReadFrom's own full-buffer status is
		// excluded by Verify (ShrinkSize < BufferSize), but the reader's own error may be that very value (D28)
		{"lz.(*WrappedParser).Reset", "", "verify", "Reset(nil) fails only for len(data) > BufferSize; len(nil) = 0 and BufferSize ≥ 1",
			both(guardedByFailedResetNil, viaReq(reqByText("BufConfig", "1 ≤ BufferSize")))},
		{"lz.(*gsap).sort", "n too large", "verify", "len(Data) ≤ BufferSize ≤ MaxInt32",
			both(guardedByLenAbove, viaReq(reqByText("GSAPConfig", "BufferSize ≤ MaxInt32")))},
		{"lz.(*optSuffixArrayParser).computeEdges", "len(data)=", "verify", "len(Data) ≤ BufferSize ≤ MaxInt32",
			both(guardedByLenAbove, viaReq(reqByText("OSAPConfig", "BufferSize ≤ MaxInt32")))},
		{"lz.(*bitset).insert", "negative", "construction", "arguments are suffix-array ranks int(isa[i]) ≥ 0",
			func(c *Ctx, site *ssa.Panic) (bool, string) { return c.bitsetArgsNonNeg(site.Parent()) }},
		{"suffix.(config).sort", "is different from len(sa)", "construction", "sa is allocated/re-sliced with len(Data)", callersEqualLen("sort", 1, 2)},
		{"suffix.LCP", "MaxInt32", "verify", "len(t) ≤ len(Data) ≤ BufferSize ≤ MaxInt32", viaReq(reqByText("OSAPConfig", "BufferSize ≤ MaxInt32"))},
		{"suffix.LCP", "len(lcp)", "construction", "lcp is allocated with len(sa) = len(t)", callersEqualLen("LCP", 0, 3)},
		{"suffix.InvertSA", "len(sainv)", "construction", "sainv is allocated with len(sa)", callersEqualLen("InvertSA", 0, 1)},
		{"suffix.Segments", "len(sa)", "construction", "lcp is allocated with len(sa)", callersEqualLen("Segments", 0, 1)},
		{"suffix.Segments", "minLen", "verify", "MinMatchLen ≤ MaxInt32 and ≥ 2", viaReq(reqByText("OSAPConfig", "MinMatchLen ≤ MaxInt32"), reqByText("OSAPConfig", "2 ≤ MinMatchLen"))},
		{"suffix.Segments", "maxLen", "construction", "maxLen is an int32 value converted to int",
			func(c *Ctx, site *ssa.Panic) (bool, string) { return c.segmentsMaxLenInt32(site.Parent()) }},
	}
}

// isIsaPath: the access path reads the inverse suffix array of the greedy parser (found by role).
func (c *Ctx) isIsaPath(p string) bool {
	g := c.gsap()
	if g.err != "" || g.isaF == nil {
		return strings.Contains(p, "isa")
	}
	for _, part := range strings.Split(p, ".") {
		if part == g.isaF.Name() {
			return true
		}
	}
	return false
}

// isIsaElem: addr is the address of an element of the inverse suffix array (the field itself, a re-slice of it, or
// a local the function installs in the field).
func (c *Ctx) isIsaElem(addr ssa.Value) bool {
	if ia, ok := addr.(*ssa.IndexAddr); ok {
		g := c.gsap()
		if g.err == "" && g.isaF != nil {
			if f := loadedField(ia.X); f != nil {
				return f == g.isaF
			}
		}
	}
	if ia, ok := addr.(*ssa.IndexAddr); ok {
		_, p, okp := pathStr(ia.X)
		return okp && c.isIsaPath(p)
	}
	_, p, ok := pathStr(addr)
	return ok && c.isIsaPath(p)
}

// bitsetArgsNonNeg: every call of insert passes int(x) with x loaded from an []int32 whose stores are range indexes.
func (c *Ctx) bitsetArgsNonNeg(insert *ssa.Function) (bool, string) {
	n := 0
	for _, g := range c.allFuncs {
		for _, b := range g.Blocks {
			for _, in := range b.Instrs {
				call, ok := in.(ssa.CallInstruction)
				if !ok || call.Common().StaticCallee() != insert {
					continue
				}
				n++
				// variadic: args[1] is a slice of a fresh array whose single element is the value
				arg := call.Common().Args[1]
				if isIntType(arg.Type()) {
					// insert(i int): the value itself
					v := stripConv(arg)
					ld, ok := v.(*ssa.UnOp)
					if !ok {
						return false, "argument is not a suffix-array rank at " + c.pos(in.Pos())
					}
					if !c.isIsaElem(ld.X) {
						return false, "argument is not loaded from the inverse suffix array at " + c.pos(in.Pos())
					}
					continue
				}
				sl, ok := arg.(*ssa.Slice)
				if !ok {
					return false, "non-literal variadic argument at " + c.pos(in.Pos())
				}
				al, ok := sl.X.(*ssa.Alloc)
				if !ok {
					return false, "unexpected argument shape at " + c.pos(in.Pos())
				}
				for _, ref := range *al.Referrers() {
					ia, ok := ref.(*ssa.IndexAddr)
					if !ok {
						continue
					}
					for _, u := range *ia.Referrers() {
						st, ok := u.(*ssa.Store)
						if !ok {
							continue
						}
						v := stripConv(st.Val)
						// loaded from isa
						ld, ok := v.(*ssa.UnOp)
						if !ok {
							return false, "argument is not a suffix-array rank at " + c.pos(in.Pos())
						}
						if !c.isIsaElem(ld.X) {
							return false, "argument is not loaded from the inverse suffix array at " + c.pos(in.Pos())
						}
					}
				}
			}
		}
	}
	// stores into isa are range indexes (non-negative)
	for _, g := range c.allFuncs {
		if g.Pkg != c.lz {
			continue
		}
		for _, b := range g.Blocks {
			for _, in := range b.Instrs {
				st, ok := in.(*ssa.Store)
				if !ok {
					continue
				}
				ia, ok := st.Addr.(*ssa.IndexAddr)
				if !ok {
					continue
				}
				if !c.isIsaElem(ia) {
					continue
				}
				if !c.nonneg(st.Val) {
					gi := c.info(g)
					if !gi.proveAt(gi.lin(stripConv(st.Val)).scale(-1), b, nil) {
						return false, "a possibly negative value is stored into isa at " + c.pos(st.Pos())
					}
				}
			}
		}
	}
	return n > 0, fmt.Sprintf("%d call sites", n)
}

func (c *Ctx) segmentsMaxLenInt32(seg *ssa.Function) (bool, string) {
	for _, g := range c.allFuncs {
		for _, b := range g.Blocks {
			for _, in := range b.Instrs {
				call, ok := in.(ssa.CallInstruction)
				if !ok || call.Common().StaticCallee() != seg {
					continue
				}
				a := call.Common().Args[3]
				cv, ok := a.(*ssa.Convert)
				if !ok {
					return false, "maxLen argument is not converted from an int32 at " + c.pos(in.Pos())
				}
				if bt, ok := cv.X.Type().Underlying().(*types.Basic); !ok || bt.Kind() != types.Int32 {
					return false, "maxLen argument is not an int32 value at " + c.pos(in.Pos())
				}
			}
		}
	}
	return true, ""
}

func rulePanic(c *Ctx) {
	reach := c.reachable(c.apiRoots()...)
	var fns []*ssa.Function
	for fn := range reach {
		fns = append(fns, fn)
	}
	sort.Slice(fns, func(i, j int) bool { return fns[i].String() < fns[j].String() })
	table := c.panicTable()
	assumedSuffix := map[string]string{
		"suffix.": "algorithm-internal invariant of the DivSufSort implementation (not decided; C09 is not claimed for sorter internals)",
	}
	n := 0
	pkgPrefix := func(s string) string { return strings.SplitN(s, ".", 2)[0] }
	msgSites := make([]int, len(table))
	exactHit := make([]bool, len(table))
	for _, fn := range fns {
		for _, b := range fn.Blocks {
			if p, ok := b.Instrs[len(b.Instrs)-1].(*ssa.Panic); ok {
				for i := range table {
					if table[i].Match != "" && pkgPrefix(table[i].Fn) == pkgPrefix(fnName(fn)) && strings.Contains(msgOfPanic(p), table[i].Match) {
						msgSites[i]++
					}
					if table[i].Fn == fnName(fn) && (table[i].Match == "" || strings.Contains(msgOfPanic(p), table[i].Match)) {
						exactHit[i] = true
					}
				}
			}
		}
	}
	for _, fn := range fns {
		name := fnName(fn)
		k := 0
		for _, b := range fn.Blocks {
			p, ok := b.Instrs[len(b.Instrs)-1].(*ssa.Panic)
			if !ok {
				continue
			}
			k++
			n++
			msg := msgOfPanic(p)
			key := fmt.Sprintf("%s:panic#%d", name, k)
			var d *panicDischarge
			for i := range table {
				if table[i].Fn == name && (table[i].Match == "" || strings.Contains(msg, table[i].Match)) {
					d = &table[i]
					break
				}
			}
			if d == nil {
				// a private function may have been renamed: the entry is then identified by its package and
				// its message, provided exactly one reachable panic site of the package carries that message
				for i := range table {
					if table[i].Match != "" && msgSites[i] == 1 && pkgPrefix(table[i].Fn) == pkgPrefix(name) && strings.Contains(msg, table[i].Match) && !exactHit[i] {
						d = &table[i]
						break
					}
				}
			}
			if d == nil {
				done := false
				for pre, why := range assumedSuffix {
					if strings.HasPrefix(name, pre) && !strings.HasPrefix(name, "suffix.Sort") && !strings.HasPrefix(name, "suffix.LCP") && !strings.HasPrefix(name, "suffix.Segments") && !strings.HasPrefix(name, "suffix.InvertSA") {
						c.assumed(key, p.Pos(), "panic(%q) in %s: %s", msg, name, why)
						done = true
					}
				}
				if !done {
					c.fail(key, p.Pos(), "explicit panic(%q) in %s is reachable from the exported API and has no discharge: an accepted configuration or input may crash", msg, name)
				}
				continue
			}
			ok2, why := d.Check(c, p)
			if ok2 {
				c.ok(key, p.Pos(), "panic(%q) discharged (%s): %s", msg, d.Kind, d.Why)
			} else {
				c.fail(key, p.Pos(), "panic(%q) in %s is reachable with an accepted configuration: its discharge (%s) does not hold — %s", msg, name, d.Why, why)
			}
		}
	}
	if n == 0 {
		c.fail("panics", token.NoPos, "no explicit panic found: reachability analysis broken")
	}
}

// ---------------------------------------------------------------- R-ERRSET

// errSources: the set of error origins that can flow to the error result of fn.
func (c *Ctx) errSources(fn *ssa.Function, seen map[*ssa.Function]bool) map[string]bool {
	out := map[string]bool{}
	if fn == nil || fn.Blocks == nil || seen[fn] {
		return out
	}
	seen[fn] = true
	defer delete(seen, fn)
	var trace func(v ssa.Value, vs map[ssa.Value]bool)
	trace = func(v ssa.Value, vs map[ssa.Value]bool) {
		if vs[v] {
			return
		}
		vs[v] = true
		switch x := v.(type) {
		case *ssa.Const:
		case *ssa.UnOp:
			if g := errGlobalName(x); g != "" {
				out[g] = true
			} else if x.Op == token.MUL {
				// load of a local error variable: all stores
				if al, ok := x.X.(*ssa.Alloc); ok {
					for _, ref := range *al.Referrers() {
						if st, ok := ref.(*ssa.Store); ok && st.Addr == al {
							trace(st.Val, vs)
						}
					}
				} else if f := fieldOfAddr(x.X); f != nil && isErrorType(f.Type()) {
					// load of an error kept in a field: everything stored there (nil elsewhere, traced here)
					for _, g := range c.allFuncs {
						if g.Pkg != c.lz || g.Blocks == nil {
							continue
						}
						for _, gb := range g.Blocks {
							for _, gin := range gb.Instrs {
								st, ok := gin.(*ssa.Store)
								if !ok || fieldOfAddr(st.Addr) != f {
									continue
								}
								if k, isC := st.Val.(*ssa.Const); isC && k.Value == nil {
									continue
								}
								if g == fn {
									trace(st.Val, vs)
								} else {
									out["?field-store:"+fnName(g)] = true
								}
							}
						}
					}
				} else {
					out["?load"] = true
				}
			}
		case *ssa.Phi:
			for _, e := range x.Edges {
				trace(e, vs)
			}
		case *ssa.Call:
			c.errOfCall(x, out, seen)
		case *ssa.Extract:
			if call, ok := x.Tuple.(*ssa.Call); ok {
				c.errOfCall(call, out, seen)
			}
		case *ssa.MakeInterface:
			out["fresh:"+fnName(fn)] = true
		default:
			out["?"+v.Name()] = true
		}
	}
	for _, b := range fn.Blocks {
		r, ok := b.Instrs[len(b.Instrs)-1].(*ssa.Return)
		if !ok || len(r.Results) == 0 {
			continue
		}
		last := r.Results[len(r.Results)-1]
		if !isErrorType(last.Type()) {
			continue
		}
		// a return dominated by err == G / err != G narrows nothing here (kept simple)
		trace(last, map[ssa.Value]bool{})
	}
	return out
}

func (c *Ctx) errOfCall(call *ssa.Call, out map[string]bool, seen map[*ssa.Function]bool) {
	if call.Call.IsInvoke() {
		out["iface:"+call.Call.Method.Name()] = true
		return
	}
	callee := call.Call.StaticCallee()
	if callee == nil {
		out["?dynamic"] = true
		return
	}
	if callee.Pkg != nil {
		p := callee.Pkg.Pkg.Path()
		if (p == "fmt" && callee.Name() == "Errorf") || (p == "errors" && callee.Name() == "New") {
			out["fresh:"+fnName(call.Parent())] = true
			return
		}
		if !strings.HasPrefix(p, lzPath) {
			out["lib:"+p+"."+callee.Name()] = true
			return
		}
	}
	for k := range c.errSources(callee, seen) {
		out[k] = true
	}
}

func ruleErrSet(c *Ctx) {
	allowed := map[string]map[string]bool{
		"Parse":    {"ErrEmptyBuffer": true},
		"Write":    {"ErrFullBuffer": true},
		"ReadFrom": {"ErrFullBuffer": true, "iface:Read": true},
		"Reset":    {"fresh:lz.(*ParserBuffer).Reset": true},
		"ReadAt":   {"ErrOutOfBuffer": true, "ErrEndOfBuffer": true},
		"ByteAt":   {"ErrOutOfBuffer": true, "ErrEndOfBuffer": true},
	}
	for _, p := range c.parsers() {
		for _, m := range []string{"Parse", "Write", "ReadFrom", "Reset", "ReadAt", "ByteAt"} {
			fn := c.method(p.T, m)
			key := fmt.Sprintf("lz.%s.%s", p.Name, m)
			if fn == nil {
				c.fail(key, p.T.Obj().Pos(), "method not found")
				continue
			}
			src := c.errSources(fn, map[*ssa.Function]bool{})
			var bad []string
			for s := range src {
				if !allowed[m][s] {
					bad = append(bad, s)
				}
			}
			sort.Strings(bad)
			if len(bad) == 0 {
				c.ok(key, fn.Pos(), "errors ⊆ documented set %v", keysOf(src))
			} else {
				c.fail(key, fn.Pos(), "%s.%s can return undocumented error(s) %v", p.Name, m, bad)
			}
		}
	}
	// WrappedParser.Parse: the inner parser's error or the reader's (through ReadFrom)
	if wp := c.namedType(c.lz, "WrappedParser"); wp != nil {
		fn := c.method(wp, "Parse")
		src := c.errSources(fn, map[*ssa.Function]bool{})
		var bad []string
		for s := range src {
			if s != "iface:Parse" && s != "iface:ReadFrom" {
				bad = append(bad, s)
			}
		}
		c.check(len(bad) == 0, "lz.WrappedParser.Parse", fn.Pos(), "errors come only from the wrapped parser's Parse and ReadFrom", fmt.Sprintf("WrappedParser.Parse can return %v", bad))
	}
}

func keysOf(m map[string]bool) []string {
	var ks []string
	for k := range m {
		ks = append(ks, k)
	}
	sort.Strings(ks)
	return ks
}

// ---------------------------------------------------------------- R-LOOPS-PARSER

func ruleLoopsParser(c *Ctx) {
	var roots []*ssa.Function
	for _, p := range c.parsers() {
		roots = append(roots, c.methodsOf(p.T)...)
		if p.Cfg != nil {
			roots = append(roots, c.methodsOf(p.Cfg)...)
		}
	}
	roots = append(roots, c.methodsOf(c.parserBuf())...)
	if wp := c.namedType(c.lz, "WrappedParser"); wp != nil {
		roots = append(roots, c.methodsOf(wp)...)
	}
	for _, n := range []string{"ParseJSON", "Wrap"} {
		if f := c.lzFunc(n); f != nil {
			roots = append(roots, f)
		}
	}
	reach := c.reachable(roots...)
	var fns []*ssa.Function
	for fn := range reach {
		if fn.Pkg == c.lz {
			fns = append(fns, fn)
		}
	}
	sort.Slice(fns, func(i, j int) bool { return fns[i].String() < fns[j].String() })
	for _, fn := range fns {
		fi := c.info(fn)
		for i, l := range fi.loops {
			key := fmt.Sprintf("%s:loop#%d", fnName(fn), i+1)
			pos := token.NoPos
			for _, in := range l.Header.Instrs {
				if in.Pos() != token.NoPos {
					pos = in.Pos()
					break
				}
			}
			if pos == token.NoPos {
				for b := range l.Blocks {
					for _, in := range b.Instrs {
						if in.Pos() != token.NoPos && (pos == token.NoPos || in.Pos() < pos) {
							pos = in.Pos()
						}
					}
				}
			}
			switch {
			case c.isRangeLoop(fi, l):
				c.ok(key, pos, "T-RANGE")
			case c.isStrideLoop(fi, l):
				c.ok(key, pos, "T-COUNT: an induction variable moves by ≥ 1 per iteration towards a loop-invariant bound tested on an exit")
			case c.isSliceShrinkLoop(fi, l):
				c.ok(key, pos, "T-SLICE: the loop continues while len(q) ≥ c and re-slices q = q[k:], k ≥ 1")
			case c.isBacktrackLoop(fi, l):
				c.ok(key, pos, "T-BACKTRACK: i -= d[i].m with 1 ≤ m ≤ i at every DP store (R-DP-STEP); every entry the walk visits has been stored, because the literal step reaches each position (R-DP-LIT)")
			case c.isFillLoop(fi, l):
				c.assumed(key, pos, "T-FILL: left on reader error or full buffer; progress relies on the io.Reader not returning (0, nil) forever")
			case c.isWrapLoop(fi, l):
				c.assumed(key, pos, "T-WRAP: retried only after ReadFrom delivered k > 0 bytes (R-WRAP-ORDER); ends when the reader ends")
			case c.isBitClearLoop(fi, l):
				c.ok(key, pos, "T-BITS: x loses its lowest set bit per iteration")
			default:
				c.fail(key, pos, "loop matches no termination template (range, counting with stride ≥ 1, slice shrinking, backtrack, fill, wrap): a parser call may not return")
			}
		}
	}
}

// isStrideLoop: some exit edge of the loop compares an induction phi of the
// header with a loop-invariant bound, and on every back edge the phi moved
// by at least 1 in the direction of the bound.
func (c *Ctx) isStrideLoop(fi *FuncInfo, l *Loop) bool {
	for b := range l.Blocks {
		iff, ok := b.Instrs[len(b.Instrs)-1].(*ssa.If)
		if !ok {
			continue
		}
		exits := !l.Blocks[b.Succs[0]] || !l.Blocks[b.Succs[1]]
		if !exits {
			continue
		}
		bo, ok := iff.Cond.(*ssa.BinOp)
		if !ok {
			continue
		}
		for _, side := range [][2]ssa.Value{{bo.X, bo.Y}, {bo.Y, bo.X}} {
			iv, bound := side[0], side[1]
			// the compared value may be phi or phi+const computed in the loop
			var ph *ssa.Phi
			off := fi.lin(iv)
			for a := range off.t {
				if p, ok := fi.atomValues()[a].(*ssa.Phi); ok && p.Block() == l.Header && off.t[a] == 1 {
					ph = p
				}
			}
			if ph == nil || !isIntType(ph.Type()) {
				continue
			}
			if !c.loopInvariant(fi, l, bound) {
				continue
			}
			// the relation under which the loop CONTINUES decides the direction
			op := bo.Op
			if !l.Blocks[b.Succs[0]] {
				switch op {
				case token.LSS:
					op = token.GEQ
				case token.LEQ:
					op = token.GTR
				case token.GTR:
					op = token.LEQ
				case token.GEQ:
					op = token.LSS
				default:
					continue
				}
			} else if l.Blocks[b.Succs[1]] {
				continue // not an exit test
			}
			up := false
			switch {
			case op == token.LSS || op == token.LEQ:
				up = iv == bo.X // continues while iv < bound: must grow
			case op == token.GTR || op == token.GEQ:
				up = iv == bo.Y // continues while iv > bound: must shrink (iv on the left)
			default:
				continue
			}
			// which direction continues the loop? the in-loop successor must be the "not yet reached" side
			// (if the loop continued on the other side it would not be a bound)
			good := true
			for i, p := range l.Header.Preds {
				if !l.Blocks[p] {
					continue
				}
				delta := fi.lin(ph.Edges[i]).sub(linAtom(ph.Name()))
				var goal Lin
				if up {
					goal = linConst(1).sub(delta) // delta ≥ 1
				} else {
					goal = delta.addc(1) // delta ≤ -1
				}
				if !fi.proveAt(goal, p, nil) {
					good = false
				}
			}
			if good {
				return true
			}
		}
		// general linear form: the loop continues under L ≤ 0 where L is linear in header φs (any
		// coefficient) and loop-invariant values; every way round the loop raises L by at least 1
		// (len(p) − (i + k) ≥ 8 with k += b, b ≥ 8 on the back edge)
		stay := l.Blocks[b.Succs[0]]
		fs := fi.factsOf([]Cond{{iff.Cond, stay}})
		if len(fs) != 1 || fs[0].Op != LE {
			continue
		}
		L := fs[0].L
		okAtoms := true
		type term struct {
			ph *ssa.Phi
			co int64
		}
		var terms []term
		for a, co := range L.t {
			v := fi.atomValue(a)
			if v == nil {
				okAtoms = false
				break
			}
			if ph, isPhi := v.(*ssa.Phi); isPhi && ph.Block() == l.Header && !strings.HasPrefix(a, "len(") {
				terms = append(terms, term{ph, co})
				continue
			}
			if !c.loopInvariant(fi, l, v) {
				okAtoms = false
			}
		}
		if !okAtoms || len(terms) == 0 {
			continue
		}
		good := true
		for i, p := range l.Header.Preds {
			if !l.Blocks[p] {
				continue
			}
			delta := linConst(0)
			for _, t := range terms {
				delta = delta.addk(fi.lin(t.ph.Edges[i]).sub(linAtom(t.ph.Name())), t.co)
			}
			// (the back edge may leave its block on a branch: its own condition counts)
			if !fi.proveLE0(linConst(1).sub(delta), fi.edgeConds(p, l.Header), nil, map[string]bool{}, 0) && !fi.proveAt(linConst(1).sub(delta), p, nil) {
				good = false
			}
		}
		if good {
			return true
		}
	}
	return false
}

func (c *Ctx) loopInvariant(fi *FuncInfo, l *Loop, v ssa.Value) bool {
	switch x := v.(type) {
	case *ssa.Const, *ssa.Parameter, *ssa.FreeVar:
		return true
	case *ssa.Phi:
		if !l.Blocks[x.Block()] {
			return true
		}
		// a header phi that only carries itself around the loop
		if x.Block() == l.Header {
			same := true
			for i, p := range l.Header.Preds {
				if l.Blocks[p] && x.Edges[i] != x {
					same = false
				}
			}
			if same {
				return true
			}
		}
	case ssa.Instruction:
		if !l.Blocks[x.Block()] {
			return true
		}
	}
	// computed in the loop from invariant parts only (len of an invariant slice, load of a field not written in the loop)
	switch x := v.(type) {
	case *ssa.Call:
		if bi, ok := x.Call.Value.(*ssa.Builtin); ok && bi.Name() == "len" {
			return c.loopInvariant(fi, l, x.Call.Args[0])
		}
		// pure observers of the standard library on an invariant value (v.NumField() as a loop bound)
		if cl := x.Call.StaticCallee(); cl != nil && cl.Pkg != nil && cl.Pkg.Pkg.Path() == "reflect" {
			switch cl.Name() {
			case "NumField", "Len", "NumMethod":
				all := true
				for _, a := range x.Call.Args {
					if !c.loopInvariant(fi, l, a) {
						all = false
					}
				}
				return all
			}
		}
	case *ssa.Convert:
		return c.loopInvariant(fi, l, x.X)
	case *ssa.BinOp:
		return c.loopInvariant(fi, l, x.X) && c.loopInvariant(fi, l, x.Y)
	case *ssa.UnOp:
		if x.Op == token.MUL {
			// a local that the loop neither stores to nor hands out by address
			if al, isAl := x.X.(*ssa.Alloc); isAl {
				for _, ref := range *al.Referrers() {
					in, _ := ref.(ssa.Instruction)
					if in == nil || !l.Blocks[in.Block()] {
						continue
					}
					switch r := ref.(type) {
					case *ssa.UnOp:
						if r.Op != token.MUL {
							return false
						}
					case *ssa.DebugRef:
					default:
						return false
					}
				}
				return true
			}
			f := fieldOfAddr(x.X)
			if f == nil {
				return false
			}
			fi.computeWriters()
			for _, w := range fi.writers[f] {
				if l.Blocks[w.Block()] {
					return false
				}
			}
			return true
		}
	}
	return false
}

// isSliceShrinkLoop: header tests len(q) ≥ c (c ≥ 1) for a slice phi q whose back-edge values are q[k:], k ≥ 1.
func (c *Ctx) isSliceShrinkLoop(fi *FuncInfo, l *Loop) bool {
	iff, ok := l.Header.Instrs[len(l.Header.Instrs)-1].(*ssa.If)
	if !ok {
		return false
	}
	// the loop continues only under  c − len(q) ≤ 0  (any spelling) for a header phi q
	stay := l.Blocks[l.Header.Succs[0]]
	fs := fi.factsOf([]Cond{{iff.Cond, stay}})
	if len(fs) != 1 || fs[0].Op != LE {
		return false
	}
	var q *ssa.Phi
	for a, co := range fs[0].L.t {
		if co != -1 || !strings.HasPrefix(a, "len(") || !strings.HasSuffix(a, ")") {
			return false
		}
		ph, isPhi := fi.atomValues()[a[4:len(a)-1]].(*ssa.Phi)
		if !isPhi || ph.Block() != l.Header {
			return false
		}
		q = ph
	}
	if q == nil || len(fs[0].L.t) != 1 {
		return false
	}
	for i, p := range l.Header.Preds {
		if !l.Blocks[p] {
			continue
		}
		sl, ok := q.Edges[i].(*ssa.Slice)
		if !ok || sl.X != q {
			return false
		}
		// q = q[k:] with k ≥ 1, or q = q[:len(q)−k] with k ≥ 1: the slice gets strictly shorter
		if sl.Low != nil && sl.High == nil {
			if k, ok := constInt(sl.Low); ok && k >= 1 {
				continue
			}
			return false
		}
		if sl.Low == nil && sl.High != nil {
			d := fi.lenOf(q).sub(fi.lin(sl.High))
			if d.isConst() && d.c >= 1 {
				continue
			}
		}
		return false
	}
	return true
}

// isBacktrackLoop: for i != 0 { …; i -= m } where m is loaded from a record field.
func (c *Ctx) isBacktrackLoop(fi *FuncInfo, l *Loop) bool {
	iff, ok := l.Header.Instrs[len(l.Header.Instrs)-1].(*ssa.If)
	if !ok {
		return false
	}
	bo, ok := iff.Cond.(*ssa.BinOp)
	if !ok || bo.Op != token.NEQ || !isConstZero(bo.Y) {
		return false
	}
	ph, ok := bo.X.(*ssa.Phi)
	if !ok || ph.Block() != l.Header {
		return false
	}
	for i, p := range l.Header.Preds {
		if !l.Blocks[p] {
			continue
		}
		sub, ok := ph.Edges[i].(*ssa.BinOp)
		if !ok || sub.Op != token.SUB || sub.X != ph {
			return false
		}
		if fieldNameOfRead(stripConv(sub.Y)) == "" {
			return false
		}
	}
	return true
}

// isFillLoop: an unconditional loop that calls io.Reader.Read.
func (c *Ctx) isFillLoop(fi *FuncInfo, l *Loop) bool {
	for b := range l.Blocks {
		for _, in := range b.Instrs {
			if call, ok := in.(*ssa.Call); ok && call.Call.IsInvoke() && call.Call.Method.Name() == "Read" {
				return true
			}
		}
	}
	return false
}

func (c *Ctx) isWrapLoop(fi *FuncInfo, l *Loop) bool {
	n := 0
	var rf *ssa.Call
	for b := range l.Blocks {
		for _, in := range b.Instrs {
			if call, ok := in.(*ssa.Call); ok && call.Call.IsInvoke() {
				switch call.Call.Method.Name() {
				case "Parse":
					n++
				case "ReadFrom":
					n++
					rf = call
				}
			}
		}
	}
	if n < 2 || rf == nil {
		return false
	}
	// the premise the template quotes: every way round the loop has read something (count of ReadFrom ≠ 0 on
	// the back edge); a way round without it repeats Parse → ErrEmptyBuffer → ReadFrom for ever when the reader
	// keeps answering with an error and no data
	k := extractOf(rf, 0)
	if k == nil {
		return false
	}
	for _, la := range l.Latches {
		okK := false
		for _, f := range fi.factsOf(fi.edgeConds(la, l.Header)) {
			if len(f.L.t) == 1 {
				if co := f.L.t[k.Name()]; co != 0 {
					if (f.Op == NE && f.L.c == 0) || (f.Op == LE && co == -1 && f.L.c >= 1) {
						okK = true
					}
				}
			}
		}
		if !okK {
			return false
		}
	}
	return true
}

// isBitClearLoop: for x != 0 { …; x &^= 1 << i }.
func (c *Ctx) isBitClearLoop(fi *FuncInfo, l *Loop) bool {
	iff, ok := l.Header.Instrs[len(l.Header.Instrs)-1].(*ssa.If)
	if !ok {
		return false
	}
	bo, ok := iff.Cond.(*ssa.BinOp)
	if !ok || bo.Op != token.NEQ {
		return false
	}
	ph, ok := bo.X.(*ssa.Phi)
	if !ok || ph.Block() != l.Header {
		return false
	}
	for i, p := range l.Header.Preds {
		if !l.Blocks[p] {
			continue
		}
		an, ok := ph.Edges[i].(*ssa.BinOp)
		if !ok || an.Op != token.AND_NOT || an.X != ph {
			return false
		}
	}
	return true
}
