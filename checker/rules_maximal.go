package main

// C19 (and the verification clause of C01): matches are verified at the
// right offsets and extended until a mismatch or the block end.
//
// R-OFFSET-AGREE  every byte comparison that contributes to an emitted
//                 MatchLen compares position x with x − Offset and starts
//                 where the already verified part ends.
// R-EXT-COVER     every path to an emission ends with a mismatch witness (a
//                 word count below the word size, or the exact result of a
//                 common-prefix helper on open-ended slices) or at the block end.
// R-BACKEXT       backward extension (BHP, BDHP).
// R-REINDEX       positions covered by a match are indexed; the scanned
//                 position is indexed on every iteration.
// R-CAND-MEASURED a table candidate with equal hash input inside the window
//                 is always measured.

import (
	"fmt"
	"go/token"
	"go/types"
	"sort"
	"strings"

	"golang.org/x/tools/go/ssa"
)

func init() {
	reg(&Rule{ID: "R-OFFSET-AGREE", Min: 10,
		Doc: "every comparison feeding an emitted MatchLen (8-byte word counts, lcp results) compares the bytes at x and x − Offset and starts exactly where the verified part ends (position + accumulated length)",
		Run: ruleOffsetAgree})
	reg(&Rule{ID: "R-EXT-COVER", Min: 8,
		Doc: "on every path to an emission the match end H+MatchLen is justified: the last word count is < 8 (mismatch seen), or it is the exact result of a common-prefix helper on slices running to the block end, or H+MatchLen = len(p) (block end); the extension loops keep k + len(q) = len(p) − i",
		Run: ruleExtCover})
	reg(&Rule{ID: "R-BACKEXT", Min: 3,
		Doc: "backward-extending parsers: lcs(p[j−back:j], p[:i]) with back = min(pending literals, j) is executed whenever literals are pending, its result moves the match start back and lengthens the match, Offset unchanged",
		Run: ruleBackExt})
	reg(&Rule{ID: "R-REINDEX", Min: 12,
		Doc: "the scanned position is stored into the (first) hash table on every iteration, and after an emission every position up to min(H+MatchLen, scan bound)−1 is stored by a counting loop starting no later than i+1",
		Run: ruleReindex})
	reg(&Rule{ID: "R-CAND-MEASURED", Min: 5,
		Doc: "between reading a table candidate and measuring it, the candidate is abandoned only because its stored value differs from the hashed input, its offset is outside (0, WindowSize], or a one-byte pre-check fails",
		Run: ruleCandMeasured})
}

// ---------------------------------------------------------------- helpers

// isLoader64: fn is func([]byte) uint64 of package lz.
func (c *Ctx) isLoader64(fn *ssa.Function) bool {
	if fn == nil || fn.Pkg != c.lz {
		return false
	}
	sig := fn.Signature
	if sig.Params().Len() != 1 || sig.Results().Len() != 1 || !isByteSlice(sig.Params().At(0).Type()) {
		return false
	}
	b, ok := sig.Results().At(0).Type().Underlying().(*types.Basic)
	return ok && b.Kind() == types.Uint64
}

// isByteCompare: fn is func(p, q []byte) int of package lz (lcp, lcs).
func (c *Ctx) isByteCompare(fn *ssa.Function) bool {
	if fn == nil || fn.Pkg != c.lz {
		return false
	}
	sig := fn.Signature
	return sig.Params().Len() == 2 && sig.Results().Len() == 1 && isIntType(sig.Results().At(0).Type()) &&
		isByteSlice(sig.Params().At(0).Type()) && isByteSlice(sig.Params().At(1).Type()) && sig.Recv() == nil
}

// wordCount describes k = TrailingZeros64(load(A) ^ load(B)) >> 3.
type wordCount struct {
	v    *ssa.BinOp
	a, b ssa.Value // the slices loaded
	safe [2]bool   // loader tolerates short slices (not checked here)
}

func (c *Ctx) loadedSlice(v ssa.Value) ssa.Value {
	call, ok := v.(*ssa.Call)
	if !ok || !c.isLoader64(call.Call.StaticCallee()) {
		return nil
	}
	return call.Call.Args[0]
}

func (c *Ctx) asWordCount(v ssa.Value) *wordCount {
	bo, ok := v.(*ssa.BinOp)
	if !ok || bo.Op != token.SHR {
		return nil
	}
	if k, isC := constInt(bo.Y); !isC || k != 3 {
		return nil
	}
	call, ok := bo.X.(*ssa.Call)
	if !ok || call.Call.StaticCallee() == nil || call.Call.StaticCallee().Pkg == nil ||
		call.Call.StaticCallee().Pkg.Pkg.Path() != "math/bits" || call.Call.StaticCallee().Name() != "TrailingZeros64" {
		return nil
	}
	x, ok := call.Call.Args[0].(*ssa.BinOp)
	if !ok || x.Op != token.XOR {
		return nil
	}
	a, b := c.loadedSlice(x.X), c.loadedSlice(x.Y)
	if a == nil || b == nil {
		return nil
	}
	return &wordCount{v: bo, a: a, b: b}
}

// sliceOff: offset of slice S from the start of the data buffer, for slices
// obtained from a prefix slice X[:h] only by open-ended re-slicing [lo:].
// Loop-carried slices are expressed as len(root) − len(S).
func (fi *FuncInfo) sliceOff(S ssa.Value, depth int) (root ssa.Value, off Lin, ok bool) {
	if depth > 6 {
		return nil, Lin{}, false
	}
	switch x := S.(type) {
	case *ssa.Slice:
		if x.Low == nil {
			// prefix slice: a root
			return x, linConst(0), true
		}
		if x.High != nil {
			return nil, Lin{}, false
		}
		r, o, ok := fi.sliceOff(x.X, depth+1)
		if !ok {
			return nil, Lin{}, false
		}
		return r, o.add(fi.lin(x.Low)), true
	case *ssa.Phi:
		var r ssa.Value
		for k, e := range x.Edges {
			pred := x.Block().Preds[k]
			if x.Block().Dominates(pred) {
				// back edge: open-ended re-slice of the phi itself
				sl, isSl := e.(*ssa.Slice)
				if !isSl || sl.X != ssa.Value(x) || sl.High != nil {
					return nil, Lin{}, false
				}
				continue
			}
			r2, _, ok := fi.sliceOff(e, depth+1)
			if !ok || (r != nil && r2 != r) {
				return nil, Lin{}, false
			}
			r = r2
		}
		if r == nil {
			return nil, Lin{}, false
		}
		return r, fi.lenOf(r).sub(fi.lenOf(x)), true
	}
	return nil, Lin{}, false
}

// extLemmas: equalities kept by the word-extension loops, proved by
// induction at the loop header:
//
//	k + len(q) = k₀ + len(q₀)        (both directions)
//	len(r) − len(q) = len(r₀) − len(q₀)
var extLemmaMemo = map[*FuncInfo][]Fact{}

func (fi *FuncInfo) extLemmas() []Fact {
	if m, ok := extLemmaMemo[fi]; ok {
		return m
	}
	out := fi.extLemmas0()
	extLemmaMemo[fi] = out
	return out
}

func (fi *FuncInfo) extLemmas0() []Fact {
	var out []Fact
	for _, l := range fi.loops {
		var ints, slices []*ssa.Phi
		for _, in := range l.Header.Instrs {
			ph, ok := in.(*ssa.Phi)
			if !ok {
				break
			}
			if isIntType(ph.Type()) {
				ints = append(ints, ph)
			} else if isByteSlice(ph.Type()) {
				slices = append(slices, ph)
			}
		}
		entry := -1
		for i, p := range l.Header.Preds {
			if !l.Blocks[p] {
				if entry >= 0 {
					entry = -2
				} else {
					entry = i
				}
			}
		}
		if entry < 0 || len(slices) == 0 {
			continue
		}
		selfSliced := func(q *ssa.Phi) bool {
			for i, p := range l.Header.Preds {
				if !l.Blocks[p] {
					continue
				}
				sl, ok := q.Edges[i].(*ssa.Slice)
				if !ok || sl.X != ssa.Value(q) {
					return false
				}
			}
			return true
		}
		// direct induction over the header's incoming edges with the cheap prover:
		// entry edges establish g = 0, back edges preserve it under the edge conditions
		induct := func(g Lin, sub func(i int) Lin) bool {
			for i, p := range l.Header.Preds {
				gi := sub(i)
				cs := fi.edgeConds(p, l.Header)
				var hyp []Fact
				if l.Blocks[p] {
					hyp = []Fact{{g, EQ}}
				}
				if !(fi.proveFlat(gi, cs, hyp) && fi.proveFlat(gi.scale(-1), cs, hyp)) {
					return false
				}
			}
			return true
		}
		for _, k := range ints {
			for _, q := range slices {
				if !selfSliced(q) {
					continue
				}
				base := fi.lin(k.Edges[entry]).add(fi.lenOf(q.Edges[entry]))
				g := linAtom(k.Name()).add(linAtom("len(" + q.Name() + ")")).sub(base)
				k, q := k, q
				if induct(g, func(i int) Lin { return fi.lin(k.Edges[i]).add(fi.lenOf(q.Edges[i])).sub(base) }) {
					out = append(out, Fact{g, EQ})
				}
			}
		}
		for i, q := range slices {
			for j, r := range slices {
				if i >= j || !selfSliced(q) || !selfSliced(r) {
					continue
				}
				base := fi.lenOf(r.Edges[entry]).sub(fi.lenOf(q.Edges[entry]))
				g := linAtom("len(" + r.Name() + ")").sub(linAtom("len(" + q.Name() + ")")).sub(base)
				q, r := q, r
				if induct(g, func(i int) Lin { return fi.lenOf(r.Edges[i]).sub(fi.lenOf(q.Edges[i])).sub(base) }) {
					out = append(out, Fact{g, EQ})
				}
			}
		}
	}
	return out
}

// linCase is one path through the merge phis of a linear expression.
type linCase struct {
	L     Lin
	Conds []Cond
	Eqs   []Fact
	Preds []*ssa.BasicBlock
}

// expandCases substitutes merge phis (phis inside scan loop L that are not
// loop headers) occurring in l by their incoming values, collecting the edge
// conditions.  Sibling phis of the same block take the same edge.
func (fi *FuncInfo) expandCases(l Lin, L *Loop, at *ssa.BasicBlock) []linCase {
	var out []linCase
	isHeader := func(b *ssa.BasicBlock) bool {
		for _, lp := range fi.loops {
			if lp.Header == b {
				return true
			}
		}
		return false
	}
	var rec func(l Lin, conds []Cond, eqs []Fact, preds []*ssa.BasicBlock, chosen map[*ssa.BasicBlock]int, depth int)
	rec = func(l Lin, conds []Cond, eqs []Fact, preds []*ssa.BasicBlock, chosen map[*ssa.BasicBlock]int, depth int) {
		if depth > 10 || len(out) > 400 {
			out = append(out, linCase{l, conds, eqs, preds})
			return
		}
		av := fi.atomValues()
		var atoms []string
		for a := range l.t {
			atoms = append(atoms, a)
		}
		sort.Strings(atoms)
		for _, a := range atoms {
			ph, ok := av[a].(*ssa.Phi)
			if !ok || (L != nil && !L.Blocks[ph.Block()]) || isHeader(ph.Block()) {
				continue
			}
			co := l.t[a]
			rest := l.clone()
			delete(rest.t, a)
			edges := make([]int, 0, len(ph.Edges))
			if k, done := chosen[ph.Block()]; done {
				edges = append(edges, k)
			} else {
				for k := range ph.Edges {
					edges = append(edges, k)
				}
			}
			for _, k := range edges {
				ch2 := map[*ssa.BasicBlock]int{}
				for b, v := range chosen {
					ch2[b] = v
				}
				ch2[ph.Block()] = k
				pred := ph.Block().Preds[k]
				cs := append(append([]Cond{}, conds...), fi.edgeConds(pred, ph.Block())...)
				q2 := append(append([]Fact{}, eqs...), Fact{fi.lin(ph).sub(fi.lin(ph.Edges[k])), EQ})
				for _, in := range ph.Block().Instrs {
					if sib, isPhi := in.(*ssa.Phi); isPhi && sib != ph && isIntType(sib.Type()) {
						q2 = append(q2, Fact{fi.lin(sib).sub(fi.lin(sib.Edges[k])), EQ})
					} else if isPhi && sib != ph {
						// nil-ness of pointer/interface φs travels along the same edge
						if ls, ok1 := fi.nilLin(sib); ok1 {
							if le, ok2 := fi.nilLin(sib.Edges[k]); ok2 {
								q2 = append(q2, Fact{ls.sub(le), EQ})
							}
						}
					}
				}
				rec(rest.addk(fi.lin(ph.Edges[k]), co), cs, q2, append(append([]*ssa.BasicBlock{}, preds...), pred), ch2, depth+1)
			}
			return
		}
		out = append(out, linCase{l, conds, eqs, preds})
	}
	rec(l, fi.condsAt(at), nil, nil, map[*ssa.BasicBlock]int{}, 0)
	return out
}

func (c *Ctx) scanOf(e *Emit) *ScanLoop {
	scans, _ := c.scanLoops()
	for _, s := range scans {
		for _, e2 := range s.Emits {
			if e2.Key == e.Key {
				return s
			}
		}
	}
	return nil
}

// hashParserEmits: emission sites of position-scanning parsers.
func (c *Ctx) scanEmits() []*Emit {
	var out []*Emit
	for _, e := range c.emits() {
		if isFieldFlow(e.MatchLen) {
			continue
		}
		if c.scanOf(e) != nil {
			out = append(out, e)
		}
	}
	return out
}

// ---------------------------------------------------------------- R-OFFSET-AGREE

func ruleOffsetAgree(c *Ctx) {
	c.assume("the 8-byte loaders return the little-endian word at the start of their argument; lcp/lcs return the exact common prefix/suffix length")
	for _, e := range c.scanEmits() {
		s := c.scanOf(e)
		fi := s.fi
		P := fi.lin(s.P)
		off := fi.lin(stripConv(e.Offset))
		lem := fi.extLemmas()
		// word counts in the scan loop that flow into this emission's MatchLen
		m := stripConv(e.MatchLen)
		feeds := valueClosure(m, s.L)
		n := 0
		var blocks []*ssa.BasicBlock
		for b := range s.L.Blocks {
			blocks = append(blocks, b)
		}
		sort.Slice(blocks, func(i, j int) bool { return blocks[i].Index < blocks[j].Index })
		for _, b := range blocks {
			for _, in := range b.Instrs {
				v, isV := in.(ssa.Value)
				if !isV || !feeds[v] {
					continue
				}
				if wc := c.asWordCount(v); wc != nil {
					n++
					key := fmt.Sprintf("%s:word#%d", e.Key, n)
					// accumulated length before this word
					K := linConst(0)
					for add := range feeds {
						bo, isAdd := add.(*ssa.BinOp)
						if !isAdd || bo.Op != token.ADD {
							continue
						}
						// (the other addend counts as "verified before" only if it exists when v is computed)
						before := func(o ssa.Value) bool {
							oi, isInstr := o.(ssa.Instruction)
							vi, _ := v.(ssa.Instruction)
							if !isInstr || vi == nil {
								return true
							}
							if oi.Block() == vi.Block() {
								return fi.instrIx[oi] < fi.instrIx[vi]
							}
							return oi.Block().Dominates(vi.Block())
						}
						if fi.isAddendOf(v, bo.X) && before(bo.Y) {
							K = fi.lin(bo.Y)
						} else if fi.isAddendOf(v, bo.Y) && before(bo.X) {
							K = fi.lin(bo.X)
						}
					}
					// the running count may be kept in a counter of its own that is added to the length found
					// so far only afterwards (k += n): then the verified length is that outer addend plus n
					Ks := []Lin{K}
					{
						// (within one iteration of the scan loop: values of earlier iterations do not count)
						dependsOnV := func(x ssa.Value) bool {
							seen := map[ssa.Value]bool{}
							found := false
							var walk func(y ssa.Value)
							walk = func(y ssa.Value) {
								if y == nil || seen[y] || found {
									return
								}
								seen[y] = true
								if y == v {
									found = true
									return
								}
								in, ok := y.(ssa.Instruction)
								if !ok || !s.L.Blocks[in.Block()] {
									return
								}
								switch z := y.(type) {
								case *ssa.Phi:
									if z.Block() == s.L.Header {
										return
									}
									for _, e := range z.Edges {
										walk(e)
									}
								case *ssa.BinOp:
									if z.Op == token.ADD || z.Op == token.SUB {
										walk(z.X)
										walk(z.Y)
									}
								case *ssa.Convert:
									walk(z.X)
								}
							}
							walk(x)
							return found
						}
						// the additions between v and the emitted length within this iteration
						feedsIter := map[ssa.Value]bool{}
						var walkM func(y ssa.Value)
						walkM = func(y ssa.Value) {
							if y == nil || feedsIter[y] {
								return
							}
							in, ok := y.(ssa.Instruction)
							if !ok || !s.L.Blocks[in.Block()] {
								return
							}
							if ph, isPhi := y.(*ssa.Phi); isPhi && ph.Block() == s.L.Header {
								return
							}
							feedsIter[y] = true
							switch z := y.(type) {
							case *ssa.Phi:
								for _, e := range z.Edges {
									walkM(e)
								}
							case *ssa.BinOp:
								if z.Op == token.ADD {
									walkM(z.X)
									walkM(z.Y)
								}
							case *ssa.Convert:
								walkM(z.X)
							}
						}
						walkM(m)
						var outers []Lin
						for add := range feedsIter {
							bo, isAdd := add.(*ssa.BinOp)
							if !isAdd || bo.Op != token.ADD || fi.isAddendOf(v, bo.X) || fi.isAddendOf(v, bo.Y) {
								continue
							}
							dx, dy := dependsOnV(bo.X), dependsOnV(bo.Y)
							if dx && !dy {
								outers = append(outers, fi.lin(bo.Y))
							} else if dy && !dx {
								outers = append(outers, fi.lin(bo.X))
							}
						}
						sort.Slice(outers, func(i, j int) bool { return outers[i].String() < outers[j].String() })
						// any subset of the outer addends may be what was verified before (a backward extension
						// is an outer addend too, but not part of the forward length)
						if len(outers) <= 4 {
							for mask := 1; mask < 1<<len(outers); mask++ {
								sum := K
								for i, o := range outers {
									if mask&(1<<i) != 0 {
										sum = sum.add(o)
									}
								}
								Ks = append(Ks, sum)
							}
						}
					}
					_, oa, ok1 := fi.sliceOff(wc.a, 0)
					_, ob, ok2 := fi.sliceOff(wc.b, 0)
					if !ok1 || !ok2 {
						c.fail(key, wc.v.Pos(), "the compared words are not loaded from open-ended re-slices of the data buffer; alignment undecided")
						continue
					}
					conds := fi.condsAt(b)
					lem := fi.validFacts(lem, b, nil)
					good := false
					for _, full := range []bool{false, true} {
						eq := func(l Lin) bool {
							if !full {
								return fi.proveFlat(l, conds, lem) && fi.proveFlat(l.scale(-1), conds, lem)
							}
							return fi.proveCheap(l, conds, lem) && fi.proveCheap(l.scale(-1), conds, lem)
						}
						for _, pr := range [][2]Lin{{oa, ob}, {ob, oa}} {
							for _, Kc := range Ks {
								if !good && eq(pr[0].sub(P).sub(Kc)) && eq(pr[0].sub(pr[1]).sub(off)) {
									good = true
									K = Kc
								}
							}
						}
						if good {
							break
						}
					}
					c.check(good, key, wc.v.Pos(), fmt.Sprintf("word compare at offsets (%s, %s): = (i+k, i+k−Offset) with k = %s", oa, ob, K),
						fmt.Sprintf("the 8-byte compare at data offsets (%s, %s) is not the pair (i + k, i + k − Offset) for position i = %s, verified length k = %s, Offset = %s: bytes are counted as matching that were never compared with the byte Offset back", oa, ob, P, K, off))
					continue
				}
				if call, isCall := v.(*ssa.Call); isCall && c.isByteCompare(call.Call.StaticCallee()) {
					a0, isS0 := call.Call.Args[0].(*ssa.Slice)
					a1, isS1 := call.Call.Args[1].(*ssa.Slice)
					if !isS0 || !isS1 {
						continue
					}
					if a0.High != nil || a1.High != nil {
						continue // suffix compare: R-BACKEXT
					}
					n++
					key := fmt.Sprintf("%s:prefix#%d", e.Key, n)
					_, oa, ok1 := fi.sliceOff(a0, 0)
					_, ob, ok2 := fi.sliceOff(a1, 0)
					if !ok1 || !ok2 {
						c.fail(key, call.Pos(), "common-prefix arguments are not open-ended re-slices of the data buffer")
						continue
					}
					// one side starts at the scan position; Offset agreement is checked on every
					// path on which this call's result becomes MatchLen
					var other Lin
					if oa.eq(P) {
						other = ob
					} else if ob.eq(P) {
						other = oa
					} else {
						c.fail(key, call.Pos(), "neither argument of the common-prefix computation starts at the scan position %s (offsets %s, %s)", P, oa, ob)
						continue
					}
					good, detail := c.pairedOffset(e, s, call, other)
					c.check(good, key, call.Pos(), "common prefix of p[i:] and p[i−Offset:] whenever its result is emitted",
						"the emitted Offset does not equal the distance between the two compared positions on a path where this result becomes MatchLen: "+detail)
				}
			}
		}
		if n == 0 {
			c.fail(e.Key+":compare", e.Pos, "no byte comparison feeds the emitted MatchLen")
		}
	}
}

// valueClosure: all values inside loop L from which m is computed (operands,
// transitively, through phis, arithmetic and conversions).
func valueClosure(m ssa.Value, L *Loop) map[ssa.Value]bool {
	seen := map[ssa.Value]bool{}
	var walk func(v ssa.Value)
	walk = func(v ssa.Value) {
		if v == nil || seen[v] {
			return
		}
		in, ok := v.(ssa.Instruction)
		if !ok || !L.Blocks[in.Block()] {
			return
		}
		seen[v] = true
		switch x := v.(type) {
		case *ssa.Phi:
			for _, e := range x.Edges {
				walk(e)
			}
		case *ssa.BinOp:
			if x.Op == token.ADD || x.Op == token.SUB {
				walk(x.X)
				walk(x.Y)
			}
		case *ssa.Convert:
			walk(x.X)
		}
	}
	walk(m)
	return seen
}

// isAddendOf: x is v itself or a merge phi (not a loop header) one of whose
// incoming values is v (a clamp of v).
func (fi *FuncInfo) isAddendOf(v, x ssa.Value) bool {
	x = stripConv(x)
	if x == v {
		return true
	}
	ph, ok := x.(*ssa.Phi)
	if !ok {
		return false
	}
	for _, l := range fi.loops {
		if l.Header == ph.Block() {
			return false
		}
	}
	for _, e := range ph.Edges {
		if stripConv(e) == v {
			return true
		}
	}
	return false
}

// topCases expands only the outermost merge phi of a one-atom expression
// (min/max written as if-assignment).
func (fi *FuncInfo) topCases(l Lin, at *ssa.BasicBlock) []linCase {
	if len(l.t) == 1 && l.c == 0 {
		for a, co := range l.t {
			if co != 1 {
				break
			}
			if ph, ok := fi.atomValues()[a].(*ssa.Phi); ok {
				// a loop-header phi is accepted when it is loop invariant (every
				// back edge carries the phi itself): `b := x; if b > y { b = y }; for ; j < b; j++`
				inv := true
				for k, e := range ph.Edges {
					if ph.Block().Dominates(ph.Block().Preds[k]) && e != ssa.Value(ph) {
						inv = false
					}
				}
				if inv {
					var out []linCase
					for k, e := range ph.Edges {
						pred := ph.Block().Preds[k]
						if e == ssa.Value(ph) {
							continue
						}
						out = append(out, linCase{L: fi.lin(e), Conds: fi.edgeConds(pred, ph.Block()), Preds: []*ssa.BasicBlock{pred}})
					}
					return out
				}
			}
		}
	}
	return []linCase{{L: l, Conds: fi.condsAt(at)}}
}

func usersThroughPhis(v ssa.Value, depth int) []ssa.Instruction {
	var out []ssa.Instruction
	refs := v.Referrers()
	if refs == nil {
		return nil
	}
	for _, r := range *refs {
		out = append(out, r)
		if ph, ok := r.(*ssa.Phi); ok && depth > 0 {
			out = append(out, usersThroughPhis(ph, depth-1)...)
		}
	}
	return out
}

func phiOf(x, v ssa.Value) bool {
	ph, ok := stripConv(x).(*ssa.Phi)
	if !ok {
		return false
	}
	for _, e := range ph.Edges {
		if e == v {
			return true
		}
	}
	return false
}

// pairedOffset: on every path on which call's result is the emitted
// MatchLen, the emitted Offset equals P − other (other = data offset of the
// earlier occurrence).  Candidates carried by a loop (bucket scan) are
// handled by walking the phi webs of MatchLen and Offset in lock step.
func (c *Ctx) pairedOffset(e *Emit, s *ScanLoop, call *ssa.Call, other Lin) (bool, string) {
	fi := s.fi
	P := fi.lin(s.P)
	m, o := stripConv(e.MatchLen), stripConv(e.Offset)
	seen := map[[2]ssa.Value]bool{}
	okAll := true
	detail := ""
	hit := false
	var walk func(vm, vo ssa.Value, conds []Cond, eqs []Fact, depth int)
	walk = func(vm, vo ssa.Value, conds []Cond, eqs []Fact, depth int) {
		if seen[[2]ssa.Value{vm, vo}] || depth > 8 {
			return
		}
		seen[[2]ssa.Value{vm, vo}] = true
		if vm == ssa.Value(call) {
			hit = true
			g := fi.lin(vo).sub(P.sub(other))
			if !(fi.proveLE0(g, conds, eqs, map[string]bool{}, 0) && fi.proveLE0(g.scale(-1), conds, eqs, map[string]bool{}, 0)) {
				okAll = false
				detail = fmt.Sprintf("Offset %s vs compared distance %s", fi.lin(vo), P.sub(other))
			}
			return
		}
		pm, isPm := vm.(*ssa.Phi)
		if !isPm {
			return
		}
		po, isPo := vo.(*ssa.Phi)
		for k, em := range pm.Edges {
			pred := pm.Block().Preds[k]
			var eo ssa.Value = vo
			if isPo && po.Block() == pm.Block() {
				eo = po.Edges[k]
			}
			cs := conds
			if !pm.Block().Dominates(pred) {
				cs = append(append([]Cond{}, conds...), fi.edgeConds(pred, pm.Block())...)
			} else {
				cs = fi.edgeConds(pred, pm.Block())
			}
			walk(stripConv(em), stripConv(eo), cs, eqs, depth+1)
		}
	}
	// Offset may be computed at the site as P − f with f a phi paired with MatchLen
	if bo, ok := o.(*ssa.BinOp); ok && bo.Op == token.SUB && fi.lin(bo.X).eq(P) {
		// walk MatchLen together with f; compare f with `other`
		f := stripConv(bo.Y)
		seen2 := map[[2]ssa.Value]bool{}
		var walk2 func(vm, vf ssa.Value, depth int)
		walk2 = func(vm, vf ssa.Value, depth int) {
			if seen2[[2]ssa.Value{vm, vf}] || depth > 8 {
				return
			}
			seen2[[2]ssa.Value{vm, vf}] = true
			if vm == ssa.Value(call) {
				hit = true
				if !fi.lin(vf).eq(other) {
					okAll = false
					detail = fmt.Sprintf("source position %s vs compared position %s", fi.lin(vf), other)
				}
				return
			}
			pm, isPm := vm.(*ssa.Phi)
			if !isPm {
				return
			}
			pf, isPf := vf.(*ssa.Phi)
			for k, em := range pm.Edges {
				var ef ssa.Value = vf
				if isPf && pf.Block() == pm.Block() {
					ef = pf.Edges[k]
				}
				walk2(stripConv(em), stripConv(ef), depth+1)
			}
		}
		walk2(m, f, 0)
		if !hit {
			return false, "the result never reaches MatchLen"
		}
		return okAll, detail
	}
	walk(m, o, fi.condsAt(e.Block), nil, 0)
	if !hit {
		return false, "the result never reaches MatchLen"
	}
	return okAll, detail
}

// ---------------------------------------------------------------- R-EXT-COVER

func ruleExtCover(c *Ctx) {
	for _, e := range c.scanEmits() {
		s := c.scanOf(e)
		fi := s.fi
		q := litSlice(e)
		if q == nil {
			c.fail(e.Key, e.Pos, "no literal slice")
			continue
		}
		pLen := fi.lenOf(q.X)
		E := fi.lin(q.High).add(fi.lin(stripConv(e.MatchLen)))
		lem := fi.extLemmas()
		cases := fi.expandCases(E, s.L, e.Block)
		okAll := true
		kinds := map[string]int{}
		for _, cs := range cases {
			extra := append(fi.validFacts(lem, e.Block, cs.Preds), cs.Eqs...)
			just := ""
			for _, full := range []bool{false, true} {
				prove := func(g Lin) bool {
					if !full {
						return fi.proveFlat(g, cs.Conds, extra)
					}
					return fi.proveLE0(g, cs.Conds, extra, map[string]bool{}, 0)
				}
				just = c.extJustify(fi, s, cs, q, pLen, prove)
				if just != "" {
					break
				}
			}
			if just != "" {
				kinds[just]++
				continue
			}
			okAll = false
			c.fail(e.Key, e.Pos, "on the path via blocks %v the match ends at %s although neither a mismatch was seen (last word count < 8, or an exact common-prefix result) nor the block end len(p) = %s is reached: the match can be extended to the right (facts: %s)",
				blockIdx(cs.Preds), cs.L, pLen, factStrings(fi.factsOf(cs.Conds)))
			break
		}
		if okAll {
			var ks []string
			for k, n := range kinds {
				ks = append(ks, fmt.Sprintf("%s×%d", k, n))
			}
			sort.Strings(ks)
			c.ok(e.Key, e.Pos, "%d paths to the emission, each ends with: %s", len(cases), strings.Join(ks, ", "))
		}
	}
}

// extJustify returns why the match end of one path is maximal, or "".
func (c *Ctx) extJustify(fi *FuncInfo, s *ScanLoop, cs linCase, q *ssa.Slice, pLen Lin, prove func(Lin) bool) string {
	if prove(pLen.sub(cs.L)) {
		return "block end"
	}
	av := fi.atomValues()
	var atoms []string
	for a := range cs.L.t {
		atoms = append(atoms, a)
	}
	sort.Strings(atoms)
	for _, a := range atoms {
		v := av[a]
		if v == nil || cs.L.t[a] != 1 {
			continue
		}
		if wc := c.asWordCount(v); wc != nil {
			if prove(fi.lin(v).addc(-7)) {
				return "word count < 8"
			}
		}
		if call, isCall := v.(*ssa.Call); isCall && c.isByteCompare(call.Call.StaticCallee()) {
			a0, ok0 := call.Call.Args[0].(*ssa.Slice)
			a1, ok1 := call.Call.Args[1].(*ssa.Slice)
			if ok0 && ok1 && a0.High == nil && a1.High == nil {
				r0, _, k0 := fi.sliceOff(a0, 0)
				r1, _, k1 := fi.sliceOff(a1, 0)
				if k0 && k1 && r0 == q.X && r1 == q.X {
					return "exact common prefix to the block end"
				}
			}
		}
		if ph, isPhi := v.(*ssa.Phi); isPhi {
			if c.carriedPrefix(fi, ph, q.X, s) {
				return "carried exact common prefix"
			}
		}
	}
	if prove(linConst(1)) {
		return "infeasible"
	}
	return ""
}

// carriedPrefix: ph is the header phi of an inner loop (candidate scan);
// every value it can take is 0 (no candidate) or the result of a
// common-prefix helper on open-ended slices of p, one of them p[P:].
func (c *Ctx) carriedPrefix(fi *FuncInfo, ph *ssa.Phi, p ssa.Value, s *ScanLoop) bool {
	isHdr := false
	for _, l := range fi.loops {
		if l.Header == ph.Block() && l != s.L {
			isHdr = true
		}
	}
	if !isHdr {
		return false
	}
	nCall := 0
	for _, lf := range phiLeaves(ph) {
		if k, isC := constInt(lf.V); isC && k == 0 {
			continue
		}
		call, isCall := lf.V.(*ssa.Call)
		if !isCall || !c.isByteCompare(call.Call.StaticCallee()) {
			return false
		}
		a0, ok0 := call.Call.Args[0].(*ssa.Slice)
		a1, ok1 := call.Call.Args[1].(*ssa.Slice)
		if !ok0 || !ok1 || a0.High != nil || a1.High != nil {
			return false
		}
		r0, o0, k0 := fi.sliceOff(a0, 0)
		r1, o1, k1 := fi.sliceOff(a1, 0)
		if !k0 || !k1 || r0 != p || r1 != p {
			return false
		}
		if !o0.eq(fi.lin(s.P)) && !o1.eq(fi.lin(s.P)) {
			return false
		}
		nCall++
	}
	return nCall > 0
}

// ---------------------------------------------------------------- R-BACKEXT

// equalWordGuard: cnt is the constant W ∈ {4, 8} and the addition is dominated by x == 0 for
// x = load_W(p) ^ load_W(q) (two word loads of W bytes each).
func equalWordGuard(fi *FuncInfo, add *ssa.BinOp, cnt ssa.Value) bool {
	k, ok := constInt(cnt)
	if !ok || (k != 4 && k != 8) {
		return false
	}
	for _, cd := range fi.condsAt(add.Block()) {
		cd = unNot(cd)
		bo, ok := cd.V.(*ssa.BinOp)
		if !ok || (bo.Op != token.EQL && bo.Op != token.NEQ) || (bo.Op == token.EQL) != cd.True {
			continue
		}
		x := bo.X
		if !isConstZero(bo.Y) {
			if !isConstZero(bo.X) {
				continue
			}
			x = bo.Y
		}
		xo, ok := x.(*ssa.BinOp)
		if !ok || xo.Op != token.XOR {
			continue
		}
		bt, ok := xo.Type().Underlying().(*types.Basic)
		if !ok {
			continue
		}
		w := int64(0)
		switch bt.Kind() {
		case types.Uint64:
			w = 8
		case types.Uint32:
			w = 4
		}
		if w != k {
			continue
		}
		isLoad := func(v ssa.Value) bool {
			call, ok := v.(*ssa.Call)
			if !ok || call.Call.StaticCallee() == nil || len(call.Call.Args) != 1 {
				return false
			}
			return isByteSlice(call.Call.Args[0].Type())
		}
		if isLoad(xo.X) && isLoad(xo.Y) {
			return true
		}
	}
	return false
}

func ruleBackExt(c *Ctx) {
	n := 0
	for _, e := range c.scanEmits() {
		s := c.scanOf(e)
		fi := s.fi
		q := litSlice(e)
		if q == nil {
			continue
		}
		// a suffix compare (both arguments with a high bound) feeding H and MatchLen
		var call *ssa.Call
		feedsM := valueClosure(stripConv(e.MatchLen), s.L)
		for v := range feedsM {
			if cc, ok := v.(*ssa.Call); ok && c.isByteCompare(cc.Call.StaticCallee()) {
				a0, ok0 := cc.Call.Args[0].(*ssa.Slice)
				a1, ok1 := cc.Call.Args[1].(*ssa.Slice)
				if ok0 && ok1 && a0.High != nil && a1.High != nil {
					call = cc
				}
			}
		}
		if call == nil {
			continue
		}
		n++
		key := e.Key + ":back"
		P := fi.lin(s.P)
		off := fi.lin(stripConv(e.Offset))
		cursor := fi.lin(q.Low)
		a0 := call.Call.Args[0].(*ssa.Slice)
		a1 := call.Call.Args[1].(*ssa.Slice)
		// one argument ends at P (p[:i]), the other at P − Offset (p[j−back:j])
		var src, dst *ssa.Slice
		if fi.lin(a1.High).eq(P) {
			dst, src = a1, a0
		} else if fi.lin(a0.High).eq(P) {
			dst, src = a0, a1
		}
		if dst == nil || src.Low == nil || !(dst.X == q.X && src.X == q.X) {
			c.fail(key, call.Pos(), "the suffix compare is not between p[j−back:j] and p[:i] of the block data")
			continue
		}
		j := fi.lin(src.High)
		c.check(j.eq(P.sub(off)), key+":align", call.Pos(), "suffix compare ends at (i, i−Offset)",
			fmt.Sprintf("the suffix compare ends at %s and %s, which is not the pair (i, i − Offset): bytes before the match are compared with the wrong source", P, j))
		// back = min(P − cursor, j): each value of the length is one of the two, chosen by comparison
		back := j.sub(fi.lin(src.Low))
		pend := P.sub(cursor)
		cases := fi.topCases(back, call.Block())
		okB := len(cases) > 0
		detail := ""
		for _, cs := range cases {
			extra := cs.Eqs
			le := func(l Lin) bool { return fi.proveLE0(l, cs.Conds, extra, map[string]bool{}, 0) }
			isPend := cs.L.eq(pend)
			isJ := cs.L.eq(j)
			if !(isPend || isJ) {
				okB = false
				detail = fmt.Sprintf("the backward range is %s on the path via blocks %v, which is neither the pending literal count %s nor the source position %s", cs.L, blockIdx(cs.Preds), pend, j)
				break
			}
			if isPend && !le(pend.sub(j)) {
				okB = false
				detail = "the pending literal count is used although it may exceed the source position"
			}
			if isJ && !le(j.sub(pend)) {
				okB = false
				detail = "the source position is used although more literals are pending"
			}
		}
		c.check(okB, key+":range", call.Pos(), "backward range = min(pending literals i − cursor, j)",
			"the backward extension does not cover min(pending literals, source position) bytes: "+detail+"; a literal equal to the byte Offset before it can be left in front of the match")
		// executed whenever literals are pending
		// skipped only when there is nothing to extend over: each extra guard of the call, when it
		// fails, implies pending ≤ 0 or source position ≤ 0 (the range min(pending, j) is empty)
		extraC := condsMinus(fi.condsAt(call.Block()), fi.condsAt(e.Block))
		okX := true
		for _, cd := range extraC {
			nf := fi.factsOf([]Cond{{cd.V, !cd.True}})
			if len(nf) != 1 || nf[0].Op != LE {
				okX = false
				break
			}
			// the negated guard is examined where it is evaluated (the conditions of the call's block contain
			// the guard itself, which would make the hypotheses contradictory)
			at := call.Block()
			if cd.V.Referrers() != nil {
				for _, r := range *cd.V.Referrers() {
					if iff, ok := r.(*ssa.If); ok && (iff.Block() == at || iff.Block().Dominates(at)) {
						at = iff.Block()
					}
				}
			}
			for _, cs := range fi.topCases(nf[0].L, at) {
				extra := append(append([]Fact{}, cs.Eqs...), Fact{cs.L, LE})
				if !(fi.proveLE0(pend, cs.Conds, extra, map[string]bool{}, 0) || fi.proveLE0(j, cs.Conds, extra, map[string]bool{}, 0)) {
					okX = false
				}
			}
		}
		c.check(okX, key+":when", call.Pos(), "executed whenever there is something to extend over (skipped only if i − cursor ≤ 0 or the source position is 0)",
			"the backward extension is not executed exactly when i − cursor > 0")
		// H = P − mb, MatchLen includes + mb
		mb := fi.lin(call)
		hasCase := false
		okH := true
		for _, cs := range fi.expandCases(fi.lin(q.High), s.L, e.Block) {
			viaCall := false
			for _, p := range cs.Preds {
				if call.Block() == p || call.Block().Dominates(p) {
					viaCall = true
				}
			}
			if viaCall {
				hasCase = true
				if !cs.L.eq(P.sub(mb)) {
					okH = false
				}
			} else if !cs.L.eq(P) {
				okH = false
			}
		}
		c.check(hasCase && okH, key+":start", e.Pos, "the match start moves back by the suffix length (H = i − lcs)", "after the suffix compare the match start is not i − lcs(…)")
		okM := false
		for _, cs := range fi.expandCases(fi.lin(stripConv(e.MatchLen)), s.L, e.Block) {
			if co, ok := cs.L.t[call.Name()]; ok && co == 1 {
				okM = true
			}
		}
		c.check(okM, key+":len", e.Pos, "MatchLen includes the suffix length", "MatchLen does not include the backward extension")
	}
	if n == 0 {
		c.fail("backext", token.NoPos, "no backward extension (suffix compare feeding an emission) found")
	}
}

// ---------------------------------------------------------------- R-REINDEX

// tableInsert describes a store of a position into a hash table.
type tableInsert struct {
	in   ssa.Instruction
	pos  ssa.Value
	path string
}

func (c *Ctx) tableInserts(fn *ssa.Function) []tableInsert {
	var out []tableInsert
	ro := c.roles()
	for _, b := range fn.Blocks {
		for _, in := range b.Instrs {
			switch x := in.(type) {
			case *ssa.Store:
				// table[h] = entry{pos: …}: a store of an entry value into an entry slice
				ia, ok := x.Addr.(*ssa.IndexAddr)
				if !ok || !c.isEntryType(x.Val.Type()) {
					continue
				}
				_, p, ok := pathStr(ia.X)
				if !ok {
					continue
				}
				if _, isIns := ro.inserters[fn]; isIns {
					continue // the helper's own store is accounted at its call sites
				}
				pv := structComponent(x.Val, c.posFieldName(x.Val.Type()))
				if pv == nil || pv == x.Val {
					continue // zero entry (cleared) or unresolved
				}
				out = append(out, tableInsert{in, pv, p})
			case *ssa.Call:
				// insert helper (bucket hash): helper(recv, …, pos, …)
				callee := x.Call.StaticCallee()
				if callee == nil {
					continue
				}
				ins, isIns := ro.inserters[callee]
				if !isIns || ins.posParam >= len(x.Call.Args) || ins.posParam == 0 {
					continue
				}
				_, p, ok := pathStr(x.Call.Args[0])
				if !ok {
					continue
				}
				out = append(out, tableInsert{in, x.Call.Args[ins.posParam], joinPath(p, ins.slice)})
			}
		}
	}
	return out
}

func ruleReindex(c *Ctx) {
	scans, _ := c.scanLoops()
	for _, s := range scans {
		fi := s.fi
		ins := c.tableInserts(s.Fn)
		var mine []tableInsert
		for _, ti := range ins {
			if s.L.Blocks[ti.in.Block()] {
				mine = append(mine, ti)
			}
		}
		if len(mine) == 0 {
			continue // suffix-array parser: R-GSAP-INSERT
		}
		P := fi.lin(s.P)
		// (1) the scanned position is stored on every iteration
		every := false
		var firstPath string
		for _, ti := range mine {
			if !fi.lin(stripConv(ti.pos)).eq(P) || fi.loopOf(ti.in.Block()) != s.L {
				continue
			}
			dom := true
			for _, lt := range s.L.Latches {
				if !(ti.in.Block() == lt || ti.in.Block().Dominates(lt)) {
					dom = false
				}
			}
			// the insertion must also precede every emission of this loop
			for _, e := range s.Emits {
				if !(ti.in.Block() == e.Block || ti.in.Block().Dominates(e.Block)) {
					dom = false
				}
			}
			if dom {
				every = true
				if firstPath == "" {
					firstPath = ti.path
				}
			}
		}
		// … and only after the candidates for this position were read: a store (or ring insert) ahead of the lookup
		// overwrites the slot, or evicts the oldest entry of a full bucket, before it can be found
		if every {
			early := ""
			for _, ti := range mine {
				if !fi.lin(stripConv(ti.pos)).eq(P) || fi.loopOf(ti.in.Block()) != s.L {
					continue
				}
				for b := range s.L.Blocks {
					for _, in := range b.Instrs {
						ld, ok := in.(*ssa.UnOp)
						if !ok || ld.Op != token.MUL || !c.isEntryType(ld.Type()) {
							continue
						}
						if _, isAlloc := ld.X.(*ssa.Alloc); isAlloc {
							continue // a local copy, not a table read
						}
						// another table (the second hash of the double-hash parsers) is not affected
						if ia, ok := ld.X.(*ssa.IndexAddr); ok {
							if _, lp, ok := pathStr(ia.X); ok && lp != "" && !strings.HasPrefix(lp, ti.path) && !strings.HasPrefix(ti.path, lp) {
								continue
							}
						}
						if fi.instrReachesInIteration(ti.in, ld, s.L) {
							early = c.pos(ld.Pos())
							if early == "" {
								early = "block " + fmt.Sprint(ld.Block().Index)
							}
						}
					}
				}
			}
			c.check(early == "", s.Key+":index-after-lookup", s.P.Pos(), "the scanned position enters the table after the candidates for it were read",
				"the scanned position is stored into the table before the candidate at "+early+" is read: the entry that would have matched may just have been overwritten (single slot) or evicted (full bucket)")
		}
		c.check(every, s.Key+":index-current", s.P.Pos(), "the scanned position is stored into the hash table on every iteration ("+firstPath+")",
			"the scanned position is not stored into a hash table on every iteration of the scan: position i−1 may be missing as a candidate for position i (runs are then not compressed)")
		// (3) every table that receives the scanned position on every iteration also receives the positions
		// covered by a match (the re-index loops after the emissions of this scan): a table that is only kept
		// current on literal steps points into the past after a match, and the stale candidate cuts the next
		// match short
		if len(s.Emits) > 0 {
			scanT, reT := map[string]bool{}, map[string]bool{}
			for _, ti := range mine {
				if fi.loopOf(ti.in.Block()) == s.L && fi.lin(stripConv(ti.pos)).eq(P) {
					dom := true
					for _, lt := range s.L.Latches {
						if !(ti.in.Block() == lt || ti.in.Block().Dominates(lt)) {
							dom = false
						}
					}
					if dom {
						scanT[ti.path] = true
					}
				} else if l2 := fi.loopOf(ti.in.Block()); l2 != nil && l2 != s.L {
					after := false
					for _, e := range s.Emits {
						if e.Block.Dominates(l2.Header) {
							after = true
						}
					}
					if after {
						reT[ti.path] = true
					}
				}
			}
			var missing []string
			for t := range scanT {
				if !reT[t] {
					missing = append(missing, t)
				}
			}
			sort.Strings(missing)
			c.check(len(missing) == 0, s.Key+":reindex-all-tables", s.P.Pos(), fmt.Sprintf("every table kept current by the scan (%d) is also updated for the positions covered by a match", len(scanT)),
				fmt.Sprintf("the table(s) %v receive the scanned position on every iteration but not the positions covered by a match: after a match their entries point into the past, and the next match found through them is cut short (a block inside a byte run then ends in literals)", missing))
		}
		// (2) after each emission a counting loop stores i+1 … min(next, bound)−1
		for _, e := range s.Emits {
			key := e.Key + ":reindex"
			q := litSlice(e)
			if q == nil {
				continue
			}
			next := fi.lin(q.High).add(fi.lin(stripConv(e.MatchLen)))
			found := false
			why := "no counting loop after the emission stores the covered positions"
			for _, l2 := range fi.loops {
				if l2 == s.L || !s.L.Blocks[l2.Header] || !e.Block.Dominates(l2.Header) {
					continue
				}
				for _, in := range l2.Header.Instrs {
					x, ok := in.(*ssa.Phi)
					if !ok || !isIntType(x.Type()) {
						continue
					}
					var a Lin
					var pre *ssa.BasicBlock
					step := true
					for k, ev := range x.Edges {
						if l2.Blocks[x.Block().Preds[k]] {
							if !fi.lin(ev).eq(fi.lin(x).addc(1)) {
								step = false
							}
						} else {
							if pre != nil && !a.eq(fi.lin(ev)) {
								step = false // several entries with different start values
							}
							a = fi.lin(ev)
							pre = x.Block().Preds[k]
						}
					}
					iff, isIf := l2.Header.Instrs[len(l2.Header.Instrs)-1].(*ssa.If)
					if !step || !isIf || pre == nil {
						continue
					}
					stay := l2.Blocks[l2.Header.Succs[0]]
					fs := fi.factsOf([]Cond{{iff.Cond, stay}})
					if len(fs) != 1 || fs[0].Op != LE {
						continue
					}
					b := fi.lin(x).addc(1).sub(fs[0].L)
					stores := false
					for _, ti := range mine {
						if l2.Blocks[ti.in.Block()] && fi.lin(stripConv(ti.pos)).eq(fi.lin(x)) {
							stores = true
						}
					}
					if !stores {
						continue
					}
					// start ≤ P + 1
					if !fi.proveLE0(a.sub(P).addc(-1), fi.edgeConds(pre, l2.Header), nil, map[string]bool{}, 0) {
						why = fmt.Sprintf("the re-index loop starts at %s, later than i+1 = %s", a, P.addc(1))
						continue
					}
					// bound = min(next, scan bound)
					okB := true
					cases := fi.topCases(b, l2.Header)
					for _, cs := range cases {
						isNext := cs.L.eq(next)
						isEnd := cs.L.eq(s.Bound)
						le := func(l Lin) bool { return fi.proveLE0(l, cs.Conds, cs.Eqs, map[string]bool{}, 0) }
						switch {
						case isNext && le(next.sub(s.Bound)):
						case isEnd && le(s.Bound.sub(next)):
						default:
							okB = false
							why = fmt.Sprintf("the re-index loop ends at %s, expected min(H+MatchLen = %s, scan bound %s)", cs.L, next, s.Bound)
						}
					}
					if okB && len(cases) > 0 {
						found = true
					}
				}
			}
			c.check(found, key, e.Pos, "positions i+1 … min(H+MatchLen, bound)−1 covered by the match are stored into the hash table",
				why+": positions inside a match are missing as later candidates (the position just before the next scanned one may be unindexed)")
		}
	}
}

// ---------------------------------------------------------------- R-CAND-MEASURED

func ruleCandMeasured(c *Ctx) {
	scans, _ := c.scanLoops()
	doneCandLoop := map[*Loop]bool{}
	for _, s := range scans {
		fi := s.fi
		if len(c.tableInsertsIn(s)) == 0 {
			continue
		}
		// measurement sites: first-word counts (word counts whose accumulated length is 0) and common-prefix calls
		var blocks []*ssa.BasicBlock
		for b := range s.L.Blocks {
			blocks = append(blocks, b)
		}
		sort.Slice(blocks, func(i, j int) bool { return blocks[i].Index < blocks[j].Index })
		n := 0
		for _, b := range blocks {
			for _, in := range b.Instrs {
				v, ok := in.(ssa.Value)
				if !ok {
					continue
				}
				isMeasure := false
				if wc := c.asWordCount(v); wc != nil {
					// first word: one operand loaded at the scan position itself
					_, oa, ok1 := fi.sliceOff(wc.a, 0)
					_, ob, ok2 := fi.sliceOff(wc.b, 0)
					if ok1 && ok2 && (oa.eq(fi.lin(s.P)) || ob.eq(fi.lin(s.P))) {
						isMeasure = true
					}
				}
				if call, isCall := v.(*ssa.Call); isCall && c.isByteCompare(call.Call.StaticCallee()) {
					a0, ok0 := call.Call.Args[0].(*ssa.Slice)
					a1, ok1 := call.Call.Args[1].(*ssa.Slice)
					if ok0 && ok1 && a0.High == nil && a1.High == nil {
						isMeasure = true
					}
				}
				if !isMeasure {
					continue
				}
				n++
				key := fmt.Sprintf("%s:measure#%d", s.Key, n)
				// the candidate entry: the nearest dominating load of a table element (struct with pos) in the loop
				entryBlk := c.candidateLoadBlock(fi, s, b)
				if entryBlk == nil {
					c.fail(key, v.Pos(), "cannot find where the candidate measured here was read from a table")
					continue
				}
				bad := ""
				// every conditional edge between the candidate load and the measurement (within
				// one candidate iteration) that leaves the path to the measurement
				inner := fi.loopOf(entryBlk)
				hdr2 := s.L.Header
				if inner != nil {
					hdr2 = inner.Header
				}
				for _, x := range blocks {
					if x == b || !(entryBlk == x || entryBlk.Dominates(x)) {
						continue
					}
					if !fi.reachAvoidBoth(x, s.L.Header, hdr2)[b] && !succIs(x, b) {
						continue
					}
					iff, isIf := x.Instrs[len(x.Instrs)-1].(*ssa.If)
					if !isIf {
						continue
					}
					for si, sc := range x.Succs {
						if sc == b || (sc != s.L.Header && sc != hdr2 && fi.reachAvoidBoth(sc, s.L.Header, hdr2)[b]) {
							continue
						}
						cd := unNot(Cond{iff.Cond, si == 0})
						if !c.allowedAbandon(fi, s, cd, x) {
							bad = fmt.Sprintf("block %d abandons the candidate under %s", x.Index, condString(fi, cd))
						}
					}
				}
				// the loop over the candidates of a bucket runs to its end: an early exit gives up every
				// candidate behind the current one
				if inner != nil && inner != s.L && !doneCandLoop[inner] {
					doneCandLoop[inner] = true
					early := ""
					for x := range inner.Blocks {
						if x == inner.Header {
							continue
						}
						for _, sc := range x.Succs {
							if !inner.Blocks[sc] {
								early = fmt.Sprintf("block %d leaves the candidate loop under %s", x.Index, factStrings(fi.factsOf(fi.edgeConds(x, sc))))
							}
						}
					}
					c.check(early == "", fmt.Sprintf("%s:all-candidates", s.Key), inner.Header.Instrs[0].Pos(), "the loop over the candidates of a bucket has no early exit",
						"the loop over the candidates of a bucket can be left early ("+early+"): a genuine entry that looks like the end marker (position 0 with hash input 0) hides every candidate stored behind it, and matches that exist are not found")
				}
				c.check(bad == "", key, v.Pos(), "the candidate is abandoned before measurement only on value mismatch, window test or one-byte pre-check",
					"a table candidate can be abandoned before it is measured for another reason ("+bad+"): a genuine entry (e.g. position 0 with hash input 0) is taken for an empty slot and the run/match is not found")
			}
		}
	}
}

func succIs(x, b *ssa.BasicBlock) bool {
	for _, sc := range x.Succs {
		if sc == b {
			return true
		}
	}
	return false
}

func (c *Ctx) tableInsertsIn(s *ScanLoop) []tableInsert {
	var out []tableInsert
	for _, ti := range c.tableInserts(s.Fn) {
		if s.L.Blocks[ti.in.Block()] {
			out = append(out, ti)
		}
	}
	return out
}

func condString(fi *FuncInfo, cd Cond) string {
	fs := fi.factsOf([]Cond{cd})
	if len(fs) == 1 {
		return fs[0].String()
	}
	return fmt.Sprintf("%s=%v", cd.V.Name(), cd.True)
}

// reachAvoidBoth: blocks reachable from b without passing a or x.
func (fi *FuncInfo) reachAvoidBoth(b, a, x *ssa.BasicBlock) map[*ssa.BasicBlock]bool {
	seen := map[*ssa.BasicBlock]bool{}
	var stack []*ssa.BasicBlock
	if b != a && b != x {
		stack = append(stack, b)
		seen[b] = true
	}
	for len(stack) > 0 {
		n := stack[len(stack)-1]
		stack = stack[:len(stack)-1]
		for _, sc := range n.Succs {
			if sc == a || sc == x || seen[sc] {
				continue
			}
			seen[sc] = true
			stack = append(stack, sc)
		}
	}
	return seen
}

// candidateLoadBlock: the block of the nearest load of a table element
// (a struct with a position field) that dominates b inside the scan loop.
func (c *Ctx) candidateLoadBlock(fi *FuncInfo, s *ScanLoop, b *ssa.BasicBlock) *ssa.BasicBlock {
	var best *ssa.BasicBlock
	for x := range s.L.Blocks {
		if !(x == b || x.Dominates(b)) {
			continue
		}
		for _, in := range x.Instrs {
			ld, ok := in.(*ssa.UnOp)
			if !ok || ld.Op != token.MUL {
				continue
			}
			st, isStruct := ld.Type().Underlying().(*types.Struct)
			if !isStruct {
				continue
			}
			hasPos := false
			for i := 0; i < st.NumFields(); i++ {
				if c.isEntryType(ld.Type()) {
					hasPos = true
				}
			}
			if !hasPos {
				continue
			}
			if _, isIA := ld.X.(*ssa.IndexAddr); !isIA {
				continue
			}
			if best == nil || best.Dominates(x) {
				best = x
			}
		}
	}
	return best
}

// allowedAbandon: cd (normalised) is one of the accepted reasons to drop a candidate.
func (c *Ctx) allowedAbandon(fi *FuncInfo, s *ScanLoop, cd Cond, at *ssa.BasicBlock) bool {
	bo, ok := cd.V.(*ssa.BinOp)
	if !ok {
		return false
	}
	// (a) stored value differs from the hashed input: x != entry.value
	isNE := (bo.Op == token.NEQ && cd.True) || (bo.Op == token.EQL && !cd.True)
	if isNE {
		for _, pr := range [][2]ssa.Value{{bo.X, bo.Y}, {bo.Y, bo.X}} {
			if _, _, isFL := fieldLoad(pr[0]); isFL || isEntryField(pr[0]) {
				if !isFieldOrEntry(pr[1]) {
					if _, isC := constInt(pr[1]); !isC {
						return true
					}
				}
			}
		}
		// (c) one-byte pre-check p[a] != p[b]
		if isByteLoad(bo.X) && isByteLoad(bo.Y) {
			return true
		}
	}
	// (b) window test on the offset P − pos: facts o ≤ 0 or o ≥ W+1
	fs := fi.factsOf([]Cond{cd})
	if len(fs) == 1 && fs[0].Op == LE {
		P := fi.lin(s.P)
		l := fs[0].L
		// o ≤ 0 :  P − j ≤ 0
		if co, ok := l.t[s.P.Name()]; ok && co == 1 && l.c == 0 && len(l.t) == 2 {
			return true
		}
		for _, w := range c.winAtoms(fi) {
			// W − o + 1 ≤ 0
			r := l.sub(linAtom(w)).addc(-1).add(P)
			if len(r.t) == 1 && r.c == 0 {
				return true
			}
		}
	}
	// (d) an earlier, at least as good candidate is kept (bucket scan: k > 0 pre-check guard)
	if len(fs) == 1 && fs[0].Op == LE {
		// k ≤ 0 of a carried length: harmless skip of the pre-check, not an abandon — handled by reachability
	}
	_ = at
	return false
}

func isEntryField(v ssa.Value) bool {
	v = stripConv(v)
	if f, ok := v.(*ssa.Field); ok {
		_ = f
		return true
	}
	if ld, ok := v.(*ssa.UnOp); ok && ld.Op == token.MUL {
		if _, p, ok := pathStr(ld.X); ok && strings.Contains(p, ".") {
			return true
		}
	}
	return false
}

func isFieldOrEntry(v ssa.Value) bool {
	if _, _, ok := fieldLoad(v); ok {
		return true
	}
	return isEntryField(v)
}

func isByteLoad(v ssa.Value) bool {
	ld, ok := stripConv(v).(*ssa.UnOp)
	if !ok || ld.Op != token.MUL {
		return false
	}
	ia, ok := ld.X.(*ssa.IndexAddr)
	return ok && isByteSlice(ia.X.Type())
}

// ---------------------------------------------------------------- R-PREFIX-STOP

func init() {
	reg(&Rule{ID: "R-PREFIX-STOP", Min: 3,
		Doc: "the common-prefix/suffix helpers (lcp, lcs, suffix.matchLen) never count past a mismatch: a word count c is followed by further counting only under c = word size, a single byte is counted only under equality, and after an unequal byte nothing more is counted; every increment of the result is one of these forms",
		Run: rulePrefixStop})
}

// wordWidth: v = bits.{Trailing,Leading}Zeros{64,32}(x) >> 3 → 8 or 4; 0 otherwise.
func wordWidth(v ssa.Value) int64 {
	bo, ok := v.(*ssa.BinOp)
	if !ok || bo.Op != token.SHR {
		return 0
	}
	if k, isC := constInt(bo.Y); !isC || k != 3 {
		return 0
	}
	call, ok := bo.X.(*ssa.Call)
	if !ok || call.Call.StaticCallee() == nil || call.Call.StaticCallee().Pkg == nil || call.Call.StaticCallee().Pkg.Pkg.Path() != "math/bits" {
		return 0
	}
	switch call.Call.StaticCallee().Name() {
	case "TrailingZeros64", "LeadingZeros64":
		return 8
	case "TrailingZeros32", "LeadingZeros32":
		return 4
	}
	return 0
}

func rulePrefixStop(c *Ctx) {
	var helpers []*ssa.Function
	for _, fn := range c.allFuncs {
		sig := fn.Signature
		if sig.Recv() == nil && sig.Params().Len() == 2 && sig.Results().Len() == 1 && isIntType(sig.Results().At(0).Type()) &&
			isByteSlice(sig.Params().At(0).Type()) && isByteSlice(sig.Params().At(1).Type()) && fn.Parent() == nil {
			helpers = append(helpers, fn)
		}
	}
	for _, fn := range helpers {
		fi := c.info(fn)
		name := fnName(fn)
		// result web
		var rets []ssa.Value
		for _, b := range fn.Blocks {
			if r, ok := b.Instrs[len(b.Instrs)-1].(*ssa.Return); ok && len(r.Results) == 1 {
				rets = append(rets, r.Results[0])
			}
		}
		// the accumulator web: phis and additions that lead back to the initial 0
		var reachesZero func(v ssa.Value, seen map[ssa.Value]bool) bool
		reachesZero = func(v ssa.Value, seen map[ssa.Value]bool) bool {
			if seen[v] {
				return false
			}
			seen[v] = true
			switch x := v.(type) {
			case *ssa.Const:
				k, ok := constInt(x)
				return ok && k == 0
			case *ssa.Phi:
				for _, e := range x.Edges {
					if reachesZero(e, seen) {
						return true
					}
				}
			case *ssa.BinOp:
				if x.Op == token.ADD {
					return reachesZero(x.X, seen) || reachesZero(x.Y, seen)
				}
			}
			return false
		}
		feeds := map[ssa.Value]bool{}
		accSide := map[*ssa.BinOp]ssa.Value{}
		var walk func(v ssa.Value)
		walk = func(v ssa.Value) {
			if v == nil || feeds[v] {
				return
			}
			switch x := v.(type) {
			case *ssa.Phi:
				feeds[v] = true
				for _, e := range x.Edges {
					walk(e)
				}
			case *ssa.BinOp:
				if x.Op == token.ADD {
					feeds[v] = true
					if reachesZero(x.X, map[ssa.Value]bool{}) {
						accSide[x] = x.X
						walk(x.X)
					} else if reachesZero(x.Y, map[ssa.Value]bool{}) {
						accSide[x] = x.Y
						walk(x.Y)
					}
				}
			}
		}
		for _, r := range rets {
			walk(r)
		}
		type inc struct {
			add   *ssa.BinOp
			cnt   ssa.Value
			width int64 // 8/4 word, 1 byte, 0 clamped tail
		}
		var incs []inc
		okForms := true
		for v := range feeds {
			add, ok := v.(*ssa.BinOp)
			if !ok || add.Op != token.ADD {
				continue
			}
			// which operand is the running result, which the count?
			var cnt ssa.Value
			switch accSide[add] {
			case add.X:
				cnt = add.Y
			case add.Y:
				cnt = add.X
			default:
				continue
			}
			w := wordWidth(cnt)
			switch {
			case w > 0:
				incs = append(incs, inc{add, cnt, w})
			case isConst1(cnt):
				incs = append(incs, inc{add, cnt, 1})
			case equalWordGuard(fi, add, cnt):
				// a whole word (constant 4 or 8) counted under "the two words are equal" (xor == 0):
				// nothing was skipped, counting may go on
				incs = append(incs, inc{add, cnt, -1})
			default:
				// clamped word count: phi(word count, length)
				if ph, isPhi := cnt.(*ssa.Phi); isPhi {
					isClamp := false
					for _, e := range ph.Edges {
						if wordWidth(e) > 0 {
							isClamp = true
						}
					}
					if isClamp {
						incs = append(incs, inc{add, cnt, 0})
						continue
					}
				}
				okForms = false
				c.fail(name+":increment", add.Pos(), "the result is increased by %s, which is neither a word count (…Zeros>>3), a single byte under an equality test, nor a length-clamped word count: counting may continue past a mismatch", cnt.Name())
			}
		}
		sort.Slice(incs, func(i, j int) bool { return incs[i].add.Pos() < incs[j].add.Pos() })
		if len(incs) == 0 {
			c.fail(name+":increment", fn.Pos(), "no recognised increment of the result")
			continue
		}
		isIncBlock := map[*ssa.BasicBlock]bool{}
		for _, in := range incs {
			isIncBlock[in.add.Block()] = true
		}
		bad := ""
		for _, in := range incs {
			b := in.add.Block()
			switch {
			case in.width >= 4:
				// follow only edges that do NOT establish cnt ≥ width; no further increment may be reachable
				want := linConst(in.width).sub(fi.lin(in.cnt)) // width − c ≤ 0
				seen := map[*ssa.BasicBlock]bool{}
				stack := []*ssa.BasicBlock{}
				push := func(p, s *ssa.BasicBlock) {
					for _, f := range fi.factsOf(fi.edgeLast(p, s)) {
						if f.Op == LE && f.L.eq(want) {
							return // this edge carries c ≥ width
						}
					}
					if !seen[s] {
						seen[s] = true
						stack = append(stack, s)
					}
				}
				for _, s := range b.Succs {
					push(b, s)
				}
				for len(stack) > 0 {
					x := stack[len(stack)-1]
					stack = stack[:len(stack)-1]
					if isIncBlock[x] {
						bad = fmt.Sprintf("after the %d-byte word count at %s further bytes can be counted although the count was not shown to be %d (a mismatch inside the word)", in.width, c.pos(in.add.Pos()), in.width)
						break
					}
					for _, s := range x.Succs {
						push(x, s)
					}
				}
			case in.width == 1:
				// counted only under byte equality; after the unequal edge no increment is reachable
				var eqBlk *ssa.BasicBlock
				var neSucc *ssa.BasicBlock
				for d := b; d != nil && eqBlk == nil; d = d.Idom() {
					iff, ok := d.Instrs[len(d.Instrs)-1].(*ssa.If)
					if !ok {
						continue
					}
					bo, ok := iff.Cond.(*ssa.BinOp)
					if !ok || !(bo.Op == token.EQL || bo.Op == token.NEQ) || !isByteLoad(bo.X) || !isByteLoad(bo.Y) {
						continue
					}
					eqSucc := d.Succs[0]
					ne := d.Succs[1]
					if bo.Op == token.NEQ {
						eqSucc, ne = ne, eqSucc
					}
					if eqSucc == b || eqSucc.Dominates(b) {
						eqBlk, neSucc = d, ne
					}
				}
				if eqBlk == nil {
					bad = fmt.Sprintf("the byte increment at %s is not guarded by an equality test of the two bytes", c.pos(in.add.Pos()))
					break
				}
				reach := fi.reach[neSucc]
				for ib := range isIncBlock {
					if ib == neSucc || reach[ib] {
						bad = fmt.Sprintf("after the unequal byte at %s the comparison continues and can count later bytes", c.pos(in.add.Pos()))
					}
				}
			}
			if bad != "" {
				break
			}
		}
		if okForms {
			c.check(bad == "", name+":stop-at-mismatch", fn.Pos(), fmt.Sprintf("%d increments: counting continues only after a fully equal word / an equal byte", len(incs)), bad)
		}
	}
	if len(helpers) == 0 {
		c.fail("helpers", token.NoPos, "no byte-compare helper func(p, q []byte) int found")
	}
}

func isResultPart(v ssa.Value, feeds map[ssa.Value]bool) bool {
	switch x := v.(type) {
	case *ssa.Phi:
		return feeds[x]
	case *ssa.BinOp:
		return x.Op == token.ADD && feeds[x]
	case *ssa.Const:
		k, ok := constInt(x)
		return ok && k == 0
	}
	return false
}

func isConst1(v ssa.Value) bool { k, ok := constInt(v); return ok && k == 1 }

// validFacts keeps the facts all of whose SSA-defined atoms are defined on
// the way to the proving point: in a block that dominates `at` or one of the
// blocks of the path (preds). A lemma about loop-carried values is
// meaningless on a path that bypasses the loop and must not be used there.
func (fi *FuncInfo) validFacts(facts []Fact, at *ssa.BasicBlock, preds []*ssa.BasicBlock) []Fact {
	av := fi.atomValues()
	defined := func(a string) bool {
		name := a
		if strings.HasPrefix(name, "len(") && strings.HasSuffix(name, ")") {
			name = name[4 : len(name)-1]
		}
		if strings.HasPrefix(name, "cap(") && strings.HasSuffix(name, ")") {
			name = name[4 : len(name)-1]
		}
		v, ok := av[name]
		if !ok {
			return true // parameters, field loads keyed by path: defined by version
		}
		in, isIn := v.(ssa.Instruction)
		if !isIn {
			return true
		}
		d := in.Block()
		if at != nil && (d == at || d.Dominates(at)) {
			return true
		}
		for _, p := range preds {
			if d == p || d.Dominates(p) {
				return true
			}
		}
		return false
	}
	var out []Fact
	for _, f := range facts {
		ok := true
		for a := range f.L.t {
			if !defined(a) {
				ok = false
			}
		}
		if ok {
			out = append(out, f)
		}
	}
	return out
}

// ---------------------------------------------------------------- R-PREFIX-COVER

func init() {
	reg(&Rule{ID: "R-PREFIX-COVER", Min: 3,
		Doc: "the common-prefix/suffix helpers never stop early: going back from every return, the last comparison event is a mismatch (word count below the word size, unequal byte), the end of the byte loop over the remaining slice, a length-clamped tail word, or an emptiness test — never a fully equal word",
		Run: rulePrefixCover})
}

func rulePrefixCover(c *Ctx) {
	for _, fn := range c.allFuncs {
		sig := fn.Signature
		if !(sig.Recv() == nil && sig.Params().Len() == 2 && sig.Results().Len() == 1 && isIntType(sig.Results().At(0).Type()) &&
			isByteSlice(sig.Params().At(0).Type()) && isByteSlice(sig.Params().At(1).Type()) && fn.Parent() == nil) {
			continue
		}
		fi := c.info(fn)
		name := fnName(fn)
		// classify an edge p→s by the condition of p's branch
		classify := func(p, s *ssa.BasicBlock) string {
			last := fi.edgeLast(p, s)
			if len(last) == 0 {
				return ""
			}
			cd := unNot(last[0])
			bo, ok := cd.V.(*ssa.BinOp)
			if !ok {
				return ""
			}
			// word count vs its width
			for _, pr := range [][2]ssa.Value{{bo.X, bo.Y}, {bo.Y, bo.X}} {
				if w := wordWidth(pr[0]); w > 0 {
					if k, isC := constInt(pr[1]); isC && k == w {
						fs := fi.factsOf([]Cond{cd})
						if len(fs) == 1 && fs[0].Op == LE {
							// c − w + 1 ≤ 0  (c < w): mismatch; w − c ≤ 0 (c ≥ w): full word equal
							if fs[0].L.eq(fi.lin(pr[0]).addc(1 - w)) {
								return "ok:mismatch in word"
							}
							if fs[0].L.eq(linConst(w).sub(fi.lin(pr[0]))) {
								return "bad:full word equal"
							}
						}
						if fs := fi.factsOf([]Cond{cd}); len(fs) == 1 && fs[0].Op == EQ {
							return "bad:full word equal"
						}
						if fs := fi.factsOf([]Cond{cd}); len(fs) == 1 && fs[0].Op == NE {
							return "ok:mismatch in word"
						}
					}
				}
			}
			// unequal bytes
			if isByteLoad(bo.X) && isByteLoad(bo.Y) {
				ne := (bo.Op == token.NEQ) == cd.True
				if bo.Op == token.EQL || bo.Op == token.NEQ {
					if ne {
						return "ok:unequal byte"
					}
					return "" // equal byte: keep looking (the loop continues)
				}
			}
			// end of a range loop / emptiness: facts of the form  len(X) − idx − 1 ≤ 0  or  x ≤ 0
			fs := fi.factsOf([]Cond{cd})
			if len(fs) == 1 && fs[0].Op == LE {
				l := fs[0].L
				hasLen, pos := false, 0
				for a, co := range l.t {
					if strings.HasPrefix(a, "len(") && co == 1 {
						hasLen = true
					}
					if co == 1 {
						pos++
					}
				}
				if hasLen && pos == 1 && l.c <= 0 {
					// len(X) ≤ idx + const: nothing (more) to compare in X
					onlyIdx := true
					for a, co := range l.t {
						if co == -1 {
							if _, isPhi := fi.atomValues()[a].(*ssa.Phi); !isPhi {
								onlyIdx = false
							}
						}
					}
					if onlyIdx && (len(l.t) == 2 || (len(l.t) == 1 && l.c == 0)) {
						return "ok:remaining slice exhausted"
					}
				}
				// x ≤ 0 for an int remaining count
				if len(l.t) == 1 && l.c >= 0 && !hasLen {
					for _, co := range l.t {
						if co == 1 {
							return "ok:nothing remains"
						}
					}
				}
			}
			return ""
		}
		// blocks that add a clamped tail word count are a justified end as well
		clampBlk := map[*ssa.BasicBlock]bool{}
		for _, b := range fn.Blocks {
			for _, in := range b.Instrs {
				if add, ok := in.(*ssa.BinOp); ok && add.Op == token.ADD {
					for _, op := range []ssa.Value{add.X, add.Y} {
						if ph, isPhi := op.(*ssa.Phi); isPhi && ph.Block() == b {
							for _, e := range ph.Edges {
								if wordWidth(e) > 0 {
									clampBlk[b] = true
								}
							}
						}
					}
				}
			}
		}
		nRet := 0
		for _, rb := range fn.Blocks {
			r, ok := rb.Instrs[len(rb.Instrs)-1].(*ssa.Return)
			if !ok {
				continue
			}
			nRet++
			key := fmt.Sprintf("%s:return#%d", name, nRet)
			bad := ""
			seen := map[*ssa.BasicBlock]bool{}
			var back func(b *ssa.BasicBlock, depth int)
			back = func(b *ssa.BasicBlock, depth int) {
				if bad != "" || seen[b] || depth > 40 {
					return
				}
				seen[b] = true
				if clampBlk[b] {
					return
				}
				if len(b.Preds) == 0 {
					return // entry reached: nothing was compared and nothing was skipped only if the slices are empty — covered by the emptiness events above; an event-free path means no loop was entered
				}
				for _, p := range b.Preds {
					switch cl := classify(p, b); {
					case strings.HasPrefix(cl, "ok:"):
					case strings.HasPrefix(cl, "bad:"):
						bad = fmt.Sprintf("the return at %s can be reached directly after a fully equal word (edge from block %d) without comparing the bytes that remain", c.pos(r.Pos()), p.Index)
					default:
						back(p, depth+1)
					}
				}
			}
			back(rb, 0)
			c.check(bad == "", key, r.Pos(), "every path to this return ends with a mismatch, an exhausted slice or a clamped tail word", bad+": the reported common length can be too short (matches are not maximal)")
		}
	}
}

// ---------------------------------------------------------------- R-OFFSET-BACK

func init() {
	reg(&Rule{ID: "R-OFFSET-BACK", Min: 8,
		Doc: "at every emission site the Offset is at most the match start position in the buffer (Offset ≤ H, so the source of the match lies at a buffer index ≥ 0 — a fortiori Offset ≤ number of stream bytes before the match); table positions are unsigned, lcs results are bounded by the compared range",
		Run: ruleOffsetBack})
}

func ruleOffsetBack(c *Ctx) {
	for _, e := range c.emits() {
		fi := c.info(e.Fn)
		if isFieldFlow(e.Offset) {
			c.assumed(e.Key, e.Pos, "stored record: the edge offset is seg[j] − seg[j−1] for entries of a suffix array (entries ≥ 0 by the contract of suffix.Sort, C09), hence ≤ the position seg[j]")
			continue
		}
		q := litSlice(e)
		if q == nil {
			c.fail(e.Key, e.Pos, "no literal slice")
			continue
		}
		// positions read from a suffix array are signed: their non-negativity is the sorter's contract
		if g := c.gsap(); g.err == "" && g.scan != nil && g.scan.Fn == e.Fn {
			c.assumed(e.Key, e.Pos, "the source position is an entry of the suffix array (≥ 0 by the contract of suffix.Sort, C09), hence Offset = i − sa[k] ≤ i")
			continue
		}
		h := fi.lin(q.High)
		okAll := true
		detail := ""
		n := 0
		for _, lf := range phiLeaves(stripConv(e.Offset)) {
			if k, isC := constInt(lf.V); isC && k == 0 {
				continue // the initial "no candidate" value; excluded at the emission by 0 < Offset (R-WINGUARD)
			}
			n++
			at := e.Block
			if lf.Pred != nil {
				at = lf.Pred
			}
			goal := fi.lin(stripConv(lf.V)).sub(h)
			ok := fi.proveAt(goal, at, nil) || fi.proveByCases(goal, at, nil)
			if !ok && lf.Pred == nil {
				if s := c.scanOf(e); s != nil {
					cases := fi.expandCases(goal, s.L, e.Block)
					ok = len(cases) > 0
					for _, cs := range cases {
						if !fi.proveFlat(cs.L, cs.Conds, cs.Eqs) && !fi.proveByCasesFrom(cs.L, e.Block, cs.Conds, cs.Eqs, cs.Preds...) {
							ok = false
						}
					}
				}
			}
			if !ok {
				okAll = false
				detail = fmt.Sprintf("offset value %s vs match start %s", fi.lin(stripConv(lf.V)), h)
			}
		}
		c.check(okAll && n > 0, e.Key, e.Pos, fmt.Sprintf("every offset value is ≤ the match start %s (source position ≥ 0)", h),
			"the emitted Offset is not shown to be ≤ the match start position ("+detail+"): the match could refer to bytes before the start of the buffered stream")
	}
}

// ---------------------------------------------------------------- R-PREFIX-BOUND / R-PREFIX-ALIGN

func init() {
	reg(&Rule{ID: "R-PREFIX-BOUND", Min: 3,
		Doc: "every value returned by a common-prefix/suffix helper is proved to be at most the length of each of its two arguments (this discharges the summary 'r ≤ min(len(p), len(q))' that the other rules use)",
		Run: rulePrefixBound})
	reg(&Rule{ID: "R-PREFIX-ALIGN", Min: 3,
		Doc: "inside the common-prefix/suffix helpers every slice value descends from exactly one of the two (possibly swapped) arguments, every comparison is between one slice of each, and both are advanced by the same amount",
		Run: rulePrefixAlign})
}

func (c *Ctx) prefixHelpers() []*ssa.Function {
	var out []*ssa.Function
	for _, fn := range c.allFuncs {
		sig := fn.Signature
		if sig.Recv() == nil && sig.Params().Len() == 2 && sig.Results().Len() == 1 && isIntType(sig.Results().At(0).Type()) &&
			isByteSlice(sig.Params().At(0).Type()) && isByteSlice(sig.Params().At(1).Type()) && fn.Parent() == nil {
			out = append(out, fn)
		}
	}
	return out
}

// intPairLemmas: for pairs of integer header phis x, y of one loop, the
// invariants x + y = const and x − y = const, proved by direct induction.
func (fi *FuncInfo) intPairLemmas() []Fact {
	var out []Fact
	for _, l := range fi.loops {
		var ints []*ssa.Phi
		for _, in := range l.Header.Instrs {
			if ph, ok := in.(*ssa.Phi); ok && isIntType(ph.Type()) {
				ints = append(ints, ph)
			}
		}
		entry := -1
		for i, p := range l.Header.Preds {
			if !l.Blocks[p] {
				if entry >= 0 {
					entry = -2
				} else {
					entry = i
				}
			}
		}
		if entry < 0 {
			continue
		}
		for i, x := range ints {
			for j, y := range ints {
				if i >= j {
					continue
				}
				for _, sgn := range []int64{1, -1} {
					base := fi.lin(x.Edges[entry]).addk(fi.lin(y.Edges[entry]), sgn)
					g := linAtom(x.Name()).addk(linAtom(y.Name()), sgn).sub(base)
					okI := true
					for k, p := range l.Header.Preds {
						gi := fi.lin(x.Edges[k]).addk(fi.lin(y.Edges[k]), sgn).sub(base)
						cs := fi.edgeConds(p, l.Header)
						var hyp []Fact
						if l.Blocks[p] {
							hyp = []Fact{{g, EQ}}
						}
						if !(fi.proveFlat(gi, cs, hyp) && fi.proveFlat(gi.scale(-1), cs, hyp)) {
							okI = false
						}
					}
					if okI {
						out = append(out, Fact{g, EQ})
					}
				}
			}
		}
	}
	return out
}

func rulePrefixBound(c *Ctx) {
	for _, fn := range c.prefixHelpers() {
		fi := c.info(fn)
		name := fnName(fn)
		lem := append(append([]Fact{}, fi.extLemmas()...), fi.intPairLemmas()...)
		n := 0
		for _, b := range fn.Blocks {
			r, ok := b.Instrs[len(b.Instrs)-1].(*ssa.Return)
			if !ok || len(r.Results) != 1 {
				continue
			}
			n++
			key := fmt.Sprintf("%s:return#%d", name, n)
			v := fi.lin(r.Results[0])
			good := true
			detail := ""
			for pi, p := range fn.Params {
				goal := v.sub(fi.lenOf(p))
				ex := fi.validFacts(lem, b, nil)
				for _, f := range append([]Fact{}, ex...) {
					if f.Op == EQ {
						ex = append(ex, Fact{f.L, LE}, Fact{f.L.scale(-1), LE})
					}
				}
				if !(fi.proveFlat(goal, fi.condsAt(b), ex) || fi.proveAt(goal, b, ex) || fi.proveByCases(goal, b, ex)) {
					good = false
					detail = fmt.Sprintf("result %s vs len of argument %d", v, pi+1)
				}
			}
			c.check(good, key, r.Pos(), "returned length ≤ len(p) and ≤ len(q)",
				"the returned length is not proved to be at most the length of both arguments ("+detail+"): a zero-padded or mis-clamped tail compare can report bytes as equal that lie beyond the shorter slice (matches past the block end, n > BlockSize)")
		}
	}
}

// sliceRoot: the argument (or swap phi of the arguments) a byte-slice value descends from.
func (fi *FuncInfo) sliceRoot(v ssa.Value, seen map[ssa.Value]bool) (ssa.Value, bool) {
	if seen[v] {
		return nil, true // cycle: decided by the other edges
	}
	seen[v] = true
	switch x := v.(type) {
	case *ssa.Parameter:
		return x, true
	case *ssa.Slice:
		return fi.sliceRoot(x.X, seen)
	case *ssa.Phi:
		// a phi directly merging the two parameters is the swap: a root by itself
		allParams := true
		for _, e := range x.Edges {
			if _, isP := e.(*ssa.Parameter); !isP {
				allParams = false
			}
		}
		if allParams {
			return x, true
		}
		var root ssa.Value
		for _, e := range x.Edges {
			r, ok := fi.sliceRoot(e, seen)
			if !ok {
				return nil, false
			}
			if r == nil {
				continue
			}
			if root != nil && r != root {
				return nil, false
			}
			root = r
		}
		return root, true
	}
	return nil, false
}

func rulePrefixAlign(c *Ctx) {
	for _, fn := range c.prefixHelpers() {
		fi := c.info(fn)
		name := fnName(fn)
		bad := ""
		nCmp := 0
		root := func(v ssa.Value) (ssa.Value, bool) { return fi.sliceRoot(v, map[ssa.Value]bool{}) }
		// every byte-slice phi has a single root
		for _, ph := range fi.phis {
			if !isByteSlice(ph.Type()) {
				continue
			}
			if r, ok := root(ph); !ok || r == nil {
				bad = fmt.Sprintf("the slice %s (%s) merges values that descend from different arguments", ph.Name(), c.pos(ph.Pos()))
			}
		}
		for _, b := range fn.Blocks {
			for _, in := range b.Instrs {
				switch x := in.(type) {
				case *ssa.BinOp:
					if x.Op == token.XOR {
						a, b2 := c.loadedSliceAny(x.X), c.loadedSliceAny(x.Y)
						if a == nil || b2 == nil {
							continue
						}
						nCmp++
						ra, oka := root(a)
						rb, okb := root(b2)
						if !oka || !okb || ra == nil || rb == nil || ra == rb {
							bad = fmt.Sprintf("the word compare at %s does not compare one slice of each argument", c.pos(x.Pos()))
						}
					}
					if (x.Op == token.NEQ || x.Op == token.EQL) && isByteLoad(x.X) && isByteLoad(x.Y) {
						nCmp++
						ax := stripConv(x.X).(*ssa.UnOp).X.(*ssa.IndexAddr)
						ay := stripConv(x.Y).(*ssa.UnOp).X.(*ssa.IndexAddr)
						ra, oka := root(ax.X)
						rb, okb := root(ay.X)
						if !oka || !okb || ra == nil || rb == nil || ra == rb {
							bad = fmt.Sprintf("the byte compare at %s does not compare one slice of each argument", c.pos(x.Pos()))
						} else if !fi.lin(ax.Index).eq(fi.lin(ay.Index)) {
							bad = fmt.Sprintf("the byte compare at %s uses different indexes (%s, %s)", c.pos(x.Pos()), fi.lin(ax.Index), fi.lin(ay.Index))
						}
					}
				}
			}
		}
		// equal advance: every re-slice of one web by a constant has a sibling re-slice of the other web by the same constant in the same block
		for _, b := range fn.Blocks {
			adv := map[ssa.Value]int64{}
			for _, in := range b.Instrs {
				if sl, ok := in.(*ssa.Slice); ok && isByteSlice(sl.Type()) && sl.Low != nil && sl.High == nil {
					if k, isC := constInt(sl.Low); isC && k > 0 {
						if r, ok := root(sl.X); ok && r != nil {
							adv[r] += k
						}
					}
				}
			}
			if len(adv) == 1 {
				bad = fmt.Sprintf("block %d advances only one of the two slices", b.Index)
			}
			if len(adv) == 2 {
				var ks []int64
				for _, k := range adv {
					ks = append(ks, k)
				}
				if ks[0] != ks[1] {
					bad = fmt.Sprintf("block %d advances the two slices by different amounts", b.Index)
				}
			}
		}
		c.check(bad == "" && nCmp > 0, name+":alignment", fn.Pos(), fmt.Sprintf("%d comparisons, each between one slice of each argument at the same offset; both slices advance together", nCmp),
			"alignment of the compared slices is lost: "+bad+": bytes are compared with the wrong partner (a slice compared with itself always matches)")
	}
}

// loadedSliceAny: argument slice of a word loader call of either package.
func (c *Ctx) loadedSliceAny(v ssa.Value) ssa.Value {
	call, ok := v.(*ssa.Call)
	if !ok || call.Call.StaticCallee() == nil || len(call.Call.Args) != 1 || !isByteSlice(call.Call.Args[0].Type()) {
		return nil
	}
	if b, isB := call.Type().Underlying().(*types.Basic); !isB || b.Info()&types.IsUnsigned == 0 {
		return nil
	}
	return call.Call.Args[0]
}
