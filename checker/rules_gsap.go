package main

// R-STRIDE (every position-scanning parser) and the GSAP rules of C12:
// R-GSAP-INSERT, R-GSAP-BOTH, R-GSAP-REBUILD.

import (
	"fmt"
	"go/token"
	"go/types"
	"sort"
	"strings"

	"golang.org/x/tools/go/ssa"
)

func init() {
	reg(&Rule{ID: "R-STRIDE", Min: 6,
		Doc: "in every position-scanning Parse loop the next position is i+1 on paths without an emission and H+MatchLen (the new literal cursor) on paths with one: every uncovered position is visited exactly once",
		Run: ruleStride})
	reg(&Rule{ID: "R-GSAP-INSERT", Min: 4,
		Doc: "GSAP: the scan runs to the block end len(p); the rank of the current position is inserted into the search set on every iteration before both neighbour queries; every position covered by an emitted match is inserted by a counting loop i+1 … H+MatchLen−1",
		Run: ruleGsapInsert})
	reg(&Rule{ID: "R-GSAP-BOTH", Min: 4,
		Doc: "GSAP: both suffix-array neighbours of the current rank are queried (two distinct query functions, same rank), each hit is measured with lcp(p[f:], p[i:]) on the block-clipped data exactly when the query succeeded, and the emitted MatchLen is the maximum of the measured lengths",
		Run: ruleGsapBoth})
	reg(&Rule{ID: "R-GSAP-COVERED", Min: 4,
		Doc: "GSAP: elements of the suffix array and its inverse are accessed in Parse only after the coverage point (W+n ≤ len(sa) tested or the arrays rebuilt), or with an index locally proved to be in range — never on the blk == nil side or before the test",
		Run: ruleGsapCovered})
	reg(&Rule{ID: "R-GSAP-REBUILD", Min: 4,
		Doc: "GSAP: the block is scanned only when W+n ≤ len(sa) or after a rebuild; the rebuild sizes sa and isa to len(Data), inverts sa, clears the search set and inserts the ranks of all positions < W",
		Run: ruleGsapRebuild})
}

// litSlice returns q of LitLen = len(q).
func litSlice(e *Emit) *ssa.Slice {
	ll := stripConv(e.LitLen)
	call, _ := ll.(*ssa.Call)
	if call == nil || len(call.Call.Args) != 1 {
		return nil
	}
	q, _ := call.Call.Args[0].(*ssa.Slice)
	if q == nil || q.Low == nil || q.High == nil {
		return nil
	}
	return q
}

func (c *Ctx) emitsIn2(fn *ssa.Function) []*Emit {
	var out []*Emit
	for _, e := range c.emits() {
		if e.Fn == fn {
			out = append(out, e)
		}
	}
	return out
}

// outerLoopOf: the largest loop of fi containing b.
func (fi *FuncInfo) outerLoopOf(b *ssa.BasicBlock) *Loop {
	var best *Loop
	for _, l := range fi.loops {
		if l.Blocks[b] && (best == nil || len(l.Blocks) > len(best.Blocks)) {
			best = l
		}
	}
	return best
}

// ScanLoop describes a position-scanning loop.
type ScanLoop struct {
	Fn     *ssa.Function
	fi     *FuncInfo
	L      *Loop
	P      *ssa.Phi // position
	Bound  Lin      // loop continues while P < Bound
	BoundV ssa.Value
	Emits  []*Emit
	Key    string
}

// scanLoops finds, for every function with emission sites, the outermost
// loops containing an emission whose header tests a header phi that the
// literal slice's high bound depends on.  walk=true marks loops that step
// through a precomputed path instead (OSAP).
func (c *Ctx) scanLoops() (scans []*ScanLoop, walks []string) {
	byFn := map[*ssa.Function][]*Emit{}
	var order []*ssa.Function
	for _, e := range c.emits() {
		if _, ok := byFn[e.Fn]; !ok {
			order = append(order, e.Fn)
		}
		byFn[e.Fn] = append(byFn[e.Fn], e)
	}
	for _, fn := range order {
		fi := c.info(fn)
		byLoop := map[*Loop][]*Emit{}
		var loops []*Loop
		for _, e := range byFn[fn] {
			l := fi.outerLoopOf(e.Block)
			if l == nil {
				continue
			}
			if _, ok := byLoop[l]; !ok {
				loops = append(loops, l)
			}
			byLoop[l] = append(byLoop[l], e)
		}
		sort.Slice(loops, func(i, j int) bool { return loops[i].Header.Index < loops[j].Header.Index })
		for k, l := range loops {
			key := fmt.Sprintf("%s:scan-loop#%d", fnName(fn), k+1)
			iff, ok := l.Header.Instrs[len(l.Header.Instrs)-1].(*ssa.If)
			var P *ssa.Phi
			var bound Lin
			var boundV ssa.Value
			if ok {
				bo, isB := unNot(Cond{iff.Cond, true}).V.(*ssa.BinOp)
				if isB && isIntType(bo.X.Type()) {
					for _, side := range []ssa.Value{bo.X, bo.Y} {
						if ph, isPhi := stripConv(side).(*ssa.Phi); isPhi && ph.Block() == l.Header {
							// continues (stays in loop) under P < bound ?
							stay := l.Blocks[l.Header.Succs[0]]
							fs := fi.factsOf([]Cond{{iff.Cond, stay}})
							if len(fs) == 1 && fs[0].Op == LE {
								a := fi.lin(ph)
								// fact: P − B + 1 ≤ 0  →  B = P + 1 − fact.L ... solve: fact.L = P − B + 1
								b := a.addc(1).sub(fs[0].L)
								if _, dep := b.t[ph.Name()]; !dep {
									P, bound = ph, b
									if side == bo.X {
										boundV = bo.Y
									} else {
										boundV = bo.X
									}
								}
							}
						}
					}
				}
			}
			// the literal high bound must depend on P
			dep := false
			if P != nil {
				for _, e := range byLoop[l] {
					if q := litSlice(e); q != nil && fi.dependsOnPhi(fi.lin(q.High), P, l, 0) {
						dep = true
					}
				}
			}
			if P == nil || !dep {
				walks = append(walks, key)
				continue
			}
			scans = append(scans, &ScanLoop{Fn: fn, fi: fi, L: l, P: P, Bound: bound, BoundV: boundV, Emits: byLoop[l], Key: key})
		}
	}
	return
}

// dependsOnPhi: l mentions P directly or through merge phis of loop L.
func (fi *FuncInfo) dependsOnPhi(l Lin, P *ssa.Phi, L *Loop, depth int) bool {
	if _, ok := l.t[P.Name()]; ok {
		return true
	}
	if depth > 4 {
		return false
	}
	av := fi.atomValues()
	for a := range l.t {
		if q, ok := av[a].(*ssa.Phi); ok && q != P && L.Blocks[q.Block()] && q.Block() != L.Header {
			for _, e := range q.Edges {
				if fi.dependsOnPhi(fi.lin(e), P, L, depth+1) {
					return true
				}
			}
		}
	}
	return false
}

type strideLeaf struct {
	L     Lin
	Preds []*ssa.BasicBlock
	Bad   string
}

// backValues expands the value flowing into phi P along its back edges into
// linear leaves over the header phis: merge phis inside the loop are split
// per edge, header phis of inner counting loops are replaced by their exit
// value.
func (s *ScanLoop) backValues(P *ssa.Phi) []strideLeaf {
	fi := s.fi
	var out []strideLeaf
	var expand func(l Lin, preds []*ssa.BasicBlock, depth int)
	expand = func(l Lin, preds []*ssa.BasicBlock, depth int) {
		if depth > 8 {
			out = append(out, strideLeaf{L: l, Preds: preds, Bad: "phi web too deep"})
			return
		}
		av := fi.atomValues()
		var atoms []string
		for a := range l.t {
			atoms = append(atoms, a)
		}
		sort.Strings(atoms)
		for _, a := range atoms {
			q, ok := av[a].(*ssa.Phi)
			if !ok || !s.L.Blocks[q.Block()] || q.Block() == s.L.Header {
				continue
			}
			// a phi that is already defined where a Seq is emitted is an input of
			// the emission (MatchLen, the adjusted position), not part of the
			// position web behind it
			avail := false
			for _, e := range s.Emits {
				if q.Block() == e.Block || q.Block().Dominates(e.Block) {
					avail = true
				}
			}
			if avail {
				continue
			}
			co := l.t[a]
			rest := l.clone()
			delete(rest.t, a)
			// header of an inner loop?
			var inner *Loop
			for _, l2 := range fi.loops {
				if l2.Header == q.Block() && l2 != s.L {
					inner = l2
				}
			}
			if inner != nil {
				ex, why := s.exitValue(q, inner)
				if why != "" {
					out = append(out, strideLeaf{L: l, Preds: preds, Bad: why})
					return
				}
				var pre []*ssa.BasicBlock
				for _, p := range q.Block().Preds {
					if !inner.Blocks[p] {
						pre = append(pre, p)
					}
				}
				expand(rest.addk(ex, co), append(append([]*ssa.BasicBlock{}, preds...), pre...), depth+1)
				return
			}
			for k, e := range q.Edges {
				expand(rest.addk(fi.lin(e), co), append(append([]*ssa.BasicBlock{}, preds...), q.Block().Preds[k]), depth+1)
			}
			return
		}
		out = append(out, strideLeaf{L: l, Preds: preds})
	}
	for k, e := range P.Edges {
		pred := P.Block().Preds[k]
		if !s.L.Blocks[pred] {
			continue
		}
		expand(fi.lin(e), []*ssa.BasicBlock{pred}, 0)
	}
	return out
}

// exitValue: q is the header phi of an inner counting loop
// `for x = a; x < b; x++`; its value after the loop is b when a ≤ b holds
// at the loop entry.
func (s *ScanLoop) exitValue(q *ssa.Phi, inner *Loop) (Lin, string) {
	fi := s.fi
	var a Lin
	nIn := 0
	var pre *ssa.BasicBlock
	for k, e := range q.Edges {
		pred := q.Block().Preds[k]
		if inner.Blocks[pred] {
			if !fi.lin(e).eq(fi.lin(q).addc(1)) {
				return Lin{}, fmt.Sprintf("inner loop variable %s is not stepped by 1", q.Name())
			}
		} else {
			a = fi.lin(e)
			pre = pred
			nIn++
		}
	}
	if nIn != 1 {
		return Lin{}, "inner loop has several entries"
	}
	iff, ok := q.Block().Instrs[len(q.Block().Instrs)-1].(*ssa.If)
	if !ok {
		return Lin{}, "inner loop has no header test"
	}
	stay := inner.Blocks[q.Block().Succs[0]]
	fs := fi.factsOf([]Cond{{iff.Cond, stay}})
	if len(fs) != 1 || fs[0].Op != LE {
		return Lin{}, "inner loop test is not a comparison"
	}
	// fact: x − b + 1 ≤ 0
	b := fi.lin(q).addc(1).sub(fs[0].L)
	if _, dep := b.t[q.Name()]; dep {
		return Lin{}, "inner loop test does not compare the loop variable with a bound"
	}
	// other exits of the inner loop (break) would invalidate the summary
	for blk := range inner.Blocks {
		if blk == q.Block() {
			continue
		}
		for _, sc := range blk.Succs {
			if !inner.Blocks[sc] {
				return Lin{}, "inner loop has an additional exit"
			}
		}
	}
	if !fi.proveLE0(a.sub(b), fi.edgeConds(pre, q.Block()), nil, map[string]bool{}, 0) {
		return Lin{}, fmt.Sprintf("cannot show start %s ≤ bound %s of the inner counting loop", a, b)
	}
	return b, ""
}

func ruleStride(c *Ctx) {
	scans, walks := c.scanLoops()
	for _, w := range walks {
		c.add("info", w, token.NoPos, "loop walks a precomputed path (no position test in its header); cursor arithmetic is covered by R-TILE")
	}
	for _, s := range scans {
		fi := s.fi
		leaves := s.backValues(s.P)
		if len(leaves) == 0 {
			c.fail(s.Key, s.P.Pos(), "no back-edge value of the scan position found")
			continue
		}
		ok := true
		var descr []string
		for _, lf := range leaves {
			if lf.Bad != "" {
				ok = false
				c.fail(s.Key, s.P.Pos(), "next scan position %s on path via blocks %v is undecided: %s", lf.L, blockIdx(lf.Preds), lf.Bad)
				break
			}
			// which emission lies on this path?
			var em *Emit
			for _, e := range s.Emits {
				for _, p := range lf.Preds {
					if e.Block == p || e.Block.Dominates(p) {
						em = e
					}
				}
			}
			if em == nil {
				want := fi.lin(s.P).addc(1)
				if !lf.L.eq(want) {
					ok = false
					c.fail(s.Key, s.P.Pos(), "on a path without an emission (via blocks %v) the next scan position is %s, expected %s: positions are skipped or repeated", blockIdx(lf.Preds), lf.L, want)
					break
				}
				descr = append(descr, "i+1")
				continue
			}
			q := litSlice(em)
			if q == nil {
				ok = false
				c.fail(s.Key, em.Pos, "emission without a literal slice")
				break
			}
			want := fi.lin(q.High).add(fi.lin(stripConv(em.MatchLen)))
			if !lf.L.eq(want) {
				ok = false
				c.fail(s.Key, em.Pos, "after the emission %s (path via blocks %v) the next scan position is %s, expected H+MatchLen = %s: the position behind a match is skipped or a covered position is re-examined", em.Key, blockIdx(lf.Preds), lf.L, want)
				break
			}
			descr = append(descr, "H+MatchLen")
		}
		if ok {
			c.ok(s.Key, s.P.Pos(), "position %s: next values on the %d back-edge paths: %s", s.P.Name(), len(leaves), strings.Join(dedup(descr), ", "))
		}
	}
}

func blockIdx(bs []*ssa.BasicBlock) []int {
	var out []int
	for _, b := range bs {
		out = append(out, b.Index)
	}
	return out
}

func dedup(ss []string) []string {
	seen := map[string]bool{}
	var out []string
	for _, s := range ss {
		if !seen[s] {
			seen[s] = true
			out = append(out, s)
		}
	}
	return out
}

// ---------------------------------------------------------------- GSAP role

type gsapInfo struct {
	p      *Parser
	scan   *ScanLoop
	fi     *FuncInfo
	err    string
	isaF   *types.Var // field holding the inverse suffix array
	saF    *types.Var
	rank   ssa.Value // j = int(isa[P]) in the scan loop
	ins    *ssa.Call // insert(rank) in the scan loop header body
	insFn  *ssa.Function
	qs     []*ssa.Call // neighbour queries (int, bool) with argument rank
	setF   *types.Var  // field holding the search set
	sortC  *ssa.Call   // call in Parse of the rebuild function
	sortFn *ssa.Function
}

func (c *Ctx) suffixSort() *ssa.Function {
	if c.suffix == nil {
		return nil
	}
	return c.suffix.Func("Sort")
}

// gsap finds the greedy suffix-array parser: a position-scanning parser
// whose Parse reaches suffix.Sort.
func (c *Ctx) gsap() *gsapInfo {
	g := &gsapInfo{}
	srt := c.suffixSort()
	if srt == nil {
		g.err = "suffix.Sort not found"
		return g
	}
	scans, _ := c.scanLoops()
	for _, s := range scans {
		for _, p := range c.parsers() {
			if p.Parse == s.Fn && c.reachable(p.Parse)[srt] {
				if g.scan != nil {
					g.err = "more than one position-scanning suffix-array parser"
					return g
				}
				g.p, g.scan, g.fi = p, s, s.fi
			}
		}
	}
	if g.scan == nil {
		g.err = "no position-scanning parser that reaches suffix.Sort (greedy suffix-array parser) found"
		return g
	}
	fi := g.fi
	L := g.scan.L
	// rank := int(isa[P]): a load of an []int32 field element indexed by P, used as argument of calls
	// queries: calls in the loop with results (int, bool) and one int argument
	var calls []*ssa.Call
	for _, b := range g.scan.Fn.Blocks {
		if !L.Blocks[b] || fi.loopOf(b) != L {
			continue
		}
		for _, in := range b.Instrs {
			if call, ok := in.(*ssa.Call); ok && call.Call.StaticCallee() != nil && !call.Call.IsInvoke() {
				calls = append(calls, call)
			}
		}
	}
	for _, call := range calls {
		sig := call.Call.StaticCallee().Signature
		if sig.Results().Len() == 2 && isIntType(sig.Results().At(0).Type()) && isBool(sig.Results().At(1).Type()) && sig.Recv() != nil {
			g.qs = append(g.qs, call)
		}
	}
	if len(g.qs) == 0 {
		g.err = "no neighbour query (method returning (int, bool)) in the scan loop"
		return g
	}
	// rank: the int argument of the first query
	args := g.qs[0].Call.Args
	g.rank = args[len(args)-1]
	ld, ok := stripConv(g.rank).(*ssa.UnOp)
	if !ok || ld.Op != token.MUL {
		g.err = "query argument is not a loaded rank"
		return g
	}
	ia, ok := ld.X.(*ssa.IndexAddr)
	if !ok || !fi.lin(ia.Index).eq(fi.lin(g.scan.P)) {
		g.err = "query argument is not isa[i] for the scan position i"
		return g
	}
	g.isaF = loadedField(ia.X)
	if g.isaF == nil {
		g.err = "the rank is not read from a parser field"
		return g
	}
	g.setF = fieldOfAddr(g.qs[0].Call.Args[0])
	// insert: a call on the same set field in the loop whose variadic/int argument is rank
	for _, call := range calls {
		if isQuery(call, g.qs) || fieldOfAddr(call.Call.Args[0]) != g.setF || g.setF == nil {
			continue
		}
		if c.callPassesValue(call, g.rank) {
			g.ins = call
			g.insFn = call.Call.StaticCallee()
			break
		}
	}
	// rebuild call in Parse: a static callee (method of the parser) that reaches suffix.Sort
	for _, b := range g.scan.Fn.Blocks {
		for _, in := range b.Instrs {
			if call, ok := in.(*ssa.Call); ok {
				if callee := call.Call.StaticCallee(); callee != nil && callee.Pkg == c.lz && c.reachable(callee)[srt] {
					g.sortC, g.sortFn = call, callee
				}
			}
		}
	}
	// sa field: the []int32 field passed to suffix.Sort in the rebuild function
	if g.sortFn != nil {
		for _, b := range g.sortFn.Blocks {
			for _, in := range b.Instrs {
				if call, ok := in.(*ssa.Call); ok && call.Call.StaticCallee() == srt && len(call.Call.Args) == 2 {
					g.saF = loadedField(call.Call.Args[1])
				}
			}
		}
	}
	return g
}

func isBool(t types.Type) bool {
	b, ok := t.Underlying().(*types.Basic)
	return ok && b.Kind() == types.Bool
}

func isQuery(call *ssa.Call, qs []*ssa.Call) bool {
	for _, q := range qs {
		if q == call {
			return true
		}
	}
	return false
}

// loadedField: v is a load of a struct field (possibly re-sliced); returns the field.
func loadedField(v ssa.Value) *types.Var {
	for {
		switch x := v.(type) {
		case *ssa.Slice:
			v = x.X
			continue
		case *ssa.UnOp:
			if x.Op == token.MUL {
				return fieldOfAddr(x.X)
			}
		}
		return heldField(v)
	}
}

// heldField: v is not a load, but the function stores it into a struct field, that store is the only store to the
// field in the function, and v is stored nowhere else: v is the value the field holds from then on (a local that
// is prepared first and installed with one assignment, x.F = v).
func heldField(v ssa.Value) *types.Var {
	switch v.(type) {
	case *ssa.Phi, *ssa.MakeSlice, *ssa.Call:
	default:
		return nil
	}
	refs := v.Referrers()
	if refs == nil {
		return nil
	}
	var f *types.Var
	for _, r := range *refs {
		st, ok := r.(*ssa.Store)
		if !ok || st.Val != v {
			continue
		}
		ff := fieldOfAddr(st.Addr)
		if ff == nil || f != nil {
			return nil
		}
		f = ff
	}
	if f == nil {
		return nil
	}
	fn := v.(ssa.Instruction).Parent()
	n := 0
	for _, b := range fn.Blocks {
		for _, in := range b.Instrs {
			if st, ok := in.(*ssa.Store); ok && fieldOfAddr(st.Addr) == f {
				n++
			}
		}
	}
	if n != 1 {
		return nil
	}
	return f
}

// callPassesValue: the call passes v directly or as the single element of a variadic slice.
func (c *Ctx) callPassesValue(call *ssa.Call, v ssa.Value) bool {
	for _, a := range call.Call.Args {
		if a == v {
			return true
		}
		if sl, ok := a.(*ssa.Slice); ok {
			if arr, ok := sl.X.(*ssa.Alloc); ok {
				n, hit := 0, false
				for _, ref := range *arr.Referrers() {
					if ia, isIA := ref.(*ssa.IndexAddr); isIA {
						for _, u := range *ia.Referrers() {
							if st, isSt := u.(*ssa.Store); isSt && st.Addr == ssa.Value(ia) {
								n++
								if st.Val == v {
									hit = true
								}
							}
						}
					}
				}
				if n == 1 && hit {
					return true
				}
			}
		}
	}
	return false
}

func (c *Ctx) gsapOrFail(key string) *gsapInfo {
	g := c.gsap()
	if g.err != "" {
		c.fail(key+":anchor", token.NoPos, "unresolved anchor: %s", g.err)
		return nil
	}
	return g
}

// ---------------------------------------------------------------- R-GSAP-INSERT

func ruleGsapInsert(c *Ctx) {
	g := c.gsapOrFail("gsap")
	if g == nil {
		return
	}
	fi, s := g.fi, g.scan
	name := fnName(s.Fn)
	// (1) bound = len(p), p the block-clipped slice the literals are taken from
	var pV ssa.Value
	for _, e := range s.Emits {
		if q := litSlice(e); q != nil {
			pV = q.X
		}
	}
	if pV == nil {
		c.fail(name+":scan:bound", s.P.Pos(), "literal slice not found")
	} else {
		c.check(s.Bound.eq(fi.lenOf(pV)), name+":scan:bound", s.P.Pos(),
			"scan runs while i < len(p) = "+fi.lenOf(pV).String()+" (every position of the block is examined and inserted)",
			"scan stops at "+s.Bound.String()+" instead of the block end len(p) = "+fi.lenOf(pV).String()+": the last positions of a block are neither examined nor inserted into the search set")
	}
	// (2) insert(rank) on every iteration, before the queries
	if g.ins == nil {
		c.fail(name+":scan:insert", s.P.Pos(), "no insertion of the current rank isa[i] into the search set in the scan loop")
	} else {
		everyIter := true
		for _, l := range s.L.Latches {
			if !(g.ins.Block() == l || g.ins.Block().Dominates(l)) {
				everyIter = false
			}
		}
		before := true
		for _, q := range g.qs {
			if !(g.ins.Block().Dominates(q.Block()) && (g.ins.Block() != q.Block() || fi.instrIx[g.ins] < fi.instrIx[q])) {
				before = false
			}
		}
		c.check(everyIter, name+":scan:insert-every", g.ins.Pos(), "isa[i] is inserted on every iteration (the insertion dominates every back edge)",
			"the insertion of isa[i] does not dominate every back edge of the scan loop: some examined positions never enter the search set")
		c.check(before, name+":scan:insert-first", g.ins.Pos(), "the insertion precedes both neighbour queries",
			"a neighbour query runs before the current rank is inserted")
	}
	// (3) covered positions: counting loop after each emission
	for _, e := range s.Emits {
		key := e.Key + ":cover-insert"
		q := litSlice(e)
		if q == nil {
			c.fail(key, e.Pos, "no literal slice")
			continue
		}
		next := fi.lin(q.High).add(fi.lin(stripConv(e.MatchLen)))
		found := false
		why := "no counting loop after the emission inserts the covered positions"
		for _, l2 := range fi.loops {
			if l2 == s.L || !s.L.Blocks[l2.Header] || !(e.Block.Dominates(l2.Header)) {
				continue
			}
			// header phi x with entry P+1, step 1, bound next
			for _, in := range l2.Header.Instrs {
				x, ok := in.(*ssa.Phi)
				if !ok {
					continue
				}
				var a Lin
				step := true
				for k, ev := range x.Edges {
					if l2.Blocks[x.Block().Preds[k]] {
						if !fi.lin(ev).eq(fi.lin(x).addc(1)) {
							step = false
						}
					} else {
						a = fi.lin(ev)
					}
				}
				iff, isIf := l2.Header.Instrs[len(l2.Header.Instrs)-1].(*ssa.If)
				if !step || !isIf {
					continue
				}
				stay := l2.Blocks[l2.Header.Succs[0]]
				fs := fi.factsOf([]Cond{{iff.Cond, stay}})
				if len(fs) != 1 || fs[0].Op != LE {
					continue
				}
				b := fi.lin(x).addc(1).sub(fs[0].L)
				// body inserts isa[x]
				ins := false
				for blk := range l2.Blocks {
					for _, in2 := range blk.Instrs {
						call, isCall := in2.(*ssa.Call)
						if !isCall || call.Call.StaticCallee() != g.insFn || g.insFn == nil {
							continue
						}
						for _, ref := range s.Fn.Blocks {
							_ = ref
						}
						// argument: int(isa[x])
						if c.callPassesRank(fi, call, g.isaF, fi.lin(x)) {
							ins = true
						}
					}
				}
				if !ins {
					continue
				}
				if !a.eq(fi.lin(s.P).addc(1)) {
					why = fmt.Sprintf("the covering loop starts at %s, expected i+1 = %s", a, fi.lin(s.P).addc(1))
					continue
				}
				if !b.eq(next) {
					why = fmt.Sprintf("the covering loop ends at %s, expected H+MatchLen = %s", b, next)
					continue
				}
				found = true
			}
		}
		c.check(found, key, e.Pos, "positions i+1 … H+MatchLen−1 covered by the match are inserted into the search set", why+": positions inside a match could not be found as match sources later")
	}
}

// callPassesRank: call passes int(F[idx]) for field F and index lin idx.
func (c *Ctx) callPassesRank(fi *FuncInfo, call *ssa.Call, f *types.Var, idx Lin) bool {
	check := func(v ssa.Value) bool {
		ld, ok := stripConv(v).(*ssa.UnOp)
		if !ok || ld.Op != token.MUL {
			return false
		}
		ia, ok := ld.X.(*ssa.IndexAddr)
		if !ok || f == nil {
			return false
		}
		// the field itself, or a prefix of it (isa[:W][k] is isa[k])
		base := ia.X
		if sl, isSl := base.(*ssa.Slice); isSl && (sl.Low == nil || isConstZero(sl.Low)) {
			base = sl.X
		}
		return loadedField(base) == f && fi.lin(ia.Index).eq(idx)
	}
	for _, a := range call.Call.Args {
		if check(a) {
			return true
		}
		if sl, ok := a.(*ssa.Slice); ok {
			if arr, ok := sl.X.(*ssa.Alloc); ok {
				for _, ref := range *arr.Referrers() {
					if ia, isIA := ref.(*ssa.IndexAddr); isIA {
						for _, u := range *ia.Referrers() {
							if st, isSt := u.(*ssa.Store); isSt && st.Addr == ssa.Value(ia) && check(st.Val) {
								return true
							}
						}
					}
				}
			}
		}
	}
	return false
}

// ---------------------------------------------------------------- R-GSAP-BOTH

// proveOnEdge proves goal ≤ 0 for control flowing pred→succ; when pred is a
// merge block its incoming edges are split (two levels).
func (fi *FuncInfo) proveOnEdge(goal Lin, pred, succ *ssa.BasicBlock, extra []Fact, depth int) bool {
	cs := fi.edgeConds(pred, succ)
	if fi.proveLE0(goal, cs, extra, map[string]bool{}, 0) {
		return true
	}
	if depth >= 2 || len(pred.Preds) < 2 {
		return false
	}
	for _, pp := range pred.Preds {
		if pred.Dominates(pp) {
			return false // loop header
		}
	}
	var last []Cond
	if iff, ok := pred.Instrs[len(pred.Instrs)-1].(*ssa.If); ok && pred.Succs[0] != pred.Succs[1] {
		last = []Cond{{iff.Cond, pred.Succs[0] == succ}}
	}
	for _, pp := range pred.Preds {
		cs2 := append(append([]Cond{}, fi.edgeConds(pp, pred)...), last...)
		if fi.proveLE0(goal, cs2, extra, map[string]bool{}, 0) {
			continue
		}
		if fi.proveLE0(linConst(1), cs2, extra, map[string]bool{}, 0) {
			continue // contradictory: edge not taken
		}
		// one more level
		if depth+1 < 2 && len(pp.Preds) >= 2 {
			all := true
			for _, ppp := range pp.Preds {
				cs3 := append(append(append([]Cond{}, fi.edgeConds(ppp, pp)...), fi.edgeLast(pp, pred)...), last...)
				if !fi.proveLE0(goal, cs3, extra, map[string]bool{}, 0) && !fi.proveLE0(linConst(1), cs3, extra, map[string]bool{}, 0) {
					all = false
				}
			}
			if all {
				continue
			}
		}
		return false
	}
	return true
}

func (fi *FuncInfo) edgeLast(p, s *ssa.BasicBlock) []Cond {
	if iff, ok := p.Instrs[len(p.Instrs)-1].(*ssa.If); ok && p.Succs[0] != p.Succs[1] {
		return []Cond{{iff.Cond, p.Succs[0] == s}}
	}
	return nil
}

type webLeaf struct {
	V     ssa.Value
	Edges [][2]*ssa.BasicBlock // (pred, phi block) along the way, innermost first
	Eqs   []Fact               // phi = incoming value along the path
}

// webLeaves enumerates the paths through the phi web of v (phis inside loop
// L, not at its header).
func (fi *FuncInfo) webLeaves(v ssa.Value, L *Loop) []webLeaf {
	var out []webLeaf
	var walk func(v ssa.Value, edges [][2]*ssa.BasicBlock, eqs []Fact, depth int)
	walk = func(v ssa.Value, edges [][2]*ssa.BasicBlock, eqs []Fact, depth int) {
		ph, ok := v.(*ssa.Phi)
		if !ok || depth > 6 || !L.Blocks[ph.Block()] || ph.Block() == L.Header {
			out = append(out, webLeaf{v, edges, eqs})
			return
		}
		for k, e := range ph.Edges {
			e2 := append(append([][2]*ssa.BasicBlock{}, edges...), [2]*ssa.BasicBlock{ph.Block().Preds[k], ph.Block()})
			q2 := append(append([]Fact{}, eqs...), Fact{fi.lin(ph).sub(fi.lin(e)), EQ})
			// sibling phis of the same block take the same edge
			for _, in := range ph.Block().Instrs {
				if sib, isPhi := in.(*ssa.Phi); isPhi && sib != ph && isIntType(sib.Type()) {
					q2 = append(q2, Fact{fi.lin(sib).sub(fi.lin(sib.Edges[k])), EQ})
				}
			}
			walk(e, e2, q2, depth+1)
		}
	}
	walk(v, nil, nil, 0)
	return out
}

func ruleGsapBoth(c *Ctx) {
	g := c.gsapOrFail("gsap")
	if g == nil {
		return
	}
	fi, s := g.fi, g.scan
	name := fnName(s.Fn)
	// (a) two distinct query callees, same rank argument
	distinct := map[*ssa.Function]bool{}
	sameArg := true
	for _, q := range g.qs {
		distinct[q.Call.StaticCallee()] = true
		if q.Call.Args[len(q.Call.Args)-1] != g.rank {
			sameArg = false
		}
		if fieldOfAddr(q.Call.Args[0]) != g.setF {
			sameArg = false
		}
	}
	c.check(len(g.qs) == 2 && len(distinct) == 2 && sameArg, name+":queries", g.qs[0].Pos(),
		"both neighbours (two distinct query methods of the search set) are queried with the current rank isa[i]",
		fmt.Sprintf("expected two neighbour queries with distinct callees on the same rank and set, found %d calls / %d callees (same argument: %v): a neighbour in suffix-array order is not considered", len(g.qs), len(distinct), sameArg))
	// (b) each hit measured with lcp(p[f:], p[i:]) exactly when the query succeeded
	var pV ssa.Value
	for _, e := range s.Emits {
		if q := litSlice(e); q != nil {
			pV = q.X
		}
	}
	type meas struct {
		q    *ssa.Call
		call *ssa.Call
	}
	var ms []meas
	for qi, q := range g.qs {
		key := fmt.Sprintf("%s:query#%d:measure", name, qi+1)
		var idx, okv ssa.Value
		for _, ref := range *q.Referrers() {
			if ex, isEx := ref.(*ssa.Extract); isEx {
				if ex.Index == 0 {
					idx = ex
				} else {
					okv = ex
				}
			}
		}
		if idx == nil || okv == nil {
			c.fail(key, q.Pos(), "a result of the neighbour query is unused")
			continue
		}
		// find lcp-like call whose first slice's low bound is int(sa[idx])
		var mcall *ssa.Call
		for _, b := range s.Fn.Blocks {
			if !s.L.Blocks[b] {
				continue
			}
			for _, in := range b.Instrs {
				call, isCall := in.(*ssa.Call)
				if !isCall || call.Call.StaticCallee() == nil || len(call.Call.Args) != 2 {
					continue
				}
				a0, ok0 := call.Call.Args[0].(*ssa.Slice)
				a1, ok1 := call.Call.Args[1].(*ssa.Slice)
				if !ok0 || !ok1 || a0.Low == nil || a1.Low == nil {
					continue
				}
				ld, isLd := stripConv(a0.Low).(*ssa.UnOp)
				if !isLd || ld.Op != token.MUL {
					continue
				}
				ia, isIA := ld.X.(*ssa.IndexAddr)
				if !isIA || ia.Index != idx {
					continue
				}
				mcall = call
				good := a0.X == pV && a1.X == pV && a0.High == nil && a1.High == nil && fi.lin(a1.Low).eq(fi.lin(s.P)) &&
					(g.saF == nil || loadedField(ia.X) == g.saF) && isIntType(call.Type())
				c.check(good, key+":args", call.Pos(), "hit measured as "+call.Call.StaticCallee().Name()+"(p[sa[k]:], p[i:]) on the block-clipped data up to the block end",
					"the hit is not measured as lcp(p[sa[k]:], p[i:]) over the block-clipped slice with open upper bounds (a truncated or differently based comparison gives a shorter or wrong length)")
			}
		}
		if mcall == nil {
			c.fail(key, q.Pos(), "the neighbour found by this query is never measured (no common-prefix computation from sa[k])")
			continue
		}
		// executed exactly when ok
		extra := condsMinus(fi.condsAt(mcall.Block()), fi.condsAt(q.Block()))
		exact := len(extra) == 1 && unNot(extra[0]).V == okv && unNot(extra[0]).True
		c.check(exact, key, mcall.Pos(), "measured exactly when the query reported a member",
			fmt.Sprintf("the measurement is not executed exactly when this query succeeded (extra conditions: %d): a found neighbour can be ignored", len(extra)))
		ms = append(ms, meas{q, mcall})
	}
	// (d) the position is given up as a literal for lack of length only when the best length is below MinMatchLen:
	// on the branch of the length test that does not lead to the emission the conditions contradict m ≥ MinMatchLen
	// (a match of exactly MinMatchLen is a match)
	for _, e := range s.Emits {
		m := stripConv(e.MatchLen)
		nT := 0
		for b := range s.L.Blocks {
			iff, ok := b.Instrs[len(b.Instrs)-1].(*ssa.If)
			if !ok {
				continue
			}
			bo, ok := unNot(Cond{iff.Cond, true}).V.(*ssa.BinOp)
			if !ok {
				continue
			}
			var minV ssa.Value
			for _, pair := range [][2]ssa.Value{{bo.X, bo.Y}, {bo.Y, bo.X}} {
				if stripConv(pair[0]) == m {
					if ld, isLd := stripConv(pair[1]).(*ssa.UnOp); isLd && ld.Op == token.MUL {
						if f := fieldOfAddr(ld.X); f != nil && f.Name() == "MinMatchLen" {
							minV = pair[1]
						}
					}
				}
			}
			if minV == nil {
				continue
			}
			nT++
			for si, sc := range b.Succs {
				if sc == e.Block || sc.Dominates(e.Block) {
					continue
				}
				// the give-up side
				cs := append(append([]Cond{}, fi.condsAt(b)...), Cond{iff.Cond, si == 0})
				okG := fi.refute(cs, []Fact{{fi.lin(minV).sub(fi.lin(m)), LE}}, 0)
				c.check(okG, e.Key+":give-up-exact", bo.Pos(), "the position is given up for lack of length only when the best length is below MinMatchLen",
					"the position can be given up as a literal although its best match has MinMatchLen bytes or more (the length test is one step too wide): C12 allows a literal only where no match of at least MinMatchLen exists")
			}
		}
		if nT == 0 {
			c.fail(e.Key+":give-up-exact", e.Pos, "no test of the best length against MinMatchLen found in the scan loop")
		}
	}
	// (c) MatchLen = max of the measured lengths
	for _, e := range s.Emits {
		key := e.Key + ":max"
		m := stripConv(e.MatchLen)
		leaves := fi.webLeaves(m, s.L)
		okAll := len(ms) == 2
		detail := ""
		seenMeas := map[*ssa.Call]bool{}
		for _, lf := range leaves {
			isMeas := false
			for _, mm := range ms {
				if lf.V == ssa.Value(mm.call) {
					isMeas = true
					seenMeas[mm.call] = true
				}
			}
			if !isMeas {
				if k, isC := constInt(lf.V); !isC || k != 0 {
					okAll = false
					detail = fmt.Sprintf("MatchLen can be %s, which is neither a measured length nor the initial 0", fi.lin(lf.V))
					break
				}
			}
			for _, mm := range ms {
				if lf.V == ssa.Value(mm.call) {
					continue
				}
				// was mm computed on this path?
				computed := false
				for _, ed := range lf.Edges {
					if mm.call.Block() == ed[0] || mm.call.Block().Dominates(ed[0]) {
						computed = true
					}
				}
				other := fi.lin(mm.call)
				if !computed {
					// the other measurement was made only on some ways here (under its own query's success): what
					// this way knows of it is the merged "best so far" — a φ that takes the measurement on the ways
					// where it was made (and the initial 0 otherwise) and is defined in front of this way
					var merged *ssa.Phi
					for _, ph := range fi.phis {
						feeds := false
						for _, ev := range ph.Edges {
							if ev == ssa.Value(mm.call) {
								feeds = true
							}
						}
						if feeds && isIntType(ph.Type()) {
							for _, ed := range lf.Edges {
								if ph.Block() == ed[0] || ph.Block().Dominates(ed[0]) {
									merged = ph
								}
							}
						}
					}
					if merged == nil || ssa.Value(merged) == lf.V {
						continue
					}
					other = fi.lin(merged)
				}
				// facts: phi = value along the path; phis fed by mm on its own path
				extra := append([]Fact{}, lf.Eqs...)
				for _, ph := range fi.phis {
					for k, ev := range ph.Edges {
						if ev != ssa.Value(mm.call) {
							continue
						}
						pk := ph.Block().Preds[k]
						if !(mm.call.Block() == pk || mm.call.Block().Dominates(pk)) {
							continue
						}
						only := true
						for k2 := range ph.Edges {
							p2 := ph.Block().Preds[k2]
							if k2 != k && (mm.call.Block() == p2 || mm.call.Block().Dominates(p2)) {
								only = false
							}
						}
						if only {
							extra = append(extra, Fact{fi.lin(ph).sub(fi.lin(ev)), EQ})
						}
					}
				}
				goal := other.sub(fi.lin(lf.V))
				proved := false
				// conditions of all edges along the path
				var cs []Cond
				for _, ed := range lf.Edges {
					cs = append(cs, fi.edgeConds(ed[0], ed[1])...)
				}
				if fi.proveLE0(goal, cs, extra, map[string]bool{}, 0) {
					proved = true
				} else {
					// split merges of the innermost edge
					for _, ed := range lf.Edges {
						if fi.proveOnEdge(goal, ed[0], ed[1], extra, 0) {
							proved = true
						}
					}
				}
				if !proved {
					okAll = false
					detail = fmt.Sprintf("on the path where MatchLen = %s (via blocks %v) the other measured length %s is not shown to be ≤ it: the shorter of the two neighbours can be emitted", fi.lin(lf.V), edgeIdx(lf.Edges), fi.lin(mm.call))
				}
			}
		}
		if okAll && len(seenMeas) != 2 {
			okAll = false
			detail = fmt.Sprintf("only %d of the 2 measured lengths can become MatchLen", len(seenMeas))
		}
		c.check(okAll, key, e.Pos, "MatchLen is the maximum of the measured neighbour lengths on every path", "MatchLen is not the maximum of both neighbours: "+detail)
	}
}

func edgeIdx(es [][2]*ssa.BasicBlock) []int {
	var out []int
	for _, e := range es {
		out = append(out, e[0].Index)
	}
	return out
}

func condsMinus(a, b []Cond) []Cond {
	var out []Cond
	for _, x := range a {
		found := false
		for _, y := range b {
			if x == y {
				found = true
			}
		}
		if !found {
			out = append(out, x)
		}
	}
	return out
}

// ---------------------------------------------------------------- R-GSAP-REBUILD

func ruleGsapRebuild(c *Ctx) {
	g := c.gsapOrFail("gsap")
	if g == nil {
		return
	}
	fi, s := g.fi, g.scan
	name := fnName(s.Fn)
	if g.sortC == nil || g.sortFn == nil || g.saF == nil {
		c.fail(name+":rebuild", s.Fn.Pos(), "no call of a rebuild function (reaching suffix.Sort on a parser field) in Parse")
		return
	}
	// (a) scan entered only under block end ≤ len(sa), unless rebuilt
	var pre *ssa.BasicBlock
	for _, p := range s.L.Header.Preds {
		if !s.L.Blocks[p] {
			pre = p
		}
	}
	var saLen Lin
	foundLen := false
	for _, b := range s.Fn.Blocks {
		for _, in := range b.Instrs {
			if ld, ok := in.(*ssa.UnOp); ok && ld.Op == token.MUL && fieldOfAddr(ld.X) == g.saF && b.Dominates(g.sortC.Block()) {
				saLen = fi.lenOf(ld)
				foundLen = true
			}
		}
	}
	if pre == nil || !foundLen {
		c.fail(name+":rebuild:guard", g.sortC.Pos(), "cannot locate the suffix-array length test before the scan")
	} else {
		// every path from entry to pre: passes the rebuild call, or carries blockEnd ≤ len(sa)
		blockEnd := s.Bound
		okG := true
		detail := ""
		sb := g.sortC.Block()
		// merge block after the rebuild: the nearest block dominating pre (or pre itself) with ≥2 preds that the sort block flows into
		m := pre
		for m != nil && !(len(m.Preds) >= 2 && fi.reach[sb][m] || m == sb) {
			m = m.Idom()
		}
		if m == nil || m == sb {
			// rebuild unconditional
			c.ok(name+":rebuild:guard", g.sortC.Pos(), "the suffix array is rebuilt unconditionally before the scan")
		} else {
			for _, p := range m.Preds {
				if p == sb || sb.Dominates(p) {
					continue
				}
				cs := fi.edgeConds(p, m)
				if !fi.proveLE0(blockEnd.sub(saLen), cs, nil, map[string]bool{}, 0) {
					okG = false
					detail = fmt.Sprintf("edge from block %d skips the rebuild although W+n ≤ len(sa) is not established (facts %s)", p.Index, factStrings(fi.factsOf(cs)))
				}
			}
			c.check(okG, name+":rebuild:guard", g.sortC.Pos(), "the rebuild is skipped only under W+n = "+blockEnd.String()+" ≤ len(sa)",
				"a block that is not covered by the current suffix array can be scanned without a rebuild: "+detail)
		}
	}
	// (b) rebuild function: sa, isa sized len(Data); isa[sa[i]] = i; set cleared; ranks of positions < W inserted
	sfi := c.info(g.sortFn)
	sname := fnName(g.sortFn)
	var dataLen Lin
	hasData := false
	for _, b := range g.sortFn.Blocks {
		for _, in := range b.Instrs {
			if ld, ok := in.(*ssa.UnOp); ok && ld.Op == token.MUL {
				if f := fieldOfAddr(ld.X); f != nil && f.Name() == "Data" && !hasData {
					dataLen = sfi.lenOf(ld)
					hasData = true
				}
			}
		}
	}
	for _, f := range []*types.Var{g.saF, g.isaF} {
		if f == nil {
			continue
		}
		key := fmt.Sprintf("%s:size:%s", sname, f.Name())
		n, good := 0, true
		for _, b := range g.sortFn.Blocks {
			for _, in := range b.Instrs {
				if st, ok := in.(*ssa.Store); ok && fieldOfAddr(st.Addr) == f {
					n++
					// (the stored slice may be a merge of "re-sliced" and "freshly made": every way in)
					for _, lf := range mergeLeaves(st.Val) {
						if !hasData || !sfi.lenOf(lf.V).eq(dataLen) {
							good = false
						}
					}
				}
			}
		}
		c.check(n > 0 && good, key, g.sortFn.Pos(), fmt.Sprintf("every store to %s sizes it to len(Data) (%d stores)", f.Name(), n),
			fmt.Sprintf("the rebuild does not size %s to len(Data) on every path", f.Name()))
	}
	// inversion: store isa[sa-element] = range index
	inv, invSized := false, false
	for _, b := range g.sortFn.Blocks {
		for _, in := range b.Instrs {
			st, ok := in.(*ssa.Store)
			if !ok {
				continue
			}
			ia, isIA := st.Addr.(*ssa.IndexAddr)
			if !isIA || loadedField(ia.X) != g.isaF {
				continue
			}
			// index is the element of a range over sa, value the range index
			if rangeElemOf(ia.Index, g.saF) && rangeIndexOfSame(stripConv(st.Val), ia.Index) {
				inv = true
				// … into an array that has len(Data) elements on EVERY way here (a re-slice dropped on one branch
				// leaves the length Reset/Shrink gave it: 0)
				if hasData && sfi.lenOf(ia.X).eq(dataLen) {
					invSized = true
				}
				// … the same for an array that is a merge of "re-sliced" and "freshly made" (a local installed in
				// the field), and for a field every store to which sizes it (checked above) when no way from the
				// entry reaches the inversion without passing one of those stores
				if hasData && !invSized {
					if _, isLoad := ia.X.(*ssa.UnOp); !isLoad {
						all := true
						for _, lf := range mergeLeaves(ia.X) {
							if !sfi.lenOf(lf.V).eq(dataLen) {
								all = false
							}
						}
						invSized = all
					} else {
						avoid := map[*ssa.BasicBlock]bool{}
						for _, sb := range g.sortFn.Blocks {
							for _, sin := range sb.Instrs {
								if st2, isSt := sin.(*ssa.Store); isSt && fieldOfAddr(st2.Addr) == g.isaF {
									avoid[sb] = true
								}
							}
						}
						seenB := map[*ssa.BasicBlock]bool{}
						stack := []*ssa.BasicBlock{g.sortFn.Blocks[0]}
						reached := false
						for len(stack) > 0 {
							x := stack[len(stack)-1]
							stack = stack[:len(stack)-1]
							if seenB[x] || avoid[x] {
								continue
							}
							seenB[x] = true
							if x == b {
								reached = true
								break
							}
							stack = append(stack, x.Succs...)
						}
						invSized = !reached && len(avoid) > 0
					}
				}
			}
		}
	}
	c.check(inv, sname+":invert", g.sortFn.Pos(), "isa[sa[i]] = i for every i", "the rebuild does not invert the suffix array as isa[sa[i]] = i")
	c.check(invSized, sname+":invert-sized", g.sortFn.Pos(), "the inverse array has len(Data) elements on every way to the inversion", "the inverse suffix array is not sized to len(Data) on every way to the inversion loop (after Reset or Shrink its length is 0): the first store panics")
	// window re-insertion: counting loop 0..W inserting isa[x], after a clear of the set
	reins := false
	why := "no counting loop inserting isa[x] for x in [0, W)"
	for _, l := range sfi.loops {
		for _, in := range l.Header.Instrs {
			x, ok := in.(*ssa.Phi)
			if !ok || !isIntType(x.Type()) {
				continue
			}
			var a Lin
			step := true
			for k, ev := range x.Edges {
				if l.Blocks[x.Block().Preds[k]] {
					if !sfi.lin(ev).eq(sfi.lin(x).addc(1)) {
						step = false
					}
				} else {
					a = sfi.lin(ev)
				}
			}
			iff, isIf := l.Header.Instrs[len(l.Header.Instrs)-1].(*ssa.If)
			if !step || !isIf {
				continue
			}
			stay := l.Blocks[l.Header.Succs[0]]
			fs := sfi.factsOf([]Cond{{iff.Cond, stay}})
			if len(fs) != 1 || fs[0].Op != LE {
				continue
			}
			// the element index of an iteration is the operand of the loop condition that depends on x:
			// x itself (counting form, x < b) or x + 1 (range form, x + 1 < len); the other operand is the bound
			bo, isBo := iff.Cond.(*ssa.BinOp)
			if !isBo {
				continue
			}
			lx, ly := sfi.lin(bo.X), sfi.lin(bo.Y)
			_, depX := lx.t[x.Name()]
			_, depY := ly.t[x.Name()]
			if depX == depY {
				continue
			}
			idx, b := lx, ly
			if depY {
				idx, b = ly, lx
			}
			// condition must be idx < b: fact idx + 1 − b ≤ 0
			if !fs[0].L.eq(idx.addc(1).sub(b)) {
				continue
			}
			// first index: idx with x at its initial value
			first := idx.clone()
			co := first.t[x.Name()]
			delete(first.t, x.Name())
			a = first.addk(a, co)
			ins := false
			for blk := range l.Blocks {
				for _, in2 := range blk.Instrs {
					if call, isCall := in2.(*ssa.Call); isCall && call.Call.StaticCallee() == g.insFn && g.insFn != nil && c.callPassesRank(sfi, call, g.isaF, idx) {
						// on every iteration: the call's block lies on every way round the loop
						every := true
						for _, la := range l.Latches {
							if !(blk == la || blk.Dominates(la)) {
								every = false
							}
						}
						if every {
							ins = true
						}
					}
				}
			}
			if !ins {
				continue
			}
			isW := len(b.t) == 1 && b.c == 0
			for at, co := range b.t {
				if co != 1 || !strings.HasSuffix(strings.SplitN(at, "@", 2)[0], ".W") {
					isW = false
				}
			}
			if a.isConst() && a.c == 0 && isW {
				reins = true
			} else {
				why = fmt.Sprintf("the re-insertion loop covers [%s, %s), expected [0, W)", a, b)
			}
		}
	}
	c.check(reins, sname+":window", g.sortFn.Pos(), "after a rebuild the ranks of all positions < W are inserted (the whole window is searchable)", why+": earlier positions are lost as match sources after a rebuild")
	// … into an EMPTY set: the ranks of the previous suffix array mean other positions in the new one. A call on
	// the set that empties it (a method that re-slices the set's storage to length 0) reaches every insertion of
	// the rebuild function and is not followed by… itself being skipped: it dominates them.
	cleared := false
	var firstIns ssa.Instruction
	for _, b := range g.sortFn.Blocks {
		for _, in := range b.Instrs {
			call, ok := in.(*ssa.Call)
			if !ok || call.Call.StaticCallee() == nil || len(call.Call.Args) == 0 || fieldOfAddr(call.Call.Args[0]) != g.setF {
				continue
			}
			if call.Call.StaticCallee() == g.insFn && firstIns == nil {
				firstIns = call
			}
		}
	}
	sfi = c.info(g.sortFn)
	for _, b := range g.sortFn.Blocks {
		for _, in := range b.Instrs {
			call, ok := in.(*ssa.Call)
			if !ok || call.Call.StaticCallee() == nil || len(call.Call.Args) != 1 || fieldOfAddr(call.Call.Args[0]) != g.setF {
				continue
			}
			if emptiesSlice(call.Call.StaticCallee()) && firstIns != nil && sfi.instrDominates(call, firstIns) {
				cleared = true
			}
		}
	}
	c.check(cleared, sname+":set-emptied", g.sortFn.Pos(), "the rebuild empties the search set before it inserts the ranks of the new suffix array",
		"the rebuild does not empty the search set before re-inserting: the ranks left from the previous suffix array denote other positions in the new one, shadow the true neighbours and make the parser give up positions that have a match (their candidates lie ahead of the position and fail the offset test)")
}

// emptiesSlice: a method without parameters all of whose stores to its receiver's slice field store a re-slice to
// length 0 (b.a = b.a[:0]), and which has at least one.
func emptiesSlice(fn *ssa.Function) bool {
	if fn == nil || fn.Blocks == nil || len(fn.Params) != 1 {
		return false
	}
	n := 0
	for _, b := range fn.Blocks {
		for _, in := range b.Instrs {
			st, ok := in.(*ssa.Store)
			if !ok {
				continue
			}
			if _, isSl := st.Val.Type().Underlying().(*types.Slice); !isSl {
				continue
			}
			sl, isSlice := st.Val.(*ssa.Slice)
			if !isSlice || sl.High == nil || !isConstZero(sl.High) {
				return false
			}
			n++
		}
	}
	return n > 0
}

// rangeElemOf: v is the element value of a range loop over a load of field f
// (go/ssa: index phi + IndexAddr/load) — v = load(&X[idx]) with X a load of f.
func rangeElemOf(v ssa.Value, f *types.Var) bool {
	ld, ok := stripConv(v).(*ssa.UnOp)
	if !ok || ld.Op != token.MUL {
		return false
	}
	ia, ok := ld.X.(*ssa.IndexAddr)
	return ok && loadedField(ia.X) == f && f != nil
}

// rangeIndexOfSame: val is the index with which elem (see rangeElemOf) was read.
func rangeIndexOfSame(val, elem ssa.Value) bool {
	ld, ok := stripConv(elem).(*ssa.UnOp)
	if !ok {
		return false
	}
	ia, ok := ld.X.(*ssa.IndexAddr)
	return ok && stripConv(ia.Index) == val
}

// ---------------------------------------------------------------- R-GSAP-COVERED

// coveragePoint: the block after the rebuild guard of Parse (merge of the
// "rebuilt" and "W+n ≤ len(sa)" paths).
func (g *gsapInfo) coveragePoint() *ssa.BasicBlock {
	if g.sortC == nil {
		return nil
	}
	fi := g.fi
	sb := g.sortC.Block()
	var pre *ssa.BasicBlock
	for _, p := range g.scan.L.Header.Preds {
		if !g.scan.L.Blocks[p] {
			pre = p
		}
	}
	m := pre
	for m != nil && !(len(m.Preds) >= 2 && fi.reach[sb][m] || m == sb) {
		m = m.Idom()
	}
	return m
}

func ruleGsapCovered(c *Ctx) {
	g := c.gsapOrFail("gsap")
	if g == nil {
		return
	}
	if g.saF == nil || g.isaF == nil {
		c.fail("gsap:covered", token.NoPos, "suffix array fields not resolved")
		return
	}
	m := g.coveragePoint()
	if m == nil {
		c.fail("gsap:covered", token.NoPos, "coverage point (rebuild guard) not found")
		return
	}
	n := 0
	var fns []*ssa.Function
	for fn := range c.reachable(g.p.Parse) {
		fns = append(fns, fn)
	}
	sort.Slice(fns, func(i, j int) bool { return fns[i].String() < fns[j].String() })
	for _, fn := range fns {
		if fn.Pkg != c.lz || fn == g.sortFn || c.reachable(g.sortFn)[fn] {
			continue
		}
		fi := c.info(fn)
		var blocks []*ssa.BasicBlock
		blocks = append(blocks, fn.Blocks...)
		for _, b := range blocks {
			for _, in := range b.Instrs {
				ia, ok := in.(*ssa.IndexAddr)
				if !ok {
					continue
				}
				f := loadedField(ia.X)
				if f != g.saF && f != g.isaF {
					continue
				}
				n++
				key := fmt.Sprintf("%s:%s-access#%d", fnName(fn), f.Name(), n)
				if fn == g.scan.Fn && (b == m || m.Dominates(b)) {
					c.ok(key, ia.Pos(), "%s[%s] is read after the coverage point", f.Name(), fi.lin(ia.Index))
					continue
				}
				idx := fi.lin(ia.Index)
				inRange := fi.proveAt(idx.addc(1).sub(fi.lenOf(ia.X)), b, nil) && fi.proveAt(idx.scale(-1), b, nil)
				c.check(inRange, key, ia.Pos(), fmt.Sprintf("%s[%s] in range by local facts", f.Name(), idx),
					fmt.Sprintf("%s[%s] is accessed outside the region where the suffix array is known to cover the block (before the W+n ≤ len(sa) test / on the blk == nil side) and the index is not locally proved to be < len(%s): index out of range panic when the block straddles the end of a stale suffix array", f.Name(), idx, f.Name()))
			}
		}
	}
	if n == 0 {
		c.fail("gsap:covered", token.NoPos, "no element access of the suffix arrays found")
	}
}
