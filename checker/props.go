package main

func init() {
	properties["C01"] = &Property{
		Title: "blocks expand back to the input (round trip)",
		Rules: []string{"R-TILE", "R-LITPAIR"},
		Decided: "tiling of the block by literal runs and matches (cursor discipline, epilogue), LitLen/literal pairing.",
		NotDecided: "byte-for-byte equality of the expansion; correctness of the 8-byte compare arithmetic, lcp/lcs, suffix.Sort/LCP/Segments.",
	}
	properties["C02"] = &Property{
		Title: "sequences are well-formed and inside the window",
		Rules: []string{"R-WINGUARD", "R-MINLEN", "R-AUX", "R-LITPAIR"},
		Decided: "window guard 0<o≤WindowSize, lower bound of MatchLen, Aux zero, LitLen pairing at every emission site.",
		NotDecided: "Offset ≤ number of stream bytes before the match (needs j ≥ 0 as a value fact).",
	}
	properties["C03"] = &Property{
		Title: "Parse accounts exactly and makes progress",
		Rules: []string{"R-CLAMP-N", "R-EMPTY", "R-ADVANCE", "R-TILE", "R-WWRITERS", "R-BLOCKLEN"},
		Decided: "block clamp, ErrEmptyBuffer discipline, returned n equals the W advance on every success return, W writer set, Block.Len.",
		NotDecided: "that the bytes between W and W+n are the ones expanded (C01).",
	}
	properties["C14"] = &Property{
		Title: "Parse(nil) skips a block",
		Rules: []string{"R-CLAMP-N", "R-EMPTY", "R-ADVANCE", "R-NIL-NOEMIT"},
		Decided: "nil branch: clamp, (0,ErrEmptyBuffer) iff n₀==0, W advanced by the returned n, blk never dereferenced.",
		NotDecided: "that blocks parsed afterwards remain correct (C01).",
	}
}
