package main

func init() {
	properties["C01"] = &Property{
		Title:      "blocks expand back to the input (round trip)",
		Rules:      []string{"R-TILE", "R-LITPAIR", "R-BLOCK-FRESH", "R-BLOCKCLIP", "R-OFFSET-AGREE", "R-PREFIX-STOP", "R-PREFIX-BOUND", "R-PREFIX-ALIGN", "R-INVALIDATE", "R-OSAP-RANGE", "R-OSAP-INDEX", "R-SHRINK-WRAP", "R-SHRINK-PB", "R-CMP-ALIGNED", "R-FAIL-ATOMIC", "R-SLOT-CAP", "R-READFROM", "R-RESET-INSTALL"},
		Decided:    "tiling of the block by literal runs and matches (cursor discipline, epilogue), LitLen/literal pairing, agreement of the emitted Offset with the positions actually compared (every word/prefix comparison feeding MatchLen is between x and x−Offset and starts where the verified part ends), re-basing/dropping of all search state on Shrink, recompute guard of OSAP's unverified edges.",
		NotDecided: "byte-for-byte equality of the expansion; correctness of the 8-byte compare arithmetic, lcp/lcs, suffix.Sort/LCP/Segments.",
	}
	properties["C02"] = &Property{
		Title:      "sequences are well-formed and inside the window",
		Rules:      []string{"R-WINGUARD", "R-MINLEN", "R-AUX", "R-LITPAIR", "R-OFFSET-BACK", "R-CMP-ALIGNED", "R-BLOCK-FRESH", "R-SEGCALL", "R-INVALIDATE", "R-RESET-COVER"},
		Decided:    "window guard 0<o≤WindowSize, lower bound of MatchLen, Aux zero, LitLen pairing at every emission site.",
		NotDecided: "for OSAP, Offset ≤ bytes before the match rests on suffix-array entries being ≥ 0 (C09); decided for the six self-verifying parsers (R-OFFSET-BACK).",
	}
	properties["C03"] = &Property{
		Title:      "Parse accounts exactly and makes progress",
		Rules:      []string{"R-CLAMP-N", "R-EMPTY", "R-ADVANCE", "R-TILE", "R-BLOCKCLIP", "R-PREFIX-BOUND", "R-BLOCK-FRESH", "R-WWRITERS", "R-BLOCKLEN", "R-FAIL-ATOMIC"},
		Decided:    "block clamp, ErrEmptyBuffer discipline, returned n equals the W advance on every success return, W writer set, Block.Len.",
		NotDecided: "that the bytes between W and W+n are the ones expanded (C01).",
	}
	properties["C14"] = &Property{
		Title:      "Parse(nil) skips a block",
		Rules:      []string{"R-CLAMP-N", "R-EMPTY", "R-ADVANCE", "R-NIL-NOEMIT", "R-GSAP-COVERED", "R-OSAP-RANGE", "R-HASHRANGE", "R-FAIL-ATOMIC"},
		Decided:    "nil branch: clamp, (0,ErrEmptyBuffer) iff n₀==0, W advanced by the returned n, blk never dereferenced; the structures a later Parse relies on are addressed through W itself (OSAP edge table range) and the skipped positions enter the hash tables only as complete n-grams with the value lookups compare.",
		NotDecided: "that blocks parsed afterwards remain correct in general (C01).",
	}
}

func init() {
	properties["C04"] = &Property{
		Title:      "decoder expands valid streams under every interleaving",
		Rules:      []string{"R-SHRINK-SAFE", "R-COMPACTORS", "R-CURSOR", "R-APPENDONLY", "R-REMAINDER", "R-OFFGUARD", "R-DEC-RESET", "R-COUNTS-AT-END", "R-REJECT-EXACT"},
		Decided:    "compaction safety (δ ≤ R, δ ≤ len−WindowSize, R re-based), writer sets of R and Data, cursor discipline, append-only writes, remainder resubmission, match-copy source guards; a rejection is raised only for a malformed item (R-REJECT-EXACT: the conditions of every validity exit contradict the validity of the item, so literal-only sequences and boundary offsets pass).",
		NotDecided: "the arithmetic of the doubling overlapped copy; functional equivalence with a reference expander.",
	}
	properties["C05"] = &Property{
		Title:      "malformed sequences rejected atomically, no panic",
		Rules:      []string{"R-VALIDATE-FIRST", "R-OFFGUARD", "R-BLK-READONLY", "R-COUNTS-AT-END", "R-SUM", "R-SHRINK-SAFE", "R-REJECT-EXACT", "R-DEC-INDEX", "R-STALELEN"},
		Decided:    "no append precedes a rejection of the same sequence; the three rejections dominate the slices they protect; the caller's block arrays are never written; k/l computed at the merge of all exits; a nil error leaves WriteMatch/WriteBlock only behind the final append (a rejection is always reported); element accesses Data[i] of DecoderBuffer methods are guarded (R-DEC-INDEX).",
		NotDecided: "absence of implicit run-time panics in general (only the explicitly guarded sites are proved).",
	}
	properties["C06"] = &Property{
		Title:       "every decoder call terminates",
		Rules:       []string{"R-LOOPS-DECODER", "R-OFFGUARD", "R-SHRINK-SAFE", "R-DRAIN-COMPLETE", "R-REFUSE-EXACT", "R-COUNTS-AT-END", "R-ERR-SURFACE"},
		Decided:     "every loop reachable from Decoder/DecoderBuffer methods matches a termination template (range, counting, doubling copy with off ≥ 1, retry with clamp or strict progress); the premises of the retry templates are obligations of their own: the drain is complete, the compaction discards all it may (δ exact), the buffer's writers refuse only what does not fit and only after an attempt to make room (R-REFUSE-EXACT), the counts they report are exact (R-COUNTS-AT-END), and the loop goes round again only after a successful step with something left to do or after a refusal followed by a drain without error.",
		NotDecided:  "the arithmetic side conditions of the templates for all values (argued once in DESIGN.md, only matched here).",
		Assumptions: []string{"the destination io.Writer returns"},
	}
	properties["C07"] = &Property{
		Title:      "what the parsers emit, the Decoder accepts",
		Rules:      []string{"R-CAPERR", "R-WINAGREE", "R-DEC-HEADROOM", "R-COUNTS-AT-END", "R-REMAINDER", "R-SHRINK-SAFE", "R-OFFPAIR", "R-LOOPS-DECODER", "R-STALECAP", "R-REFUSE-EXACT", "R-REJECT-EXACT", "R-SLOT-CAP", "R-DEFAULT-WINDOW"},
		Decided:    "capacity-class errors (classified by their deciding guard) do not escape Decoder methods; the decoder's window rejection is exactly Offset > min(len, WindowSize); ErrFullBuffer and the \"MatchLen out of range\" of an unplaceable item are raised only outside the region of the known finding D10 (an item larger than the window that does not fit now): R-REFUSE-EXACT, R-REJECT-EXACT :only-oversize.",
		NotDecided: "that after acceptance the bytes are the original ones (C01 ∧ C04).",
	}
	properties["C17"] = &Property{
		Title:      "decoder counts and total offset are exact",
		Rules:      []string{"R-STALELEN", "R-OFFPAIR", "R-COUNTS-AT-END", "R-SUM", "R-SHRINK-SAFE", "R-DEC-RESET"},
		Decided:    "no stale length across compaction; Off advanced by exactly the appended count that is returned; k, l at the merge; Decoder accumulators.",
		NotDecided: "the byte count of the doubling copy loop (template).",
	}
	properties["C18"] = &Property{
		Title:      "output exactly once under writer faults",
		Rules:      []string{"R-SINGLE-SINK", "R-CURSOR", "R-SHRINK-SAFE", "R-ERR-SURFACE", "R-SUM", "R-REMAINDER", "R-DRAIN-COMPLETE"},
		Decided:    "single writer call site with argument Data[R:]; R advanced by the writer's count on all paths; compaction never drops unread bytes; writer errors surfaced with the accumulators.",
		NotDecided: "the exactly-once conclusion is the composition of these with C04/C17; argued, not computed.",
	}
}

func init() {
	properties["C15"] = &Property{
		Title:      "the parser buffer is a faithful, bounded sliding view",
		Rules:      []string{"R-INDEXGUARD", "R-DEADERR", "R-WRITEBOUND", "R-READBOUND", "R-READFROM", "R-MARGIN", "R-SHRINK-PB", "R-SHRINK-WRAP", "R-RESET-COVER", "R-FAIL-ATOMIC", "R-RESET-INSTALL", "R-ACCESS-EXACT"},
		Decided:    "index/slice guards of the accessors, reachability of the documented errors, byte bounds of Write/ReadFrom, 7-byte margin (also anchored at every lengthening store: growth-guarded), Shrink arithmetic and its wrappers; which offset gets which answer (R-ACCESS-EXACT), ErrFullBuffer of Write exactly when not everything fits (full-exact), Reset(data) refuses only an oversize slice, installs the caller's bytes and leaves the buffer untouched when it refuses (R-RESET-INSTALL, R-FAIL-ATOMIC).",
		NotDecided: "that the byte at absolute offset x is the x-th byte fed (contents equality); behaviour under caller mutation of exported fields.",
	}
	properties["C08"] = &Property{
		Title:      "Wrap streams a reader completely",
		Rules:      []string{"R-WRAP-ORDER", "R-READFROM", "R-READBOUND", "R-SHRINK-PB"},
		Decided:    "Shrink-before-ReadFrom, retry iff bytes were read, return discipline of the wrap loop; ReadFrom keeps bytes read with an error, leaves its loop only on error/full, returns the byte difference.",
		NotDecided: "io.EOF stickiness (a property of the reader), equality of block sequences across chunkings (needs C01, C13).",
	}
}

func init() {
	properties["C13"] = &Property{
		Title:      "Reset ≡ new parser; determinism; instance isolation",
		Rules:      []string{"R-RESET-COVER", "R-COPY-CLOBBER", "R-NOGLOBAL", "R-NONDET", "R-HASHRANGE", "R-FAIL-ATOMIC", "R-RESET-INSTALL"},
		Decided:    "every location Parse may write is re-initialised by the method Reset resolves to; no live element is clobbered when a reused backing array is re-grown; no package-level mutable state; no nondeterminism source reachable from the API.",
		NotDecided: "equality of blocks as such (follows for location-abstracted state); effects of retained capacity are assumed invisible except where R-COPY-CLOBBER applies.",
	}
}

func init() {
	properties["C20"] = &Property{
		Title:      "configurations survive JSON, defaults and cloning",
		Rules:      []string{"R-UNION", "R-TYPESTR", "R-CLONE", "R-REFLECT-NAMES", "R-DEFAULTS-ZERO", "R-DEFAULTS-ORDER", "R-INIT-ORDER"},
		Decided:    "config struct fields ⊆ JSON union (name, type), unique JSON keys, value kinds only; Type strings of Marshal/Unmarshal/ParseJSON agree and are distinct; unknown/mismatching Type rejected; Clone copies; reflective helpers copy X to X; defaults only replace zero fields and are order-independent; parser stores and reports the defaults-completed verified value.",
		NotDecided: "behaviour of encoding/json itself (trusted); that an equal configuration creates an identically behaving parser (C13).",
	}
}

func init() {
	properties["C16"] = &Property{
		Title:       "accepted configurations never panic, hang or fail spuriously",
		Rules:       []string{"R-INIT-ORDER", "R-VERIFY-REQ", "R-VERIFY-PASS", "R-PANIC", "R-ERRSET", "R-LOOPS-PARSER", "R-MARGIN", "R-HASHRANGE", "R-GSAP-REBUILD", "R-GSAP-COVERED", "R-LOAD8", "R-BUCKET-INDEX", "R-INIT-NOFAIL", "R-WRITEBOUND", "R-DP-STEP", "R-DP-LIT", "R-FAIL-ATOMIC", "R-RESET-INSTALL"},
		Decided:     "init order (SetDefaults, Verify, error returned, completed value stored); every downstream range requirement is implied by Verify; every reachable explicit panic is discharged; the error set of the parser API; termination templates for all parser-side loops of package lz; 7-byte margin.",
		NotDecided:  "implicit run-time panics (index out of range in the sorters, integer overflow), memory exhaustion, termination of ssort/trSort (package suffix loops are not matched to templates).",
		Assumptions: []string{"an io.Reader does not return (0, nil) forever", "DivSufSort-internal panics (algorithm invariants) are not decided"},
	}
}

func init() {
	properties["C10"] = &Property{
		Title:       "suffix.Segments reports every shared-prefix group, completely, once",
		Rules:       []string{"R-SEG-PRE", "R-SEG-BOUNDS", "R-SEG-LEFT", "R-SEG-ORDER", "R-SEG-SCAN", "R-CMP-ALIGNED", "R-PREFIX-STOP", "R-PREFIX-COVER", "R-PREFIX-BOUND", "R-PREFIX-ALIGN", "R-KASAI", "R-LCP-INPUTS"},
		Decided:     "the code shape of the LCP-interval stack scan: preconditions established by Segments (0 ≤ minLen ≤ maxLen, len(sa)=len(lcp) ≥ 1, early return only when nothing can be reported), m ∈ [minLen, maxLen] at the callback, left-boundary inheritance across pops, the three-way push / keep / report-then-pop split on the incoming lcp value, the scan position and sentinel, exit only with an empty stack.",
		NotDecided:  "completeness as a fact about texts (that the invariant implies every pair of suffixes lands in exactly one callback) is argued from the invariant, not computed; distinctness of suffixes is inherited from sa being a permutation and the correctness of the LCP table (C09).",
		Assumptions: []string{"lcp is the LCP table of sa (C09)", "lcp values are non-negative, so the negative sentinel closes every open interval"},
	}
}

func init() {
	properties["C12"] = &Property{
		Title:       "GSAP always takes the longest available match",
		Rules:       []string{"R-STRIDE", "R-GSAP-INSERT", "R-GSAP-BOTH", "R-GSAP-REBUILD", "R-GSAP-COVERED", "R-COPY-CLOBBER", "R-RESET-COVER", "R-GSAP-REWIND", "R-CMP-ALIGNED", "R-BITSET-PAIR", "R-GSAP-WINEXACT", "R-DEFAULT-WINDOW"},
		Decided:     "the scan visits every uncovered position exactly once up to the block end; the current rank is inserted before both neighbour queries and every covered position is inserted; both neighbours are queried, measured against the block-clipped data and the larger length is emitted; the block is scanned only inside the current suffix array or after a rebuild that restores the whole window; the search set's storage is not clobbered when re-grown; Reset/Shrink drop the suffix arrays.",
		NotDecided:  "that the two suffix-array neighbours give the longest previous match (needs a correct suffix array, C09) and the bit tricks inside bitset.memberBefore/memberAfter/insert.",
		Assumptions: []string{"suffix.Sort yields the suffix array (C09)", "bitset queries return the nearest members (bit-level arithmetic not decided)"},
	}
}

func init() {
	properties["C11"] = &Property{
		Title:       "OSAP emits a minimum-cost parse (structural necessary conditions)",
		Rules:       []string{"R-DP-LIT", "R-DP-MATCH", "R-DP-BACK", "R-COSTTABLE", "R-EDGE-NEAREST", "R-SEGCALL", "R-OSAP-FASTPATH", "R-OSAP-INDEX", "R-OSAP-RANGE", "R-RESET-COVER", "R-INVALIDATE", "R-SEG-LEFT", "R-SEG-ORDER", "R-SEG-SCAN", "R-SEG-BOUNDS", "R-SEG-PRE", "R-SLOT-CAP"},
		Decided:     "the dynamic program relaxes the literal step from every position and every (edge, length) pair up to min(edge.m, n−i) with the priced (m, o) stored, backtracks by the stored lengths from n to 0; the cost table of Verify and init agree and one cost function prices both step kinds; the edge builder sorts each group, pairs every occurrence with its predecessor, leaves early only monotonically and drops a pair only for window / dominance reasons; Segments is called with MinMatchLen and a MaxMatchLen-clamped maximum on tables of one text; the interval scan behind it is complete (C10 rules).",
		NotDecided:  "optimality itself (a statement about all alternative parses); the cost model against XZ; completeness of the edges as a fact about texts (C09, C10).",
		Assumptions: []string{"suffix.Sort/LCP are correct (C09)", "cost(a,0) is additive in a (XZCost: 9 bits per literal), so initialising d[i] with cost(i,0) agrees with unit literal steps"},
	}
}

func init() {
	properties["C19"] = &Property{
		Title:       "matches are maximal; byte runs are compressed (structural clauses)",
		Rules:       []string{"R-OFFSET-AGREE", "R-EXT-COVER", "R-PREFIX-STOP", "R-PREFIX-COVER", "R-PREFIX-BOUND", "R-PREFIX-ALIGN", "R-BACKEXT", "R-REINDEX", "R-CAND-MEASURED", "R-STRIDE", "R-GSAP-BOTH", "R-GSAP-WINFALLBACK", "R-CMP-ALIGNED", "R-DEFAULT-WINDOW"},
		Decided:     "for every non-optimizing parser: each comparison feeding MatchLen is between x and x−Offset and starts where the verified part ends; every path to an emission ends with a mismatch witness or at the block end (extension loops keep k + len(q) = len(p) − i, tail compared only with ≤ 7 bytes left); the backward extension covers min(pending literals, source position) bytes exactly when literals are pending; the scanned position and every position covered by a match are indexed; a table candidate with equal hash input inside the window is always measured.",
		NotDecided:  "the run clause as a count of literals per block (depends on hash values and table contents at run time); maximality as a fact about bytes rests on the trusted semantics of the word loaders and of lcp/lcs.",
		Assumptions: []string{"_getLE64/getLE64 load the little-endian word at the start of their argument; lcp/lcs return exact common prefix/suffix lengths"},
	}
}

func init() {
	properties["C09"] = &Property{
		Title:       "suffix.Sort / LCP / InvertSA (narrow structural clauses)",
		Rules:       []string{"R-TEXT-RO", "R-LCP-INPUTS", "R-KASAI", "R-INVERT", "R-SORT-SHORT", "R-PREFIX-STOP", "R-PREFIX-COVER", "R-PREFIX-BOUND", "R-PREFIX-ALIGN", "R-SIBLING-PARAMS", "R-CMP-ALIGNED"},
		Decided:     "package suffix never writes a byte slice (the text is not modified); LCP reaches its core only with consistent lengths and with a supplied or freshly computed sa / sainv of the same text; the LCP core has the shape of the Kasai/phi recurrence including lcp[0] = 0; InvertSA stores sainv[sa[j]] = j for all j.",
		NotDecided:  "that Sort produces the suffix array (B*-substring sort, tandem-repeat sort, induced sorting: ssort.go, trsort.go, k1.go) and its independence of the previous contents of sa — a value property of a 1,600-line in-place algorithm with sign-bit markers; no sound static argument is in reach and none is claimed. Defects inside the sorters (e.g. seeded C09-1, C09-2) are NOT detected by this check.",
		Assumptions: []string{"matchLen returns the exact common prefix length of its arguments"},
	}
}
