// lzcheck decides structural necessary conditions of the twenty lz
// properties from the current source of /repo (static analysis only: typed
// syntax, go/ssa form, call graph). Nothing from /repo is executed.
package main

import (
	"encoding/json"
	"flag"
	"fmt"
	"os"
	"path/filepath"
	"runtime/pprof"
	"sort"
	"strings"
	"time"
)

var (
	flagProperty = flag.String("property", "", "property id (C01..C20) or 'all'")
	flagTier     = flag.String("tier", "", "quick|thorough (default: $VERIF_TIER or quick)")
	flagRepo     = flag.String("repo", "/repo", "repository root")
	flagVerif    = flag.String("verif", "/verif", "verification root (evidence, known findings)")
	flagList     = flag.Bool("list", false, "list rules per property")
	flagReplay   = flag.String("replay", "", "replay file: re-run the rule of one recorded obligation")
	flagNoEv     = flag.Bool("no-evidence", false, "do not write evidence (used by self-validation)")
	flagJSON     = flag.Bool("json", false, "print obligations as JSON on stdout (used by self-validation)")
	flagVerbose  = flag.Bool("v", false, "print every obligation")
	flagArch     = flag.String("goarch", "", "GOARCH to analyse (default amd64)")
	flagDump     = flag.String("dump", "", "dump the SSA of the named function (debug)")
	flagProf     = flag.String("cpuprofile", "", "write a CPU profile (debug)")
)

func main() {
	flag.Parse()
	tier := *flagTier
	if tier == "" {
		tier = os.Getenv("VERIF_TIER")
	}
	if tier != "thorough" {
		tier = "quick"
	}
	if *flagProf != "" {
		f, _ := os.Create(*flagProf)
		pprof.StartCPUProfile(f)
		defer pprof.StopCPUProfile()
		go func() {
			time.Sleep(40 * time.Second)
			pprof.StopCPUProfile()
			os.Exit(3)
		}()
	}
	if *flagList {
		listRules()
		return
	}
	if *flagDump != "" {
		ctx, err := load(*flagRepo, "amd64", false)
		if err != nil {
			fmt.Println(err)
			os.Exit(2)
		}
		if *flagDump == "@normalized" {
			nr, err := normalize(*flagRepo, "amd64")
			if err != nil {
				fmt.Println("normalize:", err)
				os.Exit(2)
			}
			for name, src := range nr.overlay {
				fmt.Printf("==== %s\n%s\n", name, src)
			}
			fmt.Println("inlined:", nr.inlined)
			fmt.Println("left:", nr.left)
			return
		}
		if *flagDump == "@bounds" {
			boundsSurvey(ctx)
			return
		}
		if *flagDump == "@siblings" {
			siblingSurvey(ctx)
			return
		}
		for _, fn := range ctx.allFuncs {
			if fnName(fn) == *flagDump {
				fn.WriteTo(os.Stdout)
				fi := ctx.info(fn)
				for _, b := range fn.Blocks {
					fmt.Printf("block %d facts: %s\n", b.Index, factStrings(fi.factsAt(b)))
				}
			}
		}
		return
	}
	if *flagReplay != "" {
		os.Exit(replay(*flagReplay))
	}
	if *flagProperty == "" {
		fmt.Fprintln(os.Stderr, "usage: lzcheck -property Cxx [-tier quick|thorough]")
		os.Exit(2)
	}
	props := []string{*flagProperty}
	if *flagProperty == "all" {
		props = allProperties()
	}
	code := 0
	for _, p := range props {
		c := runProperty(p, tier)
		if c > code {
			code = c
		}
	}
	if *flagProf != "" {
		pprof.StopCPUProfile()
	}
	os.Exit(code)
}

// unknownFailures counts failed obligations that are not listed as known findings.
func unknownFailures(prop string, obs []Obligation) int {
	known := loadKnown(filepath.Join(*flagVerif, "known_findings.txt"))
	n := 0
	for _, o := range obs {
		if o.Status == "fail" {
			if _, ok := known[prop+" "+o.Rule+" "+o.Construct]; !ok {
				n += 2
				if o.Construct == "vacuity" {
					// lost anchors say less than a decided obligation: among equally many failures the pass
					// that still recognises its anchors gives the better report
					n++
				}
			}
		}
	}
	return n
}

func seed() int {
	var s int
	fmt.Sscanf(os.Getenv("VERIF_SEED"), "%d", &s)
	return s
}

// runProperty analyses the current tree and decides all rules of one
// property. Exit code: 0 held, 1 violation, 2 machinery broken.
func runProperty(prop, tier string) (code int) {
	start := time.Now()
	spec, ok := properties[prop]
	if !ok {
		fmt.Fprintf(os.Stderr, "unknown property %s\n", prop)
		return 2
	}
	defer func() {
		if r := recover(); r != nil {
			fmt.Printf("lzcheck: internal error while deciding %s: %v\n", prop, r)
			if *flagVerbose {
				panic(r)
			}
			code = 2
		}
	}()

	archs := []string{"amd64"}
	if *flagArch != "" {
		archs = []string{*flagArch}
	} else if tier == "thorough" {
		archs = []string{"amd64", "386"}
	}

	var all []Obligation
	var funcs, sites int
	var assumptions []string
	var skippedArch []string
	for _, arch := range archs {
		ctx, err := load(*flagRepo, arch, false)
		if err != nil {
			if arch != "amd64" {
				// the repository does not build for this architecture (at the pinned commit
				// gsap.go passes the untyped constant maxUint32 to fmt.Errorf, which overflows
				// int on 32-bit targets): recorded, not decided, not a verdict
				msg := err.Error()
				if len(msg) > 300 {
					msg = msg[:300] + "…"
				}
				assumptions = append(assumptions, "build GOARCH="+arch+" not analysed: "+msg)
				skippedArch = append(skippedArch, arch)
				continue
			}
			fmt.Printf("lzcheck: cannot analyse %s (%s): %v\n", *flagRepo, arch, err)
			return 2
		}
		funcs += ctx.nFuncs
		runAll := func(ctx *Ctx) ([]Obligation, bool) {
			var out []Obligation
			for _, rid := range spec.Rules {
				r, ok := rules[rid]
				if !ok {
					fmt.Printf("lzcheck: rule %s not registered\n", rid)
					return nil, false
				}
				obs := runRule(ctx, r, prop)
				for i := range obs {
					if arch != "amd64" {
						obs[i].Arch = arch
					}
				}
				out = append(out, obs...)
			}
			return out, true
		}
		obs, ok := runAll(ctx)
		if !ok {
			return 2
		}
		// second chance: helpers that did not exist at the pinned commit are inlined back (in memory)
		// and the rules decide the normalised, semantically equal program (normalize.go)
		if nf := unknownFailures(prop, obs); nf > 0 && os.Getenv("LZ_NO_NORMALIZE") == "" {
			if nr, err := normalize(*flagRepo, arch); err == nil && len(nr.inlined) > 0 {
				if ctx2, err := load(*flagRepo, arch, false, nr.overlay); err == nil {
					obs2, ok2 := runAll(ctx2)
					if ok2 && (unknownFailures(prop, obs2) < nf || os.Getenv("LZ_FORCE_NORM") != "") {
						note := "analysed after inlining helpers that do not exist at the pinned commit: " + strings.Join(nr.inlined, ", ")
						if len(nr.left) > 0 {
							note += "; left alone: " + strings.Join(nr.left, "; ")
						}
						for i := range obs2 {
							if obs2[i].Status == "fail" {
								obs2[i].Detail += " [positions refer to the normalised source: " + strings.Join(nr.inlined, ", ") + " inlined]"
							}
						}
						obs2 = append(obs2, Obligation{Rule: "NORMALISE", Construct: "inline", Status: "info", Detail: note})
						obs, ctx = obs2, ctx2
					}
				} else if *flagVerbose {
					fmt.Printf("lzcheck: normalised tree not analysable: %v\n", err)
				}
			} else if err != nil && *flagVerbose {
				fmt.Printf("lzcheck: normalisation failed: %v\n", err)
			}
		}
		all = append(all, obs...)
		sites += ctx.callSites
		assumptions = append(assumptions, ctx.assumptions...)
	}

	known := loadKnown(filepath.Join(*flagVerif, "known_findings.txt"))
	nviol := 0
	nknown := 0
	var lines []string
	replayDir := filepath.Join(*flagVerif, "evidence", "replay")
	seenViol := map[string]bool{}
	for i := range all {
		o := &all[i]
		if o.Status != "fail" {
			continue
		}
		key := o.Rule + " " + o.Construct
		if k, ok := known[prop+" "+key]; ok {
			o.Status = "known"
			if !seenViol["k"+key] {
				seenViol["k"+key] = true
				lines = append(lines, fmt.Sprintf("KNOWN-FINDING: property=%s rule=%s construct=%s %s", prop, o.Rule, o.Construct, k))
				nknown++
			}
			continue
		}
		if seenViol[key+o.Arch] {
			continue
		}
		seenViol[key+o.Arch] = true
		nviol++
		rp := filepath.Join(replayDir, fmt.Sprintf("%s-%d.json", prop, nviol))
		if !*flagNoEv {
			os.MkdirAll(replayDir, 0o755)
			b, _ := json.MarshalIndent(map[string]any{"property": prop, "rule": o.Rule, "construct": o.Construct, "pos": o.Pos, "detail": o.Detail, "arch": o.Arch}, "", " ")
			os.WriteFile(rp, b, 0o644)
		}
		lines = append(lines, fmt.Sprintf("%s: %s (%s): %s: %s", o.Pos, o.Rule, prop, o.Construct, o.Detail))
		lines = append(lines, fmt.Sprintf("VIOLATION property=%s replay=%s", prop, rp))
	}

	if *flagJSON {
		b, _ := json.Marshal(all)
		fmt.Println(string(b))
	} else {
		if *flagVerbose {
			for _, o := range all {
				fmt.Printf("  [%s] %s %s %s: %s\n", o.Status, o.Rule, o.Construct, o.Pos, o.Detail)
			}
		}
		for _, l := range lines {
			fmt.Println(l)
		}
	}

	if len(skippedArch) > 0 {
		var kept []string
		for _, a := range archs {
			skip := false
			for _, s := range skippedArch {
				if s == a {
					skip = true
				}
			}
			if !skip {
				kept = append(kept, a)
			}
		}
		archs = kept
	}
	if tier == "thorough" && !*flagNoEv && os.Getenv("LZ_NO_SELFVAL") == "" {
		selfval = selfValidate(prop)
	}
	wall := time.Since(start).Seconds()
	if !*flagNoEv {
		if err := writeEvidence(prop, tier, spec, all, funcs, sites, assumptions, nviol, nknown, wall, archs); err != nil {
			fmt.Printf("lzcheck: cannot write evidence: %v\n", err)
			return 2
		}
	}
	ok2, fail, assume := 0, 0, 0
	for _, o := range all {
		switch o.Status {
		case "ok":
			ok2++
		case "fail":
			fail++
		case "assumed":
			assume++
		}
	}
	if !*flagJSON {
		fmt.Printf("lzcheck %s tier=%s: %d obligations, %d discharged, %d assumed, %d known, %d failed (%.1fs)\n",
			prop, tier, len(all), ok2, assume, nknown, nviol, wall)
	}
	if nviol > 0 {
		return 1
	}
	return 0
}

// runRule runs one rule and enforces its vacuity minimum.
func runRule(ctx *Ctx, r *Rule, prop string) (obs []Obligation) {
	defer func() {
		if x := recover(); x != nil {
			if *flagVerbose {
				panic(x)
			}
			obs = append(obs, Obligation{Rule: r.ID, Construct: "rule-crashed", Status: "fail",
				Detail: fmt.Sprintf("rule could not be evaluated on this tree (%v); undecided counts as failure", x)})
		}
	}()
	ctx.cur = r.ID
	ctx.obs = nil
	r.Run(ctx)
	obs = ctx.obs
	ctx.obs = nil
	n := 0
	for _, o := range obs {
		if o.Status != "info" {
			n++
		}
	}
	if os.Getenv("LZSTAT") != "" {
		fmt.Fprintf(os.Stderr, "STAT %s prove=%d entail=%d fm=%d\n", r.ID, statProve, statEntail, statFM)
		statProve, statEntail, statFM = 0, 0, 0
	}
	if n < r.Min {
		obs = append(obs, Obligation{Rule: r.ID, Construct: "vacuity", Status: "fail",
			Detail: fmt.Sprintf("rule matched %d sites, fewer than the %d confirmed by hand: the anchors of this rule are no longer recognised", n, r.Min)})
	}
	sort.SliceStable(obs, func(i, j int) bool { return obs[i].Construct < obs[j].Construct })
	return obs
}

func replay(path string) int {
	b, err := os.ReadFile(path)
	if err != nil {
		fmt.Println(err)
		return 2
	}
	var m map[string]string
	if err := json.Unmarshal(b, &m); err != nil {
		fmt.Println(err)
		return 2
	}
	arch := m["arch"]
	if arch == "" {
		arch = "amd64"
	}
	ctx, err := load(*flagRepo, arch, false)
	if err != nil {
		fmt.Println(err)
		return 2
	}
	r, ok := rules[m["rule"]]
	if !ok {
		fmt.Println("unknown rule", m["rule"])
		return 2
	}
	code := 0
	for _, o := range runRule(ctx, r, m["property"]) {
		if o.Construct == m["construct"] {
			fmt.Printf("[%s] %s %s %s: %s\n", o.Status, o.Rule, o.Construct, o.Pos, o.Detail)
			if o.Status == "fail" {
				code = 1
			}
		}
	}
	return code
}

func listRules() {
	for _, p := range allProperties() {
		spec := properties[p]
		fmt.Printf("%s  %s\n", p, spec.Title)
		for _, rid := range spec.Rules {
			r := rules[rid]
			if r == nil {
				fmt.Printf("    %-20s (missing)\n", rid)
				continue
			}
			fmt.Printf("    %-20s min=%d  %s\n", rid, r.Min, r.Doc)
		}
	}
}

func allProperties() []string {
	var ps []string
	for p := range properties {
		ps = append(ps, p)
	}
	sort.Strings(ps)
	return ps
}

// ---------------------------------------------------------------- known

// loadKnown reads known_findings.txt. Lines:
//
//	known: property=C07 rule=R-CAPERR construct=<key> <what fails>
//	fixed: property=C14 <commit> rule=… construct=… <what failed>
//
// Only "known:" lines suppress; the key is "prop rule construct".
func loadKnown(path string) map[string]string {
	m := map[string]string{}
	b, err := os.ReadFile(path)
	if err != nil {
		return m
	}
	for _, line := range strings.Split(string(b), "\n") {
		line = strings.TrimSpace(line)
		if !strings.HasPrefix(line, "known:") {
			continue
		}
		var prop, rule, cons string
		rest := []string{}
		for _, f := range strings.Fields(strings.TrimPrefix(line, "known:")) {
			switch {
			case strings.HasPrefix(f, "property=") && prop == "":
				prop = strings.TrimPrefix(f, "property=")
			case strings.HasPrefix(f, "rule=") && rule == "":
				rule = strings.TrimPrefix(f, "rule=")
			case strings.HasPrefix(f, "construct=") && cons == "":
				cons = strings.TrimPrefix(f, "construct=")
			default:
				rest = append(rest, f)
			}
		}
		if prop != "" && rule != "" && cons != "" {
			m[prop+" "+rule+" "+cons] = strings.Join(rest, " ")
		}
	}
	return m
}

// ---------------------------------------------------------------- evidence

func writeEvidence(prop, tier string, spec *Property, obs []Obligation, funcs, sites int, assumptions []string, nviol, nknown int, wall float64, archs []string) error {
	type sample struct {
		Rule      string `json:"rule"`
		Construct string `json:"construct"`
		Pos       string `json:"pos,omitempty"`
		Status    string `json:"status"`
		Detail    string `json:"detail,omitempty"`
		Arch      string `json:"arch,omitempty"`
	}
	var samples []sample
	perRule := map[string]map[string]int{}
	nOb, nDis, nAss := 0, 0, 0
	for _, o := range obs {
		if perRule[o.Rule] == nil {
			perRule[o.Rule] = map[string]int{}
		}
		perRule[o.Rule][o.Status]++
		if o.Status == "info" {
			continue
		}
		nOb++
		if o.Status == "ok" {
			nDis++
		}
		if o.Status == "assumed" {
			nAss++
		}
		d := o.Detail
		if len(d) > 400 {
			d = d[:400] + "…"
		}
		samples = append(samples, sample{o.Rule, o.Construct, o.Pos, o.Status, d, o.Arch})
	}
	ruleDocs := map[string]string{}
	for _, rid := range spec.Rules {
		if r := rules[rid]; r != nil {
			ruleDocs[rid] = r.Doc
		}
	}
	as := append([]string{}, spec.Assumptions...)
	seen := map[string]bool{}
	for _, a := range assumptions {
		if !seen[a] {
			seen[a] = true
			as = append(as, a)
		}
	}
	ev := map[string]any{
		"property_id": prop,
		"tier":        tier,
		"seed":        seed(),
		"level":       "other",
		"wall_s":      wall,
		"violations":  nviol,
		"assumptions": as,
		"coverage": map[string]any{
			"explanation": "Static analysis of the current /repo working tree (go/packages + go/types + go/ssa, builds: " + strings.Join(archs, ",") +
				"). Decided: " + spec.Decided + " NOT decided (runtime-value part of the property, not claimed): " + spec.NotDecided,
			"obligations":        nOb,
			"discharged":         nDis,
			"assumed":            nAss,
			"known_findings":     nknown,
			"functions_analysed": funcs,
			"call_sites":         sites,
			"rules":              ruleDocs,
			"per_rule":           perRule,
			"samples":            samples,
			"checker_cmd":        "bin/lzcheck -property " + prop + " -tier " + tier,
			"trusted_base": []string{"go/types, go/ssa (x/tools v0.29.0)", "Go language semantics of append/copy/slicing",
				"rule templates of DESIGN.md §4 as necessary conditions of the property"},
			"exhaustive": false,
		},
	}
	if selfval != nil {
		ev["coverage"].(map[string]any)["self_validation"] = selfval
	}
	b, err := json.MarshalIndent(ev, "", " ")
	if err != nil {
		return err
	}
	dir := filepath.Join(*flagVerif, "evidence")
	os.MkdirAll(dir, 0o755)
	return os.WriteFile(filepath.Join(dir, prop+".json"), b, 0o644)
}

var selfval map[string]any
