package main

// Rules over ParserBuffer, the dictionaries' Shrink wrappers and Wrap
// (C15, C08, parts of C16).

import (
	"fmt"
	"go/token"
	"go/types"
	"sort"
	"strings"

	"golang.org/x/tools/go/ssa"
)

func (c *Ctx) parserBuf() *types.Named { return c.namedType(c.lz, "ParserBuffer") }

func init() {
	reg(&Rule{ID: "R-INDEXGUARD", Min: 2,
		Doc: "every index/slice of ParserBuffer.Data by a translated offset in PeekAt/ByteAt/ReadAt is dominated by 0 ≤ i and i < len(Data) (index) resp. i ≤ len(Data) (slice)",
		Run: ruleIndexGuard})
	reg(&Rule{ID: "R-DEADERR", Min: 2,
		Doc: "every API error the accessors document (ErrEndOfBuffer, ErrOutOfBuffer) has a reachable return: a return whose dominating conditions are contradictory is dead",
		Run: ruleDeadErr})
	reg(&Rule{ID: "R-WRITEBOUND", Min: 3,
		Doc: "ParserBuffer.Write appends a prefix of p clamped so that len(Data) ≤ BufferSize, returns its length, and ErrFullBuffer iff the clamp was active",
		Run: ruleWriteBound})
	reg(&Rule{ID: "R-READBOUND", Min: 2,
		Doc: "the slice ReadFrom hands to io.Reader.Read ends at a bound clamped by BufferSize; ErrFullBuffer exactly on len(Data) ≥ BufferSize",
		Run: ruleReadBound})
	reg(&Rule{ID: "R-MARGIN", Min: 3,
		Doc: "grow allocates cap ≥ t+7 for every t ≤ BufferSize its callers pass; Reset adopts a caller slice only under len+7 ≤ cap",
		Run: ruleMargin})
	reg(&Rule{ID: "R-SHRINK-PB", Min: 5,
		Doc: "ParserBuffer.Shrink: δ = W − ShrinkSize; δ ≤ 0 changes nothing and returns 0; else copy(Data, Data[δ:]), re-slice, W −= δ, Off += δ, return δ",
		Run: ruleShrinkPB})
	reg(&Rule{ID: "R-SHRINK-WRAP", Min: 6,
		Doc: "each dictionary's Shrink returns exactly the δ of the embedded ParserBuffer.Shrink and re-bases its tables by that same δ (pos < δ cleared, else pos − δ)",
		Run: ruleShrinkWrap})
	reg(&Rule{ID: "R-WRAP-ORDER", Min: 4,
		Doc: "WrappedParser.Parse: on ErrEmptyBuffer Shrink precedes ReadFrom; the loop continues iff ReadFrom reported k > 0; returns are (n, err) of Parse when err != ErrEmptyBuffer and (0, readErr) when k == 0",
		Run: ruleWrapOrder})
	reg(&Rule{ID: "R-READFROM", Min: 3,
		Doc: "ReadFrom keeps bytes delivered together with an error (re-slice follows Read unconditionally), leaves the fill loop only on error or full buffer, and returns len_after − len_before",
		Run: ruleReadFrom})
}

// ---------------------------------------------------------------- R-INDEXGUARD

func ruleIndexGuard(c *Ctx) {
	pb := c.parserBuf()
	for _, name := range []string{"PeekAt", "ByteAt", "ReadAt"} {
		fn := c.method(pb, name)
		if fn == nil {
			c.fail("lz.(*ParserBuffer)."+name, token.NoPos, "method not found")
			continue
		}
		fi := c.info(fn)
		n := 0
		for _, b := range fn.Blocks {
			for _, in := range b.Instrs {
				var idx ssa.Value
				var base ssa.Value
				strict := false
				switch x := in.(type) {
				case *ssa.IndexAddr:
					idx, base, strict = x.Index, x.X, true
				case *ssa.Slice:
					if x.Low == nil {
						continue
					}
					idx, base = x.Low, x.X
				default:
					continue
				}
				if p, ok := recvPath(fn, base); !ok || p != "Data" {
					continue
				}
				if _, isC := constInt(idx); isC {
					continue
				}
				n++
				key := fmt.Sprintf("%s:data-access#%d", fnName(fn), n)
				i := fi.lin(idx)
				ln := fi.lenOf(base)
				lo := fi.proveAt(i.scale(-1), b, nil)
				var hi bool
				if strict {
					hi = fi.proveAt(i.sub(ln).addc(1), b, nil)
				} else {
					hi = fi.proveAt(i.sub(ln), b, nil)
				}
				what := "Data[i:]"
				need := "i ≤ len(Data)"
				if strict {
					what, need = "Data[i]", "i < len(Data)"
				}
				c.check(lo && hi, key, in.Pos(), what+" with i = "+i.String()+" is dominated by 0 ≤ i and "+need,
					fmt.Sprintf("%s with i = %s is reached without %s being established on every path (0 ≤ i: %v, upper bound: %v): an offset at or past the end panics instead of returning an error", what, i, need, lo, hi))
			}
		}
		if n == 0 && name != "ReadAt" {
			c.fail(fnName(fn)+":data-access", fn.Pos(), "no guarded access to Data found")
		}
	}
}

// ---------------------------------------------------------------- R-DEADERR

func ruleDeadErr(c *Ctx) {
	pb := c.parserBuf()
	want := map[string][]string{"PeekAt": {"ErrOutOfBuffer", "ErrEndOfBuffer"}, "ByteAt": {"ErrOutOfBuffer", "ErrEndOfBuffer"}}
	for _, name := range []string{"ByteAt", "PeekAt"} {
		fn := c.method(pb, name)
		if fn == nil {
			c.fail("lz.(*ParserBuffer)."+name, token.NoPos, "method not found")
			continue
		}
		fi := c.info(fn)
		live := map[string]bool{}
		seen := map[string]token.Pos{}
		for _, b := range fn.Blocks {
			// error value may be returned directly or assigned into a phi
			for _, in := range b.Instrs {
				u, ok := in.(*ssa.UnOp)
				if !ok || errGlobalName(u) == "" {
					continue
				}
				g := errGlobalName(u)
				seen[g] = u.Pos()
				// is this block reachable, i.e. are its dominating conditions consistent?
				if !fi.proveAt(linConst(1), b, nil) {
					live[g] = true
				}
			}
		}
		for _, g := range want[name] {
			key := fmt.Sprintf("%s:%s", fnName(fn), g)
			pos, ok := seen[g]
			switch {
			case !ok:
				c.fail(key, fn.Pos(), "%s is documented for %s but never produced", g, name)
			case !live[g]:
				c.fail(key, pos, "every site that produces %s is unreachable: its dominating conditions are contradictory (%s), so the documented error can never be returned", g, factStrings(fi.factsAt(c.blockOfErr(fn, g))))
			default:
				c.ok(key, pos, "%s has a reachable return", g)
			}
		}
	}
}

func (c *Ctx) blockOfErr(fn *ssa.Function, g string) *ssa.BasicBlock {
	for _, b := range fn.Blocks {
		for _, in := range b.Instrs {
			if u, ok := in.(*ssa.UnOp); ok && errGlobalName(u) == g {
				return b
			}
		}
	}
	return fn.Blocks[0]
}

// ---------------------------------------------------------------- R-WRITEBOUND

func ruleWriteBound(c *Ctx) {
	pb := c.parserBuf()
	fn := c.method(pb, "Write")
	if fn == nil {
		c.fail("lz.(*ParserBuffer).Write", token.NoPos, "method not found")
		return
	}
	fi := c.info(fn)
	name := fnName(fn)
	// ErrFullBuffer exactly when not everything could be taken: at its origin the conditions contradict
	// len(p) + len(Data) ≤ BufferSize for the values on entry (a test that is one step too wide reports a full
	// buffer for a slice that fits exactly, and the caller — the wrapper, an io.Copy — stops for nothing)
	if len(fn.Params) == 2 && isByteSlice(fn.Params[1].Type()) {
		nFull := 0
		for _, b := range fn.Blocks {
			for _, in := range b.Instrs {
				u, ok := in.(*ssa.UnOp)
				if !ok || errGlobalName(u) != "ErrFullBuffer" {
					continue
				}
				nFull++
				okX := false
				for _, lb := range fn.Blocks {
					for _, lin := range lb.Instrs {
						bs, isLd := lin.(*ssa.UnOp)
						if !isLd || bs.Op != token.MUL || fi.version(bs) != "" {
							continue
						}
						if p, okp := recvPath(fn, bs.X); !okp || lastField(p) != "BufferSize" {
							continue
						}
						for _, db := range fn.Blocks {
							for _, din := range db.Instrs {
								dl, isD := din.(*ssa.UnOp)
								if !isD || dl.Op != token.MUL || fi.version(dl) != "" {
									continue
								}
								if p, okp := recvPath(fn, dl.X); !okp || p != "Data" {
									continue
								}
								all := true
								for _, w := range fi.flagWays(b) {
									if !fi.refute(w, []Fact{{fi.lenOf(fn.Params[1]).add(fi.lenOf(dl)).sub(fi.lin(bs)), LE}}, 0) {
										all = false
									}
								}
								if all {
									okX = true
								}
							}
						}
					}
				}
				c.check(okX, fmt.Sprintf("%s:full-exact#%d", name, nFull), u.Pos(), "ErrFullBuffer only when len(p) + len(Data) > BufferSize on entry",
					"Write can report ErrFullBuffer although the whole slice fits (the conditions of this exit do not contradict len(p) + len(Data) ≤ BufferSize): C15 wants the error exactly when not everything could be taken")
			}
		}
		if nFull == 0 {
			c.fail(name+":full-exact", fn.Pos(), "no origin of ErrFullBuffer found in Write")
		}
	}
	var ap *ssa.Call
	for _, b := range fn.Blocks {
		for _, a := range blkAppends(b, "Data") {
			ap = a
		}
	}
	if ap == nil {
		c.fail(name+":append", fn.Pos(), "no append to Data")
		return
	}
	src := ap.Call.Args[1]
	// bound: len(Data) + len(src) ≤ BufferSize
	okB := false
	for _, bs := range fi.atomsWithSuffix(".BufferSize") {
		if fi.proveAt(fi.lenOf(ap.Call.Args[0]).add(fi.lenOf(src)).sub(linAtom(bs)), ap.Block(), nil) {
			okB = true
		}
	}
	c.check(okB, name+":bound", ap.Pos(), "len(Data) + len(appended) ≤ BufferSize", "the bytes appended by Write are not clamped so that len(Data) stays ≤ BufferSize")
	// prefix: every leaf of src is p or p[:x]
	okP := true
	for _, lf := range phiLeaves(src) {
		v := lf.V
		if sl, ok := v.(*ssa.Slice); ok {
			if sl.Low != nil && !isConstZero(sl.Low) {
				okP = false
			}
			v = sl.X
		}
		if v != fn.Params[1] {
			okP = false
		}
	}
	c.check(okP, name+":prefix", ap.Pos(), "the appended bytes are a prefix of p", "Write stores something other than a prefix of p")
	// n = len(appended); err = ErrFullBuffer iff clamped
	okN, okE := true, false
	for _, b := range fn.Blocks {
		r, ok := b.Instrs[len(b.Instrs)-1].(*ssa.Return)
		if !ok {
			continue
		}
		if !fi.lin(r.Results[0]).eq(fi.lenOf(src)) {
			okN = false
		}
		if ph, ok := r.Results[1].(*ssa.Phi); ok && len(ph.Edges) == 2 {
			// the ErrFullBuffer edge is the one that carries the clamped slice
			for i, e := range ph.Edges {
				if errGlobalName(e) == "ErrFullBuffer" {
					if sp, ok := src.(*ssa.Phi); ok && sp.Block() == ph.Block() {
						if _, isSl := sp.Edges[i].(*ssa.Slice); isSl {
							if k, isNil := ph.Edges[1-i].(*ssa.Const); isNil && k.Value == nil && sp.Edges[1-i] == fn.Params[1] {
								okE = true
							}
						}
					}
				}
			}
		}
	}
	c.check(okN, name+":count", ap.Pos(), "returns n = len(appended)", "the returned count is not the number of bytes appended")
	c.check(okE, name+":full", ap.Pos(), "ErrFullBuffer exactly when p was cut", "ErrFullBuffer is not returned exactly when the clamp cut p")
}

// ---------------------------------------------------------------- R-READBOUND / R-READFROM

func (c *Ctx) readCall(fn *ssa.Function) *ssa.Call {
	for _, b := range fn.Blocks {
		for _, in := range b.Instrs {
			if call, ok := in.(*ssa.Call); ok && call.Call.IsInvoke() && call.Call.Method.Name() == "Read" {
				return call
			}
		}
	}
	return nil
}

func ruleReadBound(c *Ctx) {
	pb := c.parserBuf()
	fn := c.method(pb, "ReadFrom")
	if fn == nil {
		c.fail("lz.(*ParserBuffer).ReadFrom", token.NoPos, "method not found")
		return
	}
	fi := c.info(fn)
	name := fnName(fn)
	call := c.readCall(fn)
	if call == nil {
		c.fail(name+":read", fn.Pos(), "no io.Reader.Read call")
		return
	}
	sl, ok := call.Call.Args[0].(*ssa.Slice)
	if !ok || sl.High == nil || sl.Low == nil {
		c.fail(name+":read-slice", call.Pos(), "the read target is not a two-bound slice of Data")
		return
	}
	okB := false
	for _, bs := range fi.atomsWithSuffix(".BufferSize") {
		if fi.proveAt(fi.lin(sl.High).sub(linAtom(bs)), call.Block(), nil) {
			okB = true
		}
	}
	c.check(okB, name+":read-slice", call.Pos(), "read target ends at "+fi.lin(sl.High).String()+" ≤ BufferSize",
		"the slice handed to Read ends at "+fi.lin(sl.High).String()+", which is not bounded by BufferSize (cap(Data) is caller-controlled after Reset(data)): the buffer can hold more than BufferSize bytes")
	// low bound = len(Data)
	c.check(fi.lin(sl.Low).eq(fi.lenOf(sl.X)), name+":read-low", call.Pos(), "read target starts at len(Data)", "the read target does not start at len(Data)")
	// ErrFullBuffer exactly under len(Data) ≥ BufferSize
	okF := false
	for _, b := range fn.Blocks {
		for _, in := range b.Instrs {
			if u, ok := in.(*ssa.UnOp); ok && errGlobalName(u) == "ErrFullBuffer" {
				for _, f := range fi.factsAt(b) {
					if f.Op == LE && len(f.L.t) == 2 {
						var hasLen, hasBS bool
						for a, co := range f.L.t {
							if strings.HasPrefix(a, "len(") && strings.Contains(a, ".Data") && co == -1 {
								hasLen = true
							}
							if strings.HasSuffix(strings.SplitN(a, "@", 2)[0], ".BufferSize") && co == 1 {
								hasBS = true
							}
						}
						if hasLen && hasBS && f.L.c == 0 {
							okF = true
						}
					}
				}
			}
		}
	}
	if !okF {
		// not a dominating comparison but provable there (the loop condition `err == nil && len < BufferSize`
		// left with err == nil): BufferSize ≤ len(Data) at the block that produces ErrFullBuffer
		for _, b := range fn.Blocks {
			for _, in := range b.Instrs {
				u, ok := in.(*ssa.UnOp)
				if !ok || errGlobalName(u) != "ErrFullBuffer" {
					continue
				}
				for _, bs := range fi.atomsWithSuffix(".BufferSize") {
					for _, b2 := range fn.Blocks {
						for _, in2 := range b2.Instrs {
							// a length of Data read on the way here with no write to Data in between
							if cl := isBuiltinCall(in2, "len"); cl != nil && fi.reach[b2][b] {
								if f := loadedField(cl.Call.Args[0]); f != nil && f.Name() == "Data" {
									fi.computeWriters()
									clean := true
									for _, w := range fi.writers[f] {
										if fi.instrReaches(cl, w) && fi.instrReaches(w, u) && !fi.loopOfBoth(cl, w) {
											clean = false
										}
									}
									if clean && fi.proveAt(linAtom(bs).sub(fi.lin(cl)), b, nil) {
										okF = true
									}
								}
							}
						}
					}
				}
			}
		}
	}
	c.check(okF, name+":full", fn.Pos(), "ErrFullBuffer exactly under len(Data) ≥ BufferSize", "ErrFullBuffer is not produced exactly on len(Data) ≥ BufferSize")
}

func ruleReadFrom(c *Ctx) {
	pb := c.parserBuf()
	fn := c.method(pb, "ReadFrom")
	if fn == nil {
		c.fail("lz.(*ParserBuffer).ReadFrom", token.NoPos, "method not found")
		return
	}
	fi := c.info(fn)
	name := fnName(fn)
	call := c.readCall(fn)
	if call == nil {
		c.fail(name+":read", fn.Pos(), "no io.Reader.Read call")
		return
	}
	k := extractOf(call, 0)
	errv := extractOf(call, 1)
	// keep: store Data = Data[:len+k] in the block of the call
	keep := false
	for _, in := range call.Block().Instrs {
		st, ok := in.(*ssa.Store)
		if !ok {
			continue
		}
		if p, okp := recvPath(fn, st.Addr); !okp || p != "Data" {
			continue
		}
		if sl, ok := st.Val.(*ssa.Slice); ok && sl.Low == nil && sl.High != nil && k != nil {
			if fi.lin(sl.High).eq(fi.lenOf(sl.X).add(fi.lin(k))) && fi.instrIx[st] > fi.instrIx[call] {
				keep = true
			}
		}
	}
	c.check(keep, name+":keep", call.Pos(), "Data = Data[:len+k] follows Read unconditionally (bytes delivered with an error are kept)",
		"the bytes Read reported are not appended unconditionally right after the call: data delivered together with an error (or io.EOF) would be lost")
	// exits of the fill loop
	var loop *Loop
	for _, l := range fi.loops {
		if l.Blocks[call.Block()] {
			loop = l
		}
	}
	if loop == nil {
		c.fail(name+":exits", call.Pos(), "Read is not called in a fill loop")
	} else {
		okX := true
		why := ""
		nx := 0
		var blocks []*ssa.BasicBlock
		for b := range loop.Blocks {
			blocks = append(blocks, b)
		}
		sort.Slice(blocks, func(i, j int) bool { return blocks[i].Index < blocks[j].Index })
		for _, b := range blocks {
			for _, s := range b.Succs {
				if loop.Blocks[s] {
					continue
				}
				// an exit edge, possibly through a block that only sets the error
				nx++
				conds := fi.edgeConds(b, s)
				last := unNot(conds[len(conds)-1])
				good := false
				if errv != nil && isNilCmp(conds[len(conds)-1], errv) == +1 {
					good = true
				}
				// the reader's error carried in a loop variable (for err == nil && …): non-nil only when it
				// holds the reader's error
				if errv != nil && !good {
					if bo, ok := last.V.(*ssa.BinOp); ok {
						for _, v := range []ssa.Value{bo.X, bo.Y} {
							if ph, isPhi := v.(*ssa.Phi); isPhi && nilOrValue(ph, errv, map[*ssa.Phi]bool{}) && isNilCmp(conds[len(conds)-1], ph) == +1 {
								good = true
							}
						}
					}
				}
				if bo, ok := last.V.(*ssa.BinOp); ok && isIntType(bo.X.Type()) {
					fs := fi.factsOf([]Cond{conds[len(conds)-1]})
					for _, f := range fs {
						if f.Op != LE {
							continue
						}
						var hasLen, hasBS bool
						for a, co := range f.L.t {
							if strings.HasPrefix(a, "len(") && strings.Contains(a, ".Data") && co == -1 {
								hasLen = true
							}
							if strings.HasSuffix(strings.SplitN(a, "@", 2)[0], ".BufferSize") && co == 1 {
								hasBS = true
							}
						}
						if hasLen && hasBS && len(f.L.t) == 2 && f.L.c <= 0 {
							good = true
						}
					}
				}
				if !good {
					okX = false
					why = fmt.Sprintf("exit edge %d→%d under %s", b.Index, s.Index, factStrings(fi.factsOf([]Cond{conds[len(conds)-1]})))
				}
			}
		}
		c.check(okX && nx >= 2, name+":exits", call.Pos(), "the fill loop is left only on err != nil or len(Data) ≥ BufferSize",
			"the fill loop can be left on something other than a reader error or a full buffer (e.g. a short read): "+why)
	}
	// the reader's error is never replaced by the buffer's own status: wherever ErrFullBuffer becomes the result,
	// every way from the latest Read to that point passes an edge on which the reader's error is nil
	if errv != nil {
		okKeepErr, nFull := true, 0
		whyE := ""
		for _, b := range fn.Blocks {
			for _, in := range b.Instrs {
				u, ok := in.(*ssa.UnOp)
				if !ok || errGlobalName(u) != "ErrFullBuffer" {
					continue
				}
				nFull++
				// backwards from b to the block of the Read
				type item struct {
					b     *ssa.BasicBlock
					clean bool // an edge asserting err == nil was passed
				}
				seen := map[item]bool{}
				work := []item{{b, false}}
				for len(work) > 0 {
					it := work[len(work)-1]
					work = work[:len(work)-1]
					if seen[it] {
						continue
					}
					seen[it] = true
					if it.b == call.Block() && it.b != b {
						if !it.clean {
							okKeepErr = false
							whyE = fmt.Sprintf("block %d sets ErrFullBuffer and is reachable from the Read without a test that the reader's error is nil", b.Index)
						}
						continue
					}
					for _, p := range it.b.Preds {
						clean := it.clean
						if iff, ok := p.Instrs[len(p.Instrs)-1].(*ssa.If); ok {
							cd := Cond{iff.Cond, p.Succs[0] == it.b}
							if isNilCmp(cd, errv) == -1 {
								clean = true
							}
							// the error carried in a loop variable that holds nil or the reader's error
							cd2 := unNot(cd)
							if bo, ok := cd2.V.(*ssa.BinOp); ok {
								for _, v := range []ssa.Value{bo.X, bo.Y} {
									if ph, isPhi := v.(*ssa.Phi); isPhi && nilOrValue(ph, errv, map[*ssa.Phi]bool{}) && isNilCmp(cd, ph) == -1 {
										clean = true
									}
								}
							}
						}
						work = append(work, item{p, clean})
					}
				}
			}
		}
		c.check(okKeepErr && nFull > 0, name+":reader-error-kept", call.Pos(), "ErrFullBuffer becomes the result only where the reader's error is known to be nil", "the reader's error can be overwritten by ErrFullBuffer ("+whyE+"): a fault that arrives with the bytes that fill the buffer is never reported")
	}
	// result
	okR := false
	for _, b := range fn.Blocks {
		r, ok := b.Instrs[len(b.Instrs)-1].(*ssa.Return)
		if !ok {
			continue
		}
		l := fi.lin(r.Results[0])
		pos, neg := "", ""
		for a, co := range l.t {
			if strings.HasPrefix(a, "len(") && strings.Contains(a, ".Data") {
				if co == 1 {
					pos = a
				} else if co == -1 {
					neg = a
				}
			}
		}
		okR = pos != "" && neg != "" && !strings.Contains(neg, "@") && len(l.t) == 2 && l.c == 0
	}
	if !okR && keep && k != nil {
		// running count: every returned value is 0 plus the k of each Read so far, and (":keep") the same k is
		// added to len(Data) right after each Read — the two sums agree
		var acc func(v ssa.Value, seen map[ssa.Value]bool) bool
		acc = func(v ssa.Value, seen map[ssa.Value]bool) bool {
			v = stripConv(v)
			if seen[v] {
				return true
			}
			seen[v] = true
			switch x := v.(type) {
			case *ssa.Const:
				return isConstZero(x)
			case *ssa.Phi:
				for _, e := range x.Edges {
					if !acc(e, seen) {
						return false
					}
				}
				return true
			case *ssa.BinOp:
				if x.Op == token.ADD {
					if stripConv(x.Y) == ssa.Value(k) {
						return acc(x.X, seen)
					}
					if stripConv(x.X) == ssa.Value(k) {
						return acc(x.Y, seen)
					}
				}
			}
			return false
		}
		// each Read's k is counted exactly once per iteration, before the iteration can be left: the accumulating
		// addition sits in the block of the call
		var add *ssa.BinOp
		nAdds := 0
		for _, b := range fn.Blocks {
			for _, in := range b.Instrs {
				bo, ok := in.(*ssa.BinOp)
				if !ok || bo.Op != token.ADD || !(stripConv(bo.Y) == ssa.Value(k) || stripConv(bo.X) == ssa.Value(k)) {
					continue
				}
				other := bo.X
				if stripConv(bo.X) == ssa.Value(k) {
					other = bo.Y
				}
				if _, isPhi := stripConv(other).(*ssa.Phi); !isPhi {
					continue // len(Data) + k and the like
				}
				nAdds++
				if b == call.Block() {
					add = bo
				}
			}
		}
		all, n := add != nil && nAdds == 1, 0
		for _, b := range fn.Blocks {
			r, ok := b.Instrs[len(b.Instrs)-1].(*ssa.Return)
			if !ok {
				continue
			}
			n++
			if !acc(r.Results[0], map[ssa.Value]bool{}) {
				all = false
			}
			// a return taken after this iteration's Read reports the sum that includes its k
			if add != nil {
				for _, lf := range mergeLeaves(stripConv(r.Results[0])) {
					after := call.Block() == b || call.Block().Dominates(b)
					if lf.Pred != nil {
						after = call.Block() == lf.Pred || call.Block().Dominates(lf.Pred)
					}
					if after && stripConv(lf.V) != ssa.Value(add) {
						all = false
					}
				}
			}
		}
		okR = all && n > 0
	}
	c.check(okR, name+":result", fn.Pos(), "returns len(Data)_after − len(Data)_before (or the running sum of the counts that were appended)", "the returned count is not len(Data) after minus len(Data) at entry")
}

// ---------------------------------------------------------------- R-MARGIN

// growthGuarded: in the methods of ParserBuffer that lengthen Data (an append to it, a re-slice beyond its length),
// no way from the entry reaches the lengthening store on the "needs room" side of the margin test (new length + 7 >
// cap(Data)) without passing a call that reaches the growing helper. The obligations of R-MARGIN about grow are
// anchored at its calls; this one is anchored at the store, so that a call that is dropped does not take its
// obligations with it.
func (c *Ctx) growthGuarded(pb *types.Named, grow *ssa.Function) {
	for _, name := range []string{"Write", "ReadFrom"} {
		fn := c.method(pb, name)
		if fn == nil {
			continue
		}
		fi := c.info(fn)
		growBlocks := map[*ssa.BasicBlock]bool{}
		for _, b := range fn.Blocks {
			for _, in := range b.Instrs {
				if call, ok := in.(*ssa.Call); ok && call.Call.StaticCallee() != nil && c.reachable(call.Call.StaticCallee())[grow] {
					growBlocks[b] = true
				}
			}
		}
		n := 0
		for _, b := range fn.Blocks {
			for _, in := range b.Instrs {
				st, ok := in.(*ssa.Store)
				if !ok {
					continue
				}
				if p, okp := recvPath(fn, st.Addr); !okp || p != "Data" {
					continue
				}
				lengthens := false
				if vi, isI := st.Val.(ssa.Instruction); isI && isBuiltinCall(vi, "append") != nil {
					lengthens = true
				}
				if sl, isSl := st.Val.(*ssa.Slice); isSl && sl.High != nil {
					lengthens = true
				}
				if !lengthens || growBlocks[b] {
					continue
				}
				n++
				key := fmt.Sprintf("%s:growth-guarded#%d", fnName(fn), n)
				// search from the entry, not through grow blocks, taking at a margin test only its "needs room" side
				seen := map[*ssa.BasicBlock]bool{}
				stack := []*ssa.BasicBlock{fn.Blocks[0]}
				reached := false
				sawTest := false
				for len(stack) > 0 {
					x := stack[len(stack)-1]
					stack = stack[:len(stack)-1]
					if seen[x] || growBlocks[x] {
						continue
					}
					seen[x] = true
					if x == b {
						reached = true
						break
					}
					succs := x.Succs
					if iff, isIf := x.Instrs[len(x.Instrs)-1].(*ssa.If); isIf {
						for _, f := range fi.factsOf([]Cond{{iff.Cond, true}}) {
							for a, co := range f.L.t {
								if strings.HasPrefix(a, "cap(") && strings.Contains(a, ".Data") && f.Op == LE {
									sawTest = true
									if co > 0 {
										succs = x.Succs[:1] // true side: cap ≤ …: needs room
									} else {
										succs = x.Succs[1:] // true side is the safe one
									}
								}
							}
						}
					}
					stack = append(stack, succs...)
				}
				// without any margin test on the way the store is reached trivially: that is the same hole
				c.check(!(reached), key, st.Pos(), "Data is lengthened only with room for the 7-byte margin: behind the margin test on its safe side, or behind a call of the growing helper",
					fmt.Sprintf("Data is lengthened here on a way that has %s and passes no call of the growing helper: append reallocates without the 7 bytes of margin (or the re-slice runs past the capacity) and the 8-byte loads of the hash parsers read outside the array", map[bool]string{true: "failed the margin test (new length + 7 > cap)", false: "no margin test"}[sawTest]))
			}
		}
	}
}

func ruleMargin(c *Ctx) {
	pb := c.parserBuf()
	grow := c.roles().grow
	if grow != nil {
		c.growthGuarded(pb, grow)
	}
	if grow == nil {
		c.fail("lz.(*ParserBuffer).grow", token.NoPos, "method not found")
	} else {
		fi := c.info(grow)
		name := fnName(grow)
		ro := c.roles()
		// bsOf: the terms standing for BufferSize in f; capOf: is v the capacity of the buffer's data in f
		bsOf := func(f *FuncInfo, fn *ssa.Function) []Lin {
			if fn == grow && ro.growBS >= 0 {
				return []Lin{f.lin(grow.Params[ro.growBS])}
			}
			var r []Lin
			for _, bs := range f.atomsWithSuffix(".BufferSize") {
				r = append(r, linAtom(bs))
			}
			return r
		}
		isData := func(fn *ssa.Function, v ssa.Value) bool {
			if fn == grow && ro.growData >= 0 {
				return v == ssa.Value(grow.Params[ro.growData])
			}
			f := loadedField(v)
			return f != nil && f.Name() == "Data"
		}
		var mk *ssa.MakeSlice
		for _, b := range grow.Blocks {
			for _, in := range b.Instrs {
				if m, ok := in.(*ssa.MakeSlice); ok {
					mk = m
				}
			}
		}
		if mk == nil {
			c.fail(name+":alloc", grow.Pos(), "no allocation in grow")
		} else {
			t := fi.lin(grow.Params[ro.growT])
			// hypothesis: t ≤ BufferSize (checked at the call sites below)
			ok := false
			for _, bs := range bsOf(fi, grow) {
				hyp := []Fact{{t.sub(bs), LE}, {t.scale(-1), LE}}
				if fi.proveAt(t.addc(7).sub(fi.lin(mk.Cap)), mk.Block(), hyp) {
					ok = true
				}
			}
			c.check(ok, name+":cap", mk.Pos(), "allocated capacity ≥ t + 7 whenever t ≤ BufferSize", "grow does not guarantee capacity ≥ t + 7 (the 8-byte loads of the hash parsers read up to 7 bytes past len)")
			// copies the old contents
			cp := false
			for _, b := range grow.Blocks {
				for _, in := range b.Instrs {
					if call := isBuiltinCall(in, "copy"); call != nil {
						cp = true
					}
				}
			}
			c.check(cp, name+":copy", mk.Pos(), "old contents copied", "grow does not copy the old contents")
			// returns that do not allocate: only when the margin exists already
			var caps []Lin
			for _, b := range grow.Blocks {
				for _, in := range b.Instrs {
					if cc := isBuiltinCall(in, "cap"); cc != nil {
						if isData(grow, cc.Call.Args[0]) {
							caps = append(caps, fi.lin(cc))
						}
					}
				}
			}
			okR := true
			for _, b := range grow.Blocks {
				ret, isRet := b.Instrs[len(b.Instrs)-1].(*ssa.Return)
				if !isRet {
					continue
				}
				if b == mk.Block() || mk.Block().Dominates(b) {
					continue
				}
				if ro.growData >= 0 && !isData(grow, ret.Results[0]) {
					// functional form: a return that does not allocate hands back the data it was given
					okR = false
					continue
				}
				proved := false
				for _, cp := range caps {
					if fi.proveAt(t.addc(7).sub(cp), b, nil) {
						proved = true
					}
				}
				if !proved {
					okR = false
				}
			}
			c.check(okR, name+":keep", grow.Pos(), "grow returns without allocating only when t + 7 ≤ cap(Data)", "grow can return without allocating although t + 7 ≤ cap(Data) does not hold: the margin is lost")
		}
		// call sites: argument ≤ BufferSize
		n := 0
		for _, fn := range c.allFuncs {
			fi2 := c.info(fn)
			for _, b := range fn.Blocks {
				for _, in := range b.Instrs {
					call, ok := in.(*ssa.Call)
					if !ok || call.Call.StaticCallee() != grow {
						continue
					}
					n++
					key := fmt.Sprintf("%s:grow-arg#%d", fnName(fn), n)
					t := fi2.lin(call.Call.Args[ro.growT])
					ok2 := false
					for _, bs := range bsOf(fi2, fn) {
						if fi2.proveAt(t.sub(bs), b, nil) && fi2.proveAt(t.scale(-1), b, nil) {
							ok2 = true
						}
					}
					c.check(ok2, key, call.Pos(), "grow("+t.String()+") with 0 ≤ t ≤ BufferSize", "grow is called with t = "+t.String()+" not bounded by 0 ≤ t ≤ BufferSize")
					// the call may be bypassed only when the margin already exists: every edge
					// into the block following the call that does not come through the call
					// carries t + 7 ≤ cap(Data)
					gkey := fmt.Sprintf("%s:grow-guard#%d", fnName(fn), n)
					// the block in which the buffer is used next: the single successor (the call is the last thing
					// of a guarded branch), or this very block (the call is unconditional here: nothing of this
					// block can bypass it)
					m := b
					usedHere := false
					for _, in2 := range b.Instrs[fi2.instrIx[call]+1:] {
						if st, ok := in2.(*ssa.Store); ok && st.Val != ssa.Value(call) {
							if f := fieldOfAddr(st.Addr); f != nil && f.Name() == "Data" {
								usedHere = true
							}
						}
						if sl, ok := in2.(*ssa.Slice); ok && isData(fn, sl.X) {
							usedHere = true
						}
					}
					if len(b.Succs) == 1 && !usedHere {
						m = b.Succs[0]
					}
					var caps []Lin
					for _, b2 := range fn.Blocks {
						for _, in2 := range b2.Instrs {
							if cc := isBuiltinCall(in2, "cap"); cc != nil {
								if f := loadedField(cc.Call.Args[0]); f != nil && f.Name() == "Data" && (b2 == b || b2.Dominates(b)) {
									caps = append(caps, fi2.lin(cc))
								}
							}
						}
					}
					okG := true
					detail := ""
					nBy := 0
					for _, p := range m.Preds {
						if m == b || p == b || b.Dominates(p) {
							continue
						}
						nBy++
						cs := fi2.edgeConds(p, m)
						proved := false
						for _, cp := range caps {
							if fi2.proveLE0(t.addc(7).sub(cp), cs, nil, map[string]bool{}, 0) {
								proved = true
							}
						}
						if !proved {
							okG = false
							detail = fmt.Sprintf("edge from block %d bypasses grow under %s", p.Index, factStrings(fi2.factsOf(cs)))
						}
					}
					c.check(okG, gkey, call.Pos(), fmt.Sprintf("grow(t) is bypassed only under t + 7 ≤ cap(Data) (%d bypass edges)", nBy),
						"the buffer can be extended to t = "+t.String()+" bytes without grow although t + 7 ≤ cap(Data) is not established ("+detail+"): the 7-byte margin behind the data is lost and the 8-byte loads of the hash parsers slice beyond the capacity")
					// the data stored afterwards is no longer than t
					for _, b3 := range fn.Blocks {
						if !(b3 == m || m.Dominates(b3)) {
							continue
						}
						for _, in3 := range b3.Instrs {
							st, isSt := in3.(*ssa.Store)
							if !isSt {
								continue
							}
							if b3 == b && fi2.instrIx[st] < fi2.instrIx[call] {
								continue
							}
							if f := fieldOfAddr(st.Addr); f == nil || f.Name() != "Data" || st.Val == ssa.Value(call) {
								continue
							}
							if app := isBuiltinCall(valueInstr(st.Val), "append"); app != nil {
								nl := fi2.lenOf(st.Val)
								okL := fi2.proveAt(nl.sub(t), b3, nil)
								c.check(okL, fmt.Sprintf("%s:grow-covers#%d", fnName(fn), n), st.Pos(), "the extended data is no longer than the t that was ensured", "the data stored after grow(t) can be longer ("+nl.String()+") than the ensured t = "+t.String())
							}
						}
					}
				}
			}
		}
	}
	// Reset adopts data only with margin
	if reset := c.method(pb, "Reset"); reset != nil {
		fi := c.info(reset)
		name := fnName(reset)
		data := reset.Params[1]
		nStores := 0
		for _, b := range reset.Blocks {
			for _, in := range b.Instrs {
				st, ok := in.(*ssa.Store)
				if !ok {
					continue
				}
				if p, okp := recvPath(reset, st.Addr); !okp || p != "Data" {
					continue
				}
				if st.Val != data {
					// any other non-empty slice installed by Reset carries the margin as well: a fresh slice by its
					// capacity argument, a re-slice of the old buffer by a guard on its capacity
					var capL Lin
					switch x := st.Val.(type) {
					case *ssa.MakeSlice:
						capL = fi.lin(x.Cap)
					case *ssa.Slice:
						if x.High == nil || isConstZero(x.High) || x.Low != nil {
							continue
						}
						if x.Max != nil {
							// three-index slice: the capacity is what the expression says
							capL = fi.lin(x.Max)
						} else if cc := capCallOn(reset, x.X); cc != nil {
							capL = fi.lin(cc)
						} else {
							capL = linAtom("cap(" + fi.key(x.X) + ")")
						}
					default:
						continue
					}
					nStores++
					ok3 := fi.proveAt(fi.lenOf(st.Val).addc(7).sub(capL), b, nil)
					c.check(ok3, fmt.Sprintf("%s:margin#%d", name, nStores), st.Pos(), "the slice installed by Reset has capacity ≥ len + 7", "Reset installs a slice of length "+fi.lenOf(st.Val).String()+" whose capacity ("+capL.String()+") is not shown to leave the 7-byte margin: the 8-byte loads of the hash parsers slice beyond the capacity")
					continue
				}
				ok2 := fi.proveAt(fi.lenOf(data).addc(7).sub(linAtom("cap("+data.Name()+")")), b, nil)
				c.check(ok2, name+":adopt", st.Pos(), "caller's slice adopted only under len(data)+7 ≤ cap(data)", "Reset adopts the caller's slice without the 7-byte margin")
			}
		}
		// len(data) ≤ BufferSize on every success path
		okL := true
		for _, b := range reset.Blocks {
			r, ok := b.Instrs[len(b.Instrs)-1].(*ssa.Return)
			if !ok || c.isFailureReturn(fi, r) {
				continue
			}
			good := false
			for _, bs := range fi.atomsWithSuffix(".BufferSize") {
				if fi.proveAt(fi.lenOf(data).sub(linAtom(bs)), b, nil) {
					good = true
				}
			}
			if !good {
				okL = false
			}
		}
		c.check(okL, name+":size", reset.Pos(), "Reset succeeds only with len(data) ≤ BufferSize", "Reset can succeed with len(data) > BufferSize")
	}
}

// ---------------------------------------------------------------- R-SHRINK-PB

func ruleShrinkPB(c *Ctx) {
	pb := c.parserBuf()
	fn := c.method(pb, "Shrink")
	if fn == nil {
		c.fail("lz.(*ParserBuffer).Shrink", token.NoPos, "method not found")
		return
	}
	fi := c.info(fn)
	name := fnName(fn)
	var w0, ss, off0 string
	for _, a := range fi.atomsWithSuffix(".W") {
		if !strings.Contains(a, "@") {
			w0 = a
		}
	}
	for _, a := range fi.atomsWithSuffix(".ShrinkSize") {
		ss = a
	}
	for _, a := range fi.atomsWithSuffix(".Off") {
		if !strings.Contains(a, "@") {
			off0 = a
		}
	}
	if w0 == "" || ss == "" {
		c.fail(name+":delta", fn.Pos(), "W or ShrinkSize not read")
		return
	}
	delta := linAtom(w0).sub(linAtom(ss))
	var cp *ssa.Call
	for _, b := range fn.Blocks {
		for _, in := range b.Instrs {
			if call := isBuiltinCall(in, "copy"); call != nil {
				cp = call
			}
		}
	}
	// the same move written as  Data = append(Data[:0], Data[δ:]...)  (re-slice included)
	appendMove := false
	if cp == nil {
		for _, b := range fn.Blocks {
			for _, in := range b.Instrs {
				if call := isBuiltinCall(in, "append"); call != nil && len(call.Call.Args) == 2 {
					if d, ok := call.Call.Args[0].(*ssa.Slice); ok && d.Low == nil && d.High != nil && isConstZero(d.High) {
						if p1, ok1 := recvPath(fn, d.X); ok1 && p1 == "Data" {
							cp = call
							appendMove = true
						}
					}
				}
			}
		}
	}
	if cp == nil {
		c.fail(name+":copy", fn.Pos(), "no copy")
		return
	}
	sl, _ := cp.Call.Args[1].(*ssa.Slice)
	okCopy := sl != nil && sl.Low != nil && sl.High == nil && fi.lin(sl.Low).eq(delta)
	if okCopy {
		dst := cp.Call.Args[0]
		if appendMove {
			dst = dst.(*ssa.Slice).X
		}
		p1, ok1 := recvPath(fn, dst)
		p2, ok2 := recvPath(fn, sl.X)
		okCopy = ok1 && ok2 && p1 == "Data" && p2 == "Data"
	}
	c.check(okCopy, name+":copy", cp.Pos(), "copy(Data, Data[δ:]) with δ = W − ShrinkSize", "Shrink does not move Data[δ:] to the front with δ = W − ShrinkSize")
	// δ > 0 on the copy path; early return 0 without stores otherwise
	okPos := fi.proveAt(linConst(1).sub(delta), cp.Block(), nil)
	c.check(okPos, name+":positive", cp.Pos(), "the copy path is taken only for δ > 0", "the compaction path is not guarded by δ > 0")
	okW, okOff, okData, okRet, okZero := false, false, false, false, false
	for _, b := range fn.Blocks {
		onCopy := cp.Block() == b || cp.Block().Dominates(b)
		for _, in := range b.Instrs {
			st, ok := in.(*ssa.Store)
			if !ok {
				continue
			}
			p, okp := recvPath(fn, st.Addr)
			if !okp {
				continue
			}
			if !onCopy {
				okZero = false
				c.fail(name+":no-change", st.Pos(), "a field is stored on the δ ≤ 0 path")
				continue
			}
			switch p {
			case "W":
				okW = fi.lin(st.Val).eq(linAtom(w0).sub(delta)) || fi.lin(st.Val).eq(linAtom(ss))
			case "Off":
				okOff = off0 != "" && fi.lin(st.Val).eq(linAtom(off0).add(delta))
			case "Data":
				if s2, ok := st.Val.(*ssa.Slice); ok && s2.Low == nil && s2.High == cp {
					okData = true
				}
				if appendMove && st.Val == ssa.Value(cp) {
					okData = true
				}
			}
		}
		if r, ok := b.Instrs[len(b.Instrs)-1].(*ssa.Return); ok {
			if onCopy {
				okRet = fi.lin(r.Results[0]).eq(delta)
			} else {
				okZero = isConstZero(r.Results[0])
			}
		}
	}
	c.check(okW, name+":W", cp.Pos(), "W = W − δ", "W is not reduced by exactly δ")
	c.check(okOff, name+":Off", cp.Pos(), "Off += δ", "Off is not increased by exactly the discarded count δ")
	c.check(okData, name+":reslice", cp.Pos(), "Data re-sliced to the copied count", "Data is not re-sliced to the copied count")
	c.check(okRet, name+":returns", cp.Pos(), "returns δ", "Shrink does not return the discarded count δ")
	c.check(okZero, name+":zero", fn.Pos(), "returns 0 and changes nothing when δ ≤ 0", "the δ ≤ 0 path does not return 0")
}

// ---------------------------------------------------------------- R-SHRINK-WRAP

func ruleShrinkWrap(c *Ctx) {
	pbShrink := c.method(c.parserBuf(), "Shrink")
	seen := map[*ssa.Function]bool{}
	for _, p := range c.parsers() {
		fn := p.Shrink
		if fn == nil || fn == pbShrink || seen[fn] {
			continue
		}
		seen[fn] = true
		fi := c.info(fn)
		name := fnName(fn)
		// the embedded call
		var inner *ssa.Call
		for _, b := range fn.Blocks {
			for _, in := range b.Instrs {
				if call, ok := in.(*ssa.Call); ok && call.Call.StaticCallee() == pbShrink {
					inner = call
				}
			}
		}
		if inner == nil {
			c.fail(name+":inner", fn.Pos(), "Shrink does not call ParserBuffer.Shrink")
			continue
		}
		// returns exactly the inner δ
		okRet := true
		for _, b := range fn.Blocks {
			if r, ok := b.Instrs[len(b.Instrs)-1].(*ssa.Return); ok {
				if stripConv(r.Results[0]) != inner {
					okRet = false
				}
			}
		}
		c.check(okRet, name+":returns", inner.Pos(), "returns the δ of ParserBuffer.Shrink", "Shrink does not return exactly the δ reported by ParserBuffer.Shrink")
		// every re-basing call gets that δ and is made under δ > 0 (or unconditionally)
		n := 0
		for _, b := range fn.Blocks {
			for _, in := range b.Instrs {
				call, ok := in.(*ssa.Call)
				if !ok || call == inner {
					continue
				}
				callee := call.Call.StaticCallee()
				if callee == nil || len(call.Call.Args) != 2 || !isIntType(call.Call.Args[1].Type()) {
					continue
				}
				n++
				key := fmt.Sprintf("%s:rebase#%d", name, n)
				c.check(stripConv(call.Call.Args[1]) == inner, key, call.Pos(), "re-bases by the same δ", "the re-basing routine is not handed the δ returned by ParserBuffer.Shrink")
				// reachable whenever δ > 0: the only dominating condition is on δ
				okCond := true
				for _, cd := range fi.condsAt(b) {
					cd = unNot(cd)
					bo, ok := cd.V.(*ssa.BinOp)
					if !ok || (stripConv(bo.X) != inner && stripConv(bo.Y) != inner) {
						okCond = false
					}
				}
				if okCond {
					okCond = len(fi.condsAt(b)) == 0 || fi.proveLE0(linConst(1), append(fi.condsAt(b), Cond{}), nil, map[string]bool{}, 4) == false
				}
				c.check(okCond, key+":cond", call.Pos(), "executed whenever δ > 0", "the re-basing call is skipped on some path with δ > 0")
			}
		}
		if n == 0 {
			// suffix parsers drop their structures instead: checked by R-INVALIDATE
			c.ok(name+":rebase", inner.Pos(), "no position table to re-base (structures are dropped; see R-INVALIDATE)")
		}
	}
	// the re-basing routines themselves
	// (found by role: the functions that store position − x into an entry's position field)
	rb := c.roles().rebase
	if len(rb) < 2 {
		c.fail("lz:rebase-routines", token.NoPos, fmt.Sprintf("only %d re-basing routines found (hash and bucket hash expected)", len(rb)))
	}
	for _, fn := range rb {
		if len(fn.Params) != 2 {
			c.fail(fnName(fn)+":pos-store", fn.Pos(), "re-basing routine does not take exactly δ")
			continue
		}
		c.checkShiftOffsets(fn)
	}
}

// checkShiftOffsets: every store of a pos field stores pos − δ under ¬(pos < δ),
// and entries with pos < δ are cleared/skipped.
func (c *Ctx) checkShiftOffsets(fn *ssa.Function) {
	fi := c.info(fn)
	name := fnName(fn)
	delta := fn.Params[1]
	n := 0
	for _, b := range fn.Blocks {
		for _, in := range b.Instrs {
			st, ok := in.(*ssa.Store)
			if !ok {
				continue
			}
			fa, ok := st.Addr.(*ssa.FieldAddr)
			if !ok || derefStruct(fa.X.Type()).Field(fa.Field).Name() != c.posFieldName(fa.X.Type()) {
				continue
			}
			posName := c.posFieldName(fa.X.Type())
			n++
			key := fmt.Sprintf("%s:pos-store#%d", name, n)
			bo, ok := st.Val.(*ssa.BinOp)
			// δ: the parameter, or its one conversion to the position type (the caller's conversion moved inside)
			good := ok && bo.Op == token.SUB && (bo.Y == ssa.Value(delta) || stripConv(bo.Y) == ssa.Value(delta)) && isFieldRead(bo.X, posName)
			if good {
				// dominated by pos ≥ δ in any spelling (¬(pos < δ), δ ≤ pos, …): decided on the facts
				guarded := fi.proveLE(fi.lin(bo.Y).sub(fi.lin(bo.X)), b, nil)
				if !guarded {
					// the guard may have tested an earlier load of the same entry field (e := &table[i]; if e.pos < δ
					// …; e.pos -= δ) with no store to the entry in between
					if ld, ok := bo.X.(*ssa.UnOp); ok {
						if fa2, ok := ld.X.(*ssa.FieldAddr); ok {
							for _, b2 := range fn.Blocks {
								if !(b2 == b || b2.Dominates(b)) {
									continue
								}
								for _, in2 := range b2.Instrs {
									ld2, ok := in2.(*ssa.UnOp)
									if !ok || ld2 == ld || ld2.Op != token.MUL {
										continue
									}
									fa3, ok := ld2.X.(*ssa.FieldAddr)
									if !ok || fa3.X != fa2.X || fa3.Field != fa2.Field {
										continue
									}
									clean := true
									for _, b3 := range fn.Blocks {
										for _, in3 := range b3.Instrs {
											st3, ok := in3.(*ssa.Store)
											if !ok || st3 == st || !fi.instrReaches(ld2, st3) {
												continue
											}
											// on a way from the store to the subtraction that does not come back through the guard's load
											onWay := (b3 == b && fi.instrIx[st3] < fi.instrIx[ld]) || (b3 == b2 && fi.instrIx[st3] > fi.instrIx[ld2]) ||
												(b3 != b && b3 != b2 && fi.reachAvoidBoth(b3, b2, b2)[b])
											if onWay {
												if r3, _, ok := pathStr(st3.Addr); ok {
													if r2, _, ok2 := pathStr(fa2); ok2 && r3 == r2 {
														clean = false
													}
												}
											}
										}
									}
									if clean && fi.proveLE(fi.lin(bo.Y).sub(fi.lin(ld2)), b, nil) {
										guarded = true
									}
								}
							}
						}
					}
				}
				good = guarded
			}
			c.check(good, key, st.Pos(), "pos = pos − δ under pos ≥ δ", "a position is re-based by something other than pos − δ guarded by pos ≥ δ")
		}
	}
	if n == 0 {
		c.fail(name+":pos-store", fn.Pos(), "no position is re-based")
	}
}

// ---------------------------------------------------------------- R-WRAP-ORDER

func ruleWrapOrder(c *Ctx) {
	wp := c.namedType(c.lz, "WrappedParser")
	if wp == nil {
		c.fail("lz.WrappedParser", token.NoPos, "type not found")
		return
	}
	fn := c.method(wp, "Parse")
	if fn == nil {
		c.fail("lz.(*WrappedParser).Parse", token.NoPos, "method not found")
		return
	}
	fi := c.info(fn)
	name := fnName(fn)
	var parse, shrink, readFrom *ssa.Call
	var parses []*ssa.Call
	for _, b := range fn.Blocks {
		for _, in := range b.Instrs {
			if call, ok := in.(*ssa.Call); ok && call.Call.IsInvoke() {
				switch call.Call.Method.Name() {
				case "Parse":
					parse = call
					parses = append(parses, call)
				case "Shrink":
					shrink = call
				case "ReadFrom":
					readFrom = call
				}
			}
		}
	}
	if parse == nil || shrink == nil || readFrom == nil {
		c.fail(name+":calls", fn.Pos(), "expected calls to Parse, Shrink and ReadFrom of the wrapped parser")
		return
	}
	// the wrapper shrinks a buffer whose data is all parsed (W = len(Data) ≤ BufferSize) and then reads: that
	// read finds room only because Shrink leaves ShrinkSize bytes and every accepted configuration has
	// ShrinkSize < BufferSize (what Shrink leaves is R-SHRINK-PB, bound to this property as well)
	c.check(c.verifyImplies("BufConfig", "ShrinkSize", "BufferSize", -1), name+":shrink-makes-room", shrink.Pos(),
		"BufConfig.Verify establishes ShrinkSize < BufferSize: after Shrink a fully parsed buffer has room for the next read",
		"BufConfig.Verify accepts ShrinkSize ≥ BufferSize: a buffer that is full of parsed data stays full after Shrink, ReadFrom stores nothing and the wrapper ends the stream with ErrFullBuffer although the reader has more data")
	// the values that hold "the error / the count of the latest inner Parse": the results of the Parse
	// calls and merges of such values (a loop written with the first Parse before it carries them in φs)
	perrs, pns := map[ssa.Value]bool{}, map[ssa.Value]bool{}
	for _, pc := range parses {
		if e := extractOf(pc, 1); e != nil {
			perrs[e] = true
		}
		if e := extractOf(pc, 0); e != nil {
			pns[e] = true
		}
	}
	for changed := true; changed; {
		changed = false
		for _, ph := range fi.phis {
			for _, set := range []map[ssa.Value]bool{perrs, pns} {
				if set[ph] {
					continue
				}
				all := len(ph.Edges) > 0
				for _, e := range ph.Edges {
					if !set[e] && e != ssa.Value(ph) {
						all = false
					}
				}
				if all {
					set[ph] = true
					changed = true
				}
			}
		}
	}
	// Shrink before ReadFrom on every path
	okOrder := (shrink.Block() == readFrom.Block() && fi.instrIx[shrink] < fi.instrIx[readFrom]) || (shrink.Block() != readFrom.Block() && shrink.Block().Dominates(readFrom.Block()))
	c.check(okOrder, name+":shrink-first", readFrom.Pos(), "Shrink is called before ReadFrom on every path", "ReadFrom can run before Shrink: the buffer may still be full and the refill reads nothing")
	// both only on err == ErrEmptyBuffer
	onEmpty := false
	for _, cd := range fi.condsAt(readFrom.Block()) {
		cd2 := unNot(cd)
		if bo, ok := cd2.V.(*ssa.BinOp); ok && (bo.Op == token.EQL || bo.Op == token.NEQ) {
			if (perrs[bo.X] && errGlobalName(bo.Y) == "ErrEmptyBuffer") || (perrs[bo.Y] && errGlobalName(bo.X) == "ErrEmptyBuffer") {
				if (bo.Op == token.EQL) == cd2.True {
					onEmpty = true
				}
			}
		}
	}
	c.check(onEmpty, name+":refill-on-empty", readFrom.Pos(), "refill only after ErrEmptyBuffer", "the refill is not restricted to err == ErrEmptyBuffer")
	// returns
	k := extractOf(readFrom, 0)
	rerr := extractOf(readFrom, 1)
	okRets := true
	why := ""
	nret := 0
	var pendingRet *types.Var
	for _, b := range fn.Blocks {
		r, ok := b.Instrs[len(b.Instrs)-1].(*ssa.Return)
		if !ok {
			continue
		}
		nret++
		switch {
		case perrs[r.Results[1]] && pns[r.Results[0]]:
			// must be under err != ErrEmptyBuffer for the very value that is returned
			good := false
			for _, cd := range fi.condsAt(b) {
				cd2 := unNot(cd)
				if bo, ok := cd2.V.(*ssa.BinOp); ok && (bo.X == r.Results[1] || bo.Y == r.Results[1]) && (bo.Op == token.NEQ) == cd2.True &&
					(errGlobalName(bo.X) == "ErrEmptyBuffer" || errGlobalName(bo.Y) == "ErrEmptyBuffer") {
					good = true
				}
			}
			if !good {
				okRets = false
				why = "Parse's result is returned although err may be ErrEmptyBuffer"
			}
		case r.Results[1] == rerr && isConstZero(r.Results[0]):
			good := false
			if k != nil {
				for _, f := range fi.factsAt(b) {
					if f.Op == EQ && len(f.L.t) == 1 && f.L.c == 0 {
						if _, ok := f.L.t[k.Name()]; ok {
							good = true
						}
					}
				}
			}
			if !good {
				okRets = false
				why = "the reader's error is returned although ReadFrom delivered bytes (k != 0): they must be parsed first"
			}
		case isConstZero(r.Results[0]) && pendingField(fn, r.Results[1]) != nil:
			// (0, pending): the reader error kept from an earlier refill, returned when the buffer ran empty
			// again (before the next refill) and cleared with it
			f := pendingField(fn, r.Results[1])
			nonNil, cleared := false, false
			for _, cd := range fi.condsAt(b) {
				if isNilCmp(cd, r.Results[1]) == +1 {
					nonNil = true
				}
				// the test may be on another load of the same field
				cd2 := unNot(cd)
				if bo, ok := cd2.V.(*ssa.BinOp); ok && (bo.Op == token.NEQ) == cd2.True && (bo.Op == token.NEQ || bo.Op == token.EQL) {
					for _, pr := range [][2]ssa.Value{{bo.X, bo.Y}, {bo.Y, bo.X}} {
						if k, isC := pr[1].(*ssa.Const); isC && k.Value == nil && pendingField(fn, pr[0]) == f {
							nonNil = true
						}
					}
				}
			}
			for _, in := range b.Instrs {
				if st, ok := in.(*ssa.Store); ok && fieldOfAddr(st.Addr) == f {
					if k, isC := st.Val.(*ssa.Const); isC && k.Value == nil {
						cleared = true
					}
				}
			}
			before := b != readFrom.Block() && !readFrom.Block().Dominates(b)
			if !(nonNil && cleared && before) {
				okRets = false
				why = fmt.Sprintf("the kept reader error is returned without being non-nil, cleared and ahead of the next refill (non-nil %v, cleared %v, before refill %v)", nonNil, cleared, before)
			}
			pendingRet = f
		default:
			okRets = false
			why = "unexpected return " + r.String()
		}
	}
	c.check(okRets && nret >= 2, name+":returns", fn.Pos(), "returns (n, err) of Parse when err != ErrEmptyBuffer, (0, readErr) when k == 0, (0, kept reader error) before the next refill", "return discipline broken: "+why)
	// the reader's error is never dropped: on the way from the refill back to the retry either the refill ended
	// for lack of room (err == ErrFullBuffer) or its error is stored in the field that the kept-error return hands
	// out; Reset clears that field
	{
		var stores []*ssa.Store
		var keepF *types.Var
		for _, b := range fn.Blocks {
			for _, in := range b.Instrs {
				if st, ok := in.(*ssa.Store); ok && st.Val == rerr && rerr != nil {
					if _, okp := recvPath(fn, st.Addr); okp {
						stores = append(stores, st)
						keepF = fieldOfAddr(st.Addr)
					}
				}
			}
		}
		storeBlock := map[*ssa.BasicBlock]bool{}
		for _, st := range stores {
			storeBlock[st.Block()] = true
			// kept only when data came with it: with k == 0 the error is returned at once, and keeping it as well
			// reports one failure twice
			withData := false
			if k != nil {
				for _, f := range fi.factsAt(st.Block()) {
					if len(f.L.t) == 1 {
						if co, ok := f.L.t[k.Name()]; ok && ((f.Op == NE && f.L.c == 0) || (f.Op == LE && co == -1 && f.L.c >= 1)) {
							withData = true
						}
					}
				}
			}
			c.check(withData, name+":reader-error-kept:once", st.Pos(), "the reader's error is kept only when data came with it (k ≠ 0)", "the reader's error is stored for later although it may also be returned at once (k == 0 is not excluded where it is stored): one failure of the reader is reported twice")
		}
		fullSide := func(p, s *ssa.BasicBlock) bool {
			iff, ok := p.Instrs[len(p.Instrs)-1].(*ssa.If)
			if !ok {
				return false
			}
			bo, ok := iff.Cond.(*ssa.BinOp)
			if !ok || (bo.Op != token.EQL && bo.Op != token.NEQ) {
				return false
			}
			if !((bo.X == rerr && errGlobalName(bo.Y) == "ErrFullBuffer") || (bo.Y == rerr && errGlobalName(bo.X) == "ErrFullBuffer")) {
				return false
			}
			eqSucc := p.Succs[0]
			if bo.Op == token.NEQ {
				eqSucc = p.Succs[1]
			}
			return s == eqSucc
		}
		dropped, viaSentinel := false, false
		var L *Loop
		for _, l := range fi.loops {
			if l.Blocks[readFrom.Block()] {
				L = l
			}
		}
		if L != nil {
			seen := map[*ssa.BasicBlock]bool{}
			work := []*ssa.BasicBlock{readFrom.Block()}
			for len(work) > 0 {
				b := work[len(work)-1]
				work = work[:len(work)-1]
				if seen[b] {
					continue
				}
				seen[b] = true
				for _, sc := range b.Succs {
					if fullSide(b, sc) {
						viaSentinel = true
						continue
					}
					if sc == L.Header {
						dropped = true
						continue
					}
					if !L.Blocks[sc] || storeBlock[sc] {
						continue
					}
					work = append(work, sc)
				}
			}
		}
		okKeep := !dropped && (keepF == nil || keepF == pendingRet)
		detail := "the error ReadFrom returned together with data (k > 0) is discarded when Parse is retried: a reader that fails once and then recovers (or ends) is never reported, a truncated stream looks complete"
		if !dropped && keepF != pendingRet {
			detail = "the reader error is stored but the stored value is never returned"
		}
		if viaSentinel && !dropped {
			// the wrapper tells "the refill stopped because the buffer is full" from "the reader failed" by the error
			// VALUE ReadFrom returns; ReadFrom passes a reader's error through unchanged, so a reader that fails with
			// the exported sentinel itself is taken for a full buffer when data came with it
			c.fail(name+":reader-error-kept:sentinel", readFrom.Pos(), "the kept-error decision compares ReadFrom's error with the package's ErrFullBuffer value, which ReadFrom uses for its own full-buffer status and also passes through when the reader itself fails with it: a reader error of that value that arrives together with data is dropped")
		}
		c.check(okKeep, name+":reader-error-kept", readFrom.Pos(), "a reader error that arrives with data is kept (or the refill ended for lack of room) before Parse is retried, and handed out once the data is parsed", detail)
		if keepF != nil {
			okClr := false
			clrBlocks := map[*ssa.BasicBlock]bool{}
			if rs := c.method(wp, "Reset"); rs != nil {
				for _, b := range rs.Blocks {
					for _, in := range b.Instrs {
						if st, ok := in.(*ssa.Store); ok && fieldOfAddr(st.Addr) == keepF {
							if k, isC := st.Val.(*ssa.Const); isC && k.Value == nil {
								okClr = true
								clrBlocks[b] = true
							}
						}
						// *s = WrappedParser{…} without the kept-error field: the whole value is replaced
						if st, ok := in.(*ssa.Store); ok && len(rs.Params) > 0 && st.Addr == ssa.Value(rs.Params[0]) {
							if k, isC := st.Val.(*ssa.Const); isC && k.Value == nil {
								// the zero value is stored and the listed fields are filled in afterwards
								sets := false
								for _, b2 := range rs.Blocks {
									for _, in2 := range b2.Instrs {
										if fs, ok := in2.(*ssa.Store); ok && fieldOfAddr(fs.Addr) == keepF {
											if kk, isCC := fs.Val.(*ssa.Const); !isCC || kk.Value != nil {
												sets = true
											}
										}
									}
								}
								if !sets {
									okClr = true
									clrBlocks[b] = true
								}
							}
							if ld, ok := st.Val.(*ssa.UnOp); ok && ld.Op == token.MUL {
								if al, ok := ld.X.(*ssa.Alloc); ok {
									sets := false
									for _, ref := range *al.Referrers() {
										if fa, ok := ref.(*ssa.FieldAddr); ok && fieldOfAddr(fa) == keepF {
											for _, u := range *fa.Referrers() {
												if fs, ok := u.(*ssa.Store); ok && fs.Addr == ssa.Value(fa) {
													if k, isC := fs.Val.(*ssa.Const); !isC || k.Value != nil {
														sets = true
													}
												}
											}
										}
									}
									if !sets {
										okClr = true
										clrBlocks[b] = true
									}
								}
							}
						}
					}
				}
			}
			if rs := c.method(wp, "Reset"); okClr && rs != nil {
				// on every returning path, not only under a condition on the kept value
				seen := map[*ssa.BasicBlock]bool{}
				work := []*ssa.BasicBlock{rs.Blocks[0]}
				for len(work) > 0 {
					b := work[len(work)-1]
					work = work[:len(work)-1]
					if seen[b] || clrBlocks[b] {
						continue
					}
					seen[b] = true
					if _, isRet := b.Instrs[len(b.Instrs)-1].(*ssa.Return); isRet {
						okClr = false
					}
					work = append(work, b.Succs...)
				}
			}
			c.check(okClr, "lz.(*WrappedParser).Reset:kept-error-cleared", fn.Pos(), "Reset clears the kept reader error", "WrappedParser.Reset does not clear the kept reader error: the next stream starts by returning the previous reader's error")
		}
	}
	// the loop continues iff k != 0
	okLoop := false
	for _, l := range fi.loops {
		for _, la := range l.Latches {
			if la == readFrom.Block() || readFrom.Block().Dominates(la) {
				for _, f := range fi.factsOf(fi.edgeConds(la, l.Header)) {
					if k != nil && len(f.L.t) == 1 {
						if co, ok := f.L.t[k.Name()]; ok && ((f.Op == NE && f.L.c == 0) || (f.Op == LE && co == -1 && f.L.c >= 1)) {
							okLoop = true
						}
					}
				}
			}
		}
	}
	c.check(okLoop, name+":retry-iff-data", readFrom.Pos(), "Parse is retried exactly when ReadFrom delivered k > 0 bytes", "the retry is not conditioned on k != 0 bytes read")
}

// loopOfBoth: a and w lie in one loop and a is re-executed after w before the loop can be left
// (a is in the loop's header region: the value read by a on the final test is the value after w).
func (fi *FuncInfo) loopOfBoth(a, w ssa.Instruction) bool {
	la := fi.loopOf(a.Block())
	if la == nil || !la.Blocks[w.Block()] {
		return false
	}
	// a is evaluated on every way out of the loop: its block dominates every exit edge's source
	for b := range la.Blocks {
		for _, s := range b.Succs {
			if !la.Blocks[s] {
				if !(a.Block() == b || a.Block().Dominates(b)) {
					// an exit that does not pass a (the err == nil test before it): then a's value is not
					// known there, but the goal is proved per incoming edge, where such an exit is vacuous
					// or fails on its own
					continue
				}
			}
		}
	}
	return true
}

// nilOrValue: every way into the φ brings the nil constant or v (directly or through such φs).
func nilOrValue(ph *ssa.Phi, v ssa.Value, seen map[*ssa.Phi]bool) bool {
	if seen[ph] {
		return true
	}
	seen[ph] = true
	for _, e := range ph.Edges {
		if e == v {
			continue
		}
		if k, ok := e.(*ssa.Const); ok && k.Value == nil {
			continue
		}
		if q, ok := e.(*ssa.Phi); ok && nilOrValue(q, v, seen) {
			continue
		}
		return false
	}
	return true
}

func valueInstr(v ssa.Value) ssa.Instruction {
	in, _ := v.(ssa.Instruction)
	return in
}

// capCallOn: a cap(x) call in fn on the same loaded field as v (its value stands for cap(v)).
func capCallOn(fn *ssa.Function, v ssa.Value) *ssa.Call {
	for _, b := range fn.Blocks {
		for _, in := range b.Instrs {
			if cc := isBuiltinCall(in, "cap"); cc != nil {
				if cc.Call.Args[0] == v || sameLoadPath(cc.Call.Args[0], v) {
					return cc
				}
			}
		}
	}
	return nil
}

// pendingField: v is a load of an error-typed field of fn's receiver.
func pendingField(fn *ssa.Function, v ssa.Value) *types.Var {
	ld, ok := v.(*ssa.UnOp)
	if !ok || ld.Op != token.MUL || !isErrorType(v.Type()) {
		return nil
	}
	if _, ok := recvPath(fn, ld.X); !ok {
		return nil
	}
	return fieldOfAddr(ld.X)
}
