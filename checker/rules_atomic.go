package main

import (
	"fmt"
	"go/token"
	"go/types"
	"sort"

	"golang.org/x/tools/go/ssa"
)

// ---------------------------------------------------------------- R-FAIL-ATOMIC
//
// Two answers of the parser API mean "nothing happened": ErrEmptyBuffer from Parse (no unparsed data: C03, C14)
// and the error of Reset (the slice is larger than BufferSize: the parser goes on as before, C01/C13/C15). Callers
// act on that — the wrapper refills and calls Parse again, a program that got Reset's error keeps parsing — so the
// way to such a return must not have changed the parser: no store to a field of the receiver and no call of a
// function of the package that stores to fields (as the effect analysis sees it) reaches the return, except the call
// whose own error is being handed on (that callee is decided where it is defined). Clearing the caller's block is
// required, not forbidden: the block is not the receiver.
//
// What this catches: state reset before the size check in Reset (a refused Reset rewinds W and the stream is
// emitted twice), work done before the emptiness test in Parse(nil) (indexing a buffer that was never allocated).

func init() {
	reg(&Rule{ID: "R-FAIL-ATOMIC", Min: 16,
		Doc: "no store to the receiver's fields and no field-writing call of the package reaches a return of ErrEmptyBuffer from a parser's Parse or a return of a non-nil error from a Reset method, except the call whose error is passed on",
		Run: ruleFailAtomic})
}

func ruleFailAtomic(c *Ctx) {
	type target struct {
		fn   *ssa.Function
		kind string // "empty" | "reset"
	}
	var ts []target
	seen := map[*ssa.Function]bool{}
	for _, p := range c.parsers() {
		if p.Parse != nil && !seen[p.Parse] {
			seen[p.Parse] = true
			ts = append(ts, target{p.Parse, "empty"})
		}
	}
	for _, fn := range c.allFuncs {
		if fn.Pkg != c.lz || fn.Blocks == nil || fn.Name() != "Reset" || fn.Signature.Recv() == nil || seen[fn] {
			continue
		}
		res := fn.Signature.Results()
		if res.Len() == 0 || !isErrorType(res.At(res.Len()-1).Type()) {
			continue
		}
		seen[fn] = true
		ts = append(ts, target{fn, "reset"})
	}
	sort.Slice(ts, func(i, j int) bool { return ts[i].fn.String() < ts[j].fn.String() })
	// a helper whose error result is handed on is decided like the function that calls it
	for i := 0; i < len(ts); i++ {
		t := ts[i]
		for _, b := range t.fn.Blocks {
			r, ok := b.Instrs[len(b.Instrs)-1].(*ssa.Return)
			if !ok || len(r.Results) == 0 || !isErrorType(r.Results[len(r.Results)-1].Type()) {
				continue
			}
			for _, lf := range mergeLeaves(r.Results[len(r.Results)-1]) {
				var call *ssa.Call
				switch v := lf.V.(type) {
				case *ssa.Call:
					call = v
				case *ssa.Extract:
					call, _ = v.Tuple.(*ssa.Call)
				}
				if call == nil {
					continue
				}
				callee := call.Call.StaticCallee()
				if callee == nil || callee.Pkg != c.lz || callee.Blocks == nil || seen[callee] {
					continue
				}
				seen[callee] = true
				ts = append(ts, target{callee, t.kind})
			}
		}
	}
	// can fn hand out ErrEmptyBuffer?
	var mayEmpty func(fn *ssa.Function, depth int) bool
	mayEmpty = func(fn *ssa.Function, depth int) bool {
		if fn == nil || fn.Blocks == nil || depth > 3 {
			return false
		}
		for _, b := range fn.Blocks {
			r, ok := b.Instrs[len(b.Instrs)-1].(*ssa.Return)
			if !ok || len(r.Results) == 0 || !isErrorType(r.Results[len(r.Results)-1].Type()) {
				continue
			}
			for _, lf := range mergeLeaves(r.Results[len(r.Results)-1]) {
				if errGlobalName(lf.V) == "ErrEmptyBuffer" {
					return true
				}
				switch v := lf.V.(type) {
				case *ssa.Call:
					if mayEmpty(v.Call.StaticCallee(), depth+1) {
						return true
					}
				case *ssa.Extract:
					if call, isCall := v.Tuple.(*ssa.Call); isCall && mayEmpty(call.Call.StaticCallee(), depth+1) {
						return true
					}
				}
			}
		}
		return false
	}
	for _, t := range ts {
		fn := t.fn
		fi := c.info(fn)
		// the writers of receiver state in fn
		type writer struct {
			in   ssa.Instruction
			what string
		}
		var ws []writer
		for _, b := range fn.Blocks {
			for _, in := range b.Instrs {
				switch x := in.(type) {
				case *ssa.Store:
					if p, ok := recvPath(fn, x.Addr); ok {
						ws = append(ws, writer{in, "store to " + p})
					}
				case *ssa.Call:
					callee := x.Call.StaticCallee()
					if callee == nil || callee.Pkg == nil || (callee.Pkg != c.lz && callee.Pkg != c.suffix) {
						continue
					}
					if len(c.fieldWrites(callee)) > 0 {
						ws = append(ws, writer{in, "call of " + fnName(callee)})
					}
				}
			}
		}
		n := 0
		for _, b := range fn.Blocks {
			r, ok := b.Instrs[len(b.Instrs)-1].(*ssa.Return)
			if !ok || len(r.Results) == 0 {
				continue
			}
			e := r.Results[len(r.Results)-1]
			if !isErrorType(e.Type()) {
				continue
			}
			for _, lf := range mergeLeaves(e) {
				if k, isK := lf.V.(*ssa.Const); isK && k.Value == nil {
					continue
				}
				label := errGlobalName(lf.V)
				if t.kind == "empty" && label != "ErrEmptyBuffer" {
					// the error of a helper that may answer ErrEmptyBuffer counts as that answer
					via := false
					switch v := lf.V.(type) {
					case *ssa.Call:
						via = mayEmpty(v.Call.StaticCallee(), 0)
					case *ssa.Extract:
						if call, isCall := v.Tuple.(*ssa.Call); isCall {
							via = mayEmpty(call.Call.StaticCallee(), 0)
						}
					}
					if !via {
						continue
					}
					label = "ErrEmptyBuffer(via helper)"
				}
				from := b
				if lf.Pred != nil {
					from = lf.Pred
				}
				n++
				if label == "" {
					label = "error"
				}
				key := fmt.Sprintf("%s:%s#%d", fnName(fn), label, n)
				// the call whose error this is
				var own ssa.Instruction
				switch v := lf.V.(type) {
				case *ssa.Call:
					own = v
				case *ssa.Extract:
					if call, isCall := v.Tuple.(*ssa.Call); isCall {
						own = call
					}
				}
				bad := ""
				end := from.Instrs[len(from.Instrs)-1]
				for _, w := range ws {
					if w.in == own {
						continue
					}
					// a writer that runs only where this very error is nil is not on a failing way
					onSuccess := false
					for _, cd := range fi.condsAt(w.in.Block()) {
						if isNilCmp(cd, lf.V) == -1 {
							onSuccess = true
						}
					}
					if onSuccess {
						continue
					}
					if w.in.Block() == from || fi.instrReaches(w.in, end) {
						if w.in.Block() == from && fi.instrIx[w.in] > fi.instrIx[end] {
							continue
						}
						bad = fmt.Sprintf("%s at %s", w.what, c.pos(w.in.Pos()))
						break
					}
				}
				pos := r.Pos()
				if pos == token.NoPos {
					pos = fn.Pos()
				}
				c.check(bad == "", key, pos, "nothing of the receiver is written on the way to this return",
					fmt.Sprintf("the receiver is changed on the way to a return that means \"nothing happened\" (%s): the caller goes on as if the call had not been made — after a refused Reset the parser emits data twice or at a wrong offset; work in front of the emptiness test runs on a buffer that may never have been allocated", bad))
			}
		}
	}
}

// ---------------------------------------------------------------- R-RESET-INSTALL
//
// ParserBuffer.Reset(data) is the one place where a caller's bytes become the buffer without passing Write. What
// the margin rule (R-MARGIN) and the cover rule (R-RESET-COVER) do not say: that the bytes are actually there
// afterwards, and that only an oversize slice is refused. Decided:
//
//  :refuse-exact  at the origin of Reset's error the branch conditions contradict len(data) ≤ BufferSize
//                 (a slice that fills the buffer exactly is not oversize);
//  :installed#n   every store to Data that can be the last one before a nil return stores either the parameter
//                 itself, or a slice whose length is proved equal to len(data) where it is stored and which is
//                 then filled by copy(Data, data) on every way to the return — unless that length is proved to be
//                 0 there (nothing to copy).

func init() {
	reg(&Rule{ID: "R-RESET-INSTALL", Min: 4,
		Doc: "ParserBuffer.Reset refuses only len(data) > BufferSize, and on success Data is the caller's slice itself or a slice of the same length filled by copy(Data, data) on every way to the return",
		Run: ruleResetInstall})
}

func ruleResetInstall(c *Ctx) {
	pb := c.namedType(c.lz, "ParserBuffer")
	if pb == nil {
		c.fail("lz.ParserBuffer", token.NoPos, "type not found")
		return
	}
	fn := c.method(pb, "Reset")
	if fn == nil || len(fn.Params) != 2 || !isByteSlice(fn.Params[1].Type()) {
		c.fail("lz.(*ParserBuffer).Reset", token.NoPos, "method Reset(data []byte) not found")
		return
	}
	fi := c.info(fn)
	fi.computeWriters()
	data := fn.Params[1]
	name := fnName(fn)
	// refusal
	nE := 0
	for _, b := range fn.Blocks {
		r, ok := b.Instrs[len(b.Instrs)-1].(*ssa.Return)
		if !ok || len(r.Results) == 0 {
			continue
		}
		e := r.Results[len(r.Results)-1]
		for _, lf := range mergeLeaves(e) {
			if k, isK := lf.V.(*ssa.Const); isK && k.Value == nil {
				continue
			}
			from := b
			if lf.Pred != nil {
				from = lf.Pred
			}
			nE++
			okR := false
			for _, lb := range fn.Blocks {
				for _, lin := range lb.Instrs {
					ld, isLd := lin.(*ssa.UnOp)
					if !isLd || ld.Op != token.MUL {
						continue
					}
					if p, okp := recvPath(fn, ld.X); okp && lastField(p) == "BufferSize" {
						for _, w := range fi.flagWays(from) {
							if fi.refute(w, []Fact{{fi.lenOf(data).sub(fi.lin(ld)), LE}}, 0) {
								okR = true
							} else {
								okR = false
								break
							}
						}
					}
				}
			}
			c.check(okR, fmt.Sprintf("%s:refuse-exact#%d", name, nE), r.Pos(), "refused only when len(data) > BufferSize",
				"Reset can refuse a slice that is not larger than BufferSize (the conditions of this return do not contradict len(data) ≤ BufferSize): a caller that hands over exactly BufferSize bytes gets an error the documentation does not know")
		}
	}
	if nE == 0 {
		c.fail(name+":refuse-exact", fn.Pos(), "no error return found")
	}
	// installation
	var stores []*ssa.Store
	for _, b := range fn.Blocks {
		for _, in := range b.Instrs {
			if st, ok := in.(*ssa.Store); ok {
				if p, okp := recvPath(fn, st.Addr); okp && p == "Data" {
					stores = append(stores, st)
				}
			}
		}
	}
	var copies []*ssa.Call
	for _, b := range fn.Blocks {
		for _, in := range b.Instrs {
			if call := isBuiltinCall(in, "copy"); call != nil && call.Call.Args[1] == ssa.Value(data) {
				if f := loadedField(call.Call.Args[0]); f != nil && f.Name() == "Data" {
					copies = append(copies, call)
				}
			}
		}
	}
	var nilRets []*ssa.BasicBlock
	for _, b := range fn.Blocks {
		if r, ok := b.Instrs[len(b.Instrs)-1].(*ssa.Return); ok && len(r.Results) > 0 {
			for _, lf := range mergeLeaves(r.Results[len(r.Results)-1]) {
				if k, isK := lf.V.(*ssa.Const); isK && k.Value == nil {
					nilRets = append(nilRets, b)
				}
			}
		}
	}
	n := 0
	for _, st := range stores {
		// can st be the last store to Data before a nil return?
		last := false
		for _, rb := range nilRets {
			end := rb.Instrs[len(rb.Instrs)-1]
			if !(st.Block() == rb || fi.instrReaches(st, end)) {
				continue
			}
			var others []ssa.Instruction
			for _, o := range stores {
				if o != st {
					others = append(others, o)
				}
			}
			// some way from st to the return without another store
			avoidB := map[*ssa.BasicBlock]bool{}
			laterSame := false
			for _, o := range others {
				if o.Block() == st.Block() {
					if fi.instrIx[o] > fi.instrIx[st] {
						laterSame = true
					}
					continue
				}
				avoidB[o.Block()] = true
			}
			if laterSame {
				continue
			}
			if st.Block() == rb {
				last = true
				continue
			}
			seenB := map[*ssa.BasicBlock]bool{}
			stack := append([]*ssa.BasicBlock{}, st.Block().Succs...)
			for len(stack) > 0 {
				x := stack[len(stack)-1]
				stack = stack[:len(stack)-1]
				if seenB[x] || avoidB[x] {
					continue
				}
				seenB[x] = true
				if x == rb {
					last = true
					break
				}
				stack = append(stack, x.Succs...)
			}
		}
		if !last {
			continue
		}
		n++
		key := fmt.Sprintf("%s:installed#%d", name, n)
		if st.Val == ssa.Value(data) {
			c.ok(key, st.Pos(), "Data is the caller's slice itself")
			continue
		}
		// append(x[:0], data...): the caller's bytes appended to an empty slice
		if vi, isI := st.Val.(ssa.Instruction); isI {
			if ap := isBuiltinCall(vi, "append"); ap != nil && len(ap.Call.Args) == 2 && ap.Call.Args[1] == ssa.Value(data) {
				if fi.proveLE0(fi.lenOf(ap.Call.Args[0]), fi.condsAt(st.Block()), nil, map[string]bool{}, 0) {
					c.ok(key, st.Pos(), "Data is the caller's bytes appended to an empty slice")
					continue
				}
			}
		}
		l := fi.lenOf(st.Val)
		conds := fi.condsAt(st.Block())
		sameLen := fi.proveLE0(l.sub(fi.lenOf(data)), conds, nil, map[string]bool{}, 0) && fi.proveLE0(fi.lenOf(data).sub(l), conds, nil, map[string]bool{}, 0)
		if !sameLen {
			c.fail(key, st.Pos(), "the slice installed as Data here (length %s) is not proved to be as long as data under the conditions of this store: after a successful Reset(data) the buffer does not hold the caller's bytes", l)
			continue
		}
		empty := fi.proveLE0(fi.lenOf(data), conds, nil, map[string]bool{}, 0)
		if empty {
			c.ok(key, st.Pos(), "len(data) = 0 here: nothing to copy")
			continue
		}
		// a copy(Data, data) behind st on every way to a nil return
		filled := true
		for _, rb := range nilRets {
			end := rb.Instrs[len(rb.Instrs)-1]
			if !(st.Block() == rb || fi.instrReaches(st, end)) {
				continue
			}
			avoid := map[*ssa.BasicBlock]bool{}
			sameBlock := false
			for _, cp := range copies {
				if cp.Block() == st.Block() && fi.instrIx[cp] > fi.instrIx[st] {
					sameBlock = true
				}
				var others []ssa.Instruction
				for _, o := range stores {
					if o != st {
						others = append(others, o)
					}
				}
				if cp.Block() != st.Block() && fi.instrReaches(st, cp) && !fi.writerBetween(st, cp, others) {
					avoid[cp.Block()] = true
				}
			}
			if sameBlock {
				continue
			}
			// reach rb from st.Block() avoiding the copy blocks?
			seenB := map[*ssa.BasicBlock]bool{}
			stack := []*ssa.BasicBlock{}
			for _, sc := range st.Block().Succs {
				stack = append(stack, sc)
			}
			if st.Block() == rb {
				filled = false
			}
			for len(stack) > 0 {
				x := stack[len(stack)-1]
				stack = stack[:len(stack)-1]
				if seenB[x] || avoid[x] {
					continue
				}
				seenB[x] = true
				if x == rb {
					filled = false
					break
				}
				stack = append(stack, x.Succs...)
			}
		}
		c.check(filled, key, st.Pos(), "a fresh slice of len(data) bytes, filled by copy(Data, data) on every way to the return",
			"a slice of len(data) bytes is installed as Data but not filled with the caller's bytes on every way to the successful return (no copy(Data, data) behind the store): the parser works on whatever the array held before")
	}
	if n == 0 {
		c.fail(name+":installed", fn.Pos(), "no store to Data that reaches a successful return found")
	}
}

// ---------------------------------------------------------------- R-ACCESS-EXACT
//
// R-INDEXGUARD makes PeekAt/ByteAt/ReadAt safe; C15 also fixes which answer each offset gets. With
// i = off − Off: an offset inside the data (0 ≤ i < len(Data)) is served; outside it the answer is
// ErrOutOfBuffer; ErrEndOfBuffer is for a read that starts inside and runs past the end, and for ByteAt exactly at
// the end. Decided per origin of the two errors in the accessor methods of ParserBuffer (those that take an int64
// offset): the branch conditions contradict every situation in which the other answer is due —
//   ErrOutOfBuffer: contradicts 0 ≤ i ≤ len−1 (and, where the method also knows ErrEndOfBuffer for a single
//                   byte, i = len);
//   ErrEndOfBuffer: in a method with a count parameter n it contradicts i + n ≤ len (the read fits), i ≥ len and
//                   i ≤ −1 (it starts outside); in a single-byte method it contradicts i ≤ len−1 and i ≥ len+1.

func init() {
	reg(&Rule{ID: "R-ACCESS-EXACT", Min: 4,
		Doc: "the accessors of ParserBuffer answer ErrOutOfBuffer only for offsets outside the retained data and ErrEndOfBuffer only for a read that starts inside and runs past the end (ByteAt: exactly at the end): at each origin of either error the branch conditions contradict every situation in which the other answer, or success, is due",
		Run: ruleAccessExact})
}

func ruleAccessExact(c *Ctx) {
	pb := c.namedType(c.lz, "ParserBuffer")
	if pb == nil {
		c.fail("lz.ParserBuffer", token.NoPos, "type not found")
		return
	}
	fns := c.methodsOf(pb)
	sort.Slice(fns, func(i, j int) bool { return fns[i].Name() < fns[j].Name() })
	for _, fn := range fns {
		if fn.Blocks == nil {
			continue
		}
		// the offset parameter (int64) and an optional count parameter (int)
		var off, cnt *ssa.Parameter
		for _, p := range fn.Params[1:] {
			if bt, ok := p.Type().Underlying().(*types.Basic); ok {
				switch bt.Kind() {
				case types.Int64:
					off = p
				case types.Int:
					cnt = p
				}
			}
		}
		if off == nil {
			continue
		}
		fi := c.info(fn)
		// i = off − Off and len(Data), from the entry loads
		var offF, lenD []Lin
		for _, b := range fn.Blocks {
			for _, in := range b.Instrs {
				ld, ok := in.(*ssa.UnOp)
				if !ok || ld.Op != token.MUL || fi.version(ld) != "" {
					continue
				}
				p, okp := recvPath(fn, ld.X)
				if !okp {
					continue
				}
				switch lastField(p) {
				case "Off":
					offF = appendLin(offF, fi.lin(ld))
				case "Data":
					lenD = appendLin(lenD, fi.lenOf(ld))
				}
			}
		}
		knowsEnd := false
		for _, b := range fn.Blocks {
			for _, in := range b.Instrs {
				if u, ok := in.(*ssa.UnOp); ok && errGlobalName(u) == "ErrEndOfBuffer" {
					knowsEnd = true
				}
			}
		}
		n := 0
		for _, b := range fn.Blocks {
			for _, in := range b.Instrs {
				u, ok := in.(*ssa.UnOp)
				if !ok {
					continue
				}
				label := errGlobalName(u)
				if label != "ErrOutOfBuffer" && label != "ErrEndOfBuffer" {
					continue
				}
				n++
				key := fmt.Sprintf("%s:%s#%d", fnName(fn), label, n)
				ways := fi.flagWays(b)
				refAll := func(h []Fact) bool {
					for _, w := range ways {
						if !fi.refute(w, h, 0) {
							return false
						}
					}
					return len(ways) > 0
				}
				okX := false
				for _, o := range offF {
					for _, l := range lenD {
						i := fi.lin(off).sub(o)
						inside := []Fact{{i.scale(-1), LE}, {i.sub(l).addc(1), LE}}
						var good bool
						switch {
						case label == "ErrOutOfBuffer":
							good = refAll(inside)
							if good && knowsEnd && cnt == nil {
								good = refAll([]Fact{{i.sub(l), EQ}})
							}
						case cnt != nil:
							good = refAll(append(append([]Fact{}, inside...), Fact{i.add(fi.lin(cnt)).sub(l), LE})) &&
								refAll([]Fact{{l.sub(i), LE}}) && refAll([]Fact{{i.addc(1), LE}})
						default:
							good = refAll([]Fact{{i.sub(l).addc(1), LE}}) && refAll([]Fact{{l.sub(i).addc(1), LE}})
						}
						if good {
							okX = true
						}
					}
				}
				c.check(okX, key, u.Pos(), label+" only where C15 asks for it",
					fmt.Sprintf("%s can be answered for an offset that is due another answer (with i = off − Off the conditions of this exit do not exclude a served offset 0 ≤ i < len(Data), resp. a read that fits or starts outside, resp. a position other than the end): a comparison that is one step too wide turns a retained byte into \"out of buffer\" or an exact fit into \"end of buffer\"", label))
			}
		}
	}
}

// ---------------------------------------------------------------- R-DEFAULT-WINDOW
//
// Verify accepts WindowSize = 0 (the range test is 0 ≤ WindowSize), and the parsers and the decoder are correct for
// it in the letter: with a window of nothing no match is ever found and every match is rejected. That the run clause
// of C19, the longest-match clause of C12 and the acceptance clause of C07 mean anything for a configuration left at
// its zero value rests on SetDefaults replacing a zero WindowSize by a positive one. Decided for every SetDefaults
// whose receiver has an integer field WindowSize of its own: no way from the entry to a return takes the zero side
// of every test of that field (or meets no test) without passing a store of a value proved ≥ 1 to it.

func init() {
	reg(&Rule{ID: "R-DEFAULT-WINDOW", Min: 2,
		Doc: "SetDefaults never returns with WindowSize = 0: on every way on which the field may still be zero a value proved ≥ 1 is stored to it (BufConfig and DecoderConfig; the parsers' configurations complete their buffer part through BufConfig.SetDefaults)",
		Run: ruleDefaultWindow})
}

func ruleDefaultWindow(c *Ctx) {
	n := 0
	for _, fn := range c.setDefaultsFuncs() {
		if fn.Blocks == nil || fn.Signature.Recv() == nil {
			continue
		}
		rt := fn.Signature.Recv().Type()
		if pt, ok := rt.(*types.Pointer); ok {
			rt = pt.Elem()
		}
		st, ok := rt.Underlying().(*types.Struct)
		if !ok {
			continue
		}
		var wf *types.Var
		for i := 0; i < st.NumFields(); i++ {
			if st.Field(i).Name() == "WindowSize" && !st.Field(i).Embedded() {
				wf = st.Field(i)
			}
		}
		if wf == nil {
			continue
		}
		// a configuration that completes its buffer part through the reflective helpers and BufConfig.SetDefaults
		// never names the field itself: it is covered by BufConfig's obligation, R-INIT-ORDER and covers-BufConfig
		direct := false
		for _, b := range fn.Blocks {
			for _, in := range b.Instrs {
				if fa, ok := in.(*ssa.FieldAddr); ok && fieldOfAddr(fa) == wf {
					direct = true
				}
			}
		}
		if !direct && c.reachable(fn)[c.method(c.namedType(c.lz, "BufConfig"), "SetDefaults")] {
			continue
		}
		n++
		fi := c.info(fn)
		key := fnName(fn) + ":window-set"
		isW := func(addr ssa.Value) bool { return fieldOfAddr(addr) == wf }
		seen := map[*ssa.BasicBlock]bool{}
		stack := []*ssa.BasicBlock{fn.Blocks[0]}
		bad := ""
		for len(stack) > 0 && bad == "" {
			b := stack[len(stack)-1]
			stack = stack[:len(stack)-1]
			if seen[b] {
				continue
			}
			seen[b] = true
			set := false
			for _, in := range b.Instrs {
				if s, ok := in.(*ssa.Store); ok && isW(s.Addr) {
					if k, isK := constInt(s.Val); (isK && k >= 1) || fi.proveAt(linConst(1).sub(fi.lin(s.Val)), b, nil) {
						set = true
					}
				}
			}
			if set {
				continue
			}
			last := b.Instrs[len(b.Instrs)-1]
			if _, isRet := last.(*ssa.Return); isRet {
				bad = "block " + fmt.Sprint(b.Index)
				if p := c.pos(last.Pos()); p != "" {
					bad = p
				}
				continue
			}
			succs := b.Succs
			if iff, ok := last.(*ssa.If); ok {
				u := unNot(Cond{iff.Cond, true})
				if bo, isBo := u.V.(*ssa.BinOp); isBo && (bo.Op == token.EQL || bo.Op == token.NEQ) {
					var other ssa.Value
					if isConstZero(bo.Y) {
						other = bo.X
					} else if isConstZero(bo.X) {
						other = bo.Y
					}
					if ld, isLd := other.(*ssa.UnOp); isLd && ld.Op == token.MUL && isW(ld.X) {
						zeroOnTrue := (bo.Op == token.EQL) == u.True
						if zeroOnTrue {
							succs = b.Succs[:1]
						} else {
							succs = b.Succs[1:]
						}
					}
				}
			}
			stack = append(stack, succs...)
		}
		c.check(bad == "", key, fn.Pos(), "a zero WindowSize is replaced by a value ≥ 1 on every way through SetDefaults",
			fmt.Sprintf("SetDefaults can return (at %s) with WindowSize still 0: Verify accepts that value, and a parser or decoder with a window of nothing finds and accepts no match at all — a run of one byte stays literals (C19), valid matches are refused (C07)", bad))
	}
	if n == 0 {
		c.fail("SetDefaults:WindowSize", token.NoPos, "no SetDefaults on a configuration with a WindowSize field of its own found")
	}
}
