package main

import (
	"fmt"
	"go/token"
	"go/types"
	"os"
	"path/filepath"
	"sort"
	"strings"

	"golang.org/x/tools/go/packages"
	"golang.org/x/tools/go/ssa"
	"golang.org/x/tools/go/ssa/ssautil"
)

// Obligation is one decided rule instance.
type Obligation struct {
	Rule      string `json:"rule"`
	Construct string `json:"construct"` // stable key: function + site role, never a line number
	Pos       string `json:"pos"`       // file:line for the report
	Status    string `json:"status"`    // ok | fail | assumed | known | info
	Detail    string `json:"detail"`
	Arch      string `json:"arch,omitempty"`
}

// Rule is one named structural rule.
type Rule struct {
	ID  string
	Doc string
	Min int // minimum number of obligations that must be found (vacuity guard)
	Run func(*Ctx)
}

// Property binds a property id to its rules and its evidence text.
type Property struct {
	Title       string
	Rules       []string
	Decided     string
	NotDecided  string
	Assumptions []string
}

var rules = map[string]*Rule{}
var properties = map[string]*Property{}

func reg(r *Rule) { rules[r.ID] = r }

// Ctx holds the loaded program.
type Ctx struct {
	arch   string
	root   string
	fset   *token.FileSet
	pkgs   []*packages.Package
	prog   *ssa.Program
	lz     *ssa.Package
	suffix *ssa.Package
	lzT    *types.Package

	nFuncs    int
	callSites int

	cur         string
	obs         []Obligation
	assumptions []string

	fi map[*ssa.Function]*FuncInfo

	allFuncs   []*ssa.Function // source functions of lz and suffix (incl. anonymous)
	eff        map[*ssa.Function]*Effects
	parserList []*Parser
	nnDepth    int
	minLenMemo map[*FuncInfo][]ssa.Value
	mustMemo   map[*ssa.Function]map[string]bool
	lenPres    map[[2]any]bool
	lenRes     map[*ssa.Function]int
	fieldSums  map[*ssa.Function]*fieldSumT
	drainOK    *bool
	drainWhy   string
	nnMemo     map[ssa.Value]bool
	aliases    map[*types.Var]string
	role       *roleInfo
}

const lzPath = "github.com/ulikunitz/lz"

// load type-checks /repo and builds SSA.
func load(repo, arch string, tests bool, overlay ...map[string][]byte) (*Ctx, error) {
	env := append(os.Environ(),
		"GOFLAGS=-mod=mod", "GOPROXY=off", "GOSUMDB=off", "GOTOOLCHAIN=local",
		"GOWORK=off", "GOOS=linux", "GOARCH="+arch, "CGO_ENABLED=0")
	cfg := &packages.Config{
		Mode:  packages.LoadAllSyntax,
		Dir:   repo,
		Env:   env,
		Tests: tests,
	}
	if len(overlay) > 0 && len(overlay[0]) > 0 {
		cfg.Overlay = overlay[0]
	}
	pkgs, err := packages.Load(cfg, "./...")
	if err != nil {
		return nil, err
	}
	if len(pkgs) == 0 {
		return nil, fmt.Errorf("no packages loaded")
	}
	var errs []string
	packages.Visit(pkgs, nil, func(p *packages.Package) {
		if !strings.HasPrefix(p.PkgPath, lzPath) {
			return
		}
		for _, e := range p.Errors {
			errs = append(errs, e.Error())
		}
	})
	if len(errs) > 0 {
		return nil, fmt.Errorf("type/load errors: %s", strings.Join(errs, "; "))
	}
	prog, _ := ssautil.AllPackages(pkgs, ssa.InstantiateGenerics)
	prog.Build()
	ctx := &Ctx{arch: arch, root: repo, pkgs: pkgs, prog: prog, fi: map[*ssa.Function]*FuncInfo{}}
	for _, p := range pkgs {
		ctx.fset = p.Fset
		sp := prog.Package(p.Types)
		switch p.PkgPath {
		case lzPath:
			ctx.lz = sp
			ctx.lzT = p.Types
		case lzPath + "/suffix":
			ctx.suffix = sp
		}
	}
	if ctx.lz == nil || ctx.suffix == nil {
		return nil, fmt.Errorf("expected packages %s and %s/suffix, loaded %d packages", lzPath, lzPath, len(pkgs))
	}
	// any build-constrained file would make the single-configuration analysis incomplete
	for _, p := range pkgs {
		if len(p.IgnoredFiles) > 0 {
			var ig []string
			for _, f := range p.IgnoredFiles {
				if strings.HasSuffix(f, ".go") && !strings.HasSuffix(f, "_test.go") {
					ig = append(ig, filepath.Base(f))
				}
			}
			if len(ig) > 0 {
				return nil, fmt.Errorf("package %s has build-constrained files %v that this build does not cover", p.PkgPath, ig)
			}
		}
	}
	for fn := range ssautil.AllFunctions(prog) {
		if fn.Pkg == ctx.lz || fn.Pkg == ctx.suffix {
			if fn.Blocks != nil && fn.Synthetic == "" {
				ctx.allFuncs = append(ctx.allFuncs, fn)
			}
		}
	}
	sort.Slice(ctx.allFuncs, func(i, j int) bool { return ctx.allFuncs[i].String() < ctx.allFuncs[j].String() })
	ctx.nFuncs = len(ctx.allFuncs)
	for _, fn := range ctx.allFuncs {
		for _, b := range fn.Blocks {
			for _, in := range b.Instrs {
				if _, ok := in.(ssa.CallInstruction); ok {
					ctx.callSites++
				}
			}
		}
	}
	return ctx, nil
}

// ---------------------------------------------------------------- reporting

func (c *Ctx) pos(p token.Pos) string {
	if !p.IsValid() {
		return ""
	}
	ps := c.fset.Position(p)
	rel := ps.Filename
	if r, err := filepath.Rel(c.root, rel); err == nil && !strings.HasPrefix(r, "..") {
		rel = r
	} else {
		rel = filepath.Base(rel)
	}
	return fmt.Sprintf("%s:%d", rel, ps.Line)
}

func (c *Ctx) add(status, construct string, p token.Pos, format string, args ...any) {
	c.obs = append(c.obs, Obligation{Rule: c.cur, Construct: construct, Pos: c.pos(p), Status: status, Detail: fmt.Sprintf(format, args...)})
}
func (c *Ctx) ok(construct string, p token.Pos, format string, args ...any) {
	c.add("ok", construct, p, format, args...)
}
func (c *Ctx) fail(construct string, p token.Pos, format string, args ...any) {
	c.add("fail", construct, p, format, args...)
}
func (c *Ctx) assumed(construct string, p token.Pos, format string, args ...any) {
	c.add("assumed", construct, p, format, args...)
}
func (c *Ctx) check(cond bool, construct string, p token.Pos, okmsg, failmsg string) bool {
	if cond {
		c.ok(construct, p, "%s", okmsg)
	} else {
		c.fail(construct, p, "%s", failmsg)
	}
	return cond
}
func (c *Ctx) assume(s string) { c.assumptions = append(c.assumptions, s) }

// ---------------------------------------------------------------- lookup

// fnName gives a stable, package-qualified short name: lz.(*hashParser).Parse
func fnName(fn *ssa.Function) string {
	if fn == nil {
		return "<nil>"
	}
	s := fn.String()
	s = strings.ReplaceAll(s, lzPath+"/suffix.", "suffix.")
	s = strings.ReplaceAll(s, lzPath+".", "lz.")
	s = strings.ReplaceAll(s, "(*lz.", "lz.(*")
	s = strings.ReplaceAll(s, "(lz.", "lz.(")
	s = strings.ReplaceAll(s, "(*suffix.", "suffix.(*")
	s = strings.ReplaceAll(s, "(suffix.", "suffix.(")
	return s
}

// method returns the SSA function of method name on *T or T, following
// promotion through embedded fields (resolves to the declaring function).
func (c *Ctx) method(T types.Type, name string) *ssa.Function {
	for _, t := range []types.Type{types.NewPointer(T), T} {
		ms := c.prog.MethodSets.MethodSet(t)
		for i := 0; i < ms.Len(); i++ {
			sel := ms.At(i)
			if sel.Obj().Name() == name {
				f := sel.Obj().(*types.Func)
				if fn := c.prog.FuncValue(f); fn != nil {
					return fn
				}
			}
		}
	}
	return nil
}

func (c *Ctx) namedType(pkg *ssa.Package, name string) *types.Named {
	o := pkg.Pkg.Scope().Lookup(name)
	if o == nil {
		return nil
	}
	n, _ := o.Type().(*types.Named)
	return n
}

func (c *Ctx) lzFunc(name string) *ssa.Function { return c.lz.Func(name) }

func (c *Ctx) global(pkg *ssa.Package, name string) *ssa.Global {
	if g, ok := pkg.Members[name].(*ssa.Global); ok {
		return g
	}
	return nil
}

// Parser describes one of the concrete parser implementations.
type Parser struct {
	T      *types.Named
	Name   string
	Parse  *ssa.Function
	Reset  *ssa.Function
	Shrink *ssa.Function
	Cfg    *types.Named // config type embedded in the parser
}

// parsers discovers the concrete types of package lz that implement lz.Parser.
func (c *Ctx) parsers() []*Parser {
	if c.parserList != nil {
		return c.parserList
	}
	iface := c.namedType(c.lz, "Parser")
	if iface == nil {
		return nil
	}
	it := iface.Underlying().(*types.Interface)
	cfgIface := c.namedType(c.lz, "ParserConfig")
	var out []*Parser
	scope := c.lz.Pkg.Scope()
	names := scope.Names()
	sort.Strings(names)
	for _, n := range names {
		tn, ok := scope.Lookup(n).(*types.TypeName)
		if !ok {
			continue
		}
		named, ok := tn.Type().(*types.Named)
		if !ok {
			continue
		}
		st, ok := named.Underlying().(*types.Struct)
		if !ok {
			continue
		}
		if !types.Implements(types.NewPointer(named), it) {
			continue
		}
		p := &Parser{T: named, Name: n}
		p.Parse = c.method(named, "Parse")
		p.Reset = c.method(named, "Reset")
		p.Shrink = c.method(named, "Shrink")
		if cfgIface != nil {
			for i := 0; i < st.NumFields(); i++ {
				f := st.Field(i)
				if fn, ok := f.Type().(*types.Named); ok && f.Embedded() {
					if types.Implements(types.NewPointer(fn), cfgIface.Underlying().(*types.Interface)) {
						p.Cfg = fn
					}
				}
			}
		}
		out = append(out, p)
	}
	c.parserList = out
	return out
}

// configTypes discovers the concrete config types implementing lz.ParserConfig.
func (c *Ctx) configTypes() []*types.Named {
	cfgIface := c.namedType(c.lz, "ParserConfig")
	if cfgIface == nil {
		return nil
	}
	it := cfgIface.Underlying().(*types.Interface)
	var out []*types.Named
	scope := c.lz.Pkg.Scope()
	names := scope.Names()
	sort.Strings(names)
	for _, n := range names {
		tn, ok := scope.Lookup(n).(*types.TypeName)
		if !ok {
			continue
		}
		named, ok := tn.Type().(*types.Named)
		if !ok {
			continue
		}
		if _, ok := named.Underlying().(*types.Struct); !ok {
			continue
		}
		if types.Implements(types.NewPointer(named), it) {
			// parser types embed their config and inherit its methods: exclude them
			if pi := c.namedType(c.lz, "Parser"); pi != nil && types.Implements(types.NewPointer(named), pi.Underlying().(*types.Interface)) {
				continue
			}
			out = append(out, named)
		}
	}
	return out
}
