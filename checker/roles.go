package main

// Role discovery for unexported pieces (A9): private functions, types and
// fields are found by what they do, never by their names, so that renaming
// them cannot change a verdict.

import (
	"go/token"
	"go/types"
	"sort"
	"strings"

	"golang.org/x/tools/go/ssa"
)

// isEntryType: a hash-table entry type (an all-uint32 struct one of whose fields is re-based on Shrink).
func (c *Ctx) isEntryType(t types.Type) bool { return c.roles().posField[t] != nil }

// posFieldName: the name of t's position field ("" when t is not an entry type).
func (c *Ctx) posFieldName(t types.Type) string {
	if p, ok := t.Underlying().(*types.Pointer); ok {
		t = p.Elem()
	}
	if f := c.roles().posField[t]; f != nil {
		return f.Name()
	}
	return ""
}

// isU32Struct: a struct of package lz all of whose (≥ 2) fields are uint32.
func (c *Ctx) isU32Struct(t types.Type) bool {
	n, ok := t.(*types.Named)
	if !ok || n.Obj().Pkg() != c.lzT {
		return false
	}
	st, ok := n.Underlying().(*types.Struct)
	if !ok || st.NumFields() < 2 {
		return false
	}
	for i := 0; i < st.NumFields(); i++ {
		b, ok := st.Field(i).Type().Underlying().(*types.Basic)
		if !ok || b.Kind() != types.Uint32 {
			return false
		}
	}
	return n.Obj().Name() != "Seq"
}

type inserter struct {
	posParam int
	slice    string // field name of the entry slice stored into
}

type roleInfo struct {
	posField  map[types.Type]*types.Var  // entry type → position field
	rebase    []*ssa.Function            // functions that re-base positions (pos −= δ)
	inserters map[*ssa.Function]inserter // helper that stores an entry whose position is parameter #i
	grow      *ssa.Function
	growT     int // parameter index (in Params) of the requested size
	growData  int // functional form only: parameter holding the data slice (−1 for the method form)
	growBS    int // functional form only: parameter holding BufferSize
	getter    *ssa.Function
	setter    *ssa.Function
	hashInit  *ssa.Function
	done      bool
}

func (c *Ctx) roles() *roleInfo {
	if c.role != nil && c.role.done {
		return c.role
	}
	r := &roleInfo{posField: map[types.Type]*types.Var{}, inserters: map[*ssa.Function]inserter{}}
	c.role = r
	// position field: the entry field that is stored with (itself − something)
	rebaseSet := map[*ssa.Function]bool{}
	for _, fn := range c.allFuncs {
		if fn.Pkg != c.lz {
			continue
		}
		for _, b := range fn.Blocks {
			for _, in := range b.Instrs {
				st, ok := in.(*ssa.Store)
				if !ok {
					continue
				}
				fa, ok := st.Addr.(*ssa.FieldAddr)
				if !ok {
					continue
				}
				pt, ok := fa.X.Type().Underlying().(*types.Pointer)
				if !ok || !c.isU32Struct(pt.Elem()) {
					continue
				}
				bo, ok := st.Val.(*ssa.BinOp)
				if !ok || bo.Op != token.SUB {
					continue
				}
				if p2, f2, isFL := fieldLoad(bo.X); isFL && f2 == fa.Field && types.Identical(p2.Type(), fa.X.Type()) {
					r.posField[pt.Elem()] = derefStruct(fa.X.Type()).Field(fa.Field)
					rebaseSet[fn] = true
				}
			}
		}
	}
	for fn := range rebaseSet {
		r.rebase = append(r.rebase, fn)
	}
	sort.Slice(r.rebase, func(i, j int) bool { return r.rebase[i].String() < r.rebase[j].String() })
	// insert helpers: a function storing an entry into a slice element with the position component = a parameter
	for _, fn := range c.allFuncs {
		if fn.Pkg != c.lz || rebaseSet[fn] {
			continue
		}
		for _, b := range fn.Blocks {
			for _, in := range b.Instrs {
				st, ok := in.(*ssa.Store)
				if !ok || r.posField[st.Val.Type()] == nil {
					continue
				}
				ia, isIA := st.Addr.(*ssa.IndexAddr)
				if !isIA {
					continue
				}
				_, sp, okP := pathStr(ia.X)
				if !okP {
					continue
				}
				pf := r.posField[st.Val.Type()]
				if pf == nil {
					continue
				}
				pv := structComponent(st.Val, pf.Name())
				if par, isPar := stripConv(pv).(*ssa.Parameter); isPar && pv != nil {
					for i, p := range fn.Params {
						if p == par {
							r.inserters[fn] = inserter{i, lastField(sp)}
						}
					}
				}
			}
		}
	}
	// grow: the ParserBuffer method, other than Reset/Init, that stores a freshly made slice to Data
	if pb := c.parserBuf(); pb != nil {
		for _, fn := range c.methodsOf(pb) {
			if fn.Name() == "Reset" || fn.Name() == "Init" {
				continue
			}
			for _, b := range fn.Blocks {
				for _, in := range b.Instrs {
					if st, ok := in.(*ssa.Store); ok {
						if f := fieldOfAddr(st.Addr); f != nil && f.Name() == "Data" {
							if _, isMk := st.Val.(*ssa.MakeSlice); isMk {
								r.grow = fn
							}
						}
					}
				}
			}
		}
	}
	r.growT, r.growData, r.growBS = 1, -1, -1
	if r.grow == nil {
		// functional form: a package-level function returning a freshly made slice, every call of which sits in a
		// ParserBuffer method, takes Data and BufferSize and stores the result to Data
		if pb := c.parserBuf(); pb != nil {
			for _, fn := range c.allFuncs {
				if fn.Pkg != c.lz || fn.Signature.Recv() != nil || fn.Parent() != nil || fn.Signature.Results().Len() != 1 {
					continue
				}
				if _, ok := fn.Signature.Results().At(0).Type().Underlying().(*types.Slice); !ok {
					continue
				}
				hasMk := false
				for _, b := range fn.Blocks {
					for _, in := range b.Instrs {
						if _, ok := in.(*ssa.MakeSlice); ok {
							hasMk = true
						}
					}
				}
				if !hasMk {
					continue
				}
				di, bi, ti, sites, good := -1, -1, -1, 0, true
				for _, caller := range c.allFuncs {
					for _, b := range caller.Blocks {
						for _, in := range b.Instrs {
							call, ok := in.(*ssa.Call)
							if !ok || call.Call.StaticCallee() != fn {
								continue
							}
							sites++
							if !c.isMethodOf(caller, pb) {
								good = false
								continue
							}
							stored := false
							for _, rf := range *call.Referrers() {
								if st, ok := rf.(*ssa.Store); ok && st.Val == ssa.Value(call) {
									if f := fieldOfAddr(st.Addr); f != nil && f.Name() == "Data" {
										stored = true
									}
								}
							}
							if !stored {
								good = false
							}
							for i, a := range call.Call.Args {
								if f := loadedField(a); f != nil && f.Name() == "Data" {
									if di >= 0 && di != i {
										good = false
									}
									di = i
								} else if f != nil && f.Name() == "BufferSize" {
									if bi >= 0 && bi != i {
										good = false
									}
									bi = i
								}
							}
						}
					}
				}
				if !good || sites == 0 || di < 0 || bi < 0 {
					continue
				}
				for i, p := range fn.Params {
					if i != di && i != bi {
						if bt, ok := p.Type().Underlying().(*types.Basic); ok && bt.Info()&types.IsInteger != 0 {
							if ti >= 0 {
								good = false
							}
							ti = i
						}
					}
				}
				if good && ti >= 0 {
					r.grow, r.growT, r.growData, r.growBS = fn, ti, di, bi
				}
			}
		}
	}
	// reflective int getter / setter: f(reflect.Value, string) int calling FieldByName+Int; f(reflect.Value, string, int) calling SetInt
	for _, fn := range c.allFuncs {
		if fn.Pkg != c.lz || fn.Signature.Recv() != nil || fn.Parent() != nil {
			continue
		}
		ps := fn.Signature.Params()
		if ps.Len() < 2 || !isReflectValue(ps.At(0).Type()) {
			continue
		}
		if b, ok := ps.At(1).Type().Underlying().(*types.Basic); !ok || b.Kind() != types.String {
			continue
		}
		callsFBN, callsInt, callsSet := false, false, false
		for _, b := range fn.Blocks {
			for _, in := range b.Instrs {
				if call, ok := in.(*ssa.Call); ok && call.Call.StaticCallee() != nil {
					switch call.Call.StaticCallee().Name() {
					case "FieldByName":
						if len(call.Call.Args) == 2 && call.Call.Args[1] == ssa.Value(fn.Params[1]) {
							callsFBN = true
						}
					case "Int":
						callsInt = true
					case "SetInt":
						callsSet = true
					}
				}
			}
		}
		if callsFBN && callsInt && ps.Len() == 2 {
			r.getter = fn
		}
		if callsFBN && callsSet && ps.Len() == 3 {
			r.setter = fn
		}
	}
	// hash.init: a method (int, int) error of an unexported struct type
	for _, fn := range c.allFuncs {
		if fn.Pkg != c.lz || fn.Signature.Recv() == nil {
			continue
		}
		ps, rs := fn.Signature.Params(), fn.Signature.Results()
		if ps.Len() == 2 && rs.Len() == 1 && isIntType(ps.At(0).Type()) && isIntType(ps.At(1).Type()) && isErrorType(rs.At(0).Type()) {
			for _, b := range fn.Blocks {
				for _, in := range b.Instrs {
					if mk, ok := in.(*ssa.MakeSlice); ok && r.posField[mk.Type().Underlying().(*types.Slice).Elem()] != nil {
						r.hashInit = fn
					}
				}
			}
		}
	}
	r.done = true
	return r
}

func isReflectValue(t types.Type) bool {
	n, ok := t.(*types.Named)
	return ok && n.Obj().Pkg() != nil && n.Obj().Pkg().Path() == "reflect" && n.Obj().Name() == "Value"
}

// tableSlice: v is (a load of) a slice field whose elements are entries; returns its access path.
func (c *Ctx) tableSlice(v ssa.Value) (string, bool) {
	sl, ok := v.Type().Underlying().(*types.Slice)
	if !ok || !c.isEntryType(sl.Elem()) {
		return "", false
	}
	_, p, ok := pathStr(v)
	if !ok {
		return "", false
	}
	return p, true
}

// cfgByRole resolves the unexported partial configuration types by their exported fields:
//
//	hash   — InputLen, HashBits (no BucketSize, no H1)
//	bucket — InputLen, HashBits, BucketSize
//	dh     — H1, H2
func (c *Ctx) cfgByRole(role string) *types.Named {
	scope := c.lz.Pkg.Scope()
	names := scope.Names()
	sort.Strings(names)
	for _, n := range names {
		tn, ok := scope.Lookup(n).(*types.TypeName)
		if !ok || tn.Exported() {
			continue
		}
		nt, ok := tn.Type().(*types.Named)
		if !ok {
			continue
		}
		st, ok := nt.Underlying().(*types.Struct)
		if !ok {
			continue
		}
		has := map[string]bool{}
		for i := 0; i < st.NumFields(); i++ {
			has[st.Field(i).Name()] = true
		}
		if c.method(nt, "Verify") == nil {
			continue
		}
		switch role {
		case "hash":
			if has["InputLen"] && has["HashBits"] && !has["BucketSize"] && !has["H1"] {
				return nt
			}
		case "bucket":
			if has["InputLen"] && has["HashBits"] && has["BucketSize"] {
				return nt
			}
		case "dh":
			if has["H1"] && has["H2"] {
				return nt
			}
		}
	}
	return nil
}

// resolveType: exported type names are looked up directly; the private partial
// configuration types and the hash type through their roles.
func (c *Ctx) resolveType(name string) *types.Named {
	switch name {
	case "hashConfig":
		return c.cfgByRole("hash")
	case "bucketConfig":
		return c.cfgByRole("bucket")
	case "dhConfig":
		return c.cfgByRole("dh")
	case "hash":
		if hi := c.roles().hashInit; hi != nil {
			t := hi.Signature.Recv().Type()
			if p, ok := t.(*types.Pointer); ok {
				t = p.Elem()
			}
			n, _ := t.(*types.Named)
			return n
		}
		return nil
	}
	if strings.ToUpper(name[:1]) == name[:1] {
		return c.namedType(c.lz, name)
	}
	return c.namedType(c.lz, name)
}

// osapFieldNames: the names of the optimizing parser's private edge table
// ([][]edge: the only slice-of-slices field) and of its covered-range start
// (the unexported int field that is assigned the write position W).
func (c *Ctx) osapFieldNames() (edges, start string) {
	o := c.osap()
	if o.err != "" || o.p == nil || o.p.Parse == nil || o.p.Parse.Signature.Recv() == nil {
		return "", ""
	}
	st := derefStruct(o.p.Parse.Signature.Recv().Type())
	if st == nil {
		return "", ""
	}
	own := map[*types.Var]bool{}
	for i := 0; i < st.NumFields(); i++ {
		f := st.Field(i)
		own[f] = true
		if sl, ok := f.Type().Underlying().(*types.Slice); ok {
			if _, ok2 := sl.Elem().Underlying().(*types.Slice); ok2 {
				edges = f.Name()
			}
		}
	}
	for fn := range c.reachable(o.p.Parse) {
		if fn.Pkg != c.lz {
			continue
		}
		for _, b := range fn.Blocks {
			for _, in := range b.Instrs {
				s, ok := in.(*ssa.Store)
				if !ok {
					continue
				}
				f := fieldOfAddr(s.Addr)
				if f == nil || !own[f] || f.Exported() || !isIntType(f.Type()) {
					continue
				}
				if ld, isLd := stripConv(s.Val).(*ssa.UnOp); isLd && ld.Op == token.MUL {
					if wf := fieldOfAddr(ld.X); wf != nil && wf.Name() == "W" {
						start = f.Name()
					}
				}
			}
		}
	}
	return edges, start
}
