package main

// Debug only (-dump @bounds): how many index / slice operations of package lz
// the linear prover can show to be in range. Not a rule.

import (
	"fmt"
	"go/types"
	"sort"

	"golang.org/x/tools/go/ssa"
)

func boundsSurvey(c *Ctx) {
	type row struct {
		fn        string
		tot, prov int
	}
	var rows []row
	T, P := 0, 0
	for _, fn := range c.allFuncs {
		if fn.Pkg != c.lz || fn.Blocks == nil {
			continue
		}
		fi := c.info(fn)
		r := row{fn: fnName(fn)}
		for _, b := range fn.Blocks {
			for _, in := range b.Instrs {
				switch x := in.(type) {
				case *ssa.Slice:
					if _, ok := x.X.Type().Underlying().(*types.Slice); !ok {
						continue
					}
					r.tot++
					ln := fi.lenOf(x.X)
					lo := linConst(0)
					okLo := true
					if x.Low != nil {
						lo = fi.lin(x.Low)
						okLo = c.nonneg(x.Low) || fi.proveCheap(lo.scale(-1), fi.condsAt(b), nil)
					}
					hi := ln
					okHi := true
					if x.High != nil {
						hi = fi.lin(x.High)
						okHi = fi.proveCheap(hi.sub(ln), fi.condsAt(b), nil)
					}
					okOrd := fi.proveCheap(lo.sub(hi), fi.condsAt(b), nil)
					if okLo && okHi && okOrd {
						r.prov++
					} else if *flagVerbose {
						fmt.Printf("  UNPROVEN-SLICE %s %s: [%s:%s] len %s lo=%v hi=%v ord=%v\n", c.pos(x.Pos()), r.fn, lo, hi, ln, okLo, okHi, okOrd)
					}
				case *ssa.IndexAddr:
					var ln Lin
					switch t := x.X.Type().Underlying().(type) {
					case *types.Slice:
						ln = fi.lenOf(x.X)
					case *types.Pointer:
						if a, ok := t.Elem().Underlying().(*types.Array); ok {
							ln = linConst(a.Len())
						} else {
							continue
						}
					default:
						continue
					}
					r.tot++
					idx := fi.lin(x.Index)
					lo := c.nonneg(x.Index) || fi.proveCheap(idx.scale(-1), fi.condsAt(b), nil)
					hi := fi.proveCheap(idx.addc(1).sub(ln), fi.condsAt(b), nil)
					if lo && hi {
						r.prov++
					} else if *flagVerbose {
						fmt.Printf("  UNPROVEN %s %s: idx %s len %s lo=%v hi=%v\n", c.pos(x.Pos()), r.fn, idx, ln, lo, hi)
					}
				}
			}
		}
		if r.tot > 0 {
			rows = append(rows, r)
			T += r.tot
			P += r.prov
		}
	}
	sort.Slice(rows, func(i, j int) bool { return rows[i].fn < rows[j].fn })
	for _, r := range rows {
		fmt.Printf("%-60s %3d / %3d\n", r.fn, r.prov, r.tot)
	}
	fmt.Printf("TOTAL index operations proved in range: %d / %d\n", P, T)
}

// siblingSurvey (debug only, -dump @siblings): for every method name that several types of package lz implement,
// the may-write keys of each implementation, printed side by side with the keys that not all siblings share. A
// discovery aid for sibling disagreements; not a rule.
func siblingSurvey(c *Ctx) {
	byName := map[string][]*ssa.Function{}
	for _, fn := range c.allFuncs {
		if fn.Pkg != c.lz || fn.Signature.Recv() == nil || fn.Parent() != nil || fn.Blocks == nil {
			continue
		}
		byName[fn.Name()] = append(byName[fn.Name()], fn)
	}
	var names []string
	for n, fs := range byName {
		if len(fs) >= 2 {
			names = append(names, n)
		}
	}
	sort.Strings(names)
	for _, n := range names {
		fs := byName[n]
		sort.Slice(fs, func(i, j int) bool { return fs[i].String() < fs[j].String() })
		count := map[string]int{}
		sets := make([]map[string]bool, len(fs))
		for i, fn := range fs {
			sets[i] = map[string]bool{}
			for _, k := range c.mayWrite(fn) {
				// last two path components: type-specific prefixes differ between siblings
				parts := []byte(k)
				_ = parts
				short := k
				if j := lastIndexN(k, '.', 2); j >= 0 {
					short = k[j+1:]
				}
				if !sets[i][short] {
					sets[i][short] = true
					count[short]++
				}
			}
		}
		fmt.Printf("== %s (%d implementations)\n", n, len(fs))
		for i, fn := range fs {
			var odd []string
			for k := range sets[i] {
				if count[k] < len(fs) {
					odd = append(odd, fmt.Sprintf("%s(%d/%d)", k, count[k], len(fs)))
				}
			}
			sort.Strings(odd)
			fmt.Printf("   %-55s %d keys; not shared by all: %v\n", fnName(fn), len(sets[i]), odd)
		}
	}
}

func lastIndexN(s string, ch byte, n int) int {
	for i := len(s) - 1; i >= 0; i-- {
		if s[i] == ch {
			n--
			if n == 0 {
				return i
			}
		}
	}
	return -1
}
