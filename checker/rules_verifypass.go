package main

// R-VERIFY-PASS (C16, C20): a failed component check fails the whole.
//
// Every configuration type verifies its parts by calling their Verify methods (BufConfig, hashConfig,
// dhConfig, bucketConfig), and every init verifies the completed configuration. The clause "NewParser
// succeeds exactly for configurations whose defaults-completed form passes Verify" needs both directions:
// what NewParser refuses, the public Verify refuses too. The constructors verify the parts a second time
// further down (ParserBuffer.Init, hash.init), so a composite Verify that swallows a component's error is
// invisible to every test that only creates parsers — Verify then accepts a configuration NewParser refuses.
//
// Obligation, per call site of a Verify method of package lz inside package lz: on every path from the call
// on which the result is taken to be non-nil, the enclosing function returns a non-nil error (the result
// itself, or a freshly made error), or panics. Path-sensitive only in the tests of that one value against
// nil; every other branch is followed both ways.

import (
	"fmt"
	"go/token"
	"sort"
	"strings"

	"golang.org/x/tools/go/ssa"
)

func init() {
	reg(&Rule{ID: "R-VERIFY-PASS", Min: 20,
		Doc: "at every call of a Verify method of package lz, a non-nil result makes the enclosing function return a non-nil error (or panic) on every path: a composite Verify or an init never swallows the verdict of a part",
		Run: ruleVerifyPass})
}

func ruleVerifyPass(c *Ctx) {
	for _, fn := range c.allFuncs {
		if fn.Pkg != c.lz || fn.Blocks == nil {
			continue
		}
		n := 0
		for _, b := range fn.Blocks {
			for _, in := range b.Instrs {
				call, ok := in.(*ssa.Call)
				if !ok {
					continue
				}
				callee := call.Call.StaticCallee()
				if callee == nil || callee.Pkg != c.lz || callee.Name() != "Verify" || callee.Signature.Recv() == nil {
					continue
				}
				res := callee.Signature.Results()
				if res.Len() != 1 || !isErrorType(res.At(0).Type()) {
					continue
				}
				n++
				key := fmt.Sprintf("%s:%s#%d", fnName(fn), fnName(callee), n)
				bad := verdictLost(fn, call)
				c.check(bad == "", key, call.Pos(),
					"a non-nil result of "+fnName(callee)+" leaves "+fnName(fn)+" as a non-nil error (or a panic) on every path",
					"the error of "+fnName(callee)+" can be lost in "+fnName(fn)+": "+bad+" — the composite accepts what a part refuses (Verify passes for a configuration NewParser refuses, or init goes on with an unverified configuration)")
			}
		}
	}
}

// verdictLost walks the CFG from the call under the hypothesis "the result v is non-nil" and reports the first
// return that may hand out a nil error (or has no error result), "" if there is none.
func verdictLost(fn *ssa.Function, v *ssa.Call) string {
	type state struct {
		b    *ssa.BasicBlock
		from *ssa.BasicBlock
		eq   string
	}
	fset := fn.Prog.Fset
	seen := map[state]bool{}
	var bad string
	// nonNil: the value is v itself (through φs resolved along the edge taken), or a value that is never nil
	var nonNil func(x ssa.Value, at, from *ssa.BasicBlock, depth int) bool
	nonNil = func(x ssa.Value, at, from *ssa.BasicBlock, depth int) bool {
		if depth > 6 {
			return false
		}
		switch y := x.(type) {
		case *ssa.Call:
			if y == v {
				return true
			}
			if cal := y.Call.StaticCallee(); cal != nil && cal.Pkg != nil {
				p := cal.Pkg.Pkg.Path()
				if (p == "fmt" && cal.Name() == "Errorf") || (p == "errors" && cal.Name() == "New") {
					return true
				}
			}
		case *ssa.MakeInterface:
			return true
		case *ssa.Phi:
			if y.Block() == at && from != nil {
				for i, p := range at.Preds {
					if p == from {
						return nonNil(y.Edges[i], nil, nil, depth+1)
					}
				}
				return false
			}
			// a φ of an earlier block: every edge must be non-nil
			for _, e := range y.Edges {
				if !nonNil(e, nil, nil, depth+1) {
					return false
				}
			}
			return len(y.Edges) > 0
		}
		return false
	}
	// eq: the SSA values that carry v on the path taken (v itself and the φs it has flowed into)
	var walk func(b, from *ssa.BasicBlock, eq map[ssa.Value]bool, start bool)
	walk = func(b, from *ssa.BasicBlock, eq map[ssa.Value]bool, start bool) {
		if bad != "" {
			return
		}
		if !start {
			eq2 := map[ssa.Value]bool{}
			for x := range eq {
				if ph, ok := x.(*ssa.Phi); ok && ph.Block() == b {
					continue // re-evaluated below for the edge taken
				}
				eq2[x] = true
			}
			for _, in := range b.Instrs {
				ph, ok := in.(*ssa.Phi)
				if !ok {
					break
				}
				for i, p := range b.Preds {
					if p == from && eq[ph.Edges[i]] {
						eq2[ph] = true
					}
				}
			}
			eq = eq2
			var names []string
			for x := range eq {
				names = append(names, x.Name())
			}
			sort.Strings(names)
			st := state{b, from, strings.Join(names, ",")}
			if seen[st] {
				return
			}
			seen[st] = true
		}
		isV := func(x ssa.Value) bool { return eq[x] }
		last := b.Instrs[len(b.Instrs)-1]
		switch t := last.(type) {
		case *ssa.Return:
			if len(t.Results) == 0 {
				bad = "the return at " + fset.Position(t.Pos()).String() + " has no error result"
				return
			}
			r := t.Results[len(t.Results)-1]
			if !isErrorType(r.Type()) {
				bad = "the return at " + fset.Position(t.Pos()).String() + " has no error result"
				return
			}
			if !isV(r) && !nonNil(r, b, from, 0) {
				bad = "the return at " + fset.Position(t.Pos()).String() + " hands out " + r.String() + ", which is not known to be non-nil there"
			}
		case *ssa.Panic:
			return
		case *ssa.If:
			if bo, ok := t.Cond.(*ssa.BinOp); ok && (bo.Op == token.NEQ || bo.Op == token.EQL) {
				var other ssa.Value
				if isV(bo.X) {
					other = bo.Y
				} else if isV(bo.Y) {
					other = bo.X
				}
				if k, ok := other.(*ssa.Const); ok && k.IsNil() {
					// v != nil is true under the hypothesis
					if bo.Op == token.NEQ {
						walk(b.Succs[0], b, eq, false)
					} else {
						walk(b.Succs[1], b, eq, false)
					}
					return
				}
			}
			walk(b.Succs[0], b, eq, false)
			walk(b.Succs[1], b, eq, false)
		default:
			for _, s := range b.Succs {
				walk(s, b, eq, false)
			}
		}
	}
	walk(v.Block(), nil, map[ssa.Value]bool{v: true}, true)
	return bad
}
