package main

// R-BLOCKCLIP (matches never pass the block end), R-HASHRANGE (only complete
// n-grams of real data are hashed), R-OSAP-INDEX (suffix positions are
// mapped to edge slots with the right offset).

import (
	"fmt"
	"go/token"
	"go/types"
	"strings"

	"golang.org/x/tools/go/ssa"
)

func init() {
	reg(&Rule{ID: "R-BLOCKCLIP", Min: 8,
		Doc: "at every emission site H + MatchLen ≤ len(p) for the block-clipped p: first-word count clamped by len(p)−i, 8-byte extension bounded by the remaining slice (invariant k + len(q) non-increasing), tail clamped by len(q)",
		Run: ruleBlockClip})
	reg(&Rule{ID: "R-DP-STEP", Min: 3,
		Doc: "every record stored into the optimizing parser's DP table carries a step length 1 ≤ m ≤ its index (and the index lies inside the table): the backtrack loop i −= d[i].m, which R-LOOPS-PARSER accepts as terminating on exactly this premise, moves towards 0 and never below it",
		Run: func(c *Ctx) {
			for _, e := range c.emits() {
				if isFieldFlow(e.MatchLen) {
					c.dpBounds(e)
				}
			}
		}})
	reg(&Rule{ID: "R-HASHRANGE", Min: 12,
		Doc: "every position stored into a hash table satisfies pos + inputLen ≤ len(Data): margin bytes beyond the data (stale after reuse) never enter a hash",
		Run: ruleHashRange})
	reg(&Rule{ID: "R-OSAP-INDEX", Min: 1,
		Doc: "OSAP maps a suffix position i of the sorted text t = data[L:] to edge slot i + L − start",
		Run: ruleOsapIndex})
}

// byteCompareBound: facts r ≤ len(a), r ≤ len(b) for calls of the package's
// byte-compare helpers (func(p, q []byte) int). Trusted summary (assumption).
func (fi *FuncInfo) byteCompareFacts() []Fact {
	var out []Fact
	for _, b := range fi.fn.Blocks {
		for _, in := range b.Instrs {
			call, ok := in.(*ssa.Call)
			if !ok {
				continue
			}
			callee := call.Call.StaticCallee()
			if callee == nil || callee.Pkg == nil || !strings.HasPrefix(callee.Pkg.Pkg.Path(), lzPath) {
				continue
			}
			sig := callee.Signature
			if sig.Params().Len() != 2 || sig.Results().Len() != 1 || !isIntType(sig.Results().At(0).Type()) {
				continue
			}
			if !isByteSlice(sig.Params().At(0).Type()) || !isByteSlice(sig.Params().At(1).Type()) {
				continue
			}
			r := fi.lin(call)
			out = append(out, Fact{r.sub(fi.lenOf(call.Call.Args[0])), LE}, Fact{r.sub(fi.lenOf(call.Call.Args[1])), LE})
		}
	}
	return out
}

func isByteSlice(t types.Type) bool {
	sl, ok := t.Underlying().(*types.Slice)
	if !ok {
		return false
	}
	b, ok := sl.Elem().Underlying().(*types.Basic)
	return ok && b.Kind() == types.Uint8
}

// loopLemmas: for every loop header with an int phi K and a []byte phi Q,
// try to prove the invariant  K + len(Q) ≤ K₀ + len(Q₀)  (entry values).
// Proven invariants are returned as facts.
func (fi *FuncInfo) loopLemmas() []Fact {
	if fi.lemmasDone {
		return fi.lemmas
	}
	fi.lemmasDone = true
	for _, l := range fi.loops {
		var ints, slices []*ssa.Phi
		for _, in := range l.Header.Instrs {
			ph, ok := in.(*ssa.Phi)
			if !ok {
				break
			}
			if isIntType(ph.Type()) {
				ints = append(ints, ph)
			} else if isByteSlice(ph.Type()) {
				slices = append(slices, ph)
			}
		}
		entry := -1
		for i, p := range l.Header.Preds {
			if !l.Blocks[p] {
				if entry >= 0 {
					entry = -2
				} else {
					entry = i
				}
			}
		}
		if entry < 0 {
			continue
		}
		for _, k := range ints {
			for _, q := range slices {
				// prefilter: on the back edges q is re-sliced from itself and k grows from itself
				shape := true
				for i, p := range l.Header.Preds {
					if !l.Blocks[p] {
						continue
					}
					sl, ok := q.Edges[i].(*ssa.Slice)
					if !ok || sl.X != q {
						shape = false
					}
					if _, dep := fi.lin(k.Edges[i]).t[k.Name()]; !dep {
						shape = false
					}
				}
				if !shape {
					continue
				}
				base := fi.lin(k.Edges[entry]).add(fi.lenOf(q.Edges[entry]))
				goal := linAtom(k.Name()).add(linAtom("len(" + q.Name() + ")")).sub(base)
				if fi.proveLE0(goal, fi.condsAt(l.Header), nil, map[string]bool{}, 0) {
					fi.lemmas = append(fi.lemmas, Fact{goal, LE})
				}
			}
		}
	}
	return fi.lemmas
}

func ruleBlockClip(c *Ctx) {
	c.assume("byte-compare helpers func(p, q []byte) int (lcp, lcs, matchLen) return at most min(len(p), len(q))")
	for _, e := range c.emits() {
		if isFieldFlow(e.MatchLen) {
			c.dpBounds(e)
			continue
		}
		fi := c.info(e.Fn)
		ll := stripConv(e.LitLen)
		call, _ := ll.(*ssa.Call)
		var q *ssa.Slice
		if call != nil && len(call.Call.Args) == 1 {
			q, _ = call.Call.Args[0].(*ssa.Slice)
		}
		if q == nil || q.High == nil {
			c.fail(e.Key, e.Pos, "literal run is not a slice p[cursor:H]")
			continue
		}
		h := fi.lin(q.High)
		k := fi.lin(stripConv(e.MatchLen))
		goal := h.add(k).sub(fi.lenOf(q.X))
		// fast path: per-path entailment with the equalities kept by the extension loops
		if sl := c.scanOf(e); sl != nil {
			lem := fi.extLemmas()
			cases := fi.expandCases(h.add(k), sl.L, e.Block)
			all := len(cases) > 0 && len(cases) <= 64
			for _, cs := range cases {
				if !all {
					break
				}
				ex := append(fi.validFacts(lem, e.Block, cs.Preds), cs.Eqs...)
				if !fi.proveFlat(cs.L.sub(fi.lenOf(q.X)), cs.Conds, ex) {
					all = false
				}
			}
			if all {
				c.ok(e.Key, e.Pos, "H + MatchLen = %s ≤ len(p) = %s on each of the %d paths to the emission", h.add(k), fi.lenOf(q.X), len(cases))
				continue
			}
		}
		// slow path: phi case split with coinduction; no loop lemmas (they are only valid on
		// paths through their loop and are applied per path above)
		var extra []Fact
		if fi.proveAt(goal, e.Block, extra) {
			c.ok(e.Key, e.Pos, "H + MatchLen = %s ≤ len(p) = %s", h.add(k), fi.lenOf(q.X))
		} else {
			c.fail(e.Key, e.Pos, "the emitted match is not proved to end inside the block: H + MatchLen = %s ≤ len(p) = %s does not follow from the clamps on every path (first-word clamp k ≤ len(p)−i, extension bounded by the remaining slice, tail clamp b ≤ len(q)); a match past the block end makes n exceed BlockSize and reads bytes that are not part of the block", h.add(k), fi.lenOf(q.X))
		}
	}
}

// dpBounds (OSAP): every store into the DP table d[j] has j ≤ n (len(d) = n+1),
// i.e. match steps never pass the block end.
func (c *Ctx) dpBounds(e *Emit) {
	mField := fieldNameOfRead(stripConv(e.MatchLen))
	n := 0
	for fn := range c.reachable(e.P.Parse) {
		fi := c.info(fn)
		for _, b := range fn.Blocks {
			for _, in := range b.Instrs {
				st, ok := in.(*ssa.Store)
				if !ok {
					continue
				}
				ia, ok := st.Addr.(*ssa.IndexAddr)
				if !ok {
					continue
				}
				stt, ok := st.Val.Type().Underlying().(*types.Struct)
				if !ok {
					continue
				}
				hasM, hasCost := false, false
				for i := 0; i < stt.NumFields(); i++ {
					if stt.Field(i).Name() == mField {
						hasM = true
					}
					if b, ok := stt.Field(i).Type().Underlying().(*types.Basic); ok && b.Kind() == types.Uint64 {
						hasCost = true
					}
				}
				if !hasM || !hasCost {
					continue
				}
				n++
				key := fmt.Sprintf("%s:dp-store#%d", fnName(fn), n)
				idx := fi.lin(ia.Index)
				// len(d) - 1 is the block length
				ld := fi.lenOf(ia.X)
				okB := fi.proveAt(idx.sub(ld).addc(1), b, nil)
				// the stored step length m ≤ j (so the backtrack i -= m stays ≥ 0) and m ≥ 1
				mv := structComponent(st.Val, mField)
				okM := false
				if mv != nil {
					m := fi.lin(stripConv(mv))
					okM = fi.proveAt(m.sub(idx), b, nil) && fi.proveAt(linConst(1).sub(m), b, nil)
				}
				c.check(okB && okM, key, st.Pos(), "DP entry index "+idx.String()+" < len(d) and 1 ≤ stored step ≤ index",
					fmt.Sprintf("DP table store d[%s]: index within the block (%v) and 1 ≤ step length ≤ index (%v) are not both established: a match step could pass the block end or the backtrack could run below 0", idx, okB, okM))
			}
		}
	}
	if n == 0 {
		c.fail(e.Key+":dp", e.Pos, "no DP table store found")
	}
}

// ---------------------------------------------------------------- R-HASHRANGE

func ruleHashRange(c *Ctx) {
	n := 0
	rebaseFn := map[*ssa.Function]bool{}
	for _, f := range c.roles().rebase {
		rebaseFn[f] = true
	}
	for _, fn := range c.allFuncs {
		if fn.Pkg != c.lz {
			continue
		}
		fi := c.info(fn)
		if rebaseFn[fn] {
			continue // the re-basing routine (pos − δ) is checked by R-SHRINK-WRAP
		}
		for _, ti := range c.tableInserts(fn) {
			{
				pos, tablePath, at, b := ti.pos, ti.path, ti.in.Pos(), ti.in.Block()
				n++
				key := fmt.Sprintf("%s:insert#%d", fnName(fn), n)
				// the inputLen belonging to this table: same path prefix
				prefix := strings.TrimSuffix(strings.TrimSuffix(tablePath, lastField(tablePath)), ".")
				var il string
				for _, a := range fi.atomsWithSuffix(".inputLen") {
					base := strings.SplitN(a, "@", 2)[0]
					if strings.HasSuffix(base, joinPath(prefix, "inputLen")) {
						il = a
					}
				}
				if il == "" {
					// h1/h2 passed as pointers (processSegment of the double hash): match by root
					for _, a := range fi.atomsWithSuffix(".inputLen") {
						if strings.Contains(a, lastNonEmpty(prefix)) {
							il = a
						}
					}
				}
				if il == "" {
					c.fail(key, at, "cannot find the inputLen of the table %s", tablePath)
					continue
				}
				// len(Data) at function entry or of the block-clipped slice
				var lens []Lin
				for _, a := range fi.atomsWithPrefixSuffix("len(", ".Data)") {
					lens = append(lens, linAtom(a))
				}
				p := fi.lin(stripConv(pos))
				ok := false
				// double hash: the first hash is the shorter one (dhConfig.Verify: InputLen1 < InputLen2,
				// decided by R-VERIFY-REQ); used as a hypothesis here
				var hyp []Fact
				ils := fi.atomsWithSuffix(".inputLen")
				for _, a1 := range ils {
					for _, a2 := range ils {
						if strings.Contains(a1, "h1") && strings.Contains(a2, "h2") {
							hyp = append(hyp, Fact{linAtom(a1).sub(linAtom(a2)).addc(1), LE})
						}
					}
				}
				for _, ld := range lens {
					if fi.proveAt(p.add(linAtom(il)).sub(ld), b, hyp) {
						ok = true
					}
				}
				c.hashValueAgrees(fi, ti, key)
				c.check(ok, key, at, "pos + inputLen ≤ len(Data) for the position stored into "+tablePath,
					"the position "+p.String()+" stored into "+tablePath+" is not proved to satisfy pos + inputLen ≤ len(Data): the hashed bytes would include margin bytes beyond the data, which are stale after the buffer is reused (Reset/Shrink) — a reset parser then differs from a new one")
			}
		}
	}
}

// hashValueAgrees: the check value stored next to a position is the very word that selects the slot (the input masked
// to inputLen bytes): a value taken from the unmasked load contains bytes behind pos + inputLen — at the end of the
// data these are margin bytes, stale after the buffer is reused — and never equals the masked value lookups compare
// it with.
func (c *Ctx) hashValueAgrees(fi *FuncInfo, ti tableInsert, key string) {
	st, ok := ti.in.(*ssa.Store)
	if !ok {
		return // insert helper of the bucket hash: positions only
	}
	ia, ok := st.Addr.(*ssa.IndexAddr)
	if !ok {
		return
	}
	stT, ok := st.Val.Type().Underlying().(*types.Struct)
	if !ok || stT.NumFields() != 2 {
		return
	}
	posName := c.posFieldName(st.Val.Type())
	valName := ""
	for i := 0; i < stT.NumFields(); i++ {
		if stT.Field(i).Name() != posName {
			valName = stT.Field(i).Name()
		}
	}
	val := structComponent(st.Val, valName)
	if val == nil || val == st.Val {
		return
	}
	// the hashed word: first argument of the hash helper, or the non-constant leaf under the multiply/shift of an
	// inlined hash
	var word ssa.Value
	v := stripConv(ia.Index)
	for depth := 0; depth < 8 && word == nil; depth++ {
		switch x := v.(type) {
		case *ssa.Call:
			if callee := x.Call.StaticCallee(); callee != nil && callee.Pkg == c.lz && len(x.Call.Args) >= 1 {
				word = x.Call.Args[0]
			} else {
				depth = 8
			}
		case *ssa.BinOp:
			if x.Op == token.AND {
				word = x
				break
			}
			if _, isC := x.Y.(*ssa.Const); isC || x.Op == token.SHR || x.Op == token.SHL {
				v = stripConv(x.X)
			} else if _, isC := x.X.(*ssa.Const); isC {
				v = stripConv(x.Y)
			} else {
				depth = 8
			}
		default:
			depth = 8
		}
	}
	if word == nil {
		c.fail(key+":value", st.Pos(), "the word hashed for the slot index is not recognised")
		return
	}
	c.check(stripConv(val) == stripConv(word), key+":value", st.Pos(), "the stored check value is the hashed (masked) word",
		"the check value stored with the position ("+val.Name()+") is not the word that was hashed for the slot ("+word.Name()+"): it contains bytes behind pos + inputLen (margin bytes at the end of the data, stale after Reset) and differs from the masked value that lookups compare it with")
}

func lastNonEmpty(p string) string {
	parts := strings.Split(p, ".")
	for i := len(parts) - 1; i >= 0; i-- {
		if parts[i] != "" {
			return parts[i]
		}
	}
	return p
}

func (fi *FuncInfo) atomsWithPrefixSuffix(prefix, suffix string) []string {
	set := map[string]bool{}
	for _, b := range fi.fn.Blocks {
		for _, in := range b.Instrs {
			v, ok := in.(ssa.Value)
			if !ok || !isIntType(v.Type()) {
				continue
			}
			for a := range fi.lin(v).t {
				base := strings.SplitN(a, "@", 2)[0]
				if strings.HasPrefix(base, prefix) && strings.HasSuffix(base, suffix) && !strings.Contains(a, "@") {
					set[a] = true
				}
			}
		}
	}
	var out []string
	for a := range set {
		out = append(out, a)
	}
	return out
}

// ---------------------------------------------------------------- R-OSAP-INDEX

func ruleOsapIndex(c *Ctx) {
	edgesName, startName := c.osapFieldNames()
	if edgesName == "" || startName == "" {
		c.fail("osap:fields", token.NoPos, "unresolved anchor: the edge table / covered-range start of the optimizing parser were not found")
		return
	}
	n := 0
	for _, p := range c.parsers() {
		for fn := range c.reachable(p.Parse) {
			if fn.Pkg != c.lz {
				continue
			}
			// a function that calls suffix.Sort on a slice data[L:] and creates a closure indexing .edges
			var low ssa.Value
			for _, b := range fn.Blocks {
				for _, in := range b.Instrs {
					call, ok := in.(*ssa.Call)
					if !ok || call.Call.StaticCallee() == nil || call.Call.StaticCallee().Pkg != c.suffix || call.Call.StaticCallee().Name() != "Sort" {
						continue
					}
					if sl, ok := call.Call.Args[0].(*ssa.Slice); ok && sl.High == nil {
						low = sl.Low
					}
				}
			}
			if low == nil {
				continue
			}
			fi := c.info(fn)
			for _, b := range fn.Blocks {
				for _, in := range b.Instrs {
					mc, ok := in.(*ssa.MakeClosure)
					if !ok {
						continue
					}
					cf := mc.Fn.(*ssa.Function)
					cfi := c.info(cf)
					for _, cb := range cf.Blocks {
						for _, cin := range cb.Instrs {
							ia, ok := cin.(*ssa.IndexAddr)
							if !ok {
								continue
							}
							if _, pth, ok := pathStr(ia.X); !ok || lastField(pth) != edgesName || strings.Contains(pth, "[*]") {
								continue
							}
							n++
							key := fnName(cf) + ":edge-index"
							// index = i + w with w a captured variable; its stored value in fn must be L − start
							idx := cfi.lin(ia.Index)
							okW := false
							detail := ""
							for a, co := range idx.t {
								if co != 1 {
									continue
								}
								// a is a load of a free variable: "w."  (root name + ".")
								for fvi, fv := range cf.FreeVars {
									if !strings.HasPrefix(a, fv.Name()+".") && a != fv.Name() {
										continue
									}
									bind := mc.Bindings[fvi]
									al, ok := bind.(*ssa.Alloc)
									if !ok {
										continue
									}
									for _, ref := range *al.Referrers() {
										st, ok := ref.(*ssa.Store)
										if !ok || st.Addr != al {
											continue
										}
										wv := fi.lin(st.Val)
										want := fi.lin(low)
										starts := fi.atomsWithSuffix("." + startName)
										for _, s := range starts {
											if wv.eq(want.sub(linAtom(s))) {
												okW = true
											}
										}
										detail = fmt.Sprintf("captured offset %s = %s, text starts at %s", fv.Name(), wv, want)
									}
								}
							}
							c.check(okW, key, ia.Pos(), "edge slot = suffix position + L − start ("+detail+")",
								"the offset that maps a position of the sorted text data[L:] to its edge slot is not L − start ("+detail+"): once the window start L is > 0 edges are attached to the wrong positions and OSAP's unverified matches copy wrong bytes")
						}
					}
				}
			}
		}
	}
	if n == 0 {
		c.fail("osap:edge-index", token.NoPos, "no edge indexing closure found")
	}
}
