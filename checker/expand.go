package main

// Second normalisation of the retry pass (see normalize.go): calls of min / max
// (the builtins and the package's own two-argument helper) in positions that are
// evaluated exactly once become the explicit clamp the pinned code uses,
//
//	x := min(a, b)        →   m := a; if b < m { m = b }; x := m
//
// and clear(s) on a slice becomes the element loop. Only pure operands
// (identifiers, field selections, len/cap, constants, arithmetic without
// division, conversions) are hoisted, and only out of statements whose
// expressions are evaluated once before anything else of the statement runs
// (assignments, returns, expression statements, declarations, the condition of
// an if that stands in a statement list, the tag of a switch, the operand of a
// range). Loop conditions are never touched.

import (
	"fmt"
	"go/ast"
	"go/token"
	"go/types"
)

func (in *inliner) isMinMax(call *ast.CallExpr) string {
	id, ok := call.Fun.(*ast.Ident)
	if !ok || len(call.Args) < 2 {
		return ""
	}
	switch o := in.pkg.TypesInfo.Uses[id].(type) {
	case *types.Builtin:
		if o.Name() == "min" || o.Name() == "max" {
			return o.Name()
		}
	case *types.Func:
		// the package's own helper: func min(x, y int) int (ints.go). It is recognised by name and
		// signature here and its meaning is checked by the rules' own summary (isMin: x − doz(x, y)).
		if o.Pkg() == in.pkg.Types && (o.Name() == "min" || o.Name() == "max") && len(call.Args) == 2 {
			sig := o.Type().(*types.Signature)
			if sig.Recv() == nil && sig.Params().Len() == 2 && sig.Results().Len() == 1 {
				return o.Name()
			}
		}
	}
	return ""
}

func (in *inliner) pure(e ast.Expr) bool {
	ok := true
	ast.Inspect(e, func(n ast.Node) bool {
		switch x := n.(type) {
		case *ast.CallExpr:
			if in.isMinMax(x) != "" {
				return true
			}
			if tv, has := in.pkg.TypesInfo.Types[x.Fun]; has && tv.IsType() {
				return true // conversion
			}
			if id, isId := x.Fun.(*ast.Ident); isId {
				if b, isB := in.pkg.TypesInfo.Uses[id].(*types.Builtin); isB && (b.Name() == "len" || b.Name() == "cap") {
					return true
				}
			}
			ok = false
		case *ast.IndexExpr, *ast.SliceExpr, *ast.StarExpr, *ast.TypeAssertExpr, *ast.FuncLit, *ast.CompositeLit:
			ok = false
		case *ast.BinaryExpr:
			if x.Op == token.QUO || x.Op == token.REM || x.Op == token.SHL || x.Op == token.SHR {
				ok = false
			}
		case *ast.UnaryExpr:
			if x.Op == token.ARROW || x.Op == token.AND {
				ok = false
			}
		}
		return true
	})
	return ok
}

// hoist rewrites the min/max calls inside *ep (post-order) and returns the statements to put in front.
func (in *inliner) hoist(ep *ast.Expr) []ast.Stmt {
	var pre []ast.Stmt
	var walk func(ep *ast.Expr)
	walk = func(ep *ast.Expr) {
		switch x := (*ep).(type) {
		case *ast.ParenExpr:
			walk(&x.X)
		case *ast.BinaryExpr:
			walk(&x.X)
			walk(&x.Y)
		case *ast.UnaryExpr:
			walk(&x.X)
		case *ast.SelectorExpr:
			walk(&x.X)
		case *ast.CallExpr:
			for i := range x.Args {
				walk(&x.Args[i])
			}
			kind := in.isMinMax(x)
			if kind == "" {
				return
			}
			for _, a := range x.Args {
				if !in.pure(a) {
					return
				}
			}
			// start from a non-constant operand so that the temporary gets the operand type
			args := append([]ast.Expr{}, x.Args...)
			first := -1
			for i, a := range args {
				if tv, ok := in.pkg.TypesInfo.Types[a]; ok && tv.Value == nil {
					first = i
					break
				} else if !ok {
					if _, isId := a.(*ast.Ident); isId {
						first = i // a temporary introduced by this pass
						break
					}
				}
			}
			if first < 0 {
				return
			}
			args[0], args[first] = args[first], args[0]
			*in.serial++
			name := fmt.Sprintf("m_x%d", *in.serial)
			pre = append(pre, &ast.AssignStmt{Lhs: []ast.Expr{ast.NewIdent(name)}, Tok: token.DEFINE, Rhs: []ast.Expr{args[0]}})
			op := token.LSS
			if kind == "max" {
				op = token.GTR
			}
			for _, a := range args[1:] {
				pre = append(pre, &ast.IfStmt{
					Cond: &ast.BinaryExpr{X: a, Op: op, Y: ast.NewIdent(name)},
					Body: &ast.BlockStmt{List: []ast.Stmt{&ast.AssignStmt{Lhs: []ast.Expr{ast.NewIdent(name)}, Tok: token.ASSIGN, Rhs: []ast.Expr{a}}}},
				})
			}
			*ep = ast.NewIdent(name)
			in.counts["min/max call → explicit clamp"]++
		}
	}
	walk(ep)
	return pre
}

func (in *inliner) zeroOf(t types.Type, file *ast.File) ast.Expr {
	switch u := t.Underlying().(type) {
	case *types.Basic:
		switch {
		case u.Info()&types.IsNumeric != 0:
			return &ast.BasicLit{Kind: token.INT, Value: "0"}
		case u.Info()&types.IsBoolean != 0:
			return ast.NewIdent("false")
		case u.Info()&types.IsString != 0:
			return &ast.BasicLit{Kind: token.STRING, Value: `""`}
		}
	case *types.Struct:
		if n, ok := t.(*types.Named); ok && in.typeUsable(file, n) {
			ts := types.TypeString(n, func(p *types.Package) string {
				if p == in.pkg.Types {
					return ""
				}
				return p.Name()
			})
			if e, err := parseTypeExpr(ts); err == nil {
				return &ast.CompositeLit{Type: e}
			}
		}
	case *types.Pointer, *types.Slice, *types.Map, *types.Interface, *types.Chan, *types.Signature:
		return ast.NewIdent("nil")
	}
	return nil
}

func (in *inliner) expandFile(f *ast.File) bool {
	changed := false
	var lists []*[]ast.Stmt
	ast.Inspect(f, func(x ast.Node) bool {
		switch s := x.(type) {
		case *ast.BlockStmt:
			lists = append(lists, &s.List)
		case *ast.CaseClause:
			lists = append(lists, &s.Body)
		case *ast.CommClause:
			lists = append(lists, &s.Body)
		}
		return true
	})
	for _, lp := range lists {
		var out []ast.Stmt
		for _, st := range *lp {
			var pre []ast.Stmt
			switch s := st.(type) {
			case *ast.AssignStmt:
				for i := range s.Rhs {
					pre = append(pre, in.hoist(&s.Rhs[i])...)
				}
			case *ast.ReturnStmt:
				for i := range s.Results {
					pre = append(pre, in.hoist(&s.Results[i])...)
				}
			case *ast.ExprStmt:
				// clear(s) on a slice
				if call, ok := s.X.(*ast.CallExpr); ok && len(call.Args) == 1 {
					if id, ok := call.Fun.(*ast.Ident); ok {
						if b, isB := in.pkg.TypesInfo.Uses[id].(*types.Builtin); isB && b.Name() == "clear" {
							if sl, isSl := in.pkg.TypesInfo.TypeOf(call.Args[0]).Underlying().(*types.Slice); isSl && in.pure(call.Args[0]) {
								if z := in.zeroOf(sl.Elem(), f); z != nil {
									*in.serial++
									iv := fmt.Sprintf("i_x%d", *in.serial)
									loop := &ast.RangeStmt{Key: ast.NewIdent(iv), Tok: token.DEFINE, X: call.Args[0],
										Body: &ast.BlockStmt{List: []ast.Stmt{&ast.AssignStmt{
											Lhs: []ast.Expr{&ast.IndexExpr{X: call.Args[0], Index: ast.NewIdent(iv)}}, Tok: token.ASSIGN, Rhs: []ast.Expr{z}}}}}
									out = append(out, loop)
									in.counts["clear(slice) → element loop"]++
									changed = true
									continue
								}
							}
						}
					}
				}
				pre = append(pre, in.hoist(&s.X)...)
			case *ast.DeclStmt:
				if gd, ok := s.Decl.(*ast.GenDecl); ok && gd.Tok == token.VAR {
					for _, sp := range gd.Specs {
						if vs, ok := sp.(*ast.ValueSpec); ok {
							for i := range vs.Values {
								pre = append(pre, in.hoist(&vs.Values[i])...)
							}
						}
					}
				}
			case *ast.IfStmt:
				if s.Init == nil {
					pre = append(pre, in.hoist(&s.Cond)...)
				}
			case *ast.SwitchStmt:
				if s.Init == nil && s.Tag != nil {
					pre = append(pre, in.hoist(&s.Tag)...)
				}
			case *ast.RangeStmt:
				pre = append(pre, in.hoist(&s.X)...)
			}
			if len(pre) > 0 {
				changed = true
				clearPos(pre)
				out = append(out, pre...)
			}
			out = append(out, st)
		}
		*lp = out
	}
	return changed
}
