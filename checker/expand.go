package main

// Second normalisation of the retry pass (see normalize.go): calls of min / max
// (the builtins and the package's own two-argument helper) in positions that are
// evaluated exactly once become the explicit clamp the pinned code uses,
//
//	x := min(a, b)        →   m := a; if b < m { m = b }; x := m
//
// and clear(s) on a slice becomes the element loop. Only pure operands
// (identifiers, field selections, len/cap, constants, arithmetic without
// division, conversions) are hoisted, and only out of statements whose
// expressions are evaluated once before anything else of the statement runs
// (assignments, returns, expression statements, declarations, the condition of
// an if that stands in a statement list, the tag of a switch, the operand of a
// range). Loop conditions are never touched.

import (
	"fmt"
	"go/ast"
	"go/token"
	"go/types"
	"reflect"
)

func (in *inliner) isMinMax(call *ast.CallExpr) string {
	id, ok := call.Fun.(*ast.Ident)
	if !ok || len(call.Args) < 2 {
		return ""
	}
	switch o := in.pkg.TypesInfo.Uses[id].(type) {
	case *types.Builtin:
		if o.Name() == "min" || o.Name() == "max" {
			return o.Name()
		}
	case *types.Func:
		// the package's own helper: func min(x, y int) int (ints.go). It is recognised by name and
		// signature here and its meaning is checked by the rules' own summary (isMin: x − doz(x, y)).
		if o.Pkg() == in.pkg.Types && (o.Name() == "min" || o.Name() == "max") && len(call.Args) == 2 {
			sig := o.Type().(*types.Signature)
			if sig.Recv() == nil && sig.Params().Len() == 2 && sig.Results().Len() == 1 {
				return o.Name()
			}
		}
	}
	return ""
}

func (in *inliner) pure(e ast.Expr) bool {
	ok := true
	ast.Inspect(e, func(n ast.Node) bool {
		switch x := n.(type) {
		case *ast.CallExpr:
			if in.isMinMax(x) != "" {
				return true
			}
			if tv, has := in.pkg.TypesInfo.Types[x.Fun]; has && tv.IsType() {
				return true // conversion
			}
			if id, isId := x.Fun.(*ast.Ident); isId {
				if b, isB := in.pkg.TypesInfo.Uses[id].(*types.Builtin); isB && (b.Name() == "len" || b.Name() == "cap") {
					return true
				}
			}
			ok = false
		case *ast.IndexExpr, *ast.SliceExpr, *ast.StarExpr, *ast.TypeAssertExpr, *ast.FuncLit, *ast.CompositeLit:
			ok = false
		case *ast.BinaryExpr:
			if x.Op == token.QUO || x.Op == token.REM || x.Op == token.SHL || x.Op == token.SHR {
				ok = false
			}
		case *ast.UnaryExpr:
			if x.Op == token.ARROW || x.Op == token.AND {
				ok = false
			}
		}
		return true
	})
	return ok
}

// noCalls: no function calls other than len/cap/conversions (index and slice expressions allowed).
func (in *inliner) noCalls(e ast.Expr) bool {
	ok := true
	ast.Inspect(e, func(n ast.Node) bool {
		switch x := n.(type) {
		case *ast.CallExpr:
			if tv, has := in.pkg.TypesInfo.Types[x.Fun]; has && tv.IsType() {
				return true
			}
			if id, isId := x.Fun.(*ast.Ident); isId {
				if b, isB := in.pkg.TypesInfo.Uses[id].(*types.Builtin); isB && (b.Name() == "len" || b.Name() == "cap") {
					return true
				}
			}
			ok = false
		case *ast.FuncLit, *ast.UnaryExpr:
			if u, isU := x.(*ast.UnaryExpr); !isU || u.Op == token.ARROW {
				ok = false
			}
		}
		return true
	})
	return ok
}

// pureCandidate: the call is a single-result call of an inlining candidate whose body cannot have side
// effects: it assigns only to its own locals (named results included), increments only those, calls
// nothing but builtins without effects / conversions / min / max, and takes no addresses.
func (in *inliner) pureCandidate(call *ast.CallExpr) *ast.FuncDecl {
	info := in.pkg.TypesInfo
	var fn *types.Func
	switch f := call.Fun.(type) {
	case *ast.Ident:
		fn, _ = info.Uses[f].(*types.Func)
	case *ast.SelectorExpr:
		fn, _ = info.Uses[f.Sel].(*types.Func)
	}
	if fn == nil || in.cands == nil {
		return nil
	}
	fd := in.cands[fn]
	if fd == nil || fn.Type().(*types.Signature).Results().Len() != 1 {
		return nil
	}
	local := func(e ast.Expr) bool {
		id, ok := e.(*ast.Ident)
		if !ok {
			return false
		}
		if id.Name == "_" {
			return true
		}
		obj := info.Defs[id]
		if obj == nil {
			obj = info.Uses[id]
		}
		return obj != nil && obj.Pos() >= fd.Pos() && obj.Pos() < fd.End()
	}
	pure := true
	ast.Inspect(fd.Body, func(n ast.Node) bool {
		switch x := n.(type) {
		case *ast.AssignStmt:
			for _, l := range x.Lhs {
				if !local(l) {
					pure = false
				}
			}
		case *ast.IncDecStmt:
			if !local(x.X) {
				pure = false
			}
		case *ast.CallExpr:
			if tv, has := info.Types[x.Fun]; has && tv.IsType() {
				return true
			}
			if id, isId := x.Fun.(*ast.Ident); isId {
				if b, isB := info.Uses[id].(*types.Builtin); isB {
					switch b.Name() {
					case "len", "cap", "min", "max":
						return true
					}
				}
			}
			if in.isMinMax(x) != "" {
				return true
			}
			pure = false
		case *ast.UnaryExpr:
			if x.Op == token.AND || x.Op == token.ARROW {
				pure = false
			}
		case *ast.SendStmt, *ast.GoStmt, *ast.DeferStmt, *ast.FuncLit:
			pure = false
		case *ast.RangeStmt:
			if x.Tok == token.ASSIGN {
				if (x.Key != nil && !local(x.Key)) || (x.Value != nil && !local(x.Value)) {
					pure = false
				}
			}
		}
		return true
	})
	if !pure {
		return nil
	}
	return fd
}

func (in *inliner) noFuncLit(e ast.Expr) bool {
	ok := true
	ast.Inspect(e, func(n ast.Node) bool {
		if _, isF := n.(*ast.FuncLit); isF {
			ok = false
		}
		return true
	})
	return ok
}

// hoist rewrites the min/max calls inside *ep (post-order) and returns the statements to put in front.
func (in *inliner) hoist(ep *ast.Expr) []ast.Stmt {
	var pre []ast.Stmt
	top := *ep
	var walk func(ep *ast.Expr)
	walk = func(ep *ast.Expr) {
		switch x := (*ep).(type) {
		case *ast.ParenExpr:
			walk(&x.X)
		case *ast.BinaryExpr:
			walk(&x.X)
			walk(&x.Y)
		case *ast.UnaryExpr:
			walk(&x.X)
		case *ast.SelectorExpr:
			walk(&x.X)
		case *ast.CallExpr:
			for i := range x.Args {
				walk(&x.Args[i])
			}
			kind := in.isMinMax(x)
			if kind == "" {
				// a candidate helper without side effects, with pure operands: bind its result before the
				// statement; the next round inlines the binding
				if fd := in.pureCandidate(x); fd != nil {
					okArgs := true
					for _, a := range x.Args {
						if !in.pure(a) {
							okArgs = false
						}
					}
					if sel, isSel := x.Fun.(*ast.SelectorExpr); isSel && !in.pure(sel.X) {
						okArgs = false
					}
					if okArgs {
						*in.serial++
						name := fmt.Sprintf("h_x%d", *in.serial)
						pre = append(pre, &ast.AssignStmt{Lhs: []ast.Expr{ast.NewIdent(name)}, Tok: token.DEFINE, Rhs: []ast.Expr{x}})
						*ep = ast.NewIdent(name)
						in.counts["pure helper call bound to a temporary"]++
					}
				}
				return
			}
			allPure := true
			for _, a := range x.Args {
				if !in.pure(a) {
					allPure = false
				}
			}
			if !allPure {
				// operands with calls or index expressions: only when the call is the whole right-hand side
				// (top), where binding the operands in order, once each, is exactly what the call does
				if *ep != top || !in.noFuncLit(x) {
					return
				}
				for i, a := range x.Args {
					if tv, ok := in.pkg.TypesInfo.Types[a]; ok && tv.Value != nil {
						continue // constants stay
					}
					*in.serial++
					name := fmt.Sprintf("a_x%d", *in.serial)
					pre = append(pre, &ast.AssignStmt{Lhs: []ast.Expr{ast.NewIdent(name)}, Tok: token.DEFINE, Rhs: []ast.Expr{a}})
					x.Args[i] = ast.NewIdent(name)
				}
			}
			// start from a non-constant operand so that the temporary gets the operand type
			args := append([]ast.Expr{}, x.Args...)
			first := -1
			for i, a := range args {
				if tv, ok := in.pkg.TypesInfo.Types[a]; ok && tv.Value == nil {
					first = i
					break
				} else if !ok {
					if _, isId := a.(*ast.Ident); isId {
						first = i // a temporary introduced by this pass
						break
					}
				}
			}
			if first < 0 {
				return
			}
			args[0], args[first] = args[first], args[0]
			*in.serial++
			name := fmt.Sprintf("m_x%d", *in.serial)
			pre = append(pre, &ast.AssignStmt{Lhs: []ast.Expr{ast.NewIdent(name)}, Tok: token.DEFINE, Rhs: []ast.Expr{args[0]}})
			op := token.LSS
			if kind == "max" {
				op = token.GTR
			}
			for _, a := range args[1:] {
				pre = append(pre, &ast.IfStmt{
					Cond: &ast.BinaryExpr{X: a, Op: op, Y: ast.NewIdent(name)},
					Body: &ast.BlockStmt{List: []ast.Stmt{&ast.AssignStmt{Lhs: []ast.Expr{ast.NewIdent(name)}, Tok: token.ASSIGN, Rhs: []ast.Expr{a}}}},
				})
			}
			*ep = ast.NewIdent(name)
			in.counts["min/max call → explicit clamp"]++
		}
	}
	walk(ep)
	return pre
}

func (in *inliner) zeroOf(t types.Type, file *ast.File) ast.Expr {
	switch u := t.Underlying().(type) {
	case *types.Basic:
		switch {
		case u.Info()&types.IsNumeric != 0:
			return &ast.BasicLit{Kind: token.INT, Value: "0"}
		case u.Info()&types.IsBoolean != 0:
			return ast.NewIdent("false")
		case u.Info()&types.IsString != 0:
			return &ast.BasicLit{Kind: token.STRING, Value: `""`}
		}
	case *types.Struct:
		if n, ok := t.(*types.Named); ok && in.typeUsable(file, n) {
			ts := types.TypeString(n, func(p *types.Package) string {
				if p == in.pkg.Types {
					return ""
				}
				return p.Name()
			})
			if e, err := parseTypeExpr(ts); err == nil {
				return &ast.CompositeLit{Type: e}
			}
		}
	case *types.Pointer, *types.Slice, *types.Map, *types.Interface, *types.Chan, *types.Signature:
		return ast.NewIdent("nil")
	}
	return nil
}

func (in *inliner) expandFile(f *ast.File) bool {
	changed := false
	var lists []*[]ast.Stmt
	ast.Inspect(f, func(x ast.Node) bool {
		switch s := x.(type) {
		case *ast.BlockStmt:
			lists = append(lists, &s.List)
		case *ast.CaseClause:
			lists = append(lists, &s.Body)
		case *ast.CommClause:
			lists = append(lists, &s.Body)
		}
		return true
	})
	for _, lp := range lists {
		var out []ast.Stmt
		for _, st := range *lp {
			var pre []ast.Stmt
			switch s := st.(type) {
			case *ast.AssignStmt:
				for i := range s.Rhs {
					pre = append(pre, in.hoist(&s.Rhs[i])...)
				}
			case *ast.ReturnStmt:
				for i := range s.Results {
					pre = append(pre, in.hoist(&s.Results[i])...)
				}
			case *ast.ExprStmt:
				// clear(s) on a slice
				if call, ok := s.X.(*ast.CallExpr); ok && len(call.Args) == 1 {
					if id, ok := call.Fun.(*ast.Ident); ok {
						if b, isB := in.pkg.TypesInfo.Uses[id].(*types.Builtin); isB && b.Name() == "clear" {
							if sl, isSl := in.pkg.TypesInfo.TypeOf(call.Args[0]).Underlying().(*types.Slice); isSl && (in.pure(call.Args[0]) || in.noCalls(call.Args[0])) {
								if z := in.zeroOf(sl.Elem(), f); z != nil {
									*in.serial++
									iv := fmt.Sprintf("i_x%d", *in.serial)
									target := call.Args[0]
									if !in.pure(target) {
										// the operand is evaluated once, here: bind it first (clear(b[i:]))
										sv := fmt.Sprintf("s_x%d", *in.serial)
										bind := []ast.Stmt{&ast.AssignStmt{Lhs: []ast.Expr{ast.NewIdent(sv)}, Tok: token.DEFINE, Rhs: []ast.Expr{target}}}
										clearPos(bind)
										out = append(out, bind...)
										target = ast.NewIdent(sv)
									}
									loop := &ast.RangeStmt{Key: ast.NewIdent(iv), Tok: token.DEFINE, X: target,
										Body: &ast.BlockStmt{List: []ast.Stmt{&ast.AssignStmt{
											Lhs: []ast.Expr{&ast.IndexExpr{X: target, Index: ast.NewIdent(iv)}}, Tok: token.ASSIGN, Rhs: []ast.Expr{z}}}}}
									out = append(out, loop)
									in.counts["clear(slice) → element loop"]++
									changed = true
									continue
								}
							}
						}
					}
				}
				pre = append(pre, in.hoist(&s.X)...)
			case *ast.DeclStmt:
				if gd, ok := s.Decl.(*ast.GenDecl); ok && gd.Tok == token.VAR {
					for _, sp := range gd.Specs {
						if vs, ok := sp.(*ast.ValueSpec); ok {
							for i := range vs.Values {
								pre = append(pre, in.hoist(&vs.Values[i])...)
							}
						}
					}
				}
			case *ast.IfStmt:
				if s.Init == nil {
					pre = append(pre, in.hoist(&s.Cond)...)
				} else if as, ok := s.Init.(*ast.AssignStmt); ok && len(as.Rhs) == 1 {
					// if x := min(a, b); cond {…}: the init runs once, first
					pre = append(pre, in.hoist(&as.Rhs[0])...)
				}
			case *ast.SwitchStmt:
				if s.Init == nil && s.Tag != nil {
					pre = append(pre, in.hoist(&s.Tag)...)
				}
			case *ast.RangeStmt:
				pre = append(pre, in.hoist(&s.X)...)
			case *ast.ForStmt:
				// the init statement runs once, before anything else of the loop
				if as, ok := s.Init.(*ast.AssignStmt); ok {
					for i := range as.Rhs {
						pure := true
						ast.Inspect(as.Rhs[i], func(n ast.Node) bool {
							if e, isE := n.(ast.Expr); isE && !in.pure(e) {
								pure = false
							}
							return pure
						})
						// earlier right-hand sides are evaluated before: they must be pure as well
						for k := 0; k < i; k++ {
							if !in.pure(as.Rhs[k]) {
								pure = false
							}
						}
						if pure {
							pre = append(pre, in.hoist(&as.Rhs[i])...)
						}
					}
				}
			}
			if len(pre) > 0 {
				changed = true
				clearPos(pre)
				out = append(out, pre...)
			}
			out = append(out, st)
		}
		*lp = out
	}
	return changed
}

// promoteLocalCopies: a local that only caches a slice field between two statements of one list,
//
//	v := x.F; …(only v is used, x.F is not mentioned, no calls but builtins/conversions)…; x.F = v
//
// is replaced by the field itself (the inverse of "extract a pure helper that takes and returns the
// slice"). Nobody can observe x.F in between, so writing every intermediate value to it changes nothing.
func (in *inliner) promoteLocalCopies(f *ast.File) bool {
	info := in.pkg.TypesInfo
	changed := false
	var lists []*[]ast.Stmt
	ast.Inspect(f, func(x ast.Node) bool {
		switch s := x.(type) {
		case *ast.BlockStmt:
			lists = append(lists, &s.List)
		case *ast.CaseClause:
			lists = append(lists, &s.Body)
		}
		return true
	})
	isPath := func(e ast.Expr) bool {
		ok := true
		n := 0
		ast.Inspect(e, func(x ast.Node) bool {
			switch x.(type) {
			case *ast.Ident:
			case *ast.SelectorExpr:
				n++
			case nil:
			default:
				ok = false
			}
			return true
		})
		return ok && n > 0
	}
	for _, lp := range lists {
		list := *lp
	scan:
		for i, st := range list {
			as, ok := st.(*ast.AssignStmt)
			if !ok || as.Tok != token.DEFINE || len(as.Lhs) != len(as.Rhs) {
				continue
			}
			for j := range as.Lhs {
				v, ok := as.Lhs[j].(*ast.Ident)
				if !ok || v.Name == "_" || !isPath(as.Rhs[j]) {
					continue
				}
				if _, isSl := info.TypeOf(as.Rhs[j]).Underlying().(*types.Slice); !isSl {
					continue
				}
				vobj := info.Defs[v]
				if vobj == nil {
					continue
				}
				path := types.ExprString(as.Rhs[j])
				// the write-back
				k := -1
				wholeCopy := false
				for m := i + 1; m < len(list); m++ {
					if wb, ok := list[m].(*ast.AssignStmt); ok && wb.Tok == token.ASSIGN && len(wb.Lhs) == 1 && len(wb.Rhs) == 1 && types.ExprString(wb.Lhs[0]) == path {
						// x.F = v   or   x.F = append(v, …): the field takes over from here
						uses := false
						ast.Inspect(wb.Rhs[0], func(n ast.Node) bool {
							if id, ok := n.(*ast.Ident); ok && info.Uses[id] == vobj {
								uses = true
							}
							return true
						})
						if uses {
							k = m
							wholeCopy = false
							if id, ok := wb.Rhs[0].(*ast.Ident); ok && info.Uses[id] == vobj {
								wholeCopy = true
							}
						}
						break
					}
				}
				if k < 0 {
					continue
				}
				// between: no mention of the path, no calls except builtins / conversions, no &v
				bad := false
				check := func(n ast.Node) bool {
					switch x := n.(type) {
					case *ast.SelectorExpr:
						if types.ExprString(x) == path {
							bad = true
						}
					case *ast.CallExpr:
						if tv, has := info.Types[x.Fun]; has && tv.IsType() {
							return true
						}
						if id, isId := x.Fun.(*ast.Ident); isId {
							if _, isB := info.Uses[id].(*types.Builtin); isB {
								return true
							}
						}
						// pure helpers of the package that read memory only through their arguments
						bad = true
					case *ast.UnaryExpr:
						if x.Op == token.AND {
							bad = true
						}
					case *ast.FuncLit, *ast.GoStmt, *ast.DeferStmt:
						bad = true
					case *ast.BranchStmt:
						if x.Tok == token.GOTO {
							bad = true // could leave the region without the write-back
						}
					case *ast.ReturnStmt:
						bad = true
					}
					return true
				}
				for m := i + 1; m < k; m++ {
					ast.Inspect(list[m], check)
				}
				if !wholeCopy {
					// the right-hand side of the write-back is part of the region (the path must not occur in it)
					ast.Inspect(list[k].(*ast.AssignStmt).Rhs[0], check)
				}
				// the other right-hand sides of the defining statement are evaluated before: fine; after the
				// write-back the local must be dead
				for m := k + 1; m < len(list); m++ {
					ast.Inspect(list[m], func(n ast.Node) bool {
						if id, ok := n.(*ast.Ident); ok && info.Uses[id] == vobj {
							bad = true
						}
						return true
					})
				}
				if bad {
					continue
				}
				// replace
				repl := as.Rhs[j]
				for m := i + 1; m < k; m++ {
					replaceIdent(list[m], info, vobj, repl)
				}
				var out []ast.Stmt
				out = append(out, list[:i]...)
				if len(as.Lhs) > 1 {
					as.Lhs = append(append([]ast.Expr{}, as.Lhs[:j]...), as.Lhs[j+1:]...)
					as.Rhs = append(append([]ast.Expr{}, as.Rhs[:j]...), as.Rhs[j+1:]...)
					out = append(out, as)
				}
				out = append(out, list[i+1:k]...)
				if !wholeCopy {
					wb := list[k].(*ast.AssignStmt)
					replaceIdent(wb, info, vobj, repl)
					out = append(out, wb)
				}
				out = append(out, list[k+1:]...)
				*lp = out
				changed = true
				in.counts["local copy of a slice field → the field"]++
				break scan // one per list and round
			}
		}
	}
	return changed
}

// replaceIdent substitutes a copy of repl for every use of obj below n.
func replaceIdent(n ast.Node, info *types.Info, obj types.Object, repl ast.Expr) {
	var fix func(ep *ast.Expr)
	fix = func(ep *ast.Expr) {
		if id, ok := (*ep).(*ast.Ident); ok && (info.Uses[id] == obj || info.Defs[id] == obj) {
			back := map[*ast.Ident]*ast.Ident{}
			*ep = deepCopy(reflect.ValueOf(repl), back).Interface().(ast.Expr)
		}
	}
	ast.Inspect(n, func(x ast.Node) bool {
		if x == nil {
			return true
		}
		v := reflect.ValueOf(x)
		if v.Kind() == reflect.Ptr {
			v = v.Elem()
		}
		if v.Kind() != reflect.Struct {
			return true
		}
		for i := 0; i < v.NumField(); i++ {
			f := v.Field(i)
			if !f.CanAddr() || !f.CanSet() {
				continue
			}
			switch p := f.Addr().Interface().(type) {
			case *ast.Expr:
				if *p != nil {
					fix(p)
				}
			case *[]ast.Expr:
				for k := range *p {
					fix(&(*p)[k])
				}
			}
		}
		return true
	})
}
