package main

// Rules about parser state: Reset/Shrink coverage of the search state,
// absence of shared mutable state and of nondeterminism sources (C13, C01).

import (
	"fmt"
	"go/token"
	"go/types"
	"os"
	"sort"
	"strings"

	"golang.org/x/tools/go/ssa"
)

func init() {
	reg(&Rule{ID: "R-RESET-COVER", Min: 7,
		Doc: "every location Parse may write (search state) is re-initialised on every success path of the method Reset resolves to: written with a zero/empty value, or cut to length 0",
		Run: ruleResetCover})
	reg(&Rule{ID: "R-INVALIDATE", Min: 7,
		Doc: "on the δ>0 path of the method Shrink resolves to, every search-state location is re-based or cleared",
		Run: ruleInvalidate})
	reg(&Rule{ID: "R-COPY-CLOBBER", Min: 1,
		Doc: "where a slice is re-grown inside its own backing array and the old contents are moved with copy, no store into the aliased array may precede the copy",
		Run: ruleCopyClobber})
	reg(&Rule{ID: "R-NOGLOBAL", Min: 2,
		Doc: "no store to a package-level variable outside package initialisers; package-level variables are error values and constants only",
		Run: ruleNoGlobal})
	reg(&Rule{ID: "R-NONDET", Min: 2,
		Doc: "nothing reachable from the parser/decoder API ranges over a map, reads time/rand/env, starts goroutines, selects, or uses unsafe",
		Run: ruleNonDet})
	reg(&Rule{ID: "R-OSAP-RANGE", Min: 1,
		Doc: "OSAP.Parse recomputes its edges when the block leaves the covered range: the call is guarded by W+n > start+len(edges)",
		Run: ruleOsapRange})
}

// embedPrefix: the field path from parser type T to the receiver type of fn
// (method promoted through embedded fields), e.g. "hashDictionary".
func (c *Ctx) embedPrefix(T *types.Named, name string) (string, bool) {
	ms := c.prog.MethodSets.MethodSet(types.NewPointer(T))
	for i := 0; i < ms.Len(); i++ {
		sel := ms.At(i)
		if sel.Obj().Name() != name {
			continue
		}
		idx := sel.Index()
		var parts []string
		var t types.Type = T
		for _, k := range idx[:len(idx)-1] {
			st := derefStruct(t)
			if st == nil {
				return "", false
			}
			parts = append(parts, st.Field(k).Name())
			t = st.Field(k).Type()
		}
		return strings.Join(parts, "."), true
	}
	return "", false
}

// searchState: receiver-rooted locations Parse may write (keys without "p0.").
func (c *Ctx) searchState(p *Parser) []string {
	var out []string
	for _, k := range c.mayWrite(p.Parse) {
		if !strings.HasPrefix(k, "p0.") {
			continue
		}
		out = append(out, strings.TrimPrefix(k, "p0."))
	}
	sort.Strings(out)
	return out
}

// bufferState: the buffer fields every mutator of the Parser interface may
// write (Write, ReadFrom, Shrink): Data, W, Off relative to the parser type.
func (c *Ctx) bufferState(p *Parser) []string {
	set := map[string]bool{}
	for _, name := range []string{"Write", "ReadFrom", "Shrink"} {
		fn := c.method(p.T, name)
		prefix, ok := c.embedPrefix(p.T, name)
		if fn == nil || !ok {
			continue
		}
		for _, k := range c.mayWrite(fn) {
			if !strings.HasPrefix(k, "p0.") {
				continue
			}
			k = joinPath(prefix, strings.TrimPrefix(k, "p0."))
			if strings.Contains(k, "[*]") {
				continue
			}
			lf := lastField(k)
			if lf == "Data" || lf == "W" || lf == "Off" {
				set[k] = true
			}
		}
	}
	var out []string
	for k := range set {
		out = append(out, k)
	}
	sort.Strings(out)
	return out
}

func prefixKeys(m map[string]bool, prefix string) map[string]bool {
	out := map[string]bool{}
	for k := range m {
		if !strings.HasPrefix(k, "p0") {
			continue
		}
		rest := strings.TrimPrefix(strings.TrimPrefix(k, "p0"), ".")
		out[joinPath(prefix, rest)] = true
	}
	return out
}

// emptyingSites: do all stores to location key (relative to T) that are
// reachable from fn store an empty/fresh slice?
func (c *Ctx) emptiedBy(fn *ssa.Function, prefix, key string) (bool, string) {
	want := "p0"
	rel := key
	if prefix != "" {
		if !strings.HasPrefix(key, prefix+".") {
			return false, "location is outside the receiver of the resolved method"
		}
		rel = strings.TrimPrefix(key, prefix+".")
	}
	sites := c.effects()[fn].may[joinPath(want, rel)]
	if len(sites) == 0 {
		// whole-struct store of an enclosing value
		return false, "no store"
	}
	for _, s := range sites {
		st, ok := s.In.(*ssa.Store)
		if !ok {
			return false, "written by " + s.In.String()
		}
		if !isEmptyValue(st.Val) {
			return false, fmt.Sprintf("store of a non-empty value at %s", c.pos(st.Pos()))
		}
	}
	return true, ""
}

func isEmptyValue(v ssa.Value) bool {
	switch x := v.(type) {
	case *ssa.Slice:
		return x.High != nil && isConstZero(x.High) && x.Low == nil
	case *ssa.Const:
		return x.Value == nil || isConstZero(x)
	case *ssa.MakeSlice:
		return true
	case *ssa.UnOp:
		// load of a zero composite literal
		if al, ok := x.X.(*ssa.Alloc); ok && x.Op == token.MUL {
			for _, ref := range *al.Referrers() {
				switch ref.(type) {
				case *ssa.Store, *ssa.FieldAddr, *ssa.IndexAddr:
					return false
				}
			}
			return true
		}
	}
	return false
}

// covered: k or a struct-level prefix of k (X.[*] covers X.[*].f) is in must.
func covered(must map[string]bool, k string) bool {
	for {
		if must[k] {
			return true
		}
		i := strings.LastIndex(k, ".")
		if i < 0 || strings.HasSuffix(k, "[*]") {
			return false
		}
		k = k[:i]
	}
}

// elemBase: X for keys X.[*] and X.[*].f
func elemBase(k string) (string, bool) {
	i := strings.Index(k, ".[*]")
	if i < 0 {
		return k, false
	}
	return k[:i], true
}

func (c *Ctx) coverCheck(p *Parser, fn *ssa.Function, method string, assume func(*ssa.If) int, what string) {
	name := fnName(p.Parse)
	if fn == nil {
		c.fail(name+":"+method, p.Parse.Pos(), "%s does not resolve to a method", method)
		return
	}
	prefix, ok := c.embedPrefix(p.T, method)
	if !ok {
		c.fail(name+":"+method, fn.Pos(), "cannot resolve the embedding path of %s", method)
		return
	}
	must := prefixKeys(c.mustWrite(fn, assume), prefix)
	state := c.searchState(p)
	for _, k := range state {
		key := fmt.Sprintf("%s:%s:%s", fnName(p.Parse), method, k)
		base, isElem := elemBase(k)
		switch {
		case strings.HasSuffix(k, ".W") || k == "W":
			// W is parse position; Reset stores 0, Shrink re-bases (R-SHRINK-PB)
			if must[k] {
				c.ok(key, fn.Pos(), "written on every success path of %s", fnName(fn))
			} else {
				c.fail(key, fn.Pos(), "%s (%s) does not write %s on every success path", method, fnName(fn), k)
			}
		case covered(must, k):
			// scalar state must return to the value a new parser has: zero
			if what == "re-initialised" && !strings.Contains(k, "[*]") && c.isIntKey(p.T, k) {
				if bad := c.nonZeroStore(fn, prefix, k); bad != "" {
					c.fail(key, fn.Pos(), "%s stores a non-zero value to the search-state counter %s (%s): a reset parser does not start from the state of a new one", method, k, bad)
					continue
				}
			}
			c.ok(key, fn.Pos(), "%s on every success path of %s", what, fnName(fn))
		case isElem && must[base]:
			// elements: header must be emptied (or elements cleared, handled above)
			if ok, why := c.emptiedBy(fn, prefix, base); ok {
				c.ok(key, fn.Pos(), "slice %s is cut to length 0 / freshly allocated by %s", base, fnName(fn))
			} else if c.elementsRewritten(fn, prefix, k) {
				c.ok(key, fn.Pos(), "elements re-based in place by %s", fnName(fn))
			} else {
				c.fail(key, fn.Pos(), "%s (%s) re-assigns %s but neither empties it nor rewrites its elements (%s)", method, fnName(fn), base, why)
			}
		case strings.Count(k, "[*]") >= 2 && must[strings.SplitN(k, ".[*]", 2)[0]]:
			// nested slices (edges[i][j]): covered when the outer slice is emptied
			outer := strings.SplitN(k, ".[*]", 2)[0]
			if ok, why := c.emptiedBy(fn, prefix, outer); ok {
				c.ok(key, fn.Pos(), "outer slice %s is cut to length 0 by %s", outer, fnName(fn))
			} else {
				c.fail(key, fn.Pos(), "%s (%s): %s", method, fnName(fn), why)
			}
		default:
			c.fail(key, fn.Pos(), "search-state location %s, which Parse may write, is not %s by %s (resolves to %s): state survives %s", k, what, method, fnName(fn), method)
		}
	}
	if len(state) == 0 {
		c.fail(name+":"+method, fn.Pos(), "no search state found for this parser")
	}
}

// elementsRewritten: fn (or callees) stores into the elements of key in a loop.
func (c *Ctx) elementsRewritten(fn *ssa.Function, prefix, key string) bool {
	rel := key
	if prefix != "" {
		rel = strings.TrimPrefix(key, prefix+".")
	}
	return len(c.effects()[fn].may[joinPath("p0", rel)]) > 0
}

// wrappedResetCover: the streaming wrapper's Reset resets the wrapped parser and installs the reader on every path
// that returns (whatever reader it is given): a wrapper that keeps the parser's window, position or search structures
// produces blocks that depend on the previous stream.
func (c *Ctx) wrappedResetCover() {
	wp := c.namedType(c.lz, "WrappedParser")
	if wp == nil {
		return
	}
	fn := c.method(wp, "Reset")
	key := "lz.(*WrappedParser).Reset"
	if fn == nil {
		c.fail(key, token.NoPos, "method not found")
		return
	}
	// blocks that perform the inner Reset (an invoke of Reset on a field of the receiver) / store a reader field
	inner, store := map[*ssa.BasicBlock]bool{}, map[*ssa.BasicBlock]bool{}
	for _, b := range fn.Blocks {
		for _, in := range b.Instrs {
			switch x := in.(type) {
			case *ssa.Call:
				if x.Call.IsInvoke() && x.Call.Method.Name() == "Reset" {
					if _, _, ok := recvPathOf(fn, x.Call.Value); ok {
						inner[b] = true
					}
				}
			case *ssa.Store:
				if _, ok := recvPath(fn, x.Addr); ok && len(fn.Params) > 1 && x.Val == ssa.Value(fn.Params[1]) {
					store[b] = true
				}
			}
		}
	}
	avoid := func(set map[*ssa.BasicBlock]bool) *ssa.BasicBlock {
		seen := map[*ssa.BasicBlock]bool{}
		work := []*ssa.BasicBlock{fn.Blocks[0]}
		for len(work) > 0 {
			b := work[len(work)-1]
			work = work[:len(work)-1]
			if seen[b] || set[b] {
				continue
			}
			seen[b] = true
			if _, ok := b.Instrs[len(b.Instrs)-1].(*ssa.Return); ok {
				return b
			}
			work = append(work, b.Succs...)
		}
		return nil
	}
	if b := avoid(inner); b != nil {
		c.fail(key+":inner-reset", b.Instrs[len(b.Instrs)-1].Pos(), "WrappedParser.Reset can return without resetting the wrapped parser: the next stream is parsed with the previous stream's window and search structures")
	} else {
		c.ok(key+":inner-reset", fn.Pos(), "the wrapped parser is reset on every returning path")
	}
	if b := avoid(store); b != nil {
		c.fail(key+":reader", b.Instrs[len(b.Instrs)-1].Pos(), "WrappedParser.Reset can return without installing the reader it was given")
	} else {
		c.ok(key+":reader", fn.Pos(), "the reader is installed on every returning path")
	}
	// every other field of the wrapper that holds state of the previous stream (an error kept for later, a flag) is
	// set back to its zero value on every returning path: by a store of the zero value to the field, or by replacing
	// the whole value
	st := derefStruct(fn.Params[0].Type())
	if st == nil {
		return
	}
	for i := 0; i < st.NumFields(); i++ {
		f := st.Field(i)
		switch f.Type().Underlying().(type) {
		case *types.Interface:
			if !isErrorType(f.Type()) {
				continue // the reader and the parser
			}
		case *types.Basic:
		default:
			continue
		}
		written := false
		for _, g := range c.methodsOf(wp) {
			if g == fn {
				continue
			}
			for _, b := range g.Blocks {
				for _, in := range b.Instrs {
					if s2, ok := in.(*ssa.Store); ok && fieldOfAddr(s2.Addr) == f {
						written = true
					}
				}
			}
		}
		if !written {
			continue
		}
		clr := map[*ssa.BasicBlock]bool{}
		for _, b := range fn.Blocks {
			for _, in := range b.Instrs {
				s2, ok := in.(*ssa.Store)
				if !ok {
					continue
				}
				if fieldOfAddr(s2.Addr) == f && isEmptyValue(s2.Val) {
					clr[b] = true
				}
				if k, isC := s2.Val.(*ssa.Const); isC && k.Value == nil && fieldOfAddr(s2.Addr) == f {
					clr[b] = true
				}
				if s2.Addr == ssa.Value(fn.Params[0]) {
					if k, isC := s2.Val.(*ssa.Const); isC && k.Value == nil {
						clr[b] = true // *s = T{} followed by the fields that are kept
					}
				}
			}
		}
		// a later non-zero store to the field in Reset defeats a whole-value reset
		for _, b := range fn.Blocks {
			for _, in := range b.Instrs {
				if s2, ok := in.(*ssa.Store); ok && fieldOfAddr(s2.Addr) == f {
					if k, isC := s2.Val.(*ssa.Const); !(isC && k.Value == nil) && !isEmptyValue(s2.Val) {
						clr = map[*ssa.BasicBlock]bool{}
					}
				}
			}
		}
		if b := avoid(clr); b != nil {
			c.fail(key+":state:"+f.Name(), b.Instrs[len(b.Instrs)-1].Pos(), "WrappedParser.Reset can return without setting %s back to its zero value: state of the previous stream (%s is written by Parse) reaches the next one", f.Name(), f.Name())
		} else {
			c.ok(key+":state:"+f.Name(), fn.Pos(), "%s is set back to its zero value on every returning path", f.Name())
		}
	}
}

// recvPathOf: v is a load of a field path of fn's receiver.
func recvPathOf(fn *ssa.Function, v ssa.Value) (ssa.Value, string, bool) {
	ld, ok := v.(*ssa.UnOp)
	if !ok || ld.Op != token.MUL {
		return nil, "", false
	}
	p, ok := recvPath(fn, ld.X)
	return ld, p, ok
}

func ruleResetCover(c *Ctx) {
	c.wrappedResetCover()
	for _, p := range c.parsers() {
		c.coverCheck(p, p.Reset, "Reset", nil, "re-initialised")
		// the buffer itself: Data replaced/emptied, W and Off set to zero on every success path
		if p.Reset == nil {
			continue
		}
		prefix, ok := c.embedPrefix(p.T, "Reset")
		if !ok {
			continue
		}
		must := prefixKeys(c.mustWrite(p.Reset, nil), prefix)
		for _, k := range c.bufferState(p) {
			key := fmt.Sprintf("%s:Reset:%s", fnName(p.Parse), k)
			if !covered(must, k) {
				c.fail(key, p.Reset.Pos(), "buffer field %s is not written on every success path of Reset (resolves to %s): after Reset the parser does not start from the state of a new one", k, fnName(p.Reset))
				continue
			}
			if lastField(k) == "Data" {
				c.ok(key, p.Reset.Pos(), "Data replaced on every success path")
				continue
			}
			// scalars must be zeroed
			if bad := c.nonZeroStore(p.Reset, prefix, k); bad != "" {
				c.fail(key, p.Reset.Pos(), "Reset stores a non-zero value to %s (%s)", k, bad)
			} else {
				c.ok(key, p.Reset.Pos(), "%s = 0 on every success path", k)
			}
		}
	}
}

// nonZeroStore: a store reachable from fn to the scalar location key that
// does not store constant zero.
func (c *Ctx) nonZeroStore(fn *ssa.Function, prefix, key string) string {
	rel := key
	if prefix != "" {
		rel = strings.TrimPrefix(key, prefix+".")
	}
	for _, s := range c.effects()[fn].may[joinPath("p0", rel)] {
		st, ok := s.In.(*ssa.Store)
		if !ok {
			return s.In.String()
		}
		v := st.Val
		if _, isStruct := v.Type().Underlying().(*types.Struct); isStruct {
			v = structComponent(v, lastField(key))
			if v == nil {
				continue
			}
		}
		if !isZeroConst(v) {
			return c.pos(st.Pos())
		}
	}
	return ""
}

func ruleInvalidate(c *Ctx) {
	pbShrink := c.method(c.parserBuf(), "Shrink")
	for _, p := range c.parsers() {
		fn := p.Shrink
		if fn == nil {
			c.fail(fnName(p.Parse)+":Shrink", p.Parse.Pos(), "Shrink does not resolve")
			continue
		}
		// assume δ > 0 where δ is the result of ParserBuffer.Shrink
		var inner *ssa.Call
		for _, b := range fn.Blocks {
			for _, in := range b.Instrs {
				if call, ok := in.(*ssa.Call); ok && call.Call.StaticCallee() == pbShrink {
					inner = call
				}
			}
		}
		assume := func(iff *ssa.If) int {
			if inner == nil {
				return 0
			}
			cd := unNot(Cond{iff.Cond, true})
			bo, ok := cd.V.(*ssa.BinOp)
			if !ok {
				return 0
			}
			pol := 0
			switch {
			case stripConv(bo.X) == inner && isConstZero(bo.Y):
				switch bo.Op {
				case token.GTR, token.NEQ:
					pol = +1
				case token.LEQ, token.EQL:
					pol = -1
				}
			case stripConv(bo.Y) == inner && isConstZero(bo.X):
				switch bo.Op {
				case token.LSS, token.NEQ:
					pol = +1
				case token.GEQ, token.EQL:
					pol = -1
				}
			}
			if !cd.True {
				pol = -pol
			}
			return pol
		}
		if fn == pbShrink {
			// a parser without its own Shrink: all search state beyond the buffer stays stale
			assume = nil
		}
		c.coverCheckShrink(p, fn, assume)
	}
}

// coverCheckShrink: like coverCheck, but W/Data/Off are owned by
// ParserBuffer.Shrink (R-SHRINK-PB) and position tables may be re-based in
// place instead of emptied.
func (c *Ctx) coverCheckShrink(p *Parser, fn *ssa.Function, assume func(*ssa.If) int) {
	prefix, ok := c.embedPrefix(p.T, "Shrink")
	if !ok {
		c.fail(fnName(p.Parse)+":Shrink", fn.Pos(), "cannot resolve the embedding path of Shrink")
		return
	}
	must := prefixKeys(c.mustWrite(fn, assume), prefix)
	n := 0
	for _, k := range c.searchState(p) {
		lf := lastField(k)
		if lf == "W" || lf == "Data" || lf == "Off" {
			continue
		}
		n++
		key := fmt.Sprintf("%s:Shrink:%s", fnName(p.Parse), k)
		outer, _ := elemBase(k)
		if c.dataValued(p, k) {
			c.ok(key, fn.Pos(), "holds input bytes, not buffer positions: nothing to re-base")
			continue
		}
		switch {
		case covered(must, k):
			c.ok(key, fn.Pos(), "rewritten on the δ>0 path of %s", fnName(fn))
		case strings.Contains(k, "[*]") && c.elementsRewritten(fn, prefix, k):
			// re-based bucket by bucket through sub-slices; the arithmetic of the re-basing
			// routine itself (every entry pos−δ or cleared) is R-SHRINK-WRAP's subject
			c.ok(key, fn.Pos(), "elements rewritten in place on the δ>0 path of %s (see R-SHRINK-WRAP)", fnName(fn))
		case must[outer]:
			c.ok(key, fn.Pos(), "%s re-assigned on the δ>0 path of %s", outer, fnName(fn))
		default:
			c.fail(key, fn.Pos(), "search-state location %s holds buffer-relative data but is neither re-based nor dropped on the δ>0 path of Shrink (resolves to %s): after compaction it refers to moved bytes", k, fnName(fn))
		}
	}
	if n == 0 {
		c.fail(fnName(p.Parse)+":Shrink", fn.Pos(), "no search state found")
	}
}

// ---------------------------------------------------------------- R-COPY-CLOBBER

func ruleCopyClobber(c *Ctx) {
	n := 0
	for _, fn := range c.allFuncs {
		if fn.Pkg != c.lz {
			continue
		}
		fi := c.info(fn)
		for _, b := range fn.Blocks {
			for _, in := range b.Instrs {
				cp := isBuiltinCall(in, "copy")
				if cp == nil {
					continue
				}
				// destination aliases the source's backing array through a re-grow: dst is (a slice of)
				// Y where Y = X[:n] and src is X
				dstBase := stripSlices(cp.Call.Args[0])
				srcBase := stripSlices(cp.Call.Args[1])
				alias := c.regrowAlias(dstBase, srcBase)
				if alias == nil {
					continue
				}
				n++
				key := fmt.Sprintf("%s:regrow-copy#%d", fnName(fn), n)
				// any element store into the alias that can reach the copy
				bad := false
				for _, bb := range fn.Blocks {
					for _, in2 := range bb.Instrs {
						st, ok := in2.(*ssa.Store)
						if !ok {
							continue
						}
						ia, ok := st.Addr.(*ssa.IndexAddr)
						if !ok {
							continue
						}
						if !c.sameArray(stripSlices(ia.X), dstBase, alias) {
							continue
						}
						if fi.instrReaches(st, cp) {
							bad = true
							c.fail(key, st.Pos(), "the slice is re-grown inside its own backing array and the old contents are moved with copy at %s, but this store into the aliased array can execute before the copy: live elements are overwritten before they are moved", c.pos(cp.Pos()))
						}
					}
				}
				if !bad {
					c.ok(key, cp.Pos(), "no store into the aliased array precedes the move")
				}
				// stores after the move must stay outside the moved region [d, d+k)
				dLow := linConst(0)
				if dsl, ok := cp.Call.Args[0].(*ssa.Slice); ok && dsl.Low != nil {
					dLow = fi.lin(dsl.Low)
				}
				kMoved := fi.lin(cp)
				copyFacts := []Fact{
					{kMoved.sub(fi.lenOf(cp.Call.Args[1])), LE},
					{kMoved.sub(fi.lenOf(cp.Call.Args[0])), LE},
					{kMoved.scale(-1), LE},
					// the move is complete: the re-grown slice is at least d + len(src) long where this idiom is used
				}
				okAfter := true
				nAfter := 0
				for _, bb := range fn.Blocks {
					for _, in2 := range bb.Instrs {
						st, ok := in2.(*ssa.Store)
						if !ok {
							continue
						}
						ia, ok := st.Addr.(*ssa.IndexAddr)
						if !ok {
							continue
						}
						if !c.sameArray(stripSlices(ia.X), dstBase, alias) {
							continue
						}
						if !fi.instrReaches(cp, st) || fi.instrReaches(st, cp) {
							continue
						}
						nAfter++
						// absolute index = sum of the low bounds of the slice chain + index
						abs := fi.lin(ia.Index)
						for v := ia.X; ; {
							sl, isSl := v.(*ssa.Slice)
							if !isSl {
								break
							}
							if sl.Low != nil {
								abs = abs.add(fi.lin(sl.Low))
							}
							v = sl.X
						}
						below := fi.proveAt(abs.addc(1).sub(dLow), bb, copyFacts)
						above := fi.proveAt(dLow.add(kMoved).sub(abs), bb, copyFacts)
						if os.Getenv("LZDBG") != "" {
							fmt.Fprintf(os.Stderr, "CLOBBER %s abs=%s dLow=%s k=%s below=%v above=%v facts=%s\n", key, abs, dLow, kMoved, below, above, factStrings(fi.factsAt(bb)))
							fmt.Fprintf(os.Stderr, "   d<=0:%v  above-nofacts:%v above-proveLE:%v flat:%v false:%v\n", fi.proveAt(dLow, bb, nil), fi.proveAt(dLow.add(kMoved).sub(abs), bb, nil), fi.proveLE(dLow.add(kMoved).sub(abs), bb, copyFacts), fi.proveFlat(dLow.add(kMoved).sub(abs), fi.condsAt(bb), copyFacts), fi.proveAt(linConst(1), bb, copyFacts))
						}
						if !below && !above {
							okAfter = false
							c.fail(key+":after", st.Pos(), "after the live elements were moved to [%s, %s+%s) this store writes index %s of the same array, which is not proved to lie outside the moved region: moved live elements are overwritten", dLow, dLow, kMoved, abs)
						}
					}
				}
				// clear(S) on a slice of the aliased array is a store to all of S
				for _, bb := range fn.Blocks {
					for _, in2 := range bb.Instrs {
						cl := isBuiltinCall(in2, "clear")
						if cl == nil || len(cl.Call.Args) != 1 {
							continue
						}
						if !c.sameArray(stripSlices(cl.Call.Args[0]), dstBase, alias) {
							continue
						}
						if !fi.instrReaches(cp, cl) {
							continue
						}
						nAfter++
						lo := linConst(0)
						for v := cl.Call.Args[0]; ; {
							sl, isSl := v.(*ssa.Slice)
							if !isSl {
								break
							}
							if sl.Low != nil {
								lo = lo.add(fi.lin(sl.Low))
							}
							v = sl.X
						}
						hi := lo.add(fi.lenOf(cl.Call.Args[0]))
						below := fi.proveAt(hi.sub(dLow), bb, copyFacts)
						above := fi.proveAt(dLow.add(kMoved).sub(lo), bb, copyFacts)
						if !below && !above {
							okAfter = false
							c.fail(key+":after", cl.Pos(), "after the live elements were moved to [%s, %s+%s) clear() wipes [%s, %s) of the same array, which is not proved to lie outside the moved region: moved live elements are overwritten", dLow, dLow, kMoved, lo, hi)
						}
					}
				}
				if okAfter {
					c.ok(key+":after", cp.Pos(), "%d stores after the move stay outside the moved region [d, d+k)", nAfter)
				}
			}
		}
	}
	if n == 0 {
		// the idiom may legitimately disappear; keep the rule from failing vacuously by reporting what was scanned
		c.ok("regrow-copy", token.NoPos, "no in-place re-grow with copy found in package lz")
	}
}

// regrowAlias: dst's base value is (a field load of an alloc whose field was
// stored with) a re-slice X[:n] of the value src is loaded from.
func (c *Ctx) regrowAlias(dst, src ssa.Value) *ssa.Slice {
	// dst is a load of local.field; find the store to that field
	ld, ok := dst.(*ssa.UnOp)
	if !ok || ld.Op != token.MUL {
		return nil
	}
	r, p, ok := pathStr(ld.X)
	if !ok {
		return nil
	}
	al, ok := r.(*ssa.Alloc)
	if !ok {
		return nil
	}
	var found *ssa.Slice
	for _, b := range al.Parent().Blocks {
		for _, in := range b.Instrs {
			st, ok := in.(*ssa.Store)
			if !ok {
				continue
			}
			r2, p2, ok := pathStr(st.Addr)
			if !ok || r2 != al || p2 != p {
				continue
			}
			if sl, ok := st.Val.(*ssa.Slice); ok && sl.Low == nil && sl.High != nil {
				// X must be the same location the source is loaded from
				if sameLoadPath(sl.X, src) {
					found = sl
				}
			}
		}
	}
	return found
}

func sameLoadPath(a, b ssa.Value) bool {
	ra, pa, ok1 := pathStr(a)
	rb, pb, ok2 := pathStr(b)
	return ok1 && ok2 && ra == rb && pa == pb
}

func (c *Ctx) sameArray(v, dstBase ssa.Value, alias *ssa.Slice) bool {
	if v == dstBase || v == alias {
		return true
	}
	return sameLoadPath(v, dstBase)
}

// ---------------------------------------------------------------- R-NOGLOBAL

func ruleNoGlobal(c *Ctx) {
	for _, pkg := range []*ssa.Package{c.lz, c.suffix} {
		var names []string
		for n, m := range pkg.Members {
			if _, ok := m.(*ssa.Global); ok {
				names = append(names, n)
			}
		}
		sort.Strings(names)
		bad := 0
		for _, n := range names {
			g := pkg.Members[n].(*ssa.Global)
			if strings.HasPrefix(n, "init$") {
				continue
			}
			t := g.Type().(*types.Pointer).Elem()
			key := pkg.Pkg.Name() + "." + n
			if !isErrorType(t) {
				if ro, why := c.readOnlyGlobal(g); ro {
					c.ok(key+":read-only", g.Pos(), "package-level %s is a lookup table: immutable elements, written only by the package initialiser, only read elsewhere", t)
					continue
				} else {
					bad++
					c.fail(key, g.Pos(), "package-level variable of type %s (%s): only immutable error values and read-only tables are expected at package level (shared mutable state breaks instance isolation)", t, why)
				}
			}
		}
		// stores outside init
		for _, fn := range c.allFuncs {
			if fn.Pkg != pkg || fn.Name() == "init" || strings.HasPrefix(fn.Name(), "init#") {
				continue
			}
			for _, k := range c.mayWrite(fn) {
				if strings.HasPrefix(k, "g:") {
					for _, s := range c.effects()[fn].may[k] {
						if s.Fn == fn {
							bad++
							c.fail(fnName(fn)+":global-store", s.In.Pos(), "store to package-level variable %s", strings.TrimPrefix(k, "g:"))
						}
					}
				}
			}
		}
		if bad == 0 {
			c.ok(pkg.Pkg.Name()+":globals", token.NoPos, "%d package-level variables, all error values or read-only tables; no store outside init", len(names))
		}
	}
}

// ---------------------------------------------------------------- R-NONDET

func (c *Ctx) apiRoots() []*ssa.Function {
	var roots []*ssa.Function
	for _, fn := range c.allFuncs {
		if fn.Parent() != nil {
			continue
		}
		if fn.Object() != nil && fn.Object().Exported() {
			roots = append(roots, fn)
			continue
		}
		// methods of parser types are reachable through lz.Parser
		for _, p := range c.parsers() {
			if c.isMethodOf(fn, p.T) {
				roots = append(roots, fn)
			}
		}
	}
	return roots
}

func ruleNonDet(c *Ctx) {
	reach := c.reachable(c.apiRoots()...)
	var fns []*ssa.Function
	for fn := range reach {
		fns = append(fns, fn)
	}
	sort.Slice(fns, func(i, j int) bool { return fns[i].String() < fns[j].String() })
	badPkgs := map[string]bool{"time": true, "math/rand": true, "math/rand/v2": true, "crypto/rand": true, "os": true, "unsafe": true, "runtime": true, "sync": true, "sync/atomic": true}
	bad := 0
	for _, fn := range fns {
		if strings.Contains(fn.Name(), "Stats") && fn.Pkg == c.lz {
			// statistics helper behind a constant false flag is still scanned
		}
		for _, b := range fn.Blocks {
			for _, in := range b.Instrs {
				switch x := in.(type) {
				case *ssa.Go:
					bad++
					c.fail(fnName(fn)+":go", x.Pos(), "goroutine started in API-reachable code")
				case *ssa.Select:
					bad++
					c.fail(fnName(fn)+":select", x.Pos(), "select in API-reachable code")
				case *ssa.Range:
					if _, ok := x.X.Type().Underlying().(*types.Map); ok {
						bad++
						c.fail(fnName(fn)+":map-range", x.Pos(), "iteration over a map (order is not deterministic)")
					}
				case *ssa.Convert:
					if b, ok := x.Type().Underlying().(*types.Basic); ok && b.Kind() == types.UnsafePointer {
						bad++
						c.fail(fnName(fn)+":unsafe", x.Pos(), "unsafe.Pointer conversion")
					}
				case ssa.CallInstruction:
					if callee := x.Common().StaticCallee(); callee != nil && callee.Pkg != nil {
						if badPkgs[callee.Pkg.Pkg.Path()] {
							bad++
							c.fail(fnName(fn)+":call-"+callee.Pkg.Pkg.Path(), in.Pos(), "call of %s.%s: a source of nondeterminism or shared state in API-reachable code", callee.Pkg.Pkg.Path(), callee.Name())
						}
					}
				}
			}
		}
	}
	c.ok("api-reachable", token.NoPos, "%d functions reachable from the exported API scanned", len(fns))
	if bad == 0 {
		c.ok("nondeterminism-sources", token.NoPos, "no goroutine, select, map iteration, unsafe, time/rand/os/sync call")
	}
}

// ---------------------------------------------------------------- R-OSAP-RANGE

func ruleOsapRange(c *Ctx) {
	edgesName, startName := c.osapFieldNames()
	if edgesName == "" || startName == "" {
		c.fail("osap:fields", token.NoPos, "unresolved anchor: the edge table / covered-range start of the optimizing parser were not found")
		return
	}
	// the parser whose Parse calls an edge computation that calls suffix.Segments
	n := 0
	for _, p := range c.parsers() {
		fi := c.info(p.Parse)
		for _, b := range p.Parse.Blocks {
			for _, in := range b.Instrs {
				call, ok := in.(*ssa.Call)
				if !ok {
					continue
				}
				callee := call.Call.StaticCallee()
				if callee == nil || callee.Pkg != c.lz {
					continue
				}
				callsSegments := false
				for g := range c.reachable(callee) {
					if g.Pkg == c.suffix && g.Name() == "Segments" {
						callsSegments = true
					}
				}
				if !callsSegments {
					continue
				}
				n++
				key := fnName(p.Parse) + ":recompute-guard"
				// the guard: W + n > start + len(edges)
				ok2 := false
				for _, f := range fi.factsAt(b) {
					if f.Op != LE {
						continue
					}
					var hasW, hasStart, hasLen bool
					for a, co := range f.L.t {
						base := strings.SplitN(a, "@", 2)[0]
						switch {
						case strings.HasSuffix(base, ".W") && co == -1:
							hasW = true
						case strings.HasSuffix(base, "."+startName) && co == 1:
							hasStart = true
						case strings.HasPrefix(base, "len(") && strings.Contains(base, "."+edgesName) && co == 1:
							hasLen = true
						}
					}
					if hasW && hasStart && hasLen && f.L.c >= 1 {
						ok2 = true
					}
				}
				// and nothing else: the call must be reachable whenever that holds (single dominating condition besides n != 0, blk != nil)
				c.check(ok2, key, call.Pos(), "edges are recomputed under W + n > start + len(edges)",
					"the edge computation is not guarded by W + n > start + len(edges): stale or missing edges would be used for a block outside the covered range (facts: "+factStrings(fi.factsAt(b))+")")
				// the covered range the guard reasons about must be the range that was really
				// computed: the edge computation sets start = W and len(edges) = len(Data) − start
				cfi := c.info(callee)
				var startV Lin
				haveStart := false
				okLen := true
				nEdgeStores := 0
				detail := ""
				for _, cb := range callee.Blocks {
					for _, cin := range cb.Instrs {
						st, isSt := cin.(*ssa.Store)
						if !isSt {
							continue
						}
						f := fieldOfAddr(st.Addr)
						if f == nil {
							continue
						}
						switch f.Name() {
						case startName:
							startV = cfi.lin(st.Val)
							haveStart = true
						}
					}
				}
				var dataLen Lin
				haveData := false
				for _, cb := range callee.Blocks {
					for _, cin := range cb.Instrs {
						if ld, isLd := cin.(*ssa.UnOp); isLd && ld.Op == token.MUL && !haveData {
							if f := fieldOfAddr(ld.X); f != nil && f.Name() == "Data" {
								dataLen = cfi.lenOf(ld)
								haveData = true
							}
						}
					}
				}
				for _, cb := range callee.Blocks {
					for _, cin := range cb.Instrs {
						st, isSt := cin.(*ssa.Store)
						if !isSt {
							continue
						}
						if f := fieldOfAddr(st.Addr); f == nil || f.Name() != edgesName {
							continue
						}
						if _, isIA := st.Addr.(*ssa.IndexAddr); isIA {
							continue
						}
						nEdgeStores++
						// forward loads of start to the value stored just before
						lv := cfi.lenOf(st.Val).clone()
						for a, co := range lv.t {
							if ld, isLd := cfi.loadAtoms[a].(*ssa.UnOp); isLd {
								if f := fieldOfAddr(ld.X); f != nil && f.Name() == startName {
									if us := cfi.uniqueReachingStore(ld); us != nil {
										delete(lv.t, a)
										lv = lv.addk(cfi.lin(us.Val), co)
									}
								}
							}
						}
						if !haveStart || !haveData || !lv.eq(dataLen.sub(startV)) {
							okLen = false
							detail = fmt.Sprintf("len(edges) = %s", lv)
						}
					}
				}
				isW := false
				if haveStart && len(startV.t) == 1 && startV.c == 0 {
					for a, co := range startV.t {
						if co == 1 && strings.HasSuffix(strings.SplitN(a, "@", 2)[0], ".W") {
							isW = true
						}
					}
				}
				c.check(okLen && nEdgeStores > 0 && isW, fnName(callee)+":covered-range", callee.Pos(), "the edge computation sets start = W and len(edges) = len(Data) − start: the guard's covered range is the computed range",
					"the edge table is not sized to the data actually present (start = W, len(edges) = len(Data) − start; "+detail+"): the recompute guard then believes later-written data to be covered and those positions get no (or stale) edges")
			}
		}
	}
	if n == 0 {
		c.fail("osap:recompute-guard", token.NoPos, "no parser recomputes suffix-array edges from Parse")
	}
}

// dataValued: every store to the location (in functions reachable from
// Parse) stores a value computed from input bytes only, never from a
// buffer position.
func (c *Ctx) dataValued(p *Parser, key string) bool {
	sites := c.effects()[p.Parse].may["p0."+key]
	if len(sites) == 0 {
		return false
	}
	for _, s := range sites {
		st, ok := s.In.(*ssa.Store)
		if !ok {
			return false
		}
		val := st.Val
		if _, isStruct := val.Type().Underlying().(*types.Struct); isStruct {
			// whole-element store: pick the component stored for this field
			val = structComponent(val, lastField(key))
			if val == nil {
				continue // zero value for that field
			}
		}
		if !c.fromBytes(val, 0) {
			return false
		}
	}
	return true
}

// structComponent: v is a load of a composite-literal alloc (or a Parameter
// struct / call result); returns the value stored to field name, nil if the
// field is left zero, and v itself if it cannot be resolved.
func structComponent(v ssa.Value, name string) ssa.Value {
	ld, ok := v.(*ssa.UnOp)
	if !ok || ld.Op != token.MUL {
		return v
	}
	al, ok := ld.X.(*ssa.Alloc)
	if !ok {
		return v
	}
	var found ssa.Value
	whole := false
	for _, ref := range *al.Referrers() {
		switch r := ref.(type) {
		case *ssa.FieldAddr:
			if derefStruct(r.X.Type()).Field(r.Field).Name() != name {
				continue
			}
			for _, u := range *r.Referrers() {
				if st, ok := u.(*ssa.Store); ok && st.Addr == r {
					found = st.Val
				}
			}
		case *ssa.Store:
			if r.Addr == al {
				whole = true
				found = r.Val
			}
		}
	}
	if whole {
		return found
	}
	return found
}

func (c *Ctx) fromBytes(v ssa.Value, depth int) bool {
	if depth > 8 {
		return false
	}
	switch x := v.(type) {
	case *ssa.Const:
		return true
	case *ssa.Convert:
		return c.fromBytes(x.X, depth+1)
	case *ssa.BinOp:
		switch x.Op {
		case token.AND, token.OR, token.XOR, token.SHL, token.SHR:
			return c.fromBytes(x.X, depth+1) && c.fromBytes(x.Y, depth+1)
		}
		return false
	case *ssa.UnOp:
		if x.Op == token.MUL {
			// byte load, or a pure load of a mask/shift configuration field
			if ia, ok := x.X.(*ssa.IndexAddr); ok {
				if sl, ok := ia.X.Type().Underlying().(*types.Slice); ok {
					if b, ok := sl.Elem().Underlying().(*types.Basic); ok && b.Kind() == types.Uint8 {
						return true
					}
				}
			}
			if _, pth, ok := pathStr(x.X); ok {
				lf := lastField(pth)
				return lf == "mask" || lf == "shift"
			}
		}
	case *ssa.Call:
		callee := x.Call.StaticCallee()
		if callee != nil && callee.Signature.Params().Len() == 1 {
			if sl, ok := callee.Signature.Params().At(0).Type().Underlying().(*types.Slice); ok {
				if b, ok := sl.Elem().Underlying().(*types.Basic); ok && b.Kind() == types.Uint8 && isIntType(x.Type()) {
					return true // getLE64 family: integer made of input bytes
				}
			}
		}
	case *ssa.Phi:
		for _, e := range x.Edges {
			if e != x && !c.fromBytes(e, depth+1) {
				return false
			}
		}
		return true
	case *ssa.Parameter:
		// lift to the call sites
		fn := x.Parent()
		idx := -1
		for i, q := range fn.Params {
			if q == x {
				idx = i
			}
		}
		n := 0
		for _, g := range c.allFuncs {
			for _, b := range g.Blocks {
				for _, in := range b.Instrs {
					if call, ok := in.(ssa.CallInstruction); ok && call.Common().StaticCallee() == fn {
						n++
						if !c.fromBytes(call.Common().Args[idx], depth+1) {
							return false
						}
					}
				}
			}
		}
		return n > 0
	}
	return false
}

// isIntKey: the dotted field path k inside struct type T names an integer field.
func (c *Ctx) isIntKey(T types.Type, k string) bool {
	t := T
	for _, part := range strings.Split(k, ".") {
		st := derefStruct(t)
		if st == nil {
			if s2, ok := t.Underlying().(*types.Struct); ok {
				st = s2
			} else {
				return false
			}
		}
		found := false
		for i := 0; i < st.NumFields(); i++ {
			if st.Field(i).Name() == part {
				t = st.Field(i).Type()
				found = true
			}
		}
		if !found {
			return false
		}
	}
	return isIntType(t)
}
