// lzrewrite applies one behaviour-preserving source rewrite to a scratch
// copy of the repository (never to /repo itself). It is used by the thorough
// tier of lzcheck to measure false alarms: after any of these rewrites every
// property check must stay silent.
//
//	flipcmp   a < b  →  b > a          (operands without calls)
//	demorgan  !(a && b) → !(a) || !(b) ; !(a || b) → !(a) && !(b)
//	opassign  x += e → x = x + (e)     (x an identifier; also -=)
//	rename    every local variable / parameter v → v_rn
//	swapadd   a + b → b + a            (integer operands without calls)
//	negateif  if c {A} else {B} → if !(c) {B} else {A}   (plain else blocks only)
//	renamepkg every unexported package-level identifier / field / method x → xRn
//	rangeidx  for k, v := range s {B} → for k := 0; k < len(s); k++ { v := s[k]; B }
//	          (s a slice-typed identifier or field path not assigned in B; B without
//	          closures, without assignments to k, and — for field paths — without calls)
package main

import (
	"bytes"
	"flag"
	"fmt"
	"go/ast"
	"go/format"
	"go/token"
	"go/types"
	"os"
	"strings"

	"golang.org/x/tools/go/packages"
)

func hasCall(e ast.Expr) bool {
	found := false
	ast.Inspect(e, func(n ast.Node) bool {
		if c, ok := n.(*ast.CallExpr); ok {
			if id, ok := c.Fun.(*ast.Ident); ok && (id.Name == "len" || id.Name == "cap" || id.Name == "int" || id.Name == "int64" || id.Name == "uint32" || id.Name == "int32" || id.Name == "uint64") {
				return true
			}
			found = true
		}
		// channel receives, etc. do not occur in this code base
		return true
	})
	return found
}

func main() {
	mode := flag.String("mode", "", "flipcmp|demorgan|opassign|rename|swapadd|negateif|renamepkg|rangeidx")
	dir := flag.String("dir", "", "scratch copy of the repository")
	flag.Parse()
	if *dir == "" || strings.HasPrefix(*dir, "/repo") {
		fmt.Println("lzrewrite: refusing to run without -dir or on /repo")
		os.Exit(2)
	}
	if *mode == "hoistlen" {
		*mode = "swapadd"
	}
	cfg := &packages.Config{
		Mode: packages.NeedName | packages.NeedFiles | packages.NeedSyntax | packages.NeedTypes | packages.NeedTypesInfo | packages.NeedImports | packages.NeedDeps,
		Dir:  *dir,
		Env:  append(os.Environ(), "GOFLAGS=-mod=mod", "GOPROXY=off", "GOSUMDB=off", "GOTOOLCHAIN=local", "GOWORK=off"),
	}
	pkgs, err := packages.Load(cfg, "./...")
	if err != nil || len(pkgs) == 0 {
		fmt.Println("lzrewrite: load failed:", err)
		os.Exit(2)
	}
	changed := 0
	for _, p := range pkgs {
		if len(p.Errors) > 0 {
			fmt.Println("lzrewrite: package errors:", p.Errors[0])
			os.Exit(2)
		}
		for _, f := range p.Syntax {
			n := rewrite(*mode, f, p.TypesInfo, p.Types)
			if n == 0 {
				continue
			}
			changed += n
			var buf bytes.Buffer
			if err := format.Node(&buf, p.Fset, f); err != nil {
				fmt.Println("lzrewrite: format:", err)
				os.Exit(2)
			}
			if err := os.WriteFile(p.Fset.File(f.Pos()).Name(), buf.Bytes(), 0o644); err != nil {
				fmt.Println("lzrewrite:", err)
				os.Exit(2)
			}
		}
	}
	if changed == 0 {
		fmt.Println("lzrewrite: nothing rewritten")
		os.Exit(3)
	}
	// the result must still type-check
	pkgs2, err := packages.Load(cfg, "./...")
	if err != nil {
		fmt.Println("lzrewrite: reload failed:", err)
		os.Exit(2)
	}
	for _, p := range pkgs2 {
		if len(p.Errors) > 0 {
			fmt.Println("lzrewrite: rewritten tree does not type-check:", p.Errors[0])
			os.Exit(2)
		}
	}
	fmt.Printf("lzrewrite %s: %d sites rewritten\n", *mode, changed)
}

func isIntExpr(info *types.Info, e ast.Expr) bool {
	tv, ok := info.Types[e]
	if !ok || tv.Type == nil {
		return false
	}
	b, ok := tv.Type.Underlying().(*types.Basic)
	return ok && b.Info()&types.IsInteger != 0
}

func rewrite(mode string, f *ast.File, info *types.Info, pkg *types.Package) int {
	n := 0
	switch mode {
	case "flipcmp":
		ast.Inspect(f, func(nd ast.Node) bool {
			be, ok := nd.(*ast.BinaryExpr)
			if !ok {
				return true
			}
			var op token.Token
			switch be.Op {
			case token.LSS:
				op = token.GTR
			case token.GTR:
				op = token.LSS
			case token.LEQ:
				op = token.GEQ
			case token.GEQ:
				op = token.LEQ
			default:
				return true
			}
			if hasCall(be.X) || hasCall(be.Y) {
				return true
			}
			be.X, be.Y, be.Op = be.Y, be.X, op
			n++
			return true
		})
	case "demorgan":
		ast.Inspect(f, func(nd ast.Node) bool {
			// rewrite in parents that hold expressions: if conditions and binary operands
			fix := func(e ast.Expr) ast.Expr {
				u, ok := e.(*ast.UnaryExpr)
				if !ok || u.Op != token.NOT {
					return e
				}
				p, ok := u.X.(*ast.ParenExpr)
				if !ok {
					return e
				}
				be, ok := p.X.(*ast.BinaryExpr)
				if !ok || (be.Op != token.LAND && be.Op != token.LOR) {
					return e
				}
				op := token.LOR
				if be.Op == token.LOR {
					op = token.LAND
				}
				n++
				return &ast.ParenExpr{X: &ast.BinaryExpr{
					X:  &ast.UnaryExpr{Op: token.NOT, X: &ast.ParenExpr{X: be.X}},
					Op: op,
					Y:  &ast.UnaryExpr{Op: token.NOT, X: &ast.ParenExpr{X: be.Y}},
				}}
			}
			switch x := nd.(type) {
			case *ast.IfStmt:
				x.Cond = fix(x.Cond)
			case *ast.BinaryExpr:
				x.X = fix(x.X)
				x.Y = fix(x.Y)
			case *ast.ForStmt:
				if x.Cond != nil {
					x.Cond = fix(x.Cond)
				}
			}
			return true
		})
	case "opassign":
		ast.Inspect(f, func(nd ast.Node) bool {
			as, ok := nd.(*ast.AssignStmt)
			if !ok || len(as.Lhs) != 1 || len(as.Rhs) != 1 {
				return true
			}
			var op token.Token
			switch as.Tok {
			case token.ADD_ASSIGN:
				op = token.ADD
			case token.SUB_ASSIGN:
				op = token.SUB
			default:
				return true
			}
			id, ok := as.Lhs[0].(*ast.Ident)
			if !ok {
				return true
			}
			as.Tok = token.ASSIGN
			as.Rhs[0] = &ast.BinaryExpr{X: &ast.Ident{Name: id.Name}, Op: op, Y: &ast.ParenExpr{X: as.Rhs[0]}}
			n++
			return true
		})
	case "negateif":
		ast.Inspect(f, func(nd ast.Node) bool {
			is, ok := nd.(*ast.IfStmt)
			if !ok || is.Else == nil || is.Init != nil {
				return true
			}
			eb, ok := is.Else.(*ast.BlockStmt)
			if !ok {
				return true // else-if chains are left alone
			}
			is.Cond = &ast.UnaryExpr{Op: token.NOT, X: &ast.ParenExpr{X: is.Cond}}
			is.Body, is.Else = eb, is.Body
			n++
			return true
		})
	case "swapadd":
		ast.Inspect(f, func(nd ast.Node) bool {
			be, ok := nd.(*ast.BinaryExpr)
			if !ok || be.Op != token.ADD {
				return true
			}
			if !isIntExpr(info, be.X) || !isIntExpr(info, be.Y) || hasCall(be.X) || hasCall(be.Y) {
				return true
			}
			// keep constant expressions intact (untyped constant arithmetic)
			if tv, ok := info.Types[be]; ok && tv.Value != nil {
				return true
			}
			be.X, be.Y = be.Y, be.X
			n++
			return true
		})
	case "rangeidx":
		var visitList func(list []ast.Stmt)
		exprStr := func(e ast.Expr) string { return types.ExprString(e) }
		convert := func(rs *ast.RangeStmt) ast.Stmt {
			if rs.Tok != token.DEFINE || rs.Key == nil {
				return nil
			}
			tv, ok := info.Types[rs.X]
			if !ok || tv.Type == nil {
				return nil
			}
			if _, isSl := tv.Type.Underlying().(*types.Slice); !isSl {
				return nil
			}
			// s: identifier or selector path
			isPath := true
			isIdent := false
			var chk func(e ast.Expr)
			chk = func(e ast.Expr) {
				switch x := e.(type) {
				case *ast.Ident:
				case *ast.SelectorExpr:
					chk(x.X)
				default:
					isPath = false
				}
			}
			chk(rs.X)
			if !isPath {
				return nil
			}
			_, isIdent = rs.X.(*ast.Ident)
			xs := exprStr(rs.X)
			root := strings.SplitN(xs, ".", 2)[0]
			keyName := ""
			if id, ok := rs.Key.(*ast.Ident); ok {
				keyName = id.Name
			}
			bad := false
			ast.Inspect(rs.Body, func(nd ast.Node) bool {
				switch x := nd.(type) {
				case *ast.FuncLit, *ast.GoStmt, *ast.DeferStmt:
					bad = true
				case *ast.CallExpr:
					if !isIdent {
						if id, ok := x.Fun.(*ast.Ident); !ok || (id.Name != "len" && id.Name != "cap" && id.Name != "int" && id.Name != "uint32" && id.Name != "int32" && id.Name != "uint64" && id.Name != "int64") {
							bad = true
						}
					}
				case *ast.AssignStmt:
					for _, l := range x.Lhs {
						ls := exprStr(l)
						if ls == xs || ls == root || ls == keyName || strings.HasPrefix(xs, ls+".") {
							bad = true
						}
					}
				case *ast.IncDecStmt:
					if exprStr(x.X) == keyName {
						bad = true
					}
				case *ast.UnaryExpr:
					if x.Op == token.AND && (exprStr(x.X) == xs || exprStr(x.X) == root || exprStr(x.X) == keyName) {
						bad = true
					}
				}
				return true
			})
			if bad {
				return nil
			}
			key := rs.Key.(*ast.Ident)
			if key.Name == "_" {
				key = ast.NewIdent(fmt.Sprintf("i_rg%d", n))
			}
			body := rs.Body
			if v, ok := rs.Value.(*ast.Ident); ok && v.Name != "_" {
				decl := &ast.AssignStmt{Lhs: []ast.Expr{ast.NewIdent(v.Name)}, Tok: token.DEFINE, Rhs: []ast.Expr{&ast.IndexExpr{X: rs.X, Index: ast.NewIdent(key.Name)}}}
				body = &ast.BlockStmt{List: append([]ast.Stmt{decl}, rs.Body.List...)}
			} else if rs.Value != nil {
				if v, ok := rs.Value.(*ast.Ident); !ok || v.Name != "_" {
					return nil
				}
			}
			n++
			return &ast.ForStmt{
				Init: &ast.AssignStmt{Lhs: []ast.Expr{ast.NewIdent(key.Name)}, Tok: token.DEFINE, Rhs: []ast.Expr{&ast.BasicLit{Kind: token.INT, Value: "0"}}},
				Cond: &ast.BinaryExpr{X: ast.NewIdent(key.Name), Op: token.LSS, Y: &ast.CallExpr{Fun: ast.NewIdent("len"), Args: []ast.Expr{rs.X}}},
				Post: &ast.IncDecStmt{X: ast.NewIdent(key.Name), Tok: token.INC},
				Body: body,
			}
		}
		visitList = func(list []ast.Stmt) {
			for i, st := range list {
				if rs, ok := st.(*ast.RangeStmt); ok {
					// a labelled continue/break would need the label moved: plain loops only
					if fs := convert(rs); fs != nil {
						list[i] = fs
					}
				}
			}
		}
		ast.Inspect(f, func(nd ast.Node) bool {
			switch x := nd.(type) {
			case *ast.BlockStmt:
				visitList(x.List)
			case *ast.CaseClause:
				visitList(x.Body)
			}
			return true
		})
	case "renamepkg":
		// every unexported package-level function, method, type, variable, constant and
		// struct field of the two packages gets the suffix Rn (test files are not rewritten:
		// test files are ignored by the analyser)
		ren := func(id *ast.Ident, obj types.Object) {
			if obj == nil || obj.Pkg() != pkg || id.Name == "_" || ast.IsExported(id.Name) || strings.HasSuffix(id.Name, "Rn") {
				return
			}
			if id.Name == "init" || id.Name == "main" {
				if f, ok := obj.(*types.Func); ok && f.Type().(*types.Signature).Recv() == nil {
					return
				}
			}
			switch o := obj.(type) {
			case *types.Func:
			case *types.TypeName:
				if o.Parent() != pkg.Scope() {
					return
				}
			case *types.Var:
				if !o.IsField() && o.Parent() != pkg.Scope() {
					return
				}
			case *types.Const:
				if o.Parent() != pkg.Scope() {
					return
				}
			default:
				return
			}
			id.Name += "Rn"
			n++
		}
		ast.Inspect(f, func(nd ast.Node) bool {
			id, ok := nd.(*ast.Ident)
			if !ok {
				return true
			}
			if obj := info.Defs[id]; obj != nil {
				ren(id, obj)
			} else if obj := info.Uses[id]; obj != nil {
				ren(id, obj)
			}
			return true
		})
	case "rename":
		ren := func(id *ast.Ident, obj types.Object) {
			v, ok := obj.(*types.Var)
			if !ok || v.IsField() || id.Name == "_" || v.Pkg() != pkg {
				return
			}
			if v.Parent() == nil || v.Parent() == pkg.Scope() || v.Parent() == types.Universe {
				return
			}
			if strings.HasSuffix(id.Name, "_rn") {
				return
			}
			id.Name = id.Name + "_rn"
			n++
		}
		ast.Inspect(f, func(nd ast.Node) bool {
			if ts, ok := nd.(*ast.TypeSwitchStmt); ok {
				// the symbolic variable of a type switch has no Defs entry; its clauses use implicit objects
				if as, ok := ts.Assign.(*ast.AssignStmt); ok && len(as.Lhs) == 1 {
					if id, ok := as.Lhs[0].(*ast.Ident); ok && id.Name != "_" && !strings.HasSuffix(id.Name, "_rn") {
						id.Name += "_rn"
						n++
					}
				}
				return true
			}
			id, ok := nd.(*ast.Ident)
			if !ok {
				return true
			}
			if obj := info.Defs[id]; obj != nil {
				ren(id, obj)
			} else if obj := info.Uses[id]; obj != nil {
				ren(id, obj)
			}
			return true
		})
	default:
		fmt.Println("lzrewrite: unknown mode", mode)
		os.Exit(2)
	}
	return n
}
