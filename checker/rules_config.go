package main

// Rules about configurations: JSON union, Type strings, Clone, defaults,
// init order and reporting (C20, parts of C16).

import (
	"fmt"
	"go/constant"
	"go/token"
	"go/types"
	"reflect"
	"sort"
	"strings"

	"golang.org/x/tools/go/ssa"
)

func init() {
	reg(&Rule{ID: "R-UNION", Min: 8,
		Doc: "every field of every config type exists in the JSON union struct with the same name and type; union JSON keys are unique; config fields are of value kinds only",
		Run: ruleUnion})
	reg(&Rule{ID: "R-TYPESTR", Min: 10,
		Doc: "per config type the Type string of MarshalJSON, UnmarshalJSON and the ParseJSON case agree, the strings are distinct, unknown/mismatching Type is rejected with an error, UnmarshalJSON zeroes the value first",
		Run: ruleTypeStr})
	reg(&Rule{ID: "R-CLONE", Min: 7,
		Doc: "Clone returns the address of a fresh copy of *cfg of the same dynamic type",
		Run: ruleClone})
	reg(&Rule{ID: "R-REFLECT-NAMES", Min: 8,
		Doc: "the reflective get/set helpers copy field X to field X: each iVal(v, \"X\") lands in field X, each setIVal(v, \"X\", s.X) passes field X; every name exists in every config type that is handed to the helper",
		Run: ruleReflectNames})
	reg(&Rule{ID: "R-DEFAULTS-ZERO", Min: 12,
		Doc: "every store of a SetDefaults method is dominated by a test that the stored field is zero; composite SetDefaults are get → part.SetDefaults → set on one value",
		Run: ruleDefaultsZero})
	reg(&Rule{ID: "R-DEFAULTS-ORDER", Min: 3,
		Doc: "a field read by a default expression is not assigned later in the same SetDefaults (idempotence)",
		Run: ruleDefaultsOrder})
	reg(&Rule{ID: "R-INIT-ORDER", Min: 7,
		Doc: "every parser init calls SetDefaults then Verify on the same config value, returns Verify's error when non-nil, and stores that defaults-completed value in the parser; ParserConfig() returns its address",
		Run: ruleInitOrder})
}

// ---------------------------------------------------------------- helpers

func (c *Ctx) unionType() *types.Named {
	cfgIface := c.namedType(c.lz, "ParserConfig").Underlying().(*types.Interface)
	scope := c.lz.Pkg.Scope()
	for _, n := range scope.Names() {
		tn, ok := scope.Lookup(n).(*types.TypeName)
		if !ok {
			continue
		}
		named, ok := tn.Type().(*types.Named)
		if !ok {
			continue
		}
		st, ok := named.Underlying().(*types.Struct)
		if !ok || types.Implements(types.NewPointer(named), cfgIface) {
			continue
		}
		hasType := false
		for i := 0; i < st.NumFields(); i++ {
			if st.Field(i).Name() == "Type" {
				if b, ok := st.Field(i).Type().Underlying().(*types.Basic); ok && b.Kind() == types.String {
					hasType = true
				}
			}
		}
		if hasType && st.NumFields() > 4 {
			return named
		}
	}
	return nil
}

func jsonKey(f *types.Var, tag string) (key string, omitempty bool) {
	key = f.Name()
	t := reflect.StructTag(tag).Get("json")
	if t == "" {
		return key, false
	}
	parts := strings.Split(t, ",")
	if parts[0] != "" {
		key = parts[0]
	}
	for _, p := range parts[1:] {
		if p == "omitempty" {
			omitempty = true
		}
	}
	return key, omitempty
}

func constString(v ssa.Value) (string, bool) {
	k, ok := v.(*ssa.Const)
	if !ok || k.Value == nil || k.Value.Kind() != constant.String {
		return "", false
	}
	return constant.StringVal(k.Value), true
}

// ---------------------------------------------------------------- R-UNION

func ruleUnion(c *Ctx) {
	u := c.unionType()
	if u == nil {
		c.fail("union", token.NoPos, "JSON union struct not found")
		return
	}
	ust := u.Underlying().(*types.Struct)
	ufields := map[string]*types.Var{}
	keys := map[string]string{}
	for i := 0; i < ust.NumFields(); i++ {
		f := ust.Field(i)
		ufields[f.Name()] = f
		k, _ := jsonKey(f, ust.Tag(i))
		lk := strings.ToLower(k)
		if prev, dup := keys[lk]; dup {
			c.fail("union:key:"+k, f.Pos(), "JSON key %q of union field %s collides with field %s", k, f.Name(), prev)
		}
		keys[lk] = f.Name()
	}
	c.ok("union:keys", u.Obj().Pos(), "%d union fields with pairwise distinct JSON keys", ust.NumFields())
	for _, T := range c.configTypes() {
		st := T.Underlying().(*types.Struct)
		for i := 0; i < st.NumFields(); i++ {
			f := st.Field(i)
			key := fmt.Sprintf("lz.%s.%s", T.Obj().Name(), f.Name())
			uf, ok := ufields[f.Name()]
			switch {
			case !ok:
				c.fail(key, f.Pos(), "config field %s.%s has no field of that name in the JSON union %s: it is dropped by MarshalJSON/UnmarshalJSON (reflect FieldByName yields the zero Value and Set panics)", T.Obj().Name(), f.Name(), u.Obj().Name())
			case !types.Identical(uf.Type(), f.Type()):
				c.fail(key, f.Pos(), "config field %s.%s has type %s but the union field has type %s", T.Obj().Name(), f.Name(), f.Type(), uf.Type())
			case !f.Exported():
				c.fail(key, f.Pos(), "config field %s.%s is unexported: reflection cannot set it", T.Obj().Name(), f.Name())
			default:
				switch f.Type().Underlying().(type) {
				case *types.Basic:
					c.ok(key, f.Pos(), "present in the union with identical type %s", f.Type())
				default:
					c.fail(key, f.Pos(), "config field %s.%s is of kind %s: Clone's shallow copy would share it", T.Obj().Name(), f.Name(), f.Type().Underlying())
				}
			}
		}
	}
}

// ---------------------------------------------------------------- R-TYPESTR

// stringArgOfHelperCall: in fn, the constant string passed to a static call of a package lz function.
func (c *Ctx) helperString(fn *ssa.Function) (string, *ssa.Function, bool) {
	if fn == nil {
		return "", nil, false
	}
	for _, b := range fn.Blocks {
		for _, in := range b.Instrs {
			call, ok := in.(ssa.CallInstruction)
			if !ok {
				continue
			}
			callee := call.Common().StaticCallee()
			if callee == nil || callee.Pkg != c.lz {
				continue
			}
			for _, a := range call.Common().Args {
				if s, ok := constString(a); ok {
					return s, callee, true
				}
			}
		}
	}
	return "", nil, false
}

func ruleTypeStr(c *Ctx) {
	// ParseJSON cases: string constant compared with the Type field → type allocated under that case
	pj := c.lzFunc("ParseJSON")
	cases := map[string]string{} // type name → case string
	if pj == nil {
		c.fail("lz.ParseJSON", token.NoPos, "ParseJSON not found")
	} else {
		fi := c.info(pj)
		for _, b := range pj.Blocks {
			for _, in := range b.Instrs {
				al, ok := in.(*ssa.Alloc)
				if !ok {
					continue
				}
				named, ok := al.Type().(*types.Pointer).Elem().(*types.Named)
				if !ok {
					continue
				}
				isCfg := false
				for _, T := range c.configTypes() {
					if T == named {
						isCfg = true
					}
				}
				if !isCfg {
					continue
				}
				// nearest dominating condition: Type == "S"
				for _, cd := range fi.condsAt(b) {
					cd = unNot(cd)
					bo, ok := cd.V.(*ssa.BinOp)
					if !ok || bo.Op != token.EQL || !cd.True {
						continue
					}
					if s, ok := constString(bo.Y); ok {
						cases[named.Obj().Name()] = s
						break
					}
					if s, ok := constString(bo.X); ok {
						cases[named.Obj().Name()] = s
						break
					}
				}
			}
		}
		// table form: v.Type looked up in a read-only package-level map whose entries allocate the configuration
		var tableOK ssa.Value
		for _, b := range pj.Blocks {
			for _, in := range b.Instrs {
				lk, ok := in.(*ssa.Lookup)
				if !ok || !lk.CommaOk {
					continue
				}
				ld, ok := lk.X.(*ssa.UnOp)
				if !ok {
					continue
				}
				g, ok := ld.X.(*ssa.Global)
				if !ok {
					continue
				}
				if ro, _ := c.readOnlyGlobal(g); !ro {
					continue
				}
				for s, v := range c.globalMapEntries(g) {
					var f *ssa.Function
					switch x := v.(type) {
					case *ssa.Function:
						f = x
					case *ssa.MakeClosure:
						f, _ = x.Fn.(*ssa.Function)
					}
					if f == nil {
						continue
					}
					for _, fb := range f.Blocks {
						for _, fin := range fb.Instrs {
							al, ok := fin.(*ssa.Alloc)
							if !ok {
								continue
							}
							if named, ok := al.Type().(*types.Pointer).Elem().(*types.Named); ok {
								for _, T := range c.configTypes() {
									if T == named {
										if _, dup := cases[named.Obj().Name()]; dup {
											cases[named.Obj().Name()] = "\x00ambiguous"
										} else {
											cases[named.Obj().Name()] = s
										}
									}
								}
							}
						}
					}
				}
				for _, r := range *lk.Referrers() {
					if ex, ok := r.(*ssa.Extract); ok && ex.Index == 1 {
						tableOK = ex
					}
				}
			}
		}
		// default: returns a non-nil error
		okDefault := false
		for _, b := range pj.Blocks {
			r, ok := b.Instrs[len(b.Instrs)-1].(*ssa.Return)
			if !ok {
				continue
			}
			if k, isNil := r.Results[0].(*ssa.Const); isNil && k.Value == nil {
				// (nil, err): either json error or the default
				all := tableOK == nil
				for _, cd := range fi.condsAt(b) {
					cd2 := unNot(cd)
					if tableOK != nil && cd2.V == tableOK && !cd2.True {
						all = true
					}
					if bo, ok := cd2.V.(*ssa.BinOp); ok && bo.Op == token.EQL {
						if _, isS := constString(bo.Y); isS && cd2.True {
							all = false
						}
					}
				}
				if all && c.nonNilError(fi, r.Results[1], b, map[ssa.Value]bool{}) {
					if call, ok := r.Results[1].(*ssa.Call); ok && call.Call.StaticCallee() != nil && call.Call.StaticCallee().Name() == "Errorf" {
						okDefault = true
					}
				}
			}
		}
		c.check(okDefault, "lz.ParseJSON:default", pj.Pos(), "an unknown Type yields (nil, error)", "ParseJSON does not reject an unknown Type with a non-nil error")
		// every return is (nil, non-nil error) or (the value the document was decoded into without error, nil)
		bad := ""
		nRet := 0
		for _, b := range pj.Blocks {
			r, ok := b.Instrs[len(b.Instrs)-1].(*ssa.Return)
			if !ok || len(r.Results) != 2 {
				continue
			}
			nRet++
			if k, isNil := r.Results[0].(*ssa.Const); isNil && k.Value == nil {
				if !c.nonNilError(fi, r.Results[1], b, map[ssa.Value]bool{}) {
					bad = "the return at " + c.pos(r.Pos()) + " yields no configuration and an error that may be nil"
				}
				continue
			}
			if k, isNil := r.Results[1].(*ssa.Const); !isNil || k.Value != nil {
				bad = "the return at " + c.pos(r.Pos()) + " yields a configuration together with an error that may be non-nil"
				continue
			}
			mi, isMI := r.Results[0].(*ssa.MakeInterface)
			if !isMI {
				// table form: the value comes out of a lookup; its decoding is checked at the call below by type
				continue
			}
			decoded := false
			for _, cb := range pj.Blocks {
				for _, in := range cb.Instrs {
					call, isCall := in.(*ssa.Call)
					if !isCall || call.Call.StaticCallee() == nil || call.Call.StaticCallee().Name() != "Unmarshal" || len(call.Call.Args) != 2 {
						continue
					}
					if am, isAM := call.Call.Args[1].(*ssa.MakeInterface); !isAM || am.X != mi.X {
						continue
					}
					for _, cd := range fi.condsAt(b) {
						if isNilCmp(cd, call) == -1 {
							decoded = true
						}
					}
				}
			}
			if !decoded {
				bad = "the configuration returned at " + c.pos(r.Pos()) + " is not known to have been decoded without error (no json.Unmarshal into it whose error is nil on this way)"
			}
		}
		c.check(bad == "" && nRet > 0, "lz.ParseJSON:returns", pj.Pos(), "every return is (nil, error ≠ nil) or (the value decoded without error, nil)",
			"ParseJSON: "+bad+": with the error test turned round a valid document yields (nil, nil) and a broken one a half-filled configuration without an error")
	}
	seen := map[string]string{}
	var unmarshalHelper, marshalHelper *ssa.Function
	for _, T := range c.configTypes() {
		name := T.Obj().Name()
		m, _, ok1 := c.helperString(c.method(T, "MarshalJSON"))
		u, uh, ok2 := c.helperString(c.method(T, "UnmarshalJSON"))
		p, ok3 := cases[name]
		key := "lz." + name + ":type-string"
		pos := T.Obj().Pos()
		switch {
		case !ok1 || !ok2 || !ok3:
			c.fail(key, pos, "Type string not found in all three places (MarshalJSON %v, UnmarshalJSON %v, ParseJSON case %v)", ok1, ok2, ok3)
		case m != u || u != p:
			c.fail(key, pos, "Type strings disagree: MarshalJSON writes %q, UnmarshalJSON expects %q, ParseJSON dispatches on %q: a marshalled %s cannot be parsed back", m, u, p, name)
		default:
			if other, dup := seen[m]; dup {
				c.fail(key, pos, "Type string %q is used by both %s and %s", m, other, name)
			} else {
				c.ok(key, pos, "Type string %q in MarshalJSON, UnmarshalJSON and ParseJSON", m)
			}
			seen[m] = name
		}
		if uh != nil {
			unmarshalHelper = uh
		}
		if _, mh, okm := c.helperString(c.method(T, "MarshalJSON")); okm && mh != nil {
			marshalHelper = mh
		}
		// UnmarshalJSON zeroes *cfg first
		if fn := c.method(T, "UnmarshalJSON"); fn != nil {
			zeroed := false
			for _, in := range fn.Blocks[0].Instrs {
				if st, ok := in.(*ssa.Store); ok && st.Addr == fn.Params[0] && isEmptyValue(st.Val) {
					zeroed = true
				}
				if st, ok := in.(*ssa.Store); ok && st.Addr == fn.Params[0] {
					if k, ok := st.Val.(*ssa.Const); ok && k.Value == nil {
						zeroed = true
					}
				}
				if _, isCall := in.(*ssa.Call); isCall {
					break
				}
			}
			c.check(zeroed, "lz."+name+":unmarshal-zero", fn.Pos(), "UnmarshalJSON zeroes the value before filling it", "UnmarshalJSON does not reset *cfg first: keys absent from the document (omitempty) keep stale values")
		}
	}
	// the unmarshal helper rejects a mismatching Type
	if unmarshalHelper == nil {
		c.fail("unmarshal-helper", token.NoPos, "unmarshal helper not found")
	} else {
		fi := c.info(unmarshalHelper)
		ok := false
		for _, b := range unmarshalHelper.Blocks {
			r, isR := b.Instrs[len(b.Instrs)-1].(*ssa.Return)
			if !isR || !c.isFailureReturn(fi, r) {
				continue
			}
			for _, cd := range fi.condsAt(b) {
				cd2 := unNot(cd)
				if bo, isB := cd2.V.(*ssa.BinOp); isB && (bo.Op == token.NEQ) == cd2.True && (bo.Op == token.NEQ || bo.Op == token.EQL) {
					for _, side := range []ssa.Value{bo.X, bo.Y} {
						if side == unmarshalHelper.Params[1] {
							ok = true
						}
					}
				}
			}
		}
		c.check(ok, fnName(unmarshalHelper)+":type-mismatch", unmarshalHelper.Pos(), "a document whose Type differs from the expected one is rejected", "the unmarshal helper does not return an error when the document's Type differs")
	}
	// both JSON helpers copy EVERY field of the configuration: in their field loops no iteration reaches the next
	// one without a reflect Set (of whatever kind) or leaving the function; a copy that is made for some kinds only
	// drops the other fields on the way through JSON
	for _, h := range []*ssa.Function{unmarshalHelper, marshalHelper} {
		if h == nil {
			continue
		}
		c.copiesEveryField(h)
	}
}

// copiesEveryField: see ruleTypeStr. The field loop is the loop of h (or of a package helper h calls with the
// configuration) whose body calls a Set* method of reflect.Value.
func (c *Ctx) copiesEveryField(h *ssa.Function) {
	isSet := func(in ssa.Instruction) bool {
		call, ok := in.(*ssa.Call)
		if !ok || call.Call.StaticCallee() == nil {
			return false
		}
		callee := call.Call.StaticCallee()
		return callee.Pkg != nil && callee.Pkg.Pkg.Path() == "reflect" && strings.HasPrefix(callee.Name(), "Set")
	}
	var fns []*ssa.Function
	for fn := range c.reachable(h) {
		if fn.Pkg == c.lz {
			fns = append(fns, fn)
		}
	}
	sort.Slice(fns, func(i, j int) bool { return fns[i].String() < fns[j].String() })
	n := 0
	for _, fn := range fns {
		fi := c.info(fn)
		for _, l := range fi.loops {
			setBlocks := map[*ssa.BasicBlock]bool{}
			for b := range l.Blocks {
				for _, in := range b.Instrs {
					if isSet(in) {
						setBlocks[b] = true
					}
				}
			}
			if len(setBlocks) == 0 {
				continue
			}
			n++
			key := fmt.Sprintf("%s:copies-every-field#%d", fnName(h), n)
			// from the loop body to the header again without a Set
			skipped := false
			seen := map[*ssa.BasicBlock]bool{}
			var work []*ssa.BasicBlock
			for _, sc := range l.Header.Succs {
				if l.Blocks[sc] {
					work = append(work, sc)
				}
			}
			for len(work) > 0 {
				b := work[len(work)-1]
				work = work[:len(work)-1]
				if seen[b] || setBlocks[b] || !l.Blocks[b] {
					continue
				}
				seen[b] = true
				for _, sc := range b.Succs {
					if sc == l.Header {
						skipped = true
					}
					work = append(work, sc)
				}
			}
			c.check(!skipped, key, l.Header.Instrs[0].Pos(), "every iteration of the field loop in "+fnName(fn)+" sets the destination field (or leaves the function)",
				"an iteration of the field loop in "+fnName(fn)+" can go on to the next field without setting the destination: fields of the skipped kind are lost on the way through JSON")
		}
	}
	if n == 0 {
		c.fail(fnName(h)+":copies-every-field", h.Pos(), "no field-copy loop (reflect Set in a loop) found")
	}
}

// ---------------------------------------------------------------- R-CLONE

func ruleClone(c *Ctx) {
	for _, T := range c.configTypes() {
		fn := c.method(T, "Clone")
		key := "lz." + T.Obj().Name() + ":Clone"
		if fn == nil {
			c.fail(key, T.Obj().Pos(), "Clone not found")
			continue
		}
		ok := false
		for _, b := range fn.Blocks {
			r, isR := b.Instrs[len(b.Instrs)-1].(*ssa.Return)
			if !isR {
				continue
			}
			mi, isMI := r.Results[0].(*ssa.MakeInterface)
			if !isMI {
				continue
			}
			al, isAl := mi.X.(*ssa.Alloc)
			if !isAl || !al.Heap {
				continue
			}
			if !types.Identical(al.Type().(*types.Pointer).Elem(), T) {
				continue
			}
			for _, ref := range *al.Referrers() {
				if st, isSt := ref.(*ssa.Store); isSt && st.Addr == al {
					if ld, isLd := st.Val.(*ssa.UnOp); isLd && ld.Op == token.MUL && ld.X == fn.Params[0] {
						ok = true
					}
				}
			}
		}
		c.check(ok, key, fn.Pos(), "returns &copy with copy := *cfg", "Clone does not return the address of a fresh copy of *cfg (aliasing the receiver or another type)")
	}
}

// ---------------------------------------------------------------- R-REFLECT-NAMES

type reflHelper struct {
	Fn     *ssa.Function
	Getter bool
	Names  []string
	Struct *types.Named
}

// reflHelpers finds the get/set helpers: functions of lz with a ParserConfig
// parameter that call the int getter/setter with constant names.
func (c *Ctx) reflHelpers() []reflHelper {
	var out []reflHelper
	iVal, setIVal := c.roles().getter, c.roles().setter // found by role: f(reflect.Value, name) int / f(reflect.Value, name, int)
	for _, fn := range c.allFuncs {
		if fn.Pkg != c.lz || fn.Parent() != nil || fn.Signature.Recv() != nil {
			continue
		}
		var gets, sets []string
		for _, b := range fn.Blocks {
			for _, in := range b.Instrs {
				call, ok := in.(*ssa.Call)
				if !ok {
					continue
				}
				switch call.Call.StaticCallee() {
				case iVal:
					if iVal != nil {
						if s, ok := constString(call.Call.Args[1]); ok {
							gets = append(gets, s)
						}
					}
				case setIVal:
					if setIVal != nil {
						if s, ok := constString(call.Call.Args[1]); ok {
							sets = append(sets, s)
						}
					}
				}
			}
		}
		if len(gets) > 0 && fn != iVal {
			out = append(out, reflHelper{Fn: fn, Getter: true, Names: gets})
		}
		if len(sets) > 0 && fn != setIVal {
			out = append(out, reflHelper{Fn: fn, Getter: false, Names: sets})
		}
	}
	sort.Slice(out, func(i, j int) bool { return out[i].Fn.Name() < out[j].Fn.Name() })
	return out
}

func ruleReflectNames(c *Ctx) {
	iVal, setIVal := c.roles().getter, c.roles().setter // found by role: f(reflect.Value, name) int / f(reflect.Value, name, int)
	hs := c.reflHelpers()
	if len(hs) == 0 {
		c.fail("reflect-helpers", token.NoPos, "no reflective config helpers found")
		return
	}
	for _, h := range hs {
		fn := h.Fn
		n := 0
		for _, b := range fn.Blocks {
			for _, in := range b.Instrs {
				call, ok := in.(*ssa.Call)
				if !ok {
					continue
				}
				callee := call.Call.StaticCallee()
				if callee == nil || (callee != iVal && callee != setIVal) {
					continue
				}
				name, _ := constString(call.Call.Args[1])
				n++
				key := fmt.Sprintf("%s:%s", fnName(fn), name)
				if callee == iVal {
					// the result must be stored to a field whose (last) name is a suffix-compatible with name
					okStore := false
					for _, ref := range *call.Referrers() {
						if st, ok := ref.(*ssa.Store); ok {
							if _, p, ok := pathStr(st.Addr); ok {
								lf := lastField(p)
								if lf == name || strings.TrimRight(name, "0123456789") == lf {
									okStore = true
								}
							}
						}
					}
					c.check(okStore, key, call.Pos(), "iVal(v, \""+name+"\") is stored to the field of that name", "the value read from config field \""+name+"\" is stored to a differently named field")
				} else {
					okArg := false
					if _, p, ok := pathStr(addrOf(stripConv(call.Call.Args[2]))); ok {
						lf := lastField(p)
						if lf == name || strings.TrimRight(name, "0123456789") == lf {
							okArg = true
						}
					}
					if f, ok := call.Call.Args[2].(*ssa.Field); ok {
						lf := f.X.Type().Underlying().(*types.Struct).Field(f.Field).Name()
						if lf == name || strings.TrimRight(name, "0123456789") == lf {
							okArg = true
						}
					}
					c.check(okArg, key, call.Pos(), "setIVal(v, \""+name+"\", …) passes the field of that name", "config field \""+name+"\" is set from a differently named field")
				}
			}
		}
		// the helper moves EVERY integer field of the partial configuration it returns / receives: a field that is
		// not read stays zero behind the parser's back, a field that is not written back is missing in the
		// configuration the parser reports (the defaults that were applied to it never reach the caller's value)
		var S *types.Named
		if h.Getter {
			for i := 0; i < fn.Signature.Results().Len(); i++ {
				if nt, ok := fn.Signature.Results().At(i).Type().(*types.Named); ok && S == nil {
					if _, isS := nt.Underlying().(*types.Struct); isS && nt.Obj().Pkg() != nil && nt.Obj().Pkg().Path() == lzPath {
						S = nt
					}
				}
			}
		} else {
			for i := 0; i < fn.Signature.Params().Len(); i++ {
				if nt, ok := fn.Signature.Params().At(i).Type().(*types.Named); ok {
					if _, isS := nt.Underlying().(*types.Struct); isS && nt.Obj().Pkg() != nil && nt.Obj().Pkg().Path() == lzPath {
						S = nt
					}
				}
			}
		}
		if S != nil {
			if st, ok := S.Underlying().(*types.Struct); ok {
				moved := map[string]bool{}
				for _, nm := range h.Names {
					moved[nm] = true
					moved[strings.TrimRight(nm, "0123456789")] = true
				}
				var missing []string
				nInt := 0
				for i := 0; i < st.NumFields(); i++ {
					if bt, isB := st.Field(i).Type().Underlying().(*types.Basic); isB && bt.Kind() == types.Int {
						nInt++
						if !moved[st.Field(i).Name()] {
							missing = append(missing, st.Field(i).Name())
						}
					}
					// a nested partial configuration H<k> with integer fields F is moved under the names F<k>
					if inner, isS := st.Field(i).Type().Underlying().(*types.Struct); isS {
						fname := st.Field(i).Name()
						digits := fname[len(strings.TrimRight(fname, "0123456789")):]
						for j := 0; j < inner.NumFields(); j++ {
							if bt, isB := inner.Field(j).Type().Underlying().(*types.Basic); isB && bt.Kind() == types.Int {
								nInt++
								want := inner.Field(j).Name() + digits
								found := false
								for _, nm := range h.Names {
									if nm == want {
										found = true
									}
								}
								if !found {
									missing = append(missing, fname+"."+inner.Field(j).Name())
								}
							}
						}
					}
				}
				if nInt > 0 {
					verb := map[bool]string{true: "reads", false: "writes back"}[h.Getter]
					c.check(len(missing) == 0, fmt.Sprintf("%s:covers-%s", fnName(fn), S.Obj().Name()), fn.Pos(), fmt.Sprintf("%s %s all %d integer fields of %s", fn.Name(), verb, nInt, S.Obj().Name()),
						fmt.Sprintf("%s does not %s the field(s) %v of %s: the parser and the configuration it reports disagree on them (a default applied to the partial configuration never reaches the parser configuration, or the buffer is set up from a zero)", fn.Name(), map[bool]string{true: "read", false: "write back"}[h.Getter], missing, S.Obj().Name()))
				}
			}
		}
		// every name exists with kind int in every config type the helper is applied to
		for _, T := range c.configTypes() {
			applied := false
			for _, m := range c.methodsOf(T) {
				for _, b := range m.Blocks {
					for _, in := range b.Instrs {
						if call, ok := in.(ssa.CallInstruction); ok && call.Common().StaticCallee() == fn {
							applied = true
						}
					}
				}
			}
			if !applied {
				continue
			}
			st := T.Underlying().(*types.Struct)
			for _, name := range h.Names {
				found := false
				for i := 0; i < st.NumFields(); i++ {
					if st.Field(i).Name() == name {
						if b, ok := st.Field(i).Type().Underlying().(*types.Basic); ok && b.Kind() == types.Int {
							found = true
						}
					}
				}
				if !found {
					c.fail(fmt.Sprintf("%s:%s:%s", fnName(fn), T.Obj().Name(), name), T.Obj().Pos(), "helper %s is applied to %s, which has no int field %q: reflection panics or reads zero", fn.Name(), T.Obj().Name(), name)
				}
			}
		}
	}
}

// ---------------------------------------------------------------- R-DEFAULTS-ZERO

func (c *Ctx) setDefaultsFuncs() []*ssa.Function {
	var out []*ssa.Function
	for _, fn := range c.allFuncs {
		if fn.Pkg == c.lz && fn.Name() == "SetDefaults" && fn.Signature.Recv() != nil {
			out = append(out, fn)
		}
	}
	return out
}

func isZeroConst(v ssa.Value) bool {
	k, ok := v.(*ssa.Const)
	if !ok {
		return false
	}
	if k.Value == nil {
		return true
	}
	switch k.Value.Kind() {
	case constant.Int:
		return constant.Sign(k.Value) == 0
	case constant.String:
		return constant.StringVal(k.Value) == ""
	}
	return false
}

func ruleDefaultsZero(c *Ctx) {
	getters := map[*ssa.Function]bool{}
	setters := map[*ssa.Function]bool{}
	for _, h := range c.reflHelpers() {
		if h.Getter {
			getters[h.Fn] = true
		} else {
			setters[h.Fn] = true
		}
	}
	for _, fn := range c.setDefaultsFuncs() {
		fi := c.info(fn)
		n := 0
		for _, b := range fn.Blocks {
			for _, in := range b.Instrs {
				switch x := in.(type) {
				case *ssa.Store:
					root, p, ok := pathStr(x.Addr)
					if !ok || p == "" {
						continue
					}
					if _, isAlloc := root.(*ssa.Alloc); !isAlloc && root != fn.Params[0] {
						continue
					}
					n++
					key := fmt.Sprintf("%s:%s", fnName(fn), p)
					guarded := false
					for _, cd := range fi.condsAt(b) {
						cd2 := unNot(cd)
						bo, ok := cd2.V.(*ssa.BinOp)
						if !ok || bo.Op != token.EQL || !cd2.True {
							if ok && bo.Op == token.NEQ && !cd2.True {
								// !(x != 0)
							} else {
								continue
							}
						}
						for _, pair := range [][2]ssa.Value{{bo.X, bo.Y}, {bo.Y, bo.X}} {
							if !isZeroConst(pair[1]) {
								continue
							}
							if r2, p2, ok := pathStr(addrOf(pair[0])); ok && r2 == root && p2 == p {
								guarded = true
							}
						}
					}
					c.check(guarded, key, x.Pos(), "default for "+p+" is stored only when the field is zero", "SetDefaults stores to "+p+" without a dominating test that the field is zero: an explicitly set value is overwritten")
				case *ssa.Call:
					callee := x.Call.StaticCallee()
					if callee == nil || !setters[callee] {
						continue
					}
					// composite: the struct handed to the setter is the value obtained by the matching getter on the
					// same receiver, modified only by SetDefaults calls and zero-guarded stores
					n++
					key := fmt.Sprintf("%s:%s", fnName(fn), callee.Name())
					ld, ok := x.Call.Args[1].(*ssa.UnOp)
					var al *ssa.Alloc
					if ok {
						al, _ = ld.X.(*ssa.Alloc)
					}
					if al == nil {
						c.fail(key, x.Pos(), "the value written back by %s is not a local obtained from the matching getter", callee.Name())
						continue
					}
					fromGetter, onlyDefaults := false, true
					for _, ref := range *al.Referrers() {
						switch r := ref.(type) {
						case *ssa.Store:
							if r.Addr == al {
								src := r.Val
								if ex, ok := src.(*ssa.Extract); ok {
									src = ex.Tuple
								}
								if gc, ok := src.(*ssa.Call); ok && gc.Call.StaticCallee() != nil && getters[gc.Call.StaticCallee()] {
									if sameReceiverArg(gc.Call.Args[0], x.Call.Args[0], fn) {
										fromGetter = true
									}
								}
							}
						case *ssa.Call:
							if r.Call.StaticCallee() == nil || r.Call.StaticCallee().Name() != "SetDefaults" {
								onlyDefaults = false
							}
						}
					}
					c.check(fromGetter && onlyDefaults, key, x.Pos(), "get → SetDefaults → set on one value of the same receiver",
						"the value written back into the configuration is not the one read from it and completed by SetDefaults only")
				}
			}
		}
		if n == 0 {
			c.fail(fnName(fn)+":stores", fn.Pos(), "SetDefaults has no recognisable default assignment")
		}
	}
}

func sameReceiverArg(a, b ssa.Value, fn *ssa.Function) bool {
	strip := func(v ssa.Value) ssa.Value {
		if mi, ok := v.(*ssa.MakeInterface); ok {
			return mi.X
		}
		return v
	}
	return strip(a) == fn.Params[0] && strip(b) == fn.Params[0]
}

// ---------------------------------------------------------------- R-DEFAULTS-ORDER

func ruleDefaultsOrder(c *Ctx) {
	for _, fn := range c.setDefaultsFuncs() {
		fi := c.info(fn)
		type st struct {
			s *ssa.Store
			p string
			r ssa.Value
		}
		var stores []st
		for _, b := range fn.Blocks {
			for _, in := range b.Instrs {
				if s, ok := in.(*ssa.Store); ok {
					if r, p, ok := pathStr(s.Addr); ok && p != "" {
						stores = append(stores, st{s, p, r})
					}
				}
			}
		}
		n := 0
		for _, s1 := range stores {
			// fields the stored value depends on
			deps := map[string]bool{}
			collectFieldDeps(s1.s.Val, s1.r, deps, 0)
			// plus the fields tested by conditions that select the value (control dependence)
			for _, cd := range fi.condsAt(s1.s.Block()) {
				cd2 := unNot(cd)
				if bo, ok := cd2.V.(*ssa.BinOp); ok {
					collectFieldDeps(bo.X, s1.r, deps, 0)
					collectFieldDeps(bo.Y, s1.r, deps, 0)
				}
			}
			delete(deps, s1.p)
			if len(deps) == 0 {
				continue
			}
			n++
			key := fmt.Sprintf("%s:%s", fnName(fn), s1.p)
			bad := ""
			for _, s2 := range stores {
				if s2.r == s1.r && deps[s2.p] && fi.instrReaches(s1.s, s2.s) && s2.s != s1.s {
					bad = s2.p
				}
			}
			// calls that may default the dependency later (nested SetDefaults on a sub-config)
			for _, b := range fn.Blocks {
				for _, in := range b.Instrs {
					call, ok := in.(*ssa.Call)
					if !ok || call.Call.StaticCallee() == nil || call.Call.StaticCallee().Name() != "SetDefaults" {
						continue
					}
					if !fi.instrReaches(s1.s, call) {
						continue
					}
					if r, p, ok := pathStr(call.Call.Args[0]); ok && r == s1.r {
						for d := range deps {
							if strings.HasPrefix(d, p+".") || p == "" {
								bad = d + " (by the later " + p + ".SetDefaults)"
							}
						}
					}
				}
			}
			var ds []string
			for d := range deps {
				ds = append(ds, d)
			}
			sort.Strings(ds)
			c.check(bad == "", key, s1.s.Pos(), fmt.Sprintf("default of %s reads %v, none of which is assigned later", s1.p, ds),
				fmt.Sprintf("the default of %s depends on %s, which is itself defaulted later in the same SetDefaults: a second call computes a different value (not idempotent)", s1.p, bad))
		}
		_ = n
	}
}

func collectFieldDeps(v ssa.Value, root ssa.Value, deps map[string]bool, depth int) {
	if depth > 8 {
		return
	}
	switch x := v.(type) {
	case *ssa.UnOp:
		if x.Op == token.MUL {
			if r, p, ok := pathStr(x.X); ok && r == root && p != "" {
				deps[p] = true
				return
			}
		}
		collectFieldDeps(x.X, root, deps, depth+1)
	case *ssa.BinOp:
		collectFieldDeps(x.X, root, deps, depth+1)
		collectFieldDeps(x.Y, root, deps, depth+1)
	case *ssa.Convert:
		collectFieldDeps(x.X, root, deps, depth+1)
	case *ssa.Phi:
		for _, e := range x.Edges {
			collectFieldDeps(e, root, deps, depth+1)
		}
	}
}

// ---------------------------------------------------------------- R-INIT-ORDER

// verifiedValueKept: in every function of package lz that calls Verify on a local configuration value (a by-value
// parameter or a local copy), that value is not stored to after the call: what is kept and reported is the value
// that was verified (and, before that, completed by SetDefaults), not a later adjustment of it.
func (c *Ctx) verifiedValueKept() {
	n := 0
	for _, fn := range c.allFuncs {
		if fn.Pkg != c.lz || fn.Blocks == nil {
			continue
		}
		var fi *FuncInfo
		for _, b := range fn.Blocks {
			for _, in := range b.Instrs {
				call, ok := in.(*ssa.Call)
				if !ok || call.Call.StaticCallee() == nil || call.Call.StaticCallee().Name() != "Verify" || len(call.Call.Args) == 0 {
					continue
				}
				al, ok := call.Call.Args[0].(*ssa.Alloc)
				if !ok {
					continue
				}
				if fi == nil {
					fi = c.info(fn)
				}
				n++
				key := fnName(fn) + ":verified-value-kept"
				var bad ssa.Instruction
				for _, b2 := range fn.Blocks {
					for _, in2 := range b2.Instrs {
						if !fi.instrReaches(call, in2) {
							continue
						}
						switch x := in2.(type) {
						case *ssa.Store:
							if r, _, ok := pathStr(x.Addr); ok && r == ssa.Value(al) {
								bad = x
							}
						case *ssa.Call:
							if callee := x.Call.StaticCallee(); callee != nil && x != call && len(x.Call.Args) > 0 && x.Call.Args[0] == ssa.Value(al) && callee.Name() != "Verify" {
								for _, k := range c.mayWrite(callee) {
									if strings.HasPrefix(k, "p0.") {
										bad = x
									}
								}
							}
						}
					}
				}
				if bad != nil {
					c.fail(key, bad.Pos(), "the configuration value is modified after Verify accepted it (%s): the parser keeps and reports a configuration that differs from the defaults-completed, verified one", bad)
				} else {
					c.ok(key, call.Pos(), "the verified configuration value is not modified after Verify")
				}
			}
		}
	}
	if n == 0 {
		c.fail("verified-value-kept", token.NoPos, "no Verify call on a local configuration value found")
	}
}

func ruleInitOrder(c *Ctx) {
	c.verifiedValueKept()
	for _, p := range c.parsers() {
		if p.Cfg == nil {
			c.fail("lz."+p.Name+":config", p.T.Obj().Pos(), "parser type embeds no config type")
			continue
		}
		// the init function: a method of the parser that takes the config by value
		var init *ssa.Function
		for _, m := range c.methodsOf(p.T) {
			if len(m.Params) == 2 && types.Identical(m.Params[1].Type(), p.Cfg) {
				init = m
			}
		}
		key := "lz." + p.Name + ":init"
		if init == nil {
			c.fail(key, p.T.Obj().Pos(), "no init method taking %s by value", p.Cfg.Obj().Name())
			continue
		}
		fi := c.info(init)
		var setDef, verify *ssa.Call
		for _, b := range init.Blocks {
			for _, in := range b.Instrs {
				call, ok := in.(*ssa.Call)
				if !ok || call.Call.StaticCallee() == nil || len(call.Call.Args) == 0 {
					continue
				}
				if !types.Identical(call.Call.Args[0].Type(), types.NewPointer(p.Cfg)) {
					continue
				}
				switch call.Call.StaticCallee().Name() {
				case "SetDefaults":
					setDef = call
				case "Verify":
					verify = call
				}
			}
		}
		if setDef == nil || verify == nil {
			c.fail(key, init.Pos(), "init does not call both SetDefaults and Verify on the %s value", p.Cfg.Obj().Name())
			continue
		}
		sameVal := setDef.Call.Args[0] == verify.Call.Args[0]
		order := fi.instrReaches(setDef, verify) && !fi.instrReaches(verify, setDef) &&
			(setDef.Block() == verify.Block() || setDef.Block().Dominates(verify.Block()))
		c.check(sameVal && order, key+":defaults-then-verify", verify.Pos(), "SetDefaults then Verify on the same value",
			"init does not verify the defaults-completed configuration (SetDefaults must precede Verify on the same value)")
		// Verify's error returned when non-nil. The error may travel through a result variable (a helper
		// inlined back, a named result): a φ is as good as Verify's result when each of its edges either
		// carries that result or comes from a block in which it is known to be nil
		carriers := []ssa.Value{verify}
		for _, b := range init.Blocks {
			for _, in := range b.Instrs {
				phi, ok := in.(*ssa.Phi)
				if !ok {
					break
				}
				has, all := false, true
				for i, e := range phi.Edges {
					if e == verify {
						has = true
						continue
					}
					nilHere := false
					for _, cd := range fi.condsAt(b.Preds[i]) {
						if isNilCmp(cd, verify) == -1 {
							nilHere = true
						}
					}
					if !nilHere {
						all = false
					}
				}
				if has && all {
					carriers = append(carriers, phi)
				}
			}
		}
		okErr := false
		for _, b := range init.Blocks {
			r, ok := b.Instrs[len(b.Instrs)-1].(*ssa.Return)
			if !ok {
				continue
			}
			for _, cv := range carriers {
				if r.Results[0] == cv {
					for _, cd := range fi.condsAt(b) {
						if isNilCmp(cd, cv) == +1 {
							okErr = true
						}
					}
				}
			}
		}
		c.check(okErr, key+":verify-error", verify.Pos(), "Verify's error is returned when non-nil", "a non-nil error of Verify is not returned by init")
		// the config stored into the parser is the completed value, after Verify succeeded
		okStore := false
		for _, b := range init.Blocks {
			for _, in := range b.Instrs {
				st, ok := in.(*ssa.Store)
				if !ok {
					continue
				}
				pth, okp := recvPath(init, st.Addr)
				if !okp || pth != p.Cfg.Obj().Name() {
					continue
				}
				ld, ok := st.Val.(*ssa.UnOp)
				if !ok || ld.X != setDef.Call.Args[0] {
					c.fail(key+":stored-config", st.Pos(), "the configuration stored in the parser is not the value SetDefaults/Verify were applied to")
					continue
				}
				nilSide := false
				for _, cd := range fi.condsAt(b) {
					for _, cv := range carriers {
						if isNilCmp(cd, cv) == -1 {
							nilSide = true
						}
					}
				}
				if nilSide && fi.instrReaches(setDef, ld) {
					okStore = true
				}
			}
		}
		c.check(okStore, key+":stored-config", init.Pos(), "the defaults-completed, verified value is stored in the parser", "the parser does not store the defaults-completed configuration after Verify succeeded")
		// the buffer configuration the ParserBuffer is initialised with must agree with the one the
		// parser reports: either it is derived from the config after SetDefaults, or the config's
		// SetDefaults is a pure pass-through of BufConfig.SetDefaults for the buffer fields
		c.bufConfigAgreement(p, init, setDef, key)
		// ParserConfig returns its address
		if pc := c.method(p.T, "ParserConfig"); pc != nil {
			okPC := false
			for _, b := range pc.Blocks {
				if r, ok := b.Instrs[len(b.Instrs)-1].(*ssa.Return); ok {
					if mi, ok := r.Results[0].(*ssa.MakeInterface); ok {
						if pth, okp := recvPath(pc, mi.X); okp && pth == p.Cfg.Obj().Name() {
							okPC = true
						}
					}
				}
			}
			c.check(okPC, "lz."+p.Name+":ParserConfig", pc.Pos(), "ParserConfig returns the address of the stored configuration", "ParserConfig does not return the address of the stored configuration")
		}
		// NewParser returns (nil, err) when init fails
		if np := c.method(p.Cfg, "NewParser"); np != nil {
			nfi := c.info(np)
			okNP := false
			for _, b := range np.Blocks {
				r, ok := b.Instrs[len(b.Instrs)-1].(*ssa.Return)
				if !ok {
					continue
				}
				if k, isNil := r.Results[0].(*ssa.Const); isNil && k.Value == nil {
					if call, ok := r.Results[1].(*ssa.Call); ok && call.Call.StaticCallee() == init {
						for _, cd := range nfi.condsAt(b) {
							if isNilCmp(cd, call) == +1 {
								okNP = true
							}
						}
					}
				}
			}
			c.check(okNP, "lz."+p.Cfg.Obj().Name()+":NewParser", np.Pos(), "NewParser returns (nil, err) when init fails", "NewParser does not return (nil, err) when init reports an error")
		}
	}
}

// bufConfigAgreement: see ruleInitOrder. Applies to every partial configuration
// (BufConfig, hashConfig, dhConfig, bucketConfig, …) that init extracts from the
// parser configuration and hands to the dictionary/buffer initialiser.
func (c *Ctx) bufConfigAgreement(p *Parser, init *ssa.Function, setDef *ssa.Call, key string) {
	fi := c.info(init)
	isPartCfg := func(t types.Type) bool {
		n, ok := t.(*types.Named)
		if !ok || n.Obj().Pkg() == nil || n.Obj().Pkg().Path() != lzPath {
			return false
		}
		if _, isS := n.Underlying().(*types.Struct); !isS {
			return false
		}
		// a (partial) configuration: a struct with SetDefaults and Verify (role, not name)
		return c.method(n, "SetDefaults") != nil && c.method(n, "Verify") != nil && !types.Identical(n, p.Cfg)
	}
	nArgs := 0
	for _, b := range init.Blocks {
		for _, in := range b.Instrs {
			call, ok := in.(*ssa.Call)
			if !ok || call.Call.StaticCallee() == nil {
				continue
			}
			for _, a := range call.Call.Args {
				if !isPartCfg(a.Type()) {
					continue
				}
				nArgs++
				tn := a.Type().(*types.Named)
				akey := fmt.Sprintf("%s:part-config:%s", key, tn.Obj().Name())
				// where does the value come from? a call reading the parser configuration (possibly through
				// an extract of a tuple result)
				var src ssa.Instruction
				switch x := a.(type) {
				case *ssa.Call:
					src = x
				case *ssa.Extract:
					if sc, ok := x.Tuple.(*ssa.Call); ok {
						src = sc
					}
				case *ssa.UnOp:
					// loaded from a local that was filled by such a call: find the store
					if al, ok := x.X.(*ssa.Alloc); ok {
						for _, ref := range *al.Referrers() {
							if st, isSt := ref.(*ssa.Store); isSt && st.Addr == ssa.Value(al) {
								if vi, isI := st.Val.(ssa.Instruction); isI {
									src = vi
								}
							}
						}
					}
				}
				after := src != nil && fi.instrReaches(setDef, src) && !fi.instrReaches(src, setDef)
				if after {
					c.ok(akey, call.Pos(), "%s is derived from the configuration after SetDefaults", tn.Obj().Name())
					continue
				}
				// derived before SetDefaults: the parser config's SetDefaults must not store a field of this
				// partial configuration itself (only pass it through the part's own SetDefaults)
				sd := setDef.Call.StaticCallee()
				direct := ""
				if sd != nil {
					for _, sb := range sd.Blocks {
						for _, sin := range sb.Instrs {
							st, ok := sin.(*ssa.Store)
							if !ok {
								continue
							}
							fa, ok := st.Addr.(*ssa.FieldAddr)
							if !ok {
								continue
							}
							if pt, ok := fa.X.Type().Underlying().(*types.Pointer); ok && types.Identical(pt.Elem(), tn) {
								direct = c.pos(st.Pos())
							}
						}
					}
				}
				c.check(direct == "", akey, call.Pos(), tn.Obj().Name()+" is taken from the raw configuration, and the parser config's SetDefaults only passes it through its own SetDefaults: both completions agree",
					"init hands over a "+tn.Obj().Name()+" derived BEFORE SetDefaults, while "+p.Cfg.Obj().Name()+".SetDefaults sets one of its fields itself (at "+direct+"): the parser runs with other parameters than ParserConfig() reports, so a parser recreated from the reported configuration behaves differently")
			}
		}
	}
	if nArgs == 0 {
		c.fail(key+":part-config", init.Pos(), "init hands no partial configuration (BufConfig, hash configuration) to the buffer or dictionary")
	}
}
