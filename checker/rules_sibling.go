package main

// R-SIBLING-PARAMS: interchangeable sibling functions agree on the parameters they read.
//
// Two unexported package-level functions are interchangeable siblings when they have identical signatures and some
// function calls both of them with the very same argument values (alternative branches of one decision: the caller
// states that either can do the job on these inputs). A parameter that one of them reads and the other never
// mentions is a contradiction (Engler et al.): either the parameter is not needed or the second function ignores
// part of its input. In package suffix this is how the tandem-repeat copy pair is told apart from its C original:
// tr_copy and tr_partialcopy both fill the middle partition from the left AND from the right end (parameter last).

import (
	"fmt"
	"go/token"
	"go/types"
	"sort"
	"strings"

	"golang.org/x/tools/go/ssa"
)

func init() {
	reg(&Rule{ID: "R-SIBLING-PARAMS", Min: 2,
		Doc: "functions with identical signatures that one caller invokes with identical arguments (interchangeable siblings) read the same set of parameters: a sibling that ignores a parameter the other one needs ignores part of its input",
		Run: ruleSiblingParams})
}

func usedParams(fn *ssa.Function) map[int]bool {
	used := map[int]bool{}
	for i, p := range fn.Params {
		if p.Referrers() == nil {
			continue
		}
		for _, r := range *p.Referrers() {
			if _, dbg := r.(*ssa.DebugRef); dbg {
				continue
			}
			used[i] = true
		}
	}
	return used
}

func ruleSiblingParams(c *Ctx) {
	type pair struct{ f, g *ssa.Function }
	seen := map[pair]bool{}
	var pairs []pair
	for _, caller := range c.allFuncs {
		if caller.Blocks == nil || (caller.Pkg != c.lz && caller.Pkg != c.suffix) {
			continue
		}
		var calls []*ssa.Call
		for _, b := range caller.Blocks {
			for _, in := range b.Instrs {
				call, ok := in.(*ssa.Call)
				if !ok {
					continue
				}
				callee := call.Call.StaticCallee()
				if callee == nil || callee.Blocks == nil || callee.Pkg != caller.Pkg || callee.Parent() != nil {
					continue
				}
				if callee.Object() != nil && callee.Object().Exported() {
					continue
				}
				if len(callee.Params) < 3 {
					continue
				}
				calls = append(calls, call)
			}
		}
		for i := 0; i < len(calls); i++ {
			for j := i + 1; j < len(calls); j++ {
				f, g := calls[i].Call.StaticCallee(), calls[j].Call.StaticCallee()
				if f == g || !types.Identical(f.Signature, g.Signature) {
					continue
				}
				same := len(calls[i].Call.Args) == len(calls[j].Call.Args)
				for k := 0; same && k < len(calls[i].Call.Args); k++ {
					if calls[i].Call.Args[k] != calls[j].Call.Args[k] {
						same = false
					}
				}
				if !same {
					continue
				}
				if g.String() < f.String() {
					f, g = g, f
				}
				if !seen[pair{f, g}] {
					seen[pair{f, g}] = true
					pairs = append(pairs, pair{f, g})
				}
			}
		}
	}
	sort.Slice(pairs, func(i, j int) bool {
		return pairs[i].f.String()+pairs[i].g.String() < pairs[j].f.String()+pairs[j].g.String()
	})
	for _, p := range pairs {
		uf, ug := usedParams(p.f), usedParams(p.g)
		key := fmt.Sprintf("%s~%s", fnName(p.f), fnName(p.g))
		var diff []string
		pos := token.NoPos
		for i := range p.f.Params {
			if uf[i] != ug[i] {
				who, other := p.g, p.f
				if uf[i] {
					who, other = p.f, p.g
				}
				diff = append(diff, fmt.Sprintf("%s reads parameter #%d (%s), %s never does", fnName(who), i+1, who.Params[i].Name(), fnName(other)))
				pos = other.Pos()
			}
		}
		if len(diff) == 0 {
			c.ok(key, p.f.Pos(), "both read the same %d parameters", len(uf))
		} else {
			c.fail(key, pos, "interchangeable siblings disagree: %s", strings.Join(diff, "; "))
		}
	}
}
