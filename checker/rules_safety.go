package main

// Index- and call-safety rules for C16 / C05 ("never panics") and agreement
// rules between redundant validators:
//   R-LOAD8         strict word loaders are only called on slices that are long enough
//   R-BUCKET-INDEX  the per-bucket ring index always stays below bucketSize
//   R-INIT-NOFAIL   hash.init cannot fail on values that hashConfig.Verify accepted
//   R-SORT-SHORT    the short-text shortcuts of suffix.Sort write a complete suffix array

import (
	"fmt"
	"go/token"
	"go/types"
	"sort"
	"strings"

	"golang.org/x/tools/go/ssa"
)

func init() {
	reg(&Rule{ID: "R-LOAD8", Min: 12,
		Doc: "every call of a strict word loader (a func([]byte) uintN that indexes p[N−1] unconditionally) is made on a slice whose length is proved ≥ N at the call (7-byte margin slices, loop guards len(q) ≥ 8, the equal-length invariant of the extension loops, switch cases of the partial loaders)",
		Run: ruleLoad8})
	reg(&Rule{ID: "R-BUCKET-INDEX", Min: 3,
		Doc: "every value stored into the per-bucket ring index of the bucket hash is < bucketSize (or 0), so the next insertion stays inside its bucket",
		Run: ruleBucketIndex})
	reg(&Rule{ID: "R-INIT-NOFAIL", Min: 2,
		Doc: "hash.init, which repeats the range checks of hashConfig.Verify, cannot return an error for values Verify accepted: each of its failure returns is unreachable under 2 ≤ InputLen ≤ 8, 0 ≤ HashBits ≤ min(24, 8·InputLen)",
		Run: ruleInitNoFail})
	reg(&Rule{ID: "R-SORT-SHORT", Min: 2,
		Doc: "the shortcuts of suffix.Sort for texts of length 1 and 2 store a complete permutation into sa (sa[0] = 0; (0,1) iff t[0] < t[1], else (1,0)) before returning",
		Run: ruleSortShort})
}

// strictLoaders: functions of lz/suffix with signature func([]byte) uintN
// whose entry block indexes the parameter with a constant; need = max index + 1.
func (c *Ctx) strictLoaders() map[*ssa.Function]int64 {
	out := map[*ssa.Function]int64{}
	for _, fn := range c.allFuncs {
		sig := fn.Signature
		if sig.Recv() != nil || sig.Params().Len() != 1 || sig.Results().Len() != 1 || !isByteSlice(sig.Params().At(0).Type()) {
			continue
		}
		if b, ok := sig.Results().At(0).Type().Underlying().(*types.Basic); !ok || b.Info()&types.IsUnsigned == 0 {
			continue
		}
		need := int64(0)
		for _, in := range fn.Blocks[0].Instrs {
			if ia, ok := in.(*ssa.IndexAddr); ok && ia.X == ssa.Value(fn.Params[0]) {
				if k, isC := constInt(ia.Index); isC && k+1 > need {
					need = k + 1
				}
			}
		}
		if need > 0 {
			out[fn] = need
		}
	}
	return out
}

func ruleLoad8(c *Ctx) {
	loaders := c.strictLoaders()
	if len(loaders) == 0 {
		c.fail("loaders", token.NoPos, "no strict word loader found")
		return
	}
	per := map[string]int{}
	for _, fn := range c.allFuncs {
		fi := c.info(fn)
		var lem []Fact
		lemDone := false
		for _, b := range fn.Blocks {
			for _, in := range b.Instrs {
				call, ok := in.(*ssa.Call)
				if !ok {
					continue
				}
				need, isL := loaders[call.Call.StaticCallee()]
				if !isL {
					continue
				}
				per[fnName(fn)]++
				key := fmt.Sprintf("%s:load#%d", fnName(fn), per[fnName(fn)])
				arg := call.Call.Args[0]
				goal := linConst(need).sub(fi.lenOf(arg))
				if !lemDone {
					lem = fi.extLemmas()
					lemDone = true
				}
				ex := fi.validFacts(lem, b, nil)
				// equalities also as inequality pairs, so that the prover's resolution step can use them
				for _, f := range append([]Fact{}, ex...) {
					if f.Op == EQ {
						ex = append(ex, Fact{f.L, LE}, Fact{f.L.scale(-1), LE})
					}
				}
				// double hash: the first hash is the shorter one (dhConfig.Verify: H1.InputLen < H2.InputLen, R-VERIFY-REQ)
				ils := fi.atomsWithSuffix(".inputLen")
				for _, a1 := range ils {
					for _, a2 := range ils {
						if strings.Contains(a1, "h1") && strings.Contains(a2, "h2") {
							ex = append(ex, Fact{linAtom(a1).sub(linAtom(a2)).addc(1), LE})
						}
					}
				}
				// the slice handed to the loader starts at an index that descends from a signed parameter (a segment
				// start computed by the caller as W − inputLen + 1): that index must be proved ≥ 0 here, a negative
				// one panics in the slice expression before the loader is reached
				if sl, isSl := arg.(*ssa.Slice); isSl && sl.Low != nil {
					fromParam := false
					seenV := map[ssa.Value]bool{}
					var walk func(v ssa.Value, d int)
					walk = func(v ssa.Value, d int) {
						if d > 6 || seenV[v] {
							return
						}
						seenV[v] = true
						switch x := v.(type) {
						case *ssa.Phi:
							for _, e := range x.Edges {
								walk(e, d+1)
							}
						case *ssa.BinOp:
							if x.Op == token.ADD {
								if k, isK := constInt(x.Y); isK && k >= 0 {
									walk(x.X, d+1)
								}
							}
						case *ssa.Parameter:
							if bt, isB := x.Type().Underlying().(*types.Basic); isB && bt.Info()&types.IsInteger != 0 && bt.Info()&types.IsUnsigned == 0 {
								fromParam = true
							}
						}
					}
					walk(sl.Low, 0)
					if fromParam {
						lowGoal := fi.lin(sl.Low).scale(-1)
						okLow := fi.proveFlat(lowGoal, fi.condsAt(b), ex) || fi.proveAt(lowGoal, b, ex) || fi.proveByCases(lowGoal, b, ex)
						c.check(okLow, key+":low", call.Pos(), fmt.Sprintf("the slice starts at %s ≥ 0", fi.lin(sl.Low)),
							fmt.Sprintf("the slice handed to %s starts at %s, which descends from a signed parameter and is not proved ≥ 0 here: a segment start below 0 (a caller passes W − inputLen + 1 at the start of the stream) panics in the slice expression", call.Call.StaticCallee().Name(), fi.lin(sl.Low)))
					}
				}
				okL := fi.proveFlat(goal, fi.condsAt(b), ex) || fi.proveAt(goal, b, ex) || fi.proveByCases(goal, b, ex)
				c.check(okL, key, call.Pos(), fmt.Sprintf("%s needs %d bytes: len = %s ≥ %d", call.Call.StaticCallee().Name(), need, fi.lenOf(arg), need),
					fmt.Sprintf("%s reads %d bytes but its argument (len = %s) is not proved to be that long at this call: an input that ends a few bytes after the compared position makes the load panic (index out of range)", call.Call.StaticCallee().Name(), need, fi.lenOf(arg)))
			}
		}
	}
}

// ---------------------------------------------------------------- R-BUCKET-INDEX

func ruleBucketIndex(c *Ctx) {
	// the ring index: a []byte field of a struct that also has an int field bucketSize-like used as
	// the bucket length; found as: field of type []byte in the type that has method `bucket`
	var T *types.Named
	for _, n := range c.lz.Pkg.Scope().Names() {
		tn, ok := c.lz.Pkg.Scope().Lookup(n).(*types.TypeName)
		if !ok {
			continue
		}
		nt, ok := tn.Type().(*types.Named)
		if !ok {
			continue
		}
		st, ok := nt.Underlying().(*types.Struct)
		if !ok {
			continue
		}
		hasIdx, hasSize := false, false
		for i := 0; i < st.NumFields(); i++ {
			if isByteSlice(st.Field(i).Type()) {
				hasIdx = true
			}
			if sl, isSl := st.Field(i).Type().Underlying().(*types.Slice); isSl && c.isEntryType(sl.Elem()) {
				hasSize = true // the bucket storage: a slice of table entries next to the ring index
			}
		}
		if hasIdx && hasSize {
			T = nt
		}
	}
	if T == nil {
		c.fail("bucket-hash", token.NoPos, "no bucket hash type (struct with a []byte ring index and a bucketSize) found")
		return
	}
	n := 0
	for _, fn := range c.methodsOf(T) {
		fi := c.info(fn)
		per := 0
		for _, b := range fn.Blocks {
			for _, in := range b.Instrs {
				st, ok := in.(*ssa.Store)
				if !ok {
					continue
				}
				ia, ok := st.Addr.(*ssa.IndexAddr)
				if !ok || !isByteSlice(ia.X.Type()) {
					continue
				}
				f := loadedField(ia.X)
				if f == nil || !isByteSlice(f.Type()) {
					continue
				}
				n++
				per++
				key := fmt.Sprintf("%s:index-store#%d", fnName(fn), per)
				v := fi.lin(stripConv(st.Val))
				if v.isConst() && v.c == 0 {
					c.ok(key, st.Pos(), "ring index reset to 0")
					continue
				}
				good := false
				for _, a := range fi.atomsWithSuffix(".BucketSize") {
					if fi.proveAt(v.addc(1).sub(linAtom(a)), b, nil) && fi.proveAt(v.scale(-1), b, nil) {
						good = true
					}
				}
				c.check(good, key, st.Pos(), "stored ring index "+v.String()+" is in [0, bucketSize)",
					"the ring index stored for a bucket ("+v.String()+") is not proved to be < bucketSize: the next insertion writes behind its bucket (into the neighbour, or out of range for the last bucket)")
			}
		}
	}
	if n == 0 {
		c.fail("bucket-hash:index", token.NoPos, "no store to the ring index found")
	}
}

func (fi *FuncInfo) atomsWithSuffixFold(suffix string) []string {
	set := map[string]bool{}
	for _, b := range fi.fn.Blocks {
		for _, in := range b.Instrs {
			if ld, ok := in.(*ssa.UnOp); ok && ld.Op == token.MUL && isIntType(ld.Type()) {
				for a := range fi.lin(ld).t {
					base := a
					if i := strings.Index(base, "@"); i >= 0 {
						base = base[:i]
					}
					if strings.HasSuffix(strings.ToLower(base), suffix) {
						set[a] = true
					}
				}
			}
		}
	}
	var out []string
	for a := range set {
		out = append(out, a)
	}
	sort.Strings(out)
	return out
}

// ---------------------------------------------------------------- R-INIT-NOFAIL

func ruleInitNoFail(c *Ctx) {
	fn := c.roles().hashInit // by role: the (inputLen, hashBits) error method that allocates the entry table
	if fn == nil || len(fn.Params) != 3 {
		c.fail("lz.hash.init", token.NoPos, "hash.init(inputLen, hashBits) not found")
		return
	}
	// what hashConfig.Verify guarantees (each is an obligation of R-VERIFY-REQ on hashConfig.Verify)
	for _, txt := range []string{"2 ≤ InputLen", "InputLen ≤ 8", "0 ≤ HashBits", "HashBits ≤ 24", "HashBits ≤ 8·InputLen"} {
		r := reqByText("hashConfig", txt)
		if ok, why := c.reqHolds(r); !ok {
			c.fail("lz.hashConfig.Verify:"+strings.ReplaceAll(txt, " ", ""), fn.Pos(), "hashConfig.Verify does not establish %s (%s), on which the agreement with hash.init rests", txt, why)
			return
		}
	}
	fi := c.info(fn)
	il, hb := fi.lin(fn.Params[1]), fi.lin(fn.Params[2])
	facts := []Fact{
		{linConst(2).sub(il), LE},
		{il.addc(-8), LE},
		{hb.scale(-1), LE},
		{hb.addc(-24), LE},
		{hb.sub(il.scale(8)), LE},
	}
	n := 0
	for _, b := range fn.Blocks {
		r, ok := b.Instrs[len(b.Instrs)-1].(*ssa.Return)
		if !ok || !c.isFailureReturn(fi, r) {
			continue
		}
		n++
		key := fmt.Sprintf("%s:failure#%d", fnName(fn), n)
		// unreachable: on every edge into this return the branch condition contradicts the guarantees
		dead := fi.proveAt(linConst(1), b, facts) || fi.edgesInfeasible(b, facts, 0)
		c.check(dead, key, r.Pos(), "this error return is unreachable for values hashConfig.Verify accepted",
			"hash.init can fail for a configuration that hashConfig.Verify accepted (facts here: "+factStrings(fi.factsAt(b))+"): NewParser then returns an undocumented error although the defaults-completed configuration passes Verify")
	}
	if n == 0 {
		c.ok(fnName(fn)+":failure", fn.Pos(), "hash.init has no failure return")
	}
}

// ---------------------------------------------------------------- R-SORT-SHORT

func ruleSortShort(c *Ctx) {
	srt := c.suffix.Func("Sort")
	if srt == nil {
		c.fail("suffix.Sort", token.NoPos, "not found")
		return
	}
	// the function that does the work: Sort itself or its single callee with (t, sa)
	fn := srt
	for _, b := range srt.Blocks {
		for _, in := range b.Instrs {
			if call, ok := in.(*ssa.Call); ok && call.Call.StaticCallee() != nil && call.Call.StaticCallee().Pkg == c.suffix {
				fn = call.Call.StaticCallee()
			}
		}
	}
	var t, sa ssa.Value
	for _, p := range fn.Params {
		if isByteSlice(p.Type()) {
			t = p
		} else if sl, ok := p.Type().Underlying().(*types.Slice); ok {
			if bt, ok := sl.Elem().Underlying().(*types.Basic); ok && bt.Kind() == types.Int32 {
				sa = p
			}
		}
	}
	if t == nil || sa == nil {
		c.fail("suffix.sort", fn.Pos(), "parameters (t, sa) not found")
		return
	}
	fi := c.info(fn)
	lt := fi.lenOf(t)
	found := map[int64]bool{}
	for _, b := range fn.Blocks {
		r, ok := b.Instrs[len(b.Instrs)-1].(*ssa.Return)
		if !ok {
			continue
		}
		// only the shortcut returns: len(t) ≤ 2 is known there
		if !fi.proveAt(lt.addc(-2), b, nil) {
			continue
		}
		for n := int64(1); n <= 2; n++ {
			// length n is possible at this return unless it is excluded by the path conditions
			excluded := fi.proveAt(lt.addc(1-n), b, nil) || fi.proveAt(linConst(n+1).sub(lt), b, nil)
			if excluded {
				continue
			}
			found[n] = true
			key := fmt.Sprintf("%s:len=%d", fnName(fn), n)
			// stores sa[k] = const on the way to b (in b or in blocks dominating b); when the
			// return block is a merge of store branches, each incoming path is checked
			paths := []*ssa.BasicBlock{b}
			hasOwn := false
			for _, bb := range fn.Blocks {
				if bb == b || bb.Dominates(b) {
					for _, in := range bb.Instrs {
						if st, ok := in.(*ssa.Store); ok {
							if ia, ok := st.Addr.(*ssa.IndexAddr); ok && ia.X == sa {
								hasOwn = true
							}
						}
					}
				}
			}
			if !hasOwn && len(b.Preds) > 1 {
				paths = b.Preds
			}
			for pi, pb := range paths {
				pkey := key
				if len(paths) > 1 {
					pkey = fmt.Sprintf("%s:path#%d", key, pi+1)
				}
				vals := map[int64]int64{}
				var stBlk *ssa.BasicBlock
				for _, bb := range fn.Blocks {
					if !(bb == pb || bb.Dominates(pb)) {
						continue
					}
					for _, in := range bb.Instrs {
						st, ok := in.(*ssa.Store)
						if !ok {
							continue
						}
						ia, ok := st.Addr.(*ssa.IndexAddr)
						if !ok || ia.X != sa {
							continue
						}
						k, okK := constInt(ia.Index)
						v, okV := constInt(st.Val)
						if okK && okV {
							vals[k] = v
							stBlk = bb
						}
					}
				}
				perm := int64(len(vals)) == n
				seen := map[int64]bool{}
				for k, v := range vals {
					if k < 0 || k >= n || v < 0 || v >= n || seen[v] {
						perm = false
					}
					seen[v] = true
				}
				if !perm {
					c.fail(pkey, r.Pos(), "Sort returns for a text of length %d without having stored a complete permutation into sa (stores found: %v): a reused sa buffer keeps stale entries", n, vals)
					continue
				}
				if n == 2 && stBlk != nil {
					// (0,1) exactly under t[0] < t[1]
					asc := vals[0] == 0
					lessKnown, geKnown := false, false
					for _, cd := range fi.condsAt(stBlk) {
						cd = unNot(cd)
						bo, ok := cd.V.(*ssa.BinOp)
						if !ok || !isByteLoad(bo.X) || !isByteLoad(bo.Y) {
							continue
						}
						i0 := byteLoadIndex(bo.X)
						i1 := byteLoadIndex(bo.Y)
						op := bo.Op
						if i0 == 1 && i1 == 0 {
							// swap to t[0] ? t[1]
							switch op {
							case token.LSS:
								op = token.GTR
							case token.GTR:
								op = token.LSS
							case token.LEQ:
								op = token.GEQ
							case token.GEQ:
								op = token.LEQ
							}
						} else if !(i0 == 0 && i1 == 1) {
							continue
						}
						if !cd.True {
							switch op {
							case token.LSS:
								op = token.GEQ
							case token.GEQ:
								op = token.LSS
							case token.GTR:
								op = token.LEQ
							case token.LEQ:
								op = token.GTR
							}
						}
						if op == token.LSS {
							lessKnown = true
						}
						if op == token.GEQ {
							geKnown = true
						}
					}
					okOrd := (asc && lessKnown) || (!asc && geKnown)
					c.check(okOrd, pkey+fmt.Sprintf(":order(%d,%d)", vals[0], vals[1]), r.Pos(), "order chosen by t[0] < t[1] (ties: the shorter suffix first)", "the two-byte shortcut does not store (0,1) exactly when t[0] < t[1] and (1,0) otherwise")
					continue
				}
				c.ok(pkey, r.Pos(), "complete permutation %v stored before returning", vals)
			}
		}
	}
	for n := int64(1); n <= 2; n++ {
		if !found[n] {
			// no shortcut for this length: the general algorithm handles it (not decided)
			c.add("info", fmt.Sprintf("%s:len=%d", fnName(fn), n), fn.Pos(), "no shortcut return for length %d", n)
		}
	}
	if !found[1] && !found[2] {
		c.ok(fnName(fn)+":shortcuts", fn.Pos(), "Sort has no short-text shortcuts")
	}
}

func byteLoadIndex(v ssa.Value) int64 {
	ld, ok := stripConv(v).(*ssa.UnOp)
	if !ok {
		return -1
	}
	ia, ok := ld.X.(*ssa.IndexAddr)
	if !ok {
		return -1
	}
	k, isC := constInt(ia.Index)
	if !isC {
		return -1
	}
	return k
}

// edgesInfeasible: every edge into b is infeasible under the facts: its branch
// condition's negation is provable at the predecessor (phi case splits allowed),
// or the predecessor itself is only reachable through infeasible edges.
func (fi *FuncInfo) edgesInfeasible(b *ssa.BasicBlock, facts []Fact, depth int) bool {
	if depth > 4 || len(b.Preds) == 0 {
		return false
	}
	for _, p := range b.Preds {
		last := fi.edgeLast(p, b)
		if len(last) == 0 {
			if !fi.edgesInfeasible(p, facts, depth+1) {
				return false
			}
			continue
		}
		neg := fi.factsOf([]Cond{{last[0].V, !last[0].True}})
		ok := len(neg) > 0
		for _, f := range neg {
			switch f.Op {
			case LE:
				if !fi.proveAt(f.L, p, facts) {
					ok = false
				}
			case EQ:
				if !(fi.proveAt(f.L, p, facts) && fi.proveAt(f.L.scale(-1), p, facts)) {
					ok = false
				}
			default:
				ok = false
			}
		}
		if !ok {
			// the condition may hold, but the predecessor may itself be unreachable
			if !fi.edgesInfeasible(p, facts, depth+1) {
				return false
			}
		}
	}
	return true
}
