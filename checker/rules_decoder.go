package main

// Rules over DecoderBuffer and Decoder (C04 C05 C06 C07 C17 C18).

import (
	"fmt"
	"go/constant"
	"go/token"
	"go/types"
	"os"
	"sort"
	"strings"

	"golang.org/x/tools/go/ssa"
)

func (c *Ctx) decBuf() *types.Named  { return c.namedType(c.lz, "DecoderBuffer") }
func (c *Ctx) decoder() *types.Named { return c.namedType(c.lz, "Decoder") }

// methodsOf returns the declared methods (source functions) with receiver T or *T.
func (c *Ctx) methodsOf(T *types.Named) []*ssa.Function {
	var out []*ssa.Function
	for _, fn := range c.allFuncs {
		if fn.Signature.Recv() == nil {
			continue
		}
		rt := fn.Signature.Recv().Type()
		if p, ok := rt.(*types.Pointer); ok {
			rt = p.Elem()
		}
		if types.Identical(rt, T) {
			out = append(out, fn)
		}
	}
	return out
}

func isBuiltinCall(in ssa.Instruction, name string) *ssa.Call {
	call, ok := in.(*ssa.Call)
	if !ok {
		return nil
	}
	bi, ok := call.Call.Value.(*ssa.Builtin)
	if !ok || bi.Name() != name {
		return nil
	}
	return call
}

// recvPath: path of v relative to the receiver of fn ("" and false if not rooted there).
func recvPath(fn *ssa.Function, v ssa.Value) (string, bool) {
	r, p, ok := pathStr(v)
	if !ok || len(fn.Params) == 0 || r != fn.Params[0] {
		return "", false
	}
	return p, true
}

// compactors: functions of package lz that copy within DecoderBuffer.Data
// (copy(X.Data, X.Data[δ:])).
type compactor struct {
	Fn    *ssa.Function
	Copy  *ssa.Call
	Delta ssa.Value
}

func (c *Ctx) compactors() []compactor {
	var out []compactor
	db := c.decBuf()
	for _, fn := range c.methodsOf(db) {
		for _, b := range fn.Blocks {
			for _, in := range b.Instrs {
				call := isBuiltinCall(in, "copy")
				if call == nil {
					// the same move written as Data = append(Data[:0], Data[δ:]...)
					if ap := isBuiltinCall(in, "append"); ap != nil && len(ap.Call.Args) == 2 {
						d0, okD := ap.Call.Args[0].(*ssa.Slice)
						s0, okS := ap.Call.Args[1].(*ssa.Slice)
						if okD && okS && d0.Low == nil && d0.High != nil && isConstZero(d0.High) && s0.Low != nil && s0.High == nil {
							p1, ok1 := recvPath(fn, d0.X)
							p2, ok2 := recvPath(fn, s0.X)
							if ok1 && ok2 && p1 == "Data" && p2 == "Data" {
								out = append(out, compactor{fn, ap, s0.Low})
							}
						}
					}
					continue
				}
				dp, ok1 := recvPath(fn, call.Call.Args[0])
				sl, ok2 := call.Call.Args[1].(*ssa.Slice)
				if !ok1 || !ok2 || dp != "Data" || sl.Low == nil {
					continue
				}
				sp, ok3 := recvPath(fn, sl.X)
				if !ok3 || sp != "Data" {
					continue
				}
				out = append(out, compactor{fn, call, sl.Low})
			}
		}
	}
	return out
}

func (c *Ctx) isCompactor(fn *ssa.Function) bool {
	for _, k := range c.compactors() {
		if k.Fn == fn {
			return true
		}
	}
	return false
}

func atomEndsWith(l Lin, suffix string) (string, bool) {
	if len(l.t) != 1 || l.c != 0 {
		return "", false
	}
	for a, co := range l.t {
		if co == 1 && strings.HasSuffix(strings.SplitN(a, "@", 2)[0], suffix) {
			return a, true
		}
	}
	return "", false
}

func init() {
	reg(&Rule{ID: "R-SHRINK-SAFE", Min: 5,
		Doc: "decoder compaction discards δ ≤ R and δ ≤ doz(len(Data), WindowSize); R -= δ; Data re-sliced to the copied count; Off untouched; δ returned",
		Run: ruleShrinkSafe})
	reg(&Rule{ID: "R-COMPACTORS", Min: 2,
		Doc: "only Read/WriteTo/compaction/Init/Reset store DecoderBuffer.R; only the compaction function moves or drops bytes of Data",
		Run: ruleCompactors})
	reg(&Rule{ID: "R-CURSOR", Min: 2,
		Doc: "Read advances R by copy's count; WriteTo advances R by the writer's reported count unconditionally",
		Run: ruleCursor})
	reg(&Rule{ID: "R-APPENDONLY", Min: 6,
		Doc: "Write* methods change Data only by append(Data, …); no element store into existing bytes",
		Run: ruleAppendOnly})
	reg(&Rule{ID: "R-REMAINDER", Min: 3,
		Doc: "each Decoder retry re-submits exactly the unconsumed remainder (Sequences[kk:], Literals[ll:], p[k:])",
		Run: ruleRemainder})
	reg(&Rule{ID: "R-VALIDATE-FIRST", Min: 4,
		Doc: "no append to Data can reach an error exit of the same sequence (WriteBlock) / call (WriteMatch)",
		Run: ruleValidateFirst})
	reg(&Rule{ID: "R-OFFGUARD", Min: 6,
		Doc: "match copies are dominated by the rejection of Offset > min(len(Data)[+LitLen], WindowSize) and of Offset==0 ∧ MatchLen>0; Literals[:LitLen] by LitLen ≤ len(Literals)",
		Run: ruleOffGuard})
	reg(&Rule{ID: "R-DRAIN-COMPLETE", Min: 1,
		Doc: "DecoderBuffer.WriteTo returns a nil error only if the writer accepted every pending byte (the io.WriterTo contract; a short count with a nil error is turned into an error): Flush cannot succeed on a partial write and the Decoder's retry loops may rely on a successful drain",
		Run: ruleDrainComplete})
	reg(&Rule{ID: "R-BLK-READONLY", Min: 1,
		Doc: "DecoderBuffer.WriteBlock and Decoder.WriteBlock never store through the caller's Sequences/Literals arrays",
		Run: ruleBlkReadOnly})
	reg(&Rule{ID: "R-LOOPS-DECODER", Min: 6,
		Doc: "every loop reachable from Decoder/DecoderBuffer methods matches a termination template (range, doubling copy, retry with progress)",
		Run: ruleLoopsDecoder})
	reg(&Rule{ID: "R-CAPERR", Min: 4,
		Doc: "errors of DecoderBuffer.Write*/WriteBlock are classified validity/capacity by their deciding guard; capacity-class errors must not escape Decoder methods",
		Run: ruleCapErr})
	reg(&Rule{ID: "R-WINAGREE", Min: 2,
		Doc: "the decoder rejects an offset only if Offset > min(len(Data)[+LitLen], WindowSize): Offset == WindowSize is accepted, as the parsers emit it",
		Run: ruleWinAgree})
	reg(&Rule{ID: "R-STALELEN", Min: 1,
		Doc: "a length of Data captured before a call that may compact Data is not combined with a length read afterwards unless corrected by the compaction's result",
		Run: ruleStaleLen})
	reg(&Rule{ID: "R-OFFPAIR", Min: 4,
		Doc: "each DecoderBuffer writer adds to Off exactly the byte count it appended and returns that count; no other function stores Off",
		Run: ruleOffPair})
	reg(&Rule{ID: "R-COUNTS-AT-END", Min: 3,
		Doc: "WriteBlock's k is the index of the failing sequence or len(Sequences); l is the literal bytes consumed (header advanced by LitLen per sequence)",
		Run: ruleCountsAtEnd})
	reg(&Rule{ID: "R-SUM", Min: 2,
		Doc: "Decoder.Write/WriteBlock add the inner counts once per iteration before the error test and return the accumulators on every return",
		Run: ruleSum})
	reg(&Rule{ID: "R-SINGLE-SINK", Min: 1,
		Doc: "the only io.Writer.Write call of package lz is in DecoderBuffer.WriteTo with argument Data[R:]",
		Run: ruleSingleSink})
	reg(&Rule{ID: "R-ERR-SURFACE", Min: 4,
		Doc: "every Decoder method returns WriteTo's error when it is non-nil",
		Run: ruleErrSurface})
}

// ---------------------------------------------------------------- R-SHRINK-SAFE

func ruleShrinkSafe(c *Ctx) {
	cs := c.compactors()
	if len(cs) == 0 {
		c.fail("compaction", token.NoPos, "no decoder compaction function found")
		return
	}
	for _, k := range cs {
		fn := k.Fn
		fi := c.info(fn)
		name := fnName(fn)
		d := fi.lin(k.Delta)
		blk := k.Copy.Block()
		// the call sites agree on what the request means: either every caller passes the total length wanted
		// (len(Data) + needed) or every caller passes the additional bytes only; a single call site of the other
		// kind asks for the wrong amount (siblings: Write, WriteByte, WriteMatch, WriteBlock twice)
		reqForm := ""
		if len(fn.Params) == 2 {
			withLen, without := 0, 0
			var odd []string
			type site struct {
				pos  token.Pos
				with bool
				s    string
			}
			var sites []site
			for _, caller := range c.allFuncs {
				if caller.Pkg != c.lz || caller.Blocks == nil {
					continue
				}
				cfi := c.info(caller)
				for _, b := range caller.Blocks {
					for _, in := range b.Instrs {
						call, ok := in.(*ssa.Call)
						if !ok || call.Call.StaticCallee() != fn || len(call.Call.Args) != 2 {
							continue
						}
						l := cfi.lin(call.Call.Args[1])
						has := false
						for a, co := range l.t {
							if co == 1 && strings.HasPrefix(a, "len(") && strings.Contains(a, ".Data") {
								has = true
							}
						}
						sites = append(sites, site{call.Pos(), has, fnName(caller) + ": " + l.String()})
						if has {
							withLen++
						} else {
							without++
						}
					}
				}
			}
			if withLen > 0 && without > 0 {
				minority := withLen < without
				for _, st := range sites {
					if st.with == minority {
						odd = append(odd, c.pos(st.pos)+" "+st.s)
					}
				}
			}
			switch {
			case withLen > 0 && without == 0:
				reqForm = "total"
			case without > 0 && withLen == 0:
				reqForm = "extra"
			}
			c.check(len(odd) == 0 && withLen+without > 0, name+":request-agrees", fn.Pos(), fmt.Sprintf("all %d call sites pass the request in the same form", withLen+without),
				fmt.Sprintf("the call sites disagree on the request passed to the compaction function (%d include len(Data), %d do not); the odd ones ask for the wrong amount of room: %v", withLen, without, odd))
		}
		// δ ≤ R
		okR := false
		for _, r := range fi.atomsWithSuffix(".R") {
			if !strings.Contains(r, "@") && fi.proveLE(d.sub(linAtom(r)), blk, nil) {
				okR = true
			}
		}
		c.check(okR, name+":delta≤R", k.Copy.Pos(), "discarded count δ = "+d.String()+" ≤ R (unread bytes are kept)",
			"discarded count δ = "+d.String()+" is not bounded by the read position R: unread bytes can be dropped")
		// δ ≤ doz(len(Data), WindowSize)
		okW := false
		var dozCall *ssa.Call
		for _, b := range fn.Blocks {
			for _, in := range b.Instrs {
				call, ok := in.(*ssa.Call)
				if !ok {
					continue
				}
				callee := call.Call.StaticCallee()
				if callee == nil || !c.isDoz(callee) {
					continue
				}
				a0 := fi.lin(call.Call.Args[0])
				_, isW := atomEndsWith(fi.lin(call.Call.Args[1]), ".WindowSize")
				isLen := false
				for a := range a0.t {
					if strings.HasPrefix(a, "len(") && strings.Contains(a, ".Data") && len(a0.t) == 1 && a0.c == 0 {
						isLen = true
					}
				}
				if isW && isLen && fi.proveLE(d.sub(fi.lin(call)), blk, nil) {
					okW = true
					dozCall = call
				}
			}
		}
		c.check(okW, name+":delta≤len-W", k.Copy.Pos(), "δ ≤ doz(len(Data), WindowSize): the last WindowSize bytes stay addressable",
			"discarded count δ is not bounded by doz(len(Data), WindowSize): window history can be dropped")
		// … and δ is no smaller than that: δ ≥ R or δ ≥ doz(len(Data), WindowSize) on every way it gets its value. The
		// retry templates count on one complete drain (R = len(Data)) leaving at most WindowSize bytes behind
		if dozCall != nil {
			type dway struct {
				v     ssa.Value
				conds []Cond
			}
			var dways []dway
			if ph, isPhi := k.Delta.(*ssa.Phi); isPhi {
				for i, e := range ph.Edges {
					p := ph.Block().Preds[i]
					dways = append(dways, dway{e, append(append([]Cond{}, fi.condsAt(p)...), fi.edgeConds(p, ph.Block())...)})
				}
			} else {
				dways = append(dways, dway{k.Delta, fi.condsAt(blk)})
			}
			okLow := true
			for _, w := range dways {
				lv := fi.lin(w.v)
				good := fi.proveLE0(fi.lin(dozCall).sub(lv), w.conds, nil, map[string]bool{}, 0)
				for _, r := range fi.atomsWithSuffix(".R") {
					if !strings.Contains(r, "@") && fi.proveLE0(linAtom(r).sub(lv), w.conds, nil, map[string]bool{}, 0) {
						good = true
					}
				}
				if !good {
					okLow = false
				}
			}
			c.check(okLow, name+":delta-exact", k.Copy.Pos(), "δ ≥ min(R, doz(len(Data), WindowSize)): everything that was read and lies outside the window is released",
				"the discarded count δ can be smaller than min(R, doz(len(Data), WindowSize)): after a complete drain more than WindowSize bytes stay in the buffer, and a request that Decoder.Write clamped to BufferSize − WindowSize never fits (the retry loop spins)")
		}
		// R -= δ, Data = Data[:copied], Off untouched, return δ
		okRs, okData, offTouched := false, false, false
		for _, b := range fn.Blocks {
			for _, in := range b.Instrs {
				st, ok := in.(*ssa.Store)
				if !ok {
					continue
				}
				p, ok := recvPath(fn, st.Addr)
				if !ok {
					continue
				}
				switch p {
				case "R":
					for _, r := range fi.atomsWithSuffix(".R") {
						if !strings.Contains(r, "@") && fi.lin(st.Val).eq(linAtom(r).sub(d)) && (blk == b || blk.Dominates(b)) {
							okRs = true
						}
					}
				case "Data":
					if sl, ok := st.Val.(*ssa.Slice); ok && sl.Low == nil && sl.High == k.Copy {
						okData = true
					}
					if st.Val == ssa.Value(k.Copy) && isBuiltinCall(k.Copy, "append") != nil {
						okData = true // append(Data[:0], Data[δ:]...) is copy + re-slice in one
					}
				case "Off":
					offTouched = true
				}
			}
		}
		c.check(okRs, name+":R-=delta", k.Copy.Pos(), "R is decreased by exactly δ", "R is not decreased by exactly the discarded count δ after the copy")
		c.check(okData, name+":reslice", k.Copy.Pos(), "Data re-sliced to the copied count", "Data is not re-sliced to the count returned by copy")
		c.check(!offTouched, name+":Off", k.Copy.Pos(), "Off not touched by compaction", "compaction stores to Off (Off counts bytes written, not bytes retained)")
		// what is returned, per way into each return: δ where the copy was executed, 0 where it was not;
		// and the copy may be skipped only when δ ≤ 0 or the request already fits (g ≤ BufferSize)
		okRet, okZero, okP := true, true, true
		nRet, nZ := 0, 0
		type way struct {
			executed bool
			conds    []Cond
			res      Lin
		}
		for _, b := range fn.Blocks {
			r, ok := b.Instrs[len(b.Instrs)-1].(*ssa.Return)
			if !ok {
				continue
			}
			// the discarded count is the (first) integer result; further results (a "fits now" flag) are
			// the callers' business (R-STALELEN, R-CAPERR look at what they do with them)
			ri := -1
			for i, rv := range r.Results {
				if bt, isB := rv.Type().Underlying().(*types.Basic); isB && bt.Info()&types.IsInteger != 0 {
					ri = i
					break
				}
			}
			if ri < 0 {
				continue
			}
			var ways []way
			switch {
			case blk == b || blk.Dominates(b):
				ways = append(ways, way{true, fi.condsAt(b), fi.lin(r.Results[ri])})
			case !fi.instrReaches(k.Copy, r):
				ways = append(ways, way{false, fi.condsAt(b), fi.lin(r.Results[ri])})
			default:
				// the return collects both kinds of paths: split at the merge
				m := b
				for len(m.Preds) == 1 {
					m = m.Preds[0]
				}
				for i, p := range m.Preds {
					res := fi.lin(r.Results[ri])
					if ph, isPhi := r.Results[ri].(*ssa.Phi); isPhi && ph.Block() == m {
						res = fi.lin(ph.Edges[i])
					}
					cs := append(append([]Cond{}, fi.condsAt(b)...), fi.edgeConds(p, m)...)
					ways = append(ways, way{p == blk || blk.Dominates(p), cs, res})
				}
			}
			for _, w := range ways {
				eq := func(x, y Lin) bool {
					return x.eq(y) || (fi.proveLE0(x.sub(y), w.conds, nil, map[string]bool{}, 0) && fi.proveLE0(y.sub(x), w.conds, nil, map[string]bool{}, 0))
				}
				if w.executed {
					nRet++
					if !eq(w.res, d) {
						okRet = false
					}
					continue
				}
				nZ++
				if !eq(w.res, linConst(0)) {
					okZero = false
				}
				fits := false
				// the request: the total size handed in, or the extra bytes handed in plus len(Data)
				var reqs []Lin
				// (which of the two the callers mean is read off the call sites: a bare parameter that stands
				// for the additional bytes says nothing about what fits)
				if len(fn.Params) >= 2 {
					if reqForm == "total" {
						reqs = append(reqs, fi.lin(fn.Params[1]))
					}
					for _, lb := range fn.Blocks {
						for _, lin := range lb.Instrs {
							if ld, isLd := lin.(*ssa.UnOp); isLd && ld.Op == token.MUL {
								if p, okp := recvPath(fn, ld.X); okp && p == "Data" && fi.version(ld) == "" {
									reqs = append(reqs, fi.lin(fn.Params[1]).add(fi.lenOf(ld)))
								}
							}
						}
					}
				}
				for _, rq := range reqs {
					for _, bs := range fi.atomsWithSuffix(".BufferSize") {
						if fi.proveLE0(rq.sub(linAtom(bs)), w.conds, nil, map[string]bool{}, 0) {
							fits = true
						}
					}
					// … or the BufferSize current at this return (read again after the adoption of cap(Data))
					for _, ld := range fi.currentLoads(r, func(f *types.Var, ld *ssa.UnOp) bool {
						p, okp := recvPath(fn, ld.X)
						return okp && f.Name() == "BufferSize" && lastField(p) == "BufferSize"
					}) {
						if fi.proveLE0(rq.sub(fi.lin(ld)), w.conds, nil, map[string]bool{}, 0) {
							fits = true
						}
					}
				}
				if !fits && len(fn.Params) >= 2 {
					// … or against the value just stored to BufferSize on this path (the adopted capacity)
					for _, sb := range fn.Blocks {
						if !(sb == b || sb.Dominates(b)) {
							continue
						}
						for _, in := range sb.Instrs {
							if st, isSt := in.(*ssa.Store); isSt {
								if p, okp := recvPath(fn, st.Addr); okp && lastField(p) == "BufferSize" {
									for _, rq := range reqs {
										if fi.proveLE0(rq.sub(fi.lin(st.Val)), w.conds, nil, map[string]bool{}, 0) {
											fits = true
										}
									}
								}
							}
						}
					}
				}
				definedHere := true
				if in, isIn := k.Delta.(ssa.Instruction); isIn && !(in.Block() == b || in.Block().Dominates(b)) {
					definedHere = false
				}
				if !fits && !(definedHere && fi.proveLE0(d, w.conds, nil, map[string]bool{}, 0)) {
					if os.Getenv("LZDBG4") != "" {
						fmt.Fprintf(os.Stderr, "DBG frees-all: block %d reqs=%v conds=%v form=%s\n", b.Index, reqs, factStrings(fi.factsOf(w.conds)), reqForm)
					}
					okP = false
				}
			}
		}
		c.check(okRet && nRet > 0, name+":returns-delta", k.Copy.Pos(), "returns δ", "the compaction function does not return the discarded count δ")
		c.check(okZero, name+":returns-0-otherwise", k.Copy.Pos(), "returns 0 whenever nothing was discarded", "the compaction function returns a non-zero value on a path that discards nothing: callers subtract the result from lengths captured before the call (R-STALELEN), so byte counts and Off would be wrong")
		c.check(okP && nZ > 0, name+":frees-all", k.Copy.Pos(), "compaction is skipped only when δ = min(R, len(Data)−WindowSize) is 0 or the request already fits: every drained byte outside the window is released",
			"the compaction function can return without compacting although δ > 0 (space that a drain made reclaimable is held back): the Decoder's retry loops rely on a drain followed by compaction making progress and would spin")
	}
}

// ---------------------------------------------------------------- R-COMPACTORS

func ruleCompactors(c *Ctx) {
	db := c.decBuf()
	allowedR := map[string]bool{"Read": true, "WriteTo": true, "Init": true, "Reset": true}
	nR, nMove := 0, 0
	for _, fn := range c.allFuncs {
		if fn.Pkg != c.lz {
			continue
		}
		for _, b := range fn.Blocks {
			for _, in := range b.Instrs {
				switch x := in.(type) {
				case *ssa.Store:
					f := fieldOfAddr(x.Addr)
					whole := false
					if pt, ok := x.Addr.Type().Underlying().(*types.Pointer); ok && types.Identical(pt.Elem(), db) {
						if _, isAlloc := x.Addr.(*ssa.Alloc); !isAlloc {
							whole = true
						}
					}
					if f != nil && isFieldOf(db, f) && f.Name() == "R" || whole {
						nR++
						isM := fn.Signature.Recv() != nil && allowedR[fn.Name()] && c.isMethodOf(fn, db)
						if !isM && !c.isCompactor(fn) {
							c.fail(fnName(fn)+":R-store", x.Pos(), "DecoderBuffer.R is stored outside Read/WriteTo/compaction/Init/Reset")
						}
					}
					if f != nil && isFieldOf(db, f) && f.Name() == "Data" {
						if sl, ok := x.Val.(*ssa.Slice); ok && sl.Low != nil && !isConstZero(sl.Low) {
							nMove++
							if !c.isCompactor(fn) {
								c.fail(fnName(fn)+":Data-prefix-drop", x.Pos(), "DecoderBuffer.Data is re-sliced with a non-zero low bound outside the compaction function")
							}
						}
					}
				}
				if call := isBuiltinCall(in, "copy"); call != nil {
					if f := fieldOfAddr(addrOf(stripSlices(call.Call.Args[0]))); f != nil && isFieldOf(db, f) && f.Name() == "Data" {
						nMove++
						if !c.isCompactor(fn) {
							c.fail(fnName(fn)+":Data-copy", call.Pos(), "copy into DecoderBuffer.Data outside the compaction function")
						}
					}
				}
			}
		}
	}
	c.ok("R-writers", token.NoPos, "%d stores to DecoderBuffer.R / whole-struct stores, all in Read, WriteTo, compaction, Init, Reset", nR)
	c.ok("Data-movers", token.NoPos, "%d copy/prefix-drop operations on DecoderBuffer.Data, all in the compaction function", nMove)
}

func (c *Ctx) isMethodOf(fn *ssa.Function, T *types.Named) bool {
	if fn.Signature.Recv() == nil {
		return false
	}
	rt := fn.Signature.Recv().Type()
	if p, ok := rt.(*types.Pointer); ok {
		rt = p.Elem()
	}
	return types.Identical(rt, T)
}

// ---------------------------------------------------------------- R-CURSOR

func ruleCursor(c *Ctx) {
	db := c.decBuf()
	// Read
	if fn := c.method(db, "Read"); fn != nil {
		fi := c.info(fn)
		key := fnName(fn) + ":R-advance"
		ok := false
		for _, b := range fn.Blocks {
			for _, in := range b.Instrs {
				st, isSt := in.(*ssa.Store)
				if !isSt {
					continue
				}
				if p, okp := recvPath(fn, st.Addr); !okp || p != "R" {
					continue
				}
				// value = R + copy(p, Data[R:])
				for _, bb := range fn.Blocks {
					for _, in2 := range bb.Instrs {
						call := isBuiltinCall(in2, "copy")
						if call == nil {
							continue
						}
						sl, isSl := call.Call.Args[1].(*ssa.Slice)
						if !isSl || sl.Low == nil || sl.High != nil {
							continue
						}
						if p, okp := recvPath(fn, sl.X); !okp || p != "Data" {
							continue
						}
						if fi.lin(st.Val).eq(fi.lin(sl.Low).add(fi.lin(call))) {
							if _, isR := atomEndsWith(fi.lin(sl.Low), ".R"); isR {
								ok = true
							}
						}
					}
				}
			}
		}
		c.check(ok, key, fn.Pos(), "R += copy(p, Data[R:])", "Read does not advance R by exactly the count copied from Data[R:]")
	} else {
		c.fail("lz.(*DecoderBuffer).Read", token.NoPos, "method not found")
	}
	// WriteTo
	if fn := c.method(db, "WriteTo"); fn != nil {
		fi := c.info(fn)
		key := fnName(fn) + ":R-advance"
		var wcall *ssa.Call
		for _, b := range fn.Blocks {
			for _, in := range b.Instrs {
				if call, ok := in.(*ssa.Call); ok && call.Call.IsInvoke() && call.Call.Method.Name() == "Write" {
					wcall = call
				}
			}
		}
		if wcall == nil {
			c.fail(key, fn.Pos(), "no io.Writer.Write call in WriteTo")
			return
		}
		sl, isSl := wcall.Call.Args[0].(*ssa.Slice)
		argOK := false
		if isSl && sl.Low != nil && sl.High == nil {
			if p, okp := recvPath(fn, sl.X); okp && p == "Data" {
				if _, isR := atomEndsWith(fi.lin(sl.Low), ".R"); isR {
					argOK = true
				}
			}
		}
		advOK := false
		for _, in := range wcall.Block().Instrs {
			st, isSt := in.(*ssa.Store)
			if !isSt {
				continue
			}
			if p, okp := recvPath(fn, st.Addr); !okp || p != "R" {
				continue
			}
			// value = R + extract(call, 0)
			for _, ref := range *wcall.Referrers() {
				if ex, ok := ref.(*ssa.Extract); ok && ex.Index == 0 && isSl {
					if fi.lin(st.Val).eq(fi.lin(sl.Low).add(fi.lin(ex))) {
						advOK = true
					}
				}
			}
		}
		c.check(argOK, key+":arg", wcall.Pos(), "writer receives Data[R:]", "the writer is not handed exactly Data[R:]")
		c.check(advOK, key, wcall.Pos(), "R += count reported by the writer, in the block of the call (also on error)",
			"WriteTo does not advance R by the writer's reported count unconditionally: bytes would be written twice or lost after a short write or error")
	} else {
		c.fail("lz.(*DecoderBuffer).WriteTo", token.NoPos, "method not found")
	}
}

// ---------------------------------------------------------------- R-APPENDONLY

func ruleAppendOnly(c *Ctx) {
	db := c.decBuf()
	n := 0
	for _, fn := range c.allFuncs {
		if fn.Pkg != c.lz {
			continue
		}
		for _, b := range fn.Blocks {
			for _, in := range b.Instrs {
				st, ok := in.(*ssa.Store)
				if !ok {
					continue
				}
				// element store into Data
				if ia, ok := st.Addr.(*ssa.IndexAddr); ok {
					if f := fieldOfAddr(addrOf(stripSlices(ia.X))); f != nil && isFieldOf(db, f) && f.Name() == "Data" {
						c.fail(fnName(fn)+":Data-element-store", st.Pos(), "store into an existing element of DecoderBuffer.Data")
					}
					continue
				}
				f := fieldOfAddr(st.Addr)
				if f == nil || !isFieldOf(db, f) || f.Name() != "Data" {
					continue
				}
				if c.isCompactor(fn) {
					continue
				}
				if r, _, ok := pathStr(st.Addr); ok {
					if _, isAlloc := r.(*ssa.Alloc); isAlloc {
						continue // field of a local composite literal (Init/Reset build a fresh value)
					}
				}
				n++
				if sl, ok := st.Val.(*ssa.Slice); ok && sl.Low == nil && sl.High != nil && isConstZero(sl.High) &&
					c.isMethodOf(fn, db) && (fn.Name() == "Init" || fn.Name() == "Reset") {
					c.ok(key0(fn, n), st.Pos(), "Init/Reset truncate Data to empty")
					continue
				}
				key := fmt.Sprintf("%s:Data-store#%d", fnName(fn), n)
				if call, ok := st.Val.(*ssa.Call); ok {
					if ap := isBuiltinCall(call, "append"); ap != nil {
						if ff := fieldOfAddr(addrOf(ap.Call.Args[0])); ff == f {
							c.ok(key, st.Pos(), "Data = append(Data, …)")
							continue
						}
					}
				}
				c.fail(key, st.Pos(), "DecoderBuffer.Data is assigned something other than append(Data, …) outside compaction/Init/Reset")
			}
		}
	}
}

// ---------------------------------------------------------------- decoder retry loops

type retryLoop struct {
	Fn    *ssa.Function
	Loop  *Loop
	Inner *ssa.Call // the DecoderBuffer call retried
	Drain *ssa.Call // the WriteTo call
	// calls of the same DecoderBuffer method before the loop (the first attempt peeled out of the loop)
	Firsts []*ssa.Call
}

// lastCounts: the values that denote result #idx of the most recent inner call: the extracts of the
// in-loop call and of the peeled first attempt(s), and header φs that merge exactly such values.
func (rl retryLoop) lastCounts(fi *FuncInfo, idx int) map[ssa.Value]bool {
	set := map[ssa.Value]bool{}
	for _, cl := range append([]*ssa.Call{rl.Inner}, rl.Firsts...) {
		if ex := extractOf(cl, idx); ex != nil {
			set[ex] = true
		}
	}
	for changed := true; changed; {
		changed = false
		for _, ph := range fi.phis {
			if set[ph] || len(ph.Edges) == 0 {
				continue
			}
			all := true
			for _, e := range ph.Edges {
				if !set[stripConv(e)] && e != ssa.Value(ph) {
					all = false
				}
			}
			if all {
				set[ph] = true
				changed = true
			}
		}
	}
	return set
}

func (c *Ctx) retryLoops() []retryLoop {
	var out []retryLoop
	db := c.decBuf()
	for _, fn := range c.methodsOf(c.decoder()) {
		fi := c.info(fn)
		for _, l := range fi.loops {
			rl := retryLoop{Fn: fn, Loop: l}
			var blocks []*ssa.BasicBlock
			for b := range l.Blocks {
				blocks = append(blocks, b)
			}
			sort.Slice(blocks, func(i, j int) bool { return blocks[i].Index < blocks[j].Index })
			for _, b := range blocks {
				for _, in := range b.Instrs {
					call, ok := in.(*ssa.Call)
					if !ok {
						continue
					}
					callee := call.Call.StaticCallee()
					if callee == nil || !c.isMethodOf(callee, db) {
						continue
					}
					if callee.Name() == "WriteTo" {
						rl.Drain = call
					} else if rl.Inner == nil {
						rl.Inner = call
					}
				}
			}
			if rl.Inner != nil {
				for _, b := range fn.Blocks {
					if l.Blocks[b] || !b.Dominates(l.Header) {
						continue
					}
					for _, in := range b.Instrs {
						if call, ok := in.(*ssa.Call); ok && call.Call.StaticCallee() == rl.Inner.Call.StaticCallee() {
							rl.Firsts = append(rl.Firsts, call)
						}
					}
				}
			}
			out = append(out, rl)
		}
	}
	return out
}

func extractOf(call *ssa.Call, idx int) *ssa.Extract {
	if call == nil || call.Referrers() == nil {
		return nil
	}
	for _, ref := range *call.Referrers() {
		if ex, ok := ref.(*ssa.Extract); ok && ex.Index == idx {
			return ex
		}
	}
	return nil
}

func ruleRemainder(c *Ctx) {
	for _, rl := range c.retryLoops() {
		fn := rl.Fn
		key := fnName(fn) + ":retry"
		if rl.Inner == nil {
			c.fail(key, fn.Pos(), "retry loop without an inner DecoderBuffer call")
			continue
		}
		callee := rl.Inner.Call.StaticCallee()
		fi := c.info(fn)
		switch callee.Name() {
		case "WriteByte":
			c.ok(key, rl.Inner.Pos(), "single byte: nothing to re-slice")
		case "Write":
			// the argument is a slice value p' = φ(p, p'[k:]) (possibly clamped)
			arg := rl.Inner.Call.Args[1]
			k := extractOf(rl.Inner, 0)
			ok := false
			if k != nil {
				for _, b := range fn.Blocks {
					if !rl.Loop.Blocks[b] {
						continue
					}
					for _, in := range b.Instrs {
						if sl, isSl := in.(*ssa.Slice); isSl && sl.High == nil && sl.Low != nil && (fi.lin(sl.Low).eq(fi.lin(k)) || rl.lastCounts(fi, 0)[stripConv(sl.Low)]) {
							// slices the submitted remainder (or the value it was clamped from)
							ok = true
						}
					}
				}
			}
			_ = arg
			if !ok && k != nil {
				// cursor form: the parameter is never re-sliced; p[c:…] is submitted with a cursor that
				// starts at 0 and advances by exactly the inner count
				if sl, isSl := stripSliceHigh(arg); isSl && sl.Low != nil {
					ok = c.cursorAdvances(fi, rl.Loop, sl.Low, k) && c.unmodifiedParamPath(fn, sl.X)
				}
				if !ok {
					// the chunk may be clamped afterwards (q := p[c:]; if len(q) > m { q = q[:m] }): the
					// remainder is taken from the parameter at the cursor somewhere in the loop
					for b := range rl.Loop.Blocks {
						for _, in := range b.Instrs {
							if sl, isSl := in.(*ssa.Slice); isSl && sl.Low != nil && c.cursorAdvances(fi, rl.Loop, sl.Low, k) && c.unmodifiedParamPath(fn, sl.X) {
								if _, isParam := sl.X.(*ssa.Parameter); isParam {
									ok = true
								}
							}
						}
					}
				}
			}
			c.check(ok, key, rl.Inner.Pos(), "remainder p = p[k:] with k the inner count (or a cursor into p advanced by k)", "the retry does not continue with p[k:] for the count k accepted by the inner Write")
		case "WriteBlock":
			kk, ll := extractOf(rl.Inner, 1), extractOf(rl.Inner, 2)
			okS, okL := false, false
			for _, b := range fn.Blocks {
				if !rl.Loop.Blocks[b] {
					continue
				}
				for _, in := range b.Instrs {
					st, isSt := in.(*ssa.Store)
					if !isSt {
						continue
					}
					_, p, okp := pathStr(st.Addr)
					sl, isSl := st.Val.(*ssa.Slice)
					if !okp || !isSl || sl.High != nil || sl.Low == nil {
						continue
					}
					_, sp, _ := pathStr(sl.X)
					if p == "Sequences" && sp == "Sequences" && kk != nil && (fi.lin(sl.Low).eq(fi.lin(kk)) || rl.lastCounts(fi, 1)[stripConv(sl.Low)]) {
						okS = true
					}
					if p == "Literals" && sp == "Literals" && ll != nil && (fi.lin(sl.Low).eq(fi.lin(ll)) || rl.lastCounts(fi, 2)[stripConv(sl.Low)]) {
						okL = true
					}
				}
			}
			if !(okS && okL) && kk != nil && ll != nil {
				// cursor form: Block{Sequences: blk.Sequences[ck:], Literals: blk.Literals[cl:]} with cursors
				// advanced by the inner counts; blk itself is not modified
				cs, cl := false, false
				for b := range rl.Loop.Blocks {
					for _, in := range b.Instrs {
						sl, isSl := in.(*ssa.Slice)
						if !isSl || sl.High != nil || sl.Low == nil {
							continue
						}
						_, sp, okp := pathStr(sl.X)
						if !okp || !c.unmodifiedParamPath(fn, sl.X) {
							continue
						}
						if sp == "Sequences" && c.cursorAdvances(fi, rl.Loop, sl.Low, kk) {
							cs = true
						}
						if sp == "Literals" && c.cursorAdvances(fi, rl.Loop, sl.Low, ll) {
							cl = true
						}
					}
				}
				if cs && cl {
					okS, okL = true, true
				}
			}
			c.check(okS && okL, key, rl.Inner.Pos(), "remainder Sequences[kk:], Literals[ll:] with kk, ll the inner counts",
				fmt.Sprintf("the retry does not re-submit exactly Sequences[kk:] and Literals[ll:] (sequences ok=%v, literals ok=%v)", okS, okL))
		default:
			c.fail(key, rl.Inner.Pos(), "unrecognised inner call %s", callee.Name())
		}
	}
}

// stripSliceHigh: v as a slice expression x[lo:hi] or x[lo:] (the submitted chunk may be clamped).
func stripSliceHigh(v ssa.Value) (*ssa.Slice, bool) {
	sl, ok := v.(*ssa.Slice)
	return sl, ok
}

// cursorAdvances: cur is a φ at the loop header that starts at 0 and whose value on every way round the
// loop is cur + step (step: a count produced in this iteration).
func (c *Ctx) cursorAdvances(fi *FuncInfo, l *Loop, cur, step ssa.Value) bool {
	ph, ok := stripConv(cur).(*ssa.Phi)
	if !ok || ph.Block() != l.Header {
		return false
	}
	n := 0
	for i, e := range ph.Edges {
		if !l.Blocks[l.Header.Preds[i]] {
			if !isConstZero(e) {
				return false
			}
			continue
		}
		for _, lf := range mergeLeaves(e) {
			if !fi.lin(lf.V).eq(fi.lin(ph).add(fi.lin(step))) {
				return false
			}
			n++
		}
	}
	return n > 0
}

// unmodifiedParamPath: v is (a field of) a parameter that the function never stores to.
func (c *Ctx) unmodifiedParamPath(fn *ssa.Function, v ssa.Value) bool {
	root, p, ok := pathStr(v)
	if !ok {
		return false
	}
	if _, isParam := root.(*ssa.Parameter); !isParam {
		// a by-value struct parameter lives in a local cell
		al, isAlloc := root.(*ssa.Alloc)
		if !isAlloc {
			return false
		}
		fromParam := false
		for _, ref := range *al.Referrers() {
			if st, isSt := ref.(*ssa.Store); isSt && st.Addr == ssa.Value(al) {
				if _, isP := st.Val.(*ssa.Parameter); isP {
					fromParam = true
				} else {
					return false
				}
			}
		}
		if !fromParam {
			return false
		}
	}
	for _, b := range fn.Blocks {
		for _, in := range b.Instrs {
			if st, isSt := in.(*ssa.Store); isSt {
				if r2, p2, ok2 := pathStr(st.Addr); ok2 && r2 == root && (p2 == p || strings.HasPrefix(p, p2+".") || strings.HasPrefix(p2, p+".")) && p2 != "" {
					return false
				}
			}
		}
	}
	return true
}

// ---------------------------------------------------------------- R-VALIDATE-FIRST

// isErrExit: block b leaves towards a non-nil error result (a return with a
// non-nil error, or an edge into a merge whose error phi gets a non-nil value).
func (c *Ctx) errExitBlocks(fi *FuncInfo) map[*ssa.BasicBlock]string {
	out := map[*ssa.BasicBlock]string{}
	fn := fi.fn
	for _, b := range fn.Blocks {
		r, ok := b.Instrs[len(b.Instrs)-1].(*ssa.Return)
		if !ok || len(r.Results) == 0 {
			continue
		}
		last := r.Results[len(r.Results)-1]
		if !isErrorType(last.Type()) {
			continue
		}
		if _, ok := last.(*ssa.Phi); ok {
			// the error result is merged (named result set before a jump to a common exit, or a flag-style
			// "err = E; break" tested after the loop): the exit is the block from which E enters the φ web
			for _, lf := range phiLeaves(last) {
				if g := errGlobalName(lf.V); g != "" && lf.Pred != nil {
					out[lf.Pred] = g
				}
			}
			continue
		}
		if g := errGlobalName(last); g != "" {
			out[b] = g
		}
	}
	return out
}

// waysInto: the condition lists (nearest first) under which block b is entered: one list for a block
// with a single predecessor (its dominating conditions), one per incoming edge otherwise.
func (fi *FuncInfo) waysInto(b *ssa.BasicBlock) [][]Cond {
	ways := fi.waysInto0(b)
	// conditions on materialised booleans / merged errors stand for the branches behind them: each is
	// replaced, at its own position in the nearest-first order, by what it stands for (the comparison
	// that decided it first)
	var out [][]Cond
	for _, w := range ways {
		cur := [][]Cond{{}}
		for _, cd := range w {
			alts := fi.condAlternatives(cd, 0)
			if alts == nil || len(cur)*len(alts) > 12 {
				for i := range cur {
					cur[i] = append(cur[i], cd)
				}
				continue
			}
			var next [][]Cond
			for _, c0 := range cur {
				for _, a := range alts {
					rev := append([]Cond{}, a...)
					for i, j := 0, len(rev)-1; i < j; i, j = i+1, j-1 {
						rev[i], rev[j] = rev[j], rev[i]
					}
					next = append(next, append(append([]Cond{}, c0...), rev...))
				}
			}
			cur = next
		}
		out = append(out, cur...)
	}
	return out
}

func (fi *FuncInfo) waysInto0(b *ssa.BasicBlock) [][]Cond {
	if len(b.Preds) <= 1 {
		return [][]Cond{fi.condsAt(b)}
	}
	var out [][]Cond
	for _, p := range b.Preds {
		ec := fi.edgeConds(p, b)
		// the branch condition of the edge itself is the nearest one
		if n := len(ec); n > len(fi.condsAt(p)) {
			ec = append([]Cond{ec[n-1]}, ec[:n-1]...)
		}
		out = append(out, ec)
	}
	return out
}

func errGlobalName(v ssa.Value) string {
	if u, ok := v.(*ssa.UnOp); ok && u.Op == token.MUL {
		if g, ok := u.X.(*ssa.Global); ok {
			return globalLabel(g)
		}
	}
	return ""
}

// globalLabel names an error variable in constructs: exported variables by
// their name; unexported ones by their message (errors.New("lz: MatchLen out
// of range") → err[MatchLen-out-of-range]), so that renaming a private
// variable does not change obligation keys.
var globalLabels = map[*ssa.Global]string{}

func globalLabel(g *ssa.Global) string {
	if token.IsExported(g.Name()) {
		return g.Name()
	}
	if l, ok := globalLabels[g]; ok {
		return l
	}
	l := g.Name()
	if init := g.Pkg.Func("init"); init != nil {
		for _, b := range init.Blocks {
			for _, in := range b.Instrs {
				st, ok := in.(*ssa.Store)
				if !ok || st.Addr != ssa.Value(g) {
					continue
				}
				if call, ok := st.Val.(*ssa.Call); ok && len(call.Call.Args) == 1 {
					if m, ok := constString(call.Call.Args[0]); ok {
						m = strings.TrimPrefix(m, g.Pkg.Pkg.Name()+": ")
						l = "err[" + strings.ReplaceAll(m, " ", "-") + "]"
					}
				}
			}
		}
	}
	globalLabels[g] = l
	return l
}

func ruleValidateFirst(c *Ctx) {
	db := c.decBuf()
	for _, name := range []string{"WriteBlock", "WriteMatch"} {
		fn := c.method(db, name)
		if fn == nil {
			c.fail("lz.(*DecoderBuffer)."+name, token.NoPos, "method not found")
			continue
		}
		fi := c.info(fn)
		// append stores to Data
		var appends []*ssa.Store
		for _, b := range fn.Blocks {
			for _, in := range b.Instrs {
				if st, ok := in.(*ssa.Store); ok {
					if p, okp := recvPath(fn, st.Addr); okp && p == "Data" {
						appends = append(appends, st)
					}
				}
			}
		}
		exits := c.errExitBlocks(fi)
		var eb []*ssa.BasicBlock
		for b := range exits {
			eb = append(eb, b)
		}
		sort.Slice(eb, func(i, j int) bool { return eb[i].Index < eb[j].Index })
		for i, b := range eb {
			key := fmt.Sprintf("%s:%s-exit#%d", fnName(fn), exits[b], i+1)
			l := fi.loopOf(b)
			bad := false
			for _, st := range appends {
				if l != nil && l.Blocks[st.Block()] {
					// reachable from the append to the exit inside the loop without passing the header?
					if reachWithin(st.Block(), b, l, fi) {
						c.fail(key, st.Pos(), "bytes of a sequence are appended to Data before the check that fails with %s: rejection would not be atomic", exits[b])
						bad = true
					}
				} else if l == nil && fi.instrReaches(st, b.Instrs[0]) && !st.Block().Dominates(fn.Blocks[0]) {
					// outside loops: any append that can reach the error exit in the same call — allowed only
					// if it belongs to a completed earlier sequence (inside the per-sequence loop)
					if sl := fi.loopOf(st.Block()); sl == nil {
						c.fail(key, st.Pos(), "Data is appended to before the check that fails with %s", exits[b])
						bad = true
					}
				}
			}
			if !bad {
				c.ok(key, b.Instrs[0].Pos(), "no append of the same sequence/call precedes this rejection")
			}
		}
		if len(eb) == 0 {
			c.fail(fnName(fn)+":exits", fn.Pos(), "no error exits found")
		}
	}
}

// reachWithin: a path from a to b inside loop l that does not pass the header.
func reachWithin(a, b *ssa.BasicBlock, l *Loop, fi *FuncInfo) bool {
	seen := map[*ssa.BasicBlock]bool{}
	stack := []*ssa.BasicBlock{a}
	for len(stack) > 0 {
		x := stack[len(stack)-1]
		stack = stack[:len(stack)-1]
		if seen[x] {
			continue
		}
		seen[x] = true
		if x == b {
			return true
		}
		for _, s := range x.Succs {
			if s == l.Header {
				continue
			}
			// b may be outside the loop proper (exit edge target is the pred itself)
			stack = append(stack, s)
		}
	}
	return false
}

// ---------------------------------------------------------------- R-OFFGUARD

// doubling loops: loops whose header has phis (n, off) and whose body
// appends Data[len(Data)-off:].
type dblLoop struct {
	Fn       *ssa.Function
	Loop     *Loop
	N, Off   *ssa.Phi
	N0, Off0 ssa.Value
	Pre      *ssa.BasicBlock
}

func (c *Ctx) doublingLoops(fn *ssa.Function) []dblLoop {
	fi := c.info(fn)
	var out []dblLoop
	for _, l := range fi.loops {
		// a body slice Data[len(Data)-off:]
		var offPhi *ssa.Phi
		for b := range l.Blocks {
			for _, in := range b.Instrs {
				sl, ok := in.(*ssa.Slice)
				if !ok || sl.Low == nil || sl.High != nil {
					continue
				}
				if p, okp := recvPath(fn, sl.X); !okp || p != "Data" {
					continue
				}
				bo, ok := sl.Low.(*ssa.BinOp)
				if !ok || bo.Op != token.SUB {
					continue
				}
				if ph, ok := bo.Y.(*ssa.Phi); ok && ph.Block() == l.Header {
					offPhi = ph
				}
			}
		}
		if offPhi == nil {
			continue
		}
		d := dblLoop{Fn: fn, Loop: l, Off: offPhi}
		// n phi: the other int phi of the header compared with off
		if iff, ok := l.Header.Instrs[len(l.Header.Instrs)-1].(*ssa.If); ok {
			if bo, ok := iff.Cond.(*ssa.BinOp); ok {
				for _, v := range []ssa.Value{bo.X, bo.Y} {
					if ph, ok := v.(*ssa.Phi); ok && ph != offPhi && ph.Block() == l.Header {
						d.N = ph
					}
				}
			}
		}
		for i, p := range l.Header.Preds {
			if !l.Blocks[p] {
				d.Pre = p
				d.Off0 = offPhi.Edges[i]
				if d.N != nil {
					d.N0 = d.N.Edges[i]
				}
			}
		}
		out = append(out, d)
	}
	return out
}

func ruleOffGuard(c *Ctx) {
	db := c.decBuf()
	for _, name := range []string{"WriteBlock", "WriteMatch"} {
		fn := c.method(db, name)
		if fn == nil {
			c.fail("lz.(*DecoderBuffer)."+name, token.NoPos, "method not found")
			continue
		}
		fi := c.info(fn)
		dls := c.doublingLoops(fn)
		if len(dls) == 0 {
			c.fail(fnName(fn)+":match-copy", fn.Pos(), "no match-copy loop found")
			continue
		}
		for _, d := range dls {
			key := fnName(fn) + ":match-copy"
			off0 := fi.lin(d.Off0)
			// bytes appended in the pre-header before the copy starts (the literal run)
			appended := linConst(0)
			for _, ap := range blkAppends(d.Pre, "Data") {
				appended = appended.add(fi.lenOf(ap.Call.Args[1]))
			}
			// a bound B with off0 ≤ B whose defining values are WindowSize or len(Data)+appended
			okLen, okWin := false, false
			detail := ""
			for _, ph := range fi.phis {
				// (the clamp need not dominate the copy — it may sit inside an inlined validator whose other
				// exits reject — as long as the copy is reachable from it; the proof below is under the
				// conditions of the copy, which then imply the path through the clamp)
				if !isIntType(ph.Type()) || !(ph.Block() == d.Pre || ph.Block().Dominates(d.Pre) || fi.reach[ph.Block()][d.Pre]) {
					continue
				}
				if l := fi.loopOf(ph.Block()); l != nil && l.Header == ph.Block() {
					continue
				}
				if !fi.proveAt(off0.sub(linAtom(ph.Name())), d.Pre, nil) {
					continue
				}
				exact := true
				var guardLoad *ssa.UnOp
				for _, lf := range phiLeaves(ph) {
					l := fi.lin(lf.V)
					if _, isW := atomEndsWith(l, ".WindowSize"); isW {
						continue
					}
					rest := l.sub(appended)
					isLen := false
					for a, co := range rest.t {
						if strings.HasPrefix(a, "len(") && strings.Contains(a, ".Data") && co == 1 && len(rest.t) == 1 && rest.c == 0 {
							isLen = true
							// find the load
							for _, b := range fn.Blocks {
								for _, in := range b.Instrs {
									if u, ok := in.(*ssa.UnOp); ok && u.Op == token.MUL && fi.lenOf(u).eq(linAtom(a)) {
										if guardLoad == nil {
											guardLoad = u
										}
									}
								}
							}
						}
					}
					if !isLen {
						exact = false
						detail = fmt.Sprintf("bound value %s is neither WindowSize nor len(Data) + the %s bytes appended before the copy", l, appended)
					}
				}
				if !exact || guardLoad == nil {
					continue
				}
				// between the guard's view of Data and the copy only compaction calls and the literal append write Data
				clean := true
				fi.computeWriters()
				for _, w := range fi.writers[fieldOfAddr(guardLoad.X)] {
					if !fi.instrReaches(guardLoad, w) || !fi.instrReaches(w, d.Pre.Instrs[len(d.Pre.Instrs)-1]) {
						continue
					}
					if fi.writerBetween(guardLoad, d.Pre.Instrs[len(d.Pre.Instrs)-1], []ssa.Instruction{w}) {
						if call, ok := w.(*ssa.Call); ok && call.Call.StaticCallee() != nil && c.isCompactor(call.Call.StaticCallee()) {
							continue // keeps min(len, WindowSize) bytes (R-SHRINK-SAFE) and Offset ≤ WindowSize
						}
						if st, ok := w.(*ssa.Store); ok && st.Block() == d.Pre {
							if ap, ok := st.Val.(*ssa.Call); ok && isBuiltinCall(ap, "append") != nil {
								continue
							}
						}
						clean = false
						detail = "Data is modified between the offset check and the copy at " + c.pos(w.Pos())
					}
				}
				if clean {
					okLen = true
				}
			}
			c.check(okLen, key+":offset≤len", d.Off0.Pos(), "Offset ≤ min(len(Data)+appended literals, WindowSize) when the copy starts; only compaction (keeps the window) and the literal append intervene",
				"the match copy is not dominated by a rejection of Offset > min(len(Data)[+LitLen], WindowSize) evaluated on the data the copy reads: Data[len-off:] can be out of range ("+detail+")")
			for _, w := range fi.atomsWithSuffix(".WindowSize") {
				if fi.proveAt(off0.sub(linAtom(w)), d.Pre, nil) {
					okWin = true
				}
			}
			c.check(okWin, key+":offset≤window", d.Off0.Pos(), "Offset ≤ WindowSize when the copy starts",
				"the match copy starts although Offset = "+off0.String()+" is not proved ≤ WindowSize")
			// Offset ≥ 1 ∨ MatchLen ≤ 0
			okZero := false
			if d.N0 != nil {
				okZero = fi.proveAny([]Lin{linConst(1).sub(off0), fi.lin(d.N0)}, d.Pre, nil)
				if !okZero && os.Getenv("LZDBG2") != "" {
					alts := fi.expandConds(fi.condsAt(d.Pre))
					fmt.Fprintf(os.Stderr, "DBG offzero %s: off0=%s N0=%s conds=%d alts=%d\n", fnName(fn), off0, fi.lin(d.N0), len(fi.condsAt(d.Pre)), len(alts))
					for _, a := range alts {
						fmt.Fprintf(os.Stderr, "   alt: %s\n", factStrings(fi.factsOf(a)))
					}
				}
			}
			c.check(okZero, key+":offset≠0", d.Off0.Pos(), "Offset ≥ 1 or MatchLen = 0 when the copy starts",
				"a sequence with Offset == 0 and MatchLen > 0 is not rejected before the match copy (the doubling loop would not terminate)")
		}
		// Literals[:LitLen]
		for _, b := range fn.Blocks {
			for _, in := range b.Instrs {
				sl, ok := in.(*ssa.Slice)
				if !ok || sl.High == nil {
					continue
				}
				_, p, okp := pathStr(sl.X)
				if !okp || p != "Literals" {
					continue
				}
				if isConstZero(sl.High) {
					continue
				}
				key := fnName(fn) + ":literals-slice"
				ok2 := fi.proveAt(fi.lin(sl.High).sub(fi.lenOf(sl.X)), b, nil)
				if sl.Low != nil {
					// cursor form Literals[l:l+LitLen]: the cursor is within the slice as well
					lo := fi.lin(sl.Low)
					ok2 = ok2 && fi.proveAt(lo.sub(fi.lin(sl.High)), b, nil) && (c.nonneg(sl.Low) || fi.proveAt(lo.scale(-1), b, nil))
				}
				c.check(ok2, key, sl.Pos(), "Literals[:LitLen] is dominated by LitLen ≤ len(Literals)",
					"Literals[:"+fi.lin(sl.High).String()+"] is not dominated by a rejection of LitLen > len(remaining literals)")
			}
		}
	}
}

// lenDataAt: linear form of len(recv.Data) as seen at the end of block b.
func (c *Ctx) lenDataAt(fi *FuncInfo, b *ssa.BasicBlock) (Lin, bool) {
	fn := fi.fn
	// last store to Data in b, else a load in b
	for i := len(b.Instrs) - 1; i >= 0; i-- {
		switch x := b.Instrs[i].(type) {
		case *ssa.Store:
			if p, ok := recvPath(fn, x.Addr); ok && p == "Data" {
				return fi.lenOf(x.Val), true
			}
		case *ssa.UnOp:
			if x.Op == token.MUL {
				if p, ok := recvPath(fn, x.X); ok && p == "Data" {
					return fi.lenOf(x), true
				}
			}
		}
	}
	// a load dominating b with the same version as at b: walk up
	for d := b.Idom(); d != nil; d = d.Idom() {
		for i := len(d.Instrs) - 1; i >= 0; i-- {
			if x, ok := d.Instrs[i].(*ssa.UnOp); ok && x.Op == token.MUL {
				if p, ok := recvPath(fn, x.X); ok && p == "Data" {
					// no writer between d and b?
					fi.computeWriters()
					clean := true
					for _, w := range fi.writers[fieldOfAddr(x.X)] {
						if fi.instrReaches(x, w) && fi.instrReaches(w, b.Instrs[len(b.Instrs)-1]) {
							clean = false
						}
					}
					if clean {
						return fi.lenOf(x), true
					}
				}
			}
		}
	}
	return Lin{}, false
}

// ---------------------------------------------------------------- R-BLK-READONLY

func ruleBlkReadOnly(c *Ctx) {
	for _, T := range []*types.Named{c.decBuf(), c.decoder()} {
		fn := c.method(T, "WriteBlock")
		if fn == nil {
			c.fail("WriteBlock", token.NoPos, "WriteBlock not found")
			continue
		}
		key := fnName(fn) + ":blk"
		bad := false
		for _, k := range c.mayWrite(fn) {
			if strings.HasPrefix(k, "p1.") && strings.Contains(k, "[*]") {
				for _, s := range c.effects()[fn].may[k] {
					c.fail(key, s.In.Pos(), "writes through the caller's block (%s) in %s", strings.TrimPrefix(k, "p1."), fnName(s.Fn))
					bad = true
				}
			}
		}
		if !bad {
			c.ok(key, fn.Pos(), "no store through blk.Sequences / blk.Literals backing arrays")
		}
	}
}

// ---------------------------------------------------------------- R-LOOPS-DECODER (C06)

func ruleLoopsDecoder(c *Ctx) {
	db := c.decBuf()
	var roots []*ssa.Function
	roots = append(roots, c.methodsOf(db)...)
	roots = append(roots, c.methodsOf(c.decoder())...)
	if f := c.lzFunc("NewDecoder"); f != nil {
		roots = append(roots, f)
	}
	reach := c.reachable(roots...)
	var fns []*ssa.Function
	for fn := range reach {
		fns = append(fns, fn)
	}
	sort.Slice(fns, func(i, j int) bool { return fns[i].String() < fns[j].String() })
	retry := map[*Loop]retryLoop{}
	for _, rl := range c.retryLoops() {
		retry[rl.Loop] = rl
	}
	for _, fn := range fns {
		fi := c.info(fn)
		dbl := map[*Loop]dblLoop{}
		for _, d := range c.doublingLoops(fn) {
			dbl[d.Loop] = d
		}
		for i, l := range fi.loops {
			key := fmt.Sprintf("%s:loop#%d", fnName(fn), i+1)
			pos := l.Header.Instrs[0].Pos()
			if pos == token.NoPos && len(l.Header.Instrs) > 1 {
				pos = l.Header.Instrs[len(l.Header.Instrs)-1].Pos()
			}
			switch {
			case c.isRangeLoop(fi, l):
				c.ok(key, pos, "T-RANGE: index runs from 0 to a length fixed before the loop")
			case dbl[l].Off != nil:
				c.checkDoubling(fi, dbl[l], key, pos)
			case retry[l].Fn != nil:
				c.checkRetry(fi, retry[l], key, pos)
			case c.isCountingLoop(fi, l):
				c.ok(key, pos, "T-COUNT: induction variable moves monotonically towards a loop-invariant bound")
			default:
				c.fail(key, pos, "loop matches no termination template (range, counting, doubling copy, retry with progress)")
			}
		}
	}
}

// isRangeLoop: header phi i = φ(-1, i+1) with exit test i+1 < n, n defined outside the loop.
func (c *Ctx) isRangeLoop(fi *FuncInfo, l *Loop) bool {
	iff, ok := l.Header.Instrs[len(l.Header.Instrs)-1].(*ssa.If)
	if !ok {
		return false
	}
	bo, ok := iff.Cond.(*ssa.BinOp)
	if !ok || bo.Op != token.LSS {
		return false
	}
	inc, ok := bo.X.(*ssa.BinOp)
	if !ok || inc.Op != token.ADD {
		return false
	}
	ph, ok := inc.X.(*ssa.Phi)
	if !ok || ph.Block() != l.Header {
		return false
	}
	if k, ok := constInt(inc.Y); !ok || k != 1 {
		return false
	}
	for i, e := range ph.Edges {
		if l.Blocks[l.Header.Preds[i]] {
			if e != inc {
				return false
			}
		}
	}
	// bound defined outside
	if in, ok := bo.Y.(ssa.Instruction); ok && l.Blocks[in.Block()] {
		return false
	}
	return true
}

// isCountingLoop: for i := a; i < b; i++ (or i > b; i--) with b loop-invariant.
func (c *Ctx) isCountingLoop(fi *FuncInfo, l *Loop) bool {
	iff, ok := l.Header.Instrs[len(l.Header.Instrs)-1].(*ssa.If)
	if !ok {
		return false
	}
	bo, ok := iff.Cond.(*ssa.BinOp)
	if !ok {
		return false
	}
	try := func(iv, bound ssa.Value, up bool) bool {
		ph, ok := iv.(*ssa.Phi)
		if !ok || ph.Block() != l.Header {
			return false
		}
		if in, ok := bound.(ssa.Instruction); ok && l.Blocks[in.Block()] {
			if _, isPhi := bound.(*ssa.Phi); isPhi || !c.loopInvariantLoad(fi, l, bound) {
				return false
			}
		}
		for i, e := range ph.Edges {
			if !l.Blocks[l.Header.Preds[i]] {
				continue
			}
			d := fi.lin(e).sub(linAtom(ph.Name()))
			if !d.isConst() {
				// leaves through phis
				okAll := true
				for _, lf := range phiLeaves(e) {
					dd := fi.lin(lf.V).sub(linAtom(ph.Name()))
					if !dd.isConst() || (up && dd.c < 1) || (!up && dd.c > -1) {
						okAll = false
					}
				}
				if !okAll {
					return false
				}
				continue
			}
			if (up && d.c < 1) || (!up && d.c > -1) {
				return false
			}
		}
		return true
	}
	switch bo.Op {
	case token.LSS, token.LEQ:
		return try(bo.X, bo.Y, true) || try(bo.Y, bo.X, false)
	case token.GTR, token.GEQ:
		return try(bo.X, bo.Y, false) || try(bo.Y, bo.X, true)
	case token.NEQ:
		return false
	}
	return false
}

func (c *Ctx) loopInvariantLoad(fi *FuncInfo, l *Loop, v ssa.Value) bool {
	return c.loopInvariant(fi, l, v)
}

func (c *Ctx) checkDoubling(fi *FuncInfo, d dblLoop, key string, pos token.Pos) {
	// header: if n > off; back edge: n' = n - off, off' = off << 1, taken only if n' > off
	if d.N == nil {
		c.fail(key, pos, "T-DOUBLING: no remaining-count variable compared with the offset in the loop header")
		return
	}
	l := d.Loop
	iff := l.Header.Instrs[len(l.Header.Instrs)-1].(*ssa.If)
	bo := iff.Cond.(*ssa.BinOp)
	condOK := (bo.Op == token.GTR && bo.X == d.N && bo.Y == d.Off) || (bo.Op == token.LSS && bo.X == d.Off && bo.Y == d.N)
	stepOK := true
	for i, p := range l.Header.Preds {
		if !l.Blocks[p] {
			continue
		}
		nn := fi.lin(d.N.Edges[i])
		oo := fi.lin(d.Off.Edges[i])
		if !nn.eq(linAtom(d.N.Name()).sub(linAtom(d.Off.Name()))) {
			stepOK = false
		}
		if !oo.eq(linAtom(d.Off.Name()).scale(2)) && !oo.eq(linAtom(d.Off.Name())) {
			stepOK = false
		}
	}
	switch {
	case !condOK:
		c.fail(key, pos, "T-DOUBLING: loop condition is not n > off (a copy loop that runs on n == off or n ≥ off never ends for off = 0 or copies one chunk too many)")
	case !stepOK:
		c.fail(key, pos, "T-DOUBLING: the back edge does not carry n − off and off·2")
	default:
		c.ok(key, pos, "T-DOUBLING: for n > off { append off bytes; n -= off; off <<= 1 } — n strictly decreases because off ≥ 1 (R-OFFGUARD)")
	}
}

// checkRetry matches T-RETRY (a) (b) (c).
func (c *Ctx) checkRetry(fi *FuncInfo, rl retryLoop, key string, pos token.Pos) {
	fn := rl.Fn
	if rl.Inner == nil || rl.Drain == nil {
		c.fail(key, pos, "retry loop without inner call or drain")
		return
	}
	callee := rl.Inner.Call.StaticCallee()
	// (c) strict progress on every back edge
	if c.backEdgesHaveProgress(fi, rl) {
		c.ok(key, pos, "T-RETRY(c): every back edge is taken only after a strictly positive count produced in the iteration (bytes accepted, items consumed, bytes drained)")
		return
	}
	// templates (a) and (b) argue that one complete drain frees enough room; a writer that merely returns may
	// accept nothing without an error, so the back edge behind the drain must also require that it wrote something
	if ok, _ := c.drainComplete(); !ok && !c.drainProgress(fi, rl) {
		c.fail(key, pos, "T-RETRY: the loop retries after draining to the writer although the drain may have written nothing without reporting an error (WriteTo passes a short count with a nil error on, and the loop does not test the count): a writer that returns (0, nil) keeps the buffer full and Decoder.%s spins", fn.Name())
		return
	}
	// templates (a) and (b) also read the loop itself: it goes round again either after a successful step that
	// leaves something to do, or after a refusal and a drain that reported no error — nothing else
	if why := c.retryEdges(fi, rl); why != "" {
		c.fail(key, pos, "T-RETRY: %s", why)
		return
	}
	switch callee.Name() {
	case "WriteByte":
		// (a) constant-size request and WindowSize < BufferSize by Verify
		if c.verifyImplies("DecoderConfig", "WindowSize", "BufferSize", -1) {
			c.ok(key, pos, "T-RETRY(a): one byte per request and DecoderConfig.Verify establishes WindowSize < BufferSize, so one drain always frees a byte")
			return
		}
		c.fail(key, pos, "T-RETRY(a): DecoderConfig.Verify does not establish WindowSize < BufferSize")
		return
	case "Write":
		// (b) request clamped by BufferSize − WindowSize
		arg := rl.Inner.Call.Args[1]
		la := fi.lenOf(arg)
		okClamp := false
		for _, bs := range fi.atomsWithSuffix(".BufferSize") {
			for _, ws := range fi.atomsWithSuffix(".WindowSize") {
				if fi.proveAt(la.sub(linAtom(bs)).add(linAtom(ws)), rl.Inner.Block(), nil) {
					okClamp = true
				}
			}
		}
		if okClamp {
			c.ok(key, pos, "T-RETRY(b): the all-or-nothing request is clamped to BufferSize − WindowSize, which one complete drain always frees; the remainder shrinks by the accepted count")
			return
		}
		c.fail(key, pos, "T-RETRY: Decoder.%s retries an all-or-nothing inner Write of unbounded size len = %s: neither clamped by BufferSize − WindowSize nor guarded by a progress test — when the slice exceeds the attainable free space the loop never ends", fn.Name(), la)
		return
	}
	c.fail(key, pos, "T-RETRY: the retry loop around DecoderBuffer.%s has no back-edge progress test and no size clamp: an item larger than the attainable free space makes it spin", callee.Name())
}

// retryEdges: every back edge of the retry loop is of one of two kinds. A success edge (the inner call's error
// is nil on it) is taken only with a non-empty remainder (a slice length tested ≠ 0 on the edge): the all-or-
// nothing step has then consumed a non-empty piece and the remainder is shorter. A refusal edge lies behind the
// drain call and is taken only when the drain's error is nil. Returns "" or what is wrong.
func (c *Ctx) retryEdges(fi *FuncInfo, rl retryLoop) string {
	l := rl.Loop
	nres := rl.Inner.Call.StaticCallee().Signature.Results().Len()
	innerErr := map[ssa.Value]bool{}
	if nres == 1 {
		innerErr[rl.Inner] = true
		for _, f := range rl.Firsts {
			innerErr[f] = true
		}
		for changed := true; changed; {
			changed = false
			for _, ph := range fi.phis {
				if innerErr[ph] || len(ph.Edges) == 0 {
					continue
				}
				all := true
				for _, e := range ph.Edges {
					if !innerErr[e] && e != ssa.Value(ph) {
						all = false
					}
				}
				if all {
					innerErr[ph] = true
					changed = true
				}
			}
		}
	} else {
		innerErr = rl.lastCounts(fi, nres-1)
	}
	var drainErr ssa.Value
	if rl.Drain.Call.Signature().Results().Len() == 1 {
		drainErr = rl.Drain
	} else if ex := extractOf(rl.Drain, rl.Drain.Call.Signature().Results().Len()-1); ex != nil {
		drainErr = ex
	}
	// the ways round the loop: per back edge, the conditions of the edge, the loop-top test as it reads for the
	// value the edge gives to a flag merged in the header, and — where ways merge in front of the back edge, or a
	// merged boolean stands in a condition — one way per incoming edge
	type way struct {
		conds  []Cond
		from   *ssa.BasicBlock
		passed map[*ssa.BasicBlock]bool // the blocks this way is known to run through on its way to the back edge
	}
	var ways []way
	var split func(b *ssa.BasicBlock, conds []Cond, depth int, latch *ssa.BasicBlock, passed map[*ssa.BasicBlock]bool)
	split = func(b *ssa.BasicBlock, conds []Cond, depth int, latch *ssa.BasicBlock, passed map[*ssa.BasicBlock]bool) {
		passed = copyBlockSet(passed)
		passed[b] = true
		// the nearest merge at or above b (inside the loop, behind the inner call)
		for b != nil && len(b.Preds) == 1 && l.Blocks[b] && b != l.Header && b != rl.Inner.Block() {
			b = b.Preds[0]
			passed[b] = true
		}
		if b == nil {
			return
		}
		if depth < 4 && len(b.Preds) > 1 && l.Blocks[b] && b != l.Header && b != rl.Inner.Block() {
			for _, p := range b.Preds {
				if !l.Blocks[p] {
					continue
				}
				cs := append(append([]Cond{}, conds...), fi.edgeConds(p, b)...)
				// a merged boolean of b that stands in a condition gets the value of this edge
				var cs2 []Cond
				feasible := true
				for _, cd := range cs {
					u := unNot(cd)
					if ph, isPhi := u.V.(*ssa.Phi); isPhi && ph.Block() == b && isBool(ph.Type()) {
						for pi, pp := range b.Preds {
							if pp != p {
								continue
							}
							e := ph.Edges[pi]
							if k, isK := e.(*ssa.Const); isK {
								if (k.Value != nil && k.Value.String() == "true") != u.True {
									feasible = false
								}
							} else {
								cs2 = append(cs2, Cond{e, u.True})
							}
						}
						continue
					}
					cs2 = append(cs2, cd)
				}
				if feasible && !fi.proveLE0(linConst(1), cs2, []Fact{{linConst(0), LE}}, map[string]bool{}, 0) {
					split(p, cs2, depth+1, latch, passed)
				}
			}
			return
		}
		ways = append(ways, way{conds, latch, passed})
	}
	for _, la := range l.Latches {
		conds := append([]Cond{}, fi.edgeConds(la, l.Header)...)
		if iff, ok := l.Header.Instrs[len(l.Header.Instrs)-1].(*ssa.If); ok {
			stay := len(l.Header.Succs) == 2 && l.Blocks[l.Header.Succs[0]] && !l.Blocks[l.Header.Succs[1]]
			leave := len(l.Header.Succs) == 2 && !l.Blocks[l.Header.Succs[0]] && l.Blocks[l.Header.Succs[1]]
			if stay || leave {
				u := unNot(Cond{iff.Cond, stay})
				if ph, isPhi := u.V.(*ssa.Phi); isPhi && ph.Block() == l.Header {
					for pi, pp := range l.Header.Preds {
						if pp == la {
							e := ph.Edges[pi]
							if k, isK := e.(*ssa.Const); !isK {
								conds = append(conds, Cond{e, u.True})
							} else if (k.Value != nil && k.Value.String() == "true") != u.True {
								conds = nil // this edge leaves the loop at once
							}
						}
					}
				}
			}
		}
		if conds == nil {
			continue
		}
		split(la, conds, 0, la, nil)
	}
	for _, w := range ways {
		conds := w.conds
		la := w.from
		success := false
		for _, cd := range conds {
			for e := range innerErr {
				if isNilCmp(cd, e) == -1 {
					success = true
				}
			}
		}
		end := la.Instrs[len(la.Instrs)-1]
		if success {
			nonEmpty := false
			for _, cd := range conds {
				u := unNot(cd)
				bo, ok := u.V.(*ssa.BinOp)
				if !ok {
					continue
				}
				isLen := func(v ssa.Value) bool {
					call, ok := v.(*ssa.Call)
					if !ok {
						return false
					}
					bi, ok := call.Call.Value.(*ssa.Builtin)
					return ok && bi.Name() == "len" && isByteSlice(call.Call.Args[0].Type())
				}
				x, y := bo.X, bo.Y
				op := bo.Op
				if isLen(y) && isConstZero(x) {
					x, y = y, x
					switch op {
					case token.LSS:
						op = token.GTR
					case token.GTR:
						op = token.LSS
					case token.LEQ:
						op = token.GEQ
					case token.GEQ:
						op = token.LEQ
					}
				}
				if !isLen(x) || !isConstZero(y) {
					continue
				}
				// len(x) op 0 holds (u.True) or fails
				switch {
				case op == token.NEQ && u.True, op == token.EQL && !u.True, op == token.GTR && u.True, op == token.LEQ && !u.True:
					nonEmpty = true
				}
			}
			// a cursor into the parameter instead of a re-sliced remainder: cursor ≠ len(p)
			for _, f := range fi.factsOf(conds) {
				if f.Op != NE && !(f.Op == LE && f.L.c >= 1) {
					continue
				}
				for _, prm := range rl.Fn.Params {
					if !isByteSlice(prm.Type()) {
						continue
					}
					if co := f.L.t["len("+prm.Name()+")"]; (co == 1 || co == -1) && len(f.L.t) >= 2 {
						nonEmpty = true
					}
				}
			}
			if !nonEmpty {
				return fmt.Sprintf("the loop goes round again after a successful step (back edge from block %d at %s) without a test that something is left to do: with nothing left every further round succeeds trivially and the call never returns", la.Index, c.pos(end.Pos()))
			}
			continue
		}
		behindDrain := false
		for pb := range w.passed {
			if rl.Drain.Block() == pb || rl.Drain.Block().Dominates(pb) {
				behindDrain = true
			}
		}
		if drainErr == nil || !(behindDrain || rl.Drain.Block() == la || rl.Drain.Block().Dominates(la)) {
			return fmt.Sprintf("the loop goes round again after a refusal (back edge from block %d at %s) without passing the drain: the buffer stays as full as it was and the call never returns", la.Index, c.pos(end.Pos()))
		}
		drained := false
		for _, cd := range conds {
			if isNilCmp(cd, drainErr) == -1 {
				drained = true
			}
		}
		if !drained {
			return fmt.Sprintf("the loop goes round again (back edge from block %d at %s) although the drain may have failed: the writer's error must end the call", la.Index, c.pos(end.Pos()))
		}
	}
	return ""
}

func copyBlockSet(m map[*ssa.BasicBlock]bool) map[*ssa.BasicBlock]bool {
	out := map[*ssa.BasicBlock]bool{}
	for k, v := range m {
		out[k] = v
	}
	return out
}

// drainComplete: DecoderBuffer.WriteTo returns a nil error only when the writer took everything that was pending:
// on every way a value reaches the returned error, that value is a non-nil error, or the way carries the writer's
// error ≠ nil, or it carries count ≥ len(slice handed to the writer).
func (c *Ctx) drainComplete() (bool, string) {
	if c.drainOK != nil {
		return *c.drainOK, c.drainWhy
	}
	set := func(ok bool, why string) (bool, string) {
		c.drainOK, c.drainWhy = &ok, why
		return ok, why
	}
	fn := c.method(c.decBuf(), "WriteTo")
	if fn == nil {
		return set(false, "DecoderBuffer.WriteTo not found")
	}
	fi := c.info(fn)
	// the writer call: an invoke of Write on the io.Writer parameter
	var wcall *ssa.Call
	for _, b := range fn.Blocks {
		for _, in := range b.Instrs {
			if call, ok := in.(*ssa.Call); ok && call.Call.IsInvoke() && call.Call.Method.Name() == "Write" {
				if wcall != nil {
					return set(false, "more than one writer call in WriteTo")
				}
				wcall = call
			}
		}
	}
	if wcall == nil || len(wcall.Call.Args) != 1 {
		return set(false, "no single w.Write(p) call in WriteTo")
	}
	var cnt, werr ssa.Value
	for _, r := range *wcall.Referrers() {
		if ex, ok := r.(*ssa.Extract); ok {
			if ex.Index == 0 {
				cnt = ex
			} else {
				werr = ex
			}
		}
	}
	if cnt == nil || werr == nil {
		return set(false, "the writer's count or error is discarded in WriteTo")
	}
	want := fi.lenOf(wcall.Call.Args[0]).sub(fi.lin(cnt)) // len(p) − k ≤ 0
	for _, b := range fn.Blocks {
		r, ok := b.Instrs[len(b.Instrs)-1].(*ssa.Return)
		if !ok || len(r.Results) == 0 {
			continue
		}
		last := r.Results[len(r.Results)-1]
		for _, lf := range mergeLeaves(last) {
			if nl, ok := fi.nilLin(lf.V); ok && nl.isConst() && nl.c == 0 {
				continue // a non-nil error value
			}
			if ld, ok := lf.V.(*ssa.UnOp); ok && ld.Op == token.MUL {
				if g, ok := ld.X.(*ssa.Global); ok && isErrorType(g.Type().(*types.Pointer).Elem()) && g.Pkg != nil && g.Pkg.Pkg.Path() == "io" {
					continue // io.ErrShortWrite and the like: package-level errors of the standard library
				}
			}
			conds := append([]Cond{}, fi.condsAt(b)...)
			if lf.Pred != nil {
				conds = append(conds, fi.edgeConds(lf.Pred, lf.Phi.Block())...)
			}
			if lf.V != werr {
				if k, isC := lf.V.(*ssa.Const); isC && k.Value == nil {
					// explicit nil: only under a complete write
					if fi.proveLE0(want, conds, nil, map[string]bool{}, 0) {
						continue
					}
				}
				return set(false, "WriteTo returns an error value that is neither the writer's nor a fixed non-nil error")
			}
			nonNil := false
			for _, cd := range conds {
				if isNilCmp(cd, werr) == +1 {
					nonNil = true
				}
			}
			if nonNil || fi.proveLE0(want, conds, nil, map[string]bool{}, 0) {
				continue
			}
			return set(false, "WriteTo can return the writer's nil error although the writer accepted fewer bytes than it was handed")
		}
	}
	return set(true, "")
}

func ruleDrainComplete(c *Ctx) {
	ok, why := c.drainComplete()
	fn := c.method(c.decBuf(), "WriteTo")
	pos := token.NoPos
	if fn != nil {
		pos = fn.Pos()
	}
	c.check(ok, "lz.(*DecoderBuffer).WriteTo:complete-or-error", pos, "a nil error means the writer took every pending byte (a short count with a nil error becomes an error)",
		why+": Flush reports success although the writer has not received the full expansion, and the retry loops of Decoder.Write/WriteByte, which rely on a successful drain having emptied the buffer, spin on a writer that accepts nothing")
}

// drainProgress: every back edge that is taken after the drain call of the iteration carries count ≥ 1 for the
// number of bytes the drain wrote.
func (c *Ctx) drainProgress(fi *FuncInfo, rl retryLoop) bool {
	l := rl.Loop
	counts := map[string]bool{}
	for b := range l.Blocks {
		for _, in := range b.Instrs {
			if ex, ok := in.(*ssa.Extract); ok && isIntType(ex.Type()) {
				if call, ok := ex.Tuple.(*ssa.Call); ok && call == rl.Drain {
					counts[ex.Name()] = true
				}
			}
		}
	}
	if len(counts) == 0 {
		return false
	}
	positive := func(conds []Cond) bool {
		check := func(cs []Cond) bool {
			for _, f := range fi.factsOf(cs) {
				for a, co := range f.L.t {
					if !counts[a] || len(f.L.t) != 1 {
						continue
					}
					if f.Op == NE && f.L.c == 0 {
						return true
					}
					if f.Op == LE && co == -1 && f.L.c >= 1 {
						return true
					}
				}
			}
			return false
		}
		if alts := fi.expandConds(conds); alts != nil {
			for _, alt := range alts {
				if !check(alt) {
					return false
				}
			}
			return len(alts) > 0
		}
		return check(conds)
	}
	db := rl.Drain.Block()
	for _, la := range l.Latches {
		if !(la == db || db.Dominates(la)) {
			continue // this back edge is not behind the drain
		}
		if !positive(fi.edgeConds(la, l.Header)) {
			return false
		}
	}
	return true
}

// backEdgesHaveProgress: for each latch→header edge, on every way into the
// latch a fact X ≥ 1 / X ≠ 0 holds for a non-negative count X produced by a
// call inside the loop.
func (c *Ctx) backEdgesHaveProgress(fi *FuncInfo, rl retryLoop) bool {
	l := rl.Loop
	counts := map[string]bool{}
	for b := range l.Blocks {
		for _, in := range b.Instrs {
			if ex, ok := in.(*ssa.Extract); ok && isIntType(ex.Type()) {
				if call, ok := ex.Tuple.(*ssa.Call); ok && (call == rl.Inner || call == rl.Drain) {
					counts[ex.Name()] = true
				}
			}
		}
	}
	// the counts of the most recent inner call may be carried in header φs (first attempt before the loop)
	if rl.Inner != nil {
		n := rl.Inner.Call.StaticCallee().Signature.Results().Len()
		for idx := 0; idx < n-1; idx++ {
			for v := range rl.lastCounts(fi, idx) {
				if isIntType(v.Type()) {
					counts[v.Name()] = true
				}
			}
		}
	}
	if len(counts) == 0 {
		return false
	}
	var hasProgress func(conds []Cond) bool
	hasProgress = func(conds []Cond) bool {
		// ¬(kk == 0 && ll == 0 && w == 0) as a materialised boolean (switch case): every alternative
		if alts := fi.expandConds(conds); alts != nil {
			for _, alt := range alts {
				if !hasProgress(alt) {
					return false
				}
			}
			return len(alts) > 0
		}
		for _, f := range fi.factsOf(conds) {
			for a, co := range f.L.t {
				base := a
				if !counts[base] || len(f.L.t) != 1 {
					continue
				}
				if f.Op == NE && f.L.c == 0 {
					return true
				}
				if f.Op == LE && co == -1 && f.L.c >= 1 {
					return true
				}
			}
		}
		return false
	}
	for _, la := range l.Latches {
		conds := fi.edgeConds(la, l.Header)
		if hasProgress(conds) {
			continue
		}
		// split at the nearest merge at or above the latch (inside the loop)
		okAll := false
		for m := la; m != nil && l.Blocks[m] && m != l.Header; m = m.Idom() {
			if len(m.Preds) < 2 {
				continue
			}
			all := true
			for _, p := range m.Preds {
				if !hasProgress(append(fi.edgeConds(p, m), conds...)) {
					all = false
				}
			}
			okAll = all
			break
		}
		if !okAll {
			return false
		}
	}
	return true
}

// verifyImplies: every success return of (*T).Verify is dominated by facts
// implying  a − b ≤ k  for fields a, b of the receiver.
func (c *Ctx) verifyImplies(typ, a, b string, k int64) bool {
	T := c.namedType(c.lz, typ)
	if T == nil {
		return false
	}
	fn := c.method(T, "Verify")
	if fn == nil {
		return false
	}
	fi := c.info(fn)
	any := false
	for _, blk := range fn.Blocks {
		r, ok := blk.Instrs[len(blk.Instrs)-1].(*ssa.Return)
		if !ok || c.isFailureReturn(fi, r) {
			continue
		}
		any = true
		ok2 := false
		for _, aa := range fi.atomsWithSuffix("." + a) {
			for _, bb := range fi.atomsWithSuffix("." + b) {
				if fi.proveAt(linAtom(aa).sub(linAtom(bb)).addc(-k), blk, nil) {
					ok2 = true
				}
			}
		}
		if !ok2 {
			return false
		}
	}
	return any
}

// ---------------------------------------------------------------- R-CAPERR / R-WINAGREE

// errClass classifies the error exits of a DecoderBuffer writer by the
// operands of the deciding guards.
func (c *Ctx) classifyErrors(fn *ssa.Function) map[string]string {
	fi := c.info(fn)
	out := map[string]string{}
	for b, g := range c.errExitBlocks(fi) {
		// the deciding guard(s) = the nearest two conditions on each way into the exit block; a block
		// entered from several branches (a || b) is validity-class only if every way in is
		class := "validity"
		for _, conds := range fi.waysInto(b) {
			if len(conds) > 2 {
				conds = conds[:2]
			}
			val := false
			for _, cd := range conds {
				cd = unNot(cd)
				bo, ok := cd.V.(*ssa.BinOp)
				if !ok {
					continue
				}
				for _, v := range []ssa.Value{bo.X, bo.Y} {
					if mentionsValidity(v, 0) {
						val = true
					}
				}
			}
			if !val {
				class = "capacity"
			}
		}
		if prev, ok := out[g]; ok && prev != class {
			// an error used for both: treat as capacity (the stricter requirement)
			class = "capacity"
		}
		out[g] = class
	}
	return out
}

// errorSubjects: for every error label returned by fn, what the deciding guards measure: "sequence" (LitLen /
// MatchLen of a sequence), "literals" (the length of a literal run), "match" (an integer parameter). It names the
// origin of an error in obligation keys, so that the same error raised for a new reason is a new finding.
func (c *Ctx) errorSubjects(fn *ssa.Function) map[string][]string {
	fi := c.info(fn)
	sets := map[string]map[string]bool{}
	var walk func(v ssa.Value, depth int, into map[string]bool)
	walk = func(v ssa.Value, depth int, into map[string]bool) {
		if depth > 8 {
			return
		}
		switch x := v.(type) {
		case *ssa.Convert:
			walk(x.X, depth+1, into)
		case *ssa.ChangeType:
			walk(x.X, depth+1, into)
		case *ssa.BinOp:
			walk(x.X, depth+1, into)
			walk(x.Y, depth+1, into)
		case *ssa.Phi:
			for _, e := range x.Edges {
				if e != ssa.Value(x) {
					walk(e, depth+1, into)
				}
			}
		case *ssa.Parameter:
			if isIntType(x.Type()) {
				into["match"] = true
			}
		case *ssa.Field:
			if f := x.X.Type().Underlying().(*types.Struct).Field(x.Field); f.Name() == "LitLen" || f.Name() == "MatchLen" {
				into["sequence"] = true
			}
		case *ssa.UnOp:
			if x.Op == token.MUL {
				if _, p, ok := pathStr(x.X); ok {
					switch lastField(p) {
					case "LitLen", "MatchLen":
						into["sequence"] = true
					}
				}
			}
		case *ssa.Call:
			// an accessor that adds up fields of its value receiver (Seq.Len)
			if callee := x.Call.StaticCallee(); callee != nil && !x.Call.IsInvoke() {
				if t, _, ok := c.fieldSum(callee); ok {
					for f := range t {
						if f == "LitLen" || f == "MatchLen" {
							into["sequence"] = true
						}
					}
				}
			}
			if bi, ok := x.Call.Value.(*ssa.Builtin); ok && bi.Name() == "len" {
				if _, p, ok := pathStr(x.Call.Args[0]); ok && lastField(p) == "Literals" {
					into["literals"] = true
				} else if isByteSlice(x.Call.Args[0].Type()) {
					if _, isPar := x.Call.Args[0].(*ssa.Parameter); isPar {
						into["bytes"] = true
					}
				}
			}
		}
	}
	for b, g := range c.errExitBlocks(fi) {
		if sets[g] == nil {
			sets[g] = map[string]bool{}
		}
		for _, conds := range fi.waysInto(b) {
			if len(conds) > 2 {
				conds = conds[:2]
			}
			for _, cd := range conds {
				cd = unNot(cd)
				if bo, ok := cd.V.(*ssa.BinOp); ok {
					walk(bo.X, 0, sets[g])
					walk(bo.Y, 0, sets[g])
				}
			}
		}
	}
	out := map[string][]string{}
	for g, set := range sets {
		var l []string
		for k := range set {
			l = append(l, k)
		}
		sort.Strings(l)
		out[g] = l
	}
	return out
}

// mentionsValidity: the value is computed from a sequence's Offset or from
// len(Literals) alone (not from LitLen+MatchLen vs sizes).
func mentionsValidity(v ssa.Value, depth int) bool {
	if depth > 6 {
		return false
	}
	switch x := v.(type) {
	case *ssa.Convert:
		return mentionsValidity(x.X, depth+1)
	case *ssa.ChangeType:
		return mentionsValidity(x.X, depth+1)
	case *ssa.UnOp:
		if x.Op == token.MUL {
			if _, p, ok := pathStr(x.X); ok && lastField(p) == "Offset" {
				return true
			}
		}
	case *ssa.Parameter:
		// WriteMatch(m, o): the offset parameter (the last one)
		return isOffsetParam(x)
	case *ssa.Call:
		if bi, ok := x.Call.Value.(*ssa.Builtin); ok && bi.Name() == "len" {
			if _, p, ok := pathStr(x.Call.Args[0]); ok && lastField(p) == "Literals" {
				return true
			}
		}
	case *ssa.BinOp:
		// len(Literals) − cursor and the like: still about the sequence alone, as long as no size of the
		// buffer (BufferSize, WindowSize, len(Data)) takes part
		if x.Op == token.ADD || x.Op == token.SUB {
			if mentionsCapacity(x.X, 0) || mentionsCapacity(x.Y, 0) {
				return false
			}
			return mentionsValidity(x.X, depth+1) || mentionsValidity(x.Y, depth+1)
		}
	}
	return false
}

// mentionsCapacity: the value depends on BufferSize, WindowSize or len(Data).
func mentionsCapacity(v ssa.Value, depth int) bool {
	if depth > 6 {
		return false
	}
	switch x := v.(type) {
	case *ssa.Convert:
		return mentionsCapacity(x.X, depth+1)
	case *ssa.ChangeType:
		return mentionsCapacity(x.X, depth+1)
	case *ssa.BinOp:
		return mentionsCapacity(x.X, depth+1) || mentionsCapacity(x.Y, depth+1)
	case *ssa.Phi:
		for _, e := range x.Edges {
			if e != ssa.Value(x) && mentionsCapacity(e, depth+1) {
				return true
			}
		}
	case *ssa.UnOp:
		if x.Op == token.MUL {
			if _, p, ok := pathStr(x.X); ok {
				switch lastField(p) {
				case "BufferSize", "WindowSize":
					return true
				}
			}
		}
	case *ssa.Call:
		if bi, ok := x.Call.Value.(*ssa.Builtin); ok && (bi.Name() == "len" || bi.Name() == "cap") {
			if _, p, ok := pathStr(x.Call.Args[0]); ok && lastField(p) == "Data" {
				return true
			}
		}
	}
	return false
}

func ruleCapErr(c *Ctx) {
	db := c.decBuf()
	classes := map[string]string{}
	for _, name := range []string{"WriteBlock", "WriteMatch", "Write", "WriteByte"} {
		fn := c.method(db, name)
		if fn == nil {
			continue
		}
		for g, cl := range c.classifyErrors(fn) {
			if prev, ok := classes[g]; ok && prev != cl {
				cl = "capacity"
			}
			classes[g] = cl
		}
	}
	var gs []string
	for g := range classes {
		gs = append(gs, g)
	}
	sort.Strings(gs)
	for _, g := range gs {
		c.add("info", "class:"+g, token.NoPos, "%s is %s-class", g, classes[g])
	}
	if len(gs) < 3 {
		c.fail("classes", token.NoPos, "fewer than three decoder error values found (%v)", gs)
	}
	// Decoder methods: which inner errors can escape. Every way a value can enter the returned error
	// (through merges; a loop-carried error variable is followed one step into the loop) is examined
	// with the conditions of that way.
	for _, fn := range c.methodsOf(c.decoder()) {
		fi := c.info(fn)
		for _, b := range fn.Blocks {
			r, ok := b.Instrs[len(b.Instrs)-1].(*ssa.Return)
			if !ok || len(r.Results) == 0 {
				continue
			}
			last := r.Results[len(r.Results)-1]
			if !isErrorType(last.Type()) {
				continue
			}
			for _, lf := range mergeLeaves(last) {
				conds := fi.condsAt(b)
				if lf.Pred != nil {
					conds = append(append([]Cond{}, conds...), fi.edgeConds(lf.Pred, lf.Phi.Block())...)
				}
				// the values behind a loop-carried error variable
				srcs := []ssa.Value{lf.V}
				if ph, isPhi := lf.V.(*ssa.Phi); isPhi {
					srcs = nil
					for _, e := range ph.Edges {
						if e != ssa.Value(ph) {
							srcs = append(srcs, e)
						}
					}
				}
				for _, src := range srcs {
					// direct return of a capacity-class global
					if g := errGlobalName(src); g != "" && classes[g] == "capacity" {
						c.fail(fmt.Sprintf("%s:%s-escapes", fnName(fn), g), r.Pos(), "capacity-class error %s is returned to the caller of Decoder.%s: valid input is refused because of its size", g, fn.Name())
						continue
					}
					// error flowing from an inner DecoderBuffer call
					var call *ssa.Call
					if ex, ok := src.(*ssa.Extract); ok {
						call, _ = ex.Tuple.(*ssa.Call)
					} else if cl, ok := src.(*ssa.Call); ok {
						call = cl
					}
					if call == nil {
						continue
					}
					callee := call.Call.StaticCallee()
					if callee == nil || !c.isMethodOf(callee, db) || callee.Name() == "WriteTo" {
						continue
					}
					inner := c.classifyErrors(callee)
					var igs []string
					for g := range inner {
						igs = append(igs, g)
					}
					sort.Strings(igs)
					for _, g := range igs {
						if classes[g] != "capacity" {
							continue
						}
						key := fmt.Sprintf("%s:%s-escapes", fnName(fn), g)
						if subj := c.errorSubjects(callee)[g]; len(subj) > 0 {
							key += "(" + strings.Join(subj, ",") + ")"
						}
						// excluded by err != G on this way (the test may be on the merged variable)
						excluded := false
						for _, cd := range conds {
							cd = unNot(cd)
							bo, ok := cd.V.(*ssa.BinOp)
							if !ok || (bo.Op != token.EQL && bo.Op != token.NEQ) {
								continue
							}
							for _, who := range []ssa.Value{src, lf.V} {
								if (bo.X == who && errGlobalName(bo.Y) == g) || (bo.Y == who && errGlobalName(bo.X) == g) {
									if (bo.Op == token.NEQ) == cd.True {
										excluded = true
									}
								}
							}
						}
						if excluded {
							c.ok(key, r.Pos(), "%s from DecoderBuffer.%s is excluded on this return", g, callee.Name())
						} else {
							c.fail(key, r.Pos(), "capacity-class error %s of DecoderBuffer.%s escapes Decoder.%s: valid parser output (a sequence or literal run larger than the free space / the window) is refused", g, callee.Name(), fn.Name())
						}
					}
				}
			}
		}
	}
}

func ruleWinAgree(c *Ctx) {
	db := c.decBuf()
	for _, name := range []string{"WriteBlock", "WriteMatch"} {
		fn := c.method(db, name)
		if fn == nil {
			c.fail("lz.(*DecoderBuffer)."+name, token.NoPos, "method not found")
			continue
		}
		fi := c.info(fn)
		key := fnName(fn) + ":window-relation"
		n := 0
		for b, g := range c.errExitBlocks(fi) {
			if c.classifyErrors(fn)[g] != "validity" {
				continue
			}
			// a rejection that compares the offset with a window-derived bound; an exit entered from several
			// branches (a || b) is examined per way in
			for _, conds := range fi.waysInto(b) {
				if len(conds) == 0 {
					continue
				}
				cd := unNot(conds[0])
				bo, ok := cd.V.(*ssa.BinOp)
				if !ok || (bo.Op == token.EQL || bo.Op == token.NEQ) {
					continue
				}
				if !mentionsValidity(bo.X, 0) && !mentionsValidity(bo.Y, 0) {
					continue
				}
				var off, bound ssa.Value
				if isOffsetValue(bo.X) {
					off, bound = bo.X, bo.Y
				} else if isOffsetValue(bo.Y) {
					off, bound = bo.Y, bo.X
				} else {
					continue
				}
				n++
				// on the error edge: Offset ≥ bound + 1
				strict := fi.proveLE0(fi.lin(bound).sub(fi.lin(off)).addc(1), conds, nil, map[string]bool{}, 0)
				if !strict && os.Getenv("LZDBG2") != "" {
					fmt.Fprintf(os.Stderr, "DBG winagree %s: goal %s ≤ 0 facts %s\n", fnName(fn), fi.lin(bound).sub(fi.lin(off)).addc(1), factStrings(fi.factsOf(conds)))
				}
				// bound ≥ min(len(Data)[+LitLen], WindowSize): each defining edge carries WindowSize or a len(Data)-based value
				exact := true
				for _, lf := range phiLeaves(stripConv(bound)) {
					l := fi.lin(lf.V)
					_, isW := atomEndsWith(l, ".WindowSize")
					hasLen := false
					for a, co := range l.t {
						if strings.HasPrefix(a, "len(") && strings.Contains(a, ".Data") && co == 1 {
							hasLen = true
						}
					}
					if !isW && !(hasLen && l.c >= 0) {
						exact = false
					}
				}
				c.check(strict && exact, key, b.Instrs[0].Pos(),
					"offset rejected only if Offset > min(len(Data)[+LitLen], WindowSize)",
					fmt.Sprintf("the decoder rejects offsets that the parsers may emit: rejection is not exactly Offset > min(len(Data)[+LitLen], WindowSize) (strict=%v, bound exact=%v)", strict, exact))
			}
		}
		if n == 0 {
			c.fail(key, fn.Pos(), "no window rejection found")
		}
	}
}

func isOffsetValue(v ssa.Value) bool {
	v = stripConv(v)
	switch x := v.(type) {
	case *ssa.UnOp:
		if x.Op == token.MUL {
			if _, p, ok := pathStr(x.X); ok && lastField(p) == "Offset" {
				return true
			}
		}
	case *ssa.Parameter:
		return isOffsetParam(x)
	}
	return false
}

// isOffsetParam: the last parameter of DecoderBuffer.WriteMatch(m, o int).
func isOffsetParam(x *ssa.Parameter) bool {
	fn := x.Parent()
	return fn != nil && fn.Name() == "WriteMatch" && len(fn.Params) == 3 && fn.Params[2] == x
}

// ---------------------------------------------------------------- R-STALELEN

func ruleStaleLen(c *Ctx) {
	db := c.decBuf()
	for _, fn := range c.methodsOf(db) {
		fi := c.info(fn)
		// calls that may compact
		var ccalls []*ssa.Call
		for _, b := range fn.Blocks {
			for _, in := range b.Instrs {
				if call, ok := in.(*ssa.Call); ok {
					if callee := call.Call.StaticCallee(); callee != nil {
						for g := range c.reachable(callee) {
							if c.isCompactor(g) {
								ccalls = append(ccalls, call)
								break
							}
						}
					}
				}
			}
		}
		if len(ccalls) == 0 {
			continue
		}
		// values combining len(Data) after with a capture before
		n := 0
		for _, b := range fn.Blocks {
			for _, in := range b.Instrs {
				bo, ok := in.(*ssa.BinOp)
				if !ok || bo.Op != token.SUB || !isIntType(bo.Type()) {
					continue
				}
				lx := fi.lin(bo.X)
				var after string
				for a, co := range lx.t {
					if strings.HasPrefix(a, "len(") && strings.Contains(a, ".Data") && co == 1 && len(lx.t) == 1 {
						after = a
					}
				}
				if after == "" {
					continue
				}
				// subtrahend: a captured earlier length (possibly corrected)
				leaves := phiLeaves(stripConv(bo.Y))
				isCapture := false
				for _, lf := range leaves {
					for a := range fi.lin(lf.V).t {
						if strings.HasPrefix(a, "len(") && strings.Contains(a, ".Data") && a != after {
							isCapture = true
						}
					}
				}
				if !isCapture {
					continue
				}
				n++
				key := fmt.Sprintf("%s:len-difference#%d", fnName(fn), n)
				// every compaction call that can lie between capture and use must be subtracted from the capture
				allOK := true
				for _, call := range ccalls {
					if !fi.instrReaches(call, bo) {
						continue
					}
					corrected := false
					for _, lf := range leaves {
						l := fi.lin(lf.V)
						if co, ok := l.t[call.Name()]; ok && co == -1 {
							corrected = true
						}
					}
					// the correction may be folded through a chain of phis/subtractions
					if !corrected {
						corrected = c.subtractsResult(bo.Y, call, map[ssa.Value]bool{})
					}
					// … and must lie on EVERY path from the call to the use
					if corrected {
						// only subtractions that correct this captured length count (those in the definition
						// web of the subtrahend), not other uses of the result such as `g -= delta`
						subs := c.webSubtractions(fi, bo.Y, call)
						if c.reachesAvoiding(fi, call, bo, subs) {
							corrected = false
						}
					}
					if !corrected {
						allOK = false
						c.fail(key, bo.Pos(), "len(Data) read after the call at %s, which may discard bytes from the front of Data, is combined with a length captured before it without subtracting the discarded count: the difference undercounts the appended bytes (n, Off go wrong, even negative)", c.pos(call.Pos()))
					}
				}
				if allOK {
					c.ok(key, bo.Pos(), "captured length is corrected by the result of every compaction call that can precede the use")
				}
			}
		}
		if n == 0 {
			c.ok(fnName(fn)+":len-difference", fn.Pos(), "no difference of Data lengths across a compaction call")
		}
	}
}

// subtractsResult: somewhere in the def web of v, the call result is subtracted.
func (c *Ctx) subtractsResult(v ssa.Value, call *ssa.Call, seen map[ssa.Value]bool) bool {
	if seen[v] {
		return false
	}
	seen[v] = true
	if bo, ok := v.(*ssa.BinOp); ok && bo.Op == token.SUB {
		if in, ok := v.(ssa.Instruction); ok && in.Parent() != nil {
			if c.resultCarriers(c.info(in.Parent()), call)[stripConv(bo.Y)] {
				return true
			}
		}
	}
	switch x := v.(type) {
	case *ssa.Phi:
		for _, e := range x.Edges {
			if c.subtractsResult(e, call, seen) {
				return true
			}
		}
	case *ssa.BinOp:
		if x.Op == token.SUB && (x.Y == call || stripConv(x.Y) == call) {
			return true
		}
		if x.Op == token.SUB || x.Op == token.ADD {
			return c.subtractsResult(x.X, call, seen) || (x.Op == token.ADD && c.subtractsResult(x.Y, call, seen))
		}
	case *ssa.Convert:
		return c.subtractsResult(x.X, call, seen)
	}
	return false
}

// ---------------------------------------------------------------- R-OFFPAIR

func ruleOffPair(c *Ctx) {
	db := c.decBuf()
	allowed := map[string]bool{"WriteByte": true, "Write": true, "WriteMatch": true, "WriteBlock": true, "Init": true, "Reset": true}
	// who stores Off
	for _, fn := range c.allFuncs {
		if fn.Pkg != c.lz {
			continue
		}
		for _, b := range fn.Blocks {
			for _, in := range b.Instrs {
				st, ok := in.(*ssa.Store)
				if !ok {
					continue
				}
				if f := fieldOfAddr(st.Addr); f != nil && isFieldOf(db, f) && f.Name() == "Off" {
					if !(c.isMethodOf(fn, db) && allowed[fn.Name()]) {
						c.fail(fnName(fn)+":Off-store", st.Pos(), "DecoderBuffer.Off is stored outside the four writers and Init/Reset")
					}
				}
			}
		}
	}
	for _, name := range []string{"WriteByte", "Write", "WriteMatch", "WriteBlock"} {
		fn := c.method(db, name)
		if fn == nil {
			c.fail("lz.(*DecoderBuffer)."+name, token.NoPos, "method not found")
			continue
		}
		fi := c.info(fn)
		key := fnName(fn) + ":Off"
		var off0 string
		for _, a := range fi.atomsWithSuffix(".Off") {
			if !strings.Contains(a, "@") {
				off0 = a
			}
		}
		var stores []*ssa.Store
		for _, b := range fn.Blocks {
			for _, in := range b.Instrs {
				if st, ok := in.(*ssa.Store); ok {
					if p, okp := recvPath(fn, st.Addr); okp && p == "Off" {
						stores = append(stores, st)
					}
				}
			}
		}
		if name == "WriteBlock" && len(stores) > 1 && off0 != "" {
			// the epilogue repeated on several exits: each store adds the count that the returns it
			// dominates report; a return not behind any store reports 0; no path passes two stores
			okAll := true
			why := ""
			for _, b := range fn.Blocks {
				r, ok := b.Instrs[len(b.Instrs)-1].(*ssa.Return)
				if !ok {
					continue
				}
				var doms []*ssa.Store
				for _, st := range stores {
					if st.Block() == b || st.Block().Dominates(b) {
						doms = append(doms, st)
					}
				}
				switch len(doms) {
				case 0:
					if !isConstZero(r.Results[0]) {
						okAll = false
						why = "a return that does not advance Off reports a non-zero count"
					}
				case 1:
					if !fi.lin(r.Results[0]).eq(fi.lin(doms[0].Val).sub(linAtom(off0))) {
						okAll = false
						why = "a return reports a count different from what was added to Off"
					}
				default:
					okAll = false
					why = "Off is advanced twice on one path"
				}
			}
			for i, a := range stores {
				for j, bst := range stores {
					if i != j && fi.instrReaches(a, bst) {
						okAll = false
						why = "Off is advanced twice on one path"
					}
				}
			}
			c.check(okAll, key, stores[0].Pos(), fmt.Sprintf("Off advanced by exactly the returned count on every exit (%d epilogues)", len(stores)),
				"Off is not advanced by exactly the appended byte count that is returned ("+why+")")
			continue
		}
		if len(stores) != 1 || off0 == "" {
			c.fail(key, fn.Pos(), "expected exactly one store to Off, found %d", len(stores))
			continue
		}
		st := stores[0]
		delta := fi.lin(st.Val).sub(linAtom(off0))
		// the success return(s) reachable from the store return delta as the byte count
		okRet := true
		hasCount := fn.Signature.Results().Len() > 1
		for _, b := range fn.Blocks {
			r, ok := b.Instrs[len(b.Instrs)-1].(*ssa.Return)
			if !ok || !hasCount {
				continue
			}
			if !(st.Block() == b || st.Block().Dominates(b)) {
				// returns not passing the store must report 0 bytes
				if !isConstZero(r.Results[0]) {
					okRet = false
				}
				continue
			}
			if !fi.lin(r.Results[0]).eq(delta) {
				okRet = false
			}
		}
		// appended bytes: total growth of Data between entry and the store, if no compaction intervenes and no loop
		detail := ""
		okGrow := true
		switch name {
		case "WriteByte", "Write":
			// the append in the same block as the Off store
			var ap *ssa.Call
			for _, in := range st.Block().Instrs {
				if a := isBuiltinCall(in, "append"); a != nil {
					ap = a
				}
			}
			if ap == nil {
				okGrow = false
				detail = "no append next to the Off store"
			} else {
				grow := fi.lenOf(ap).sub(fi.lenOf(ap.Call.Args[0]))
				okGrow = grow.eq(delta)
				detail = fmt.Sprintf("appended %s, Off += %s", grow, delta)
			}
		case "WriteMatch":
			// Off += m where m is the match length parameter; the copy loop writes n0 = m bytes (T-DOUBLING)
			okGrow = false
			for _, d := range c.doublingLoops(fn) {
				if d.N0 != nil && fi.lin(d.N0).eq(delta) {
					okGrow = true
				}
			}
			detail = fmt.Sprintf("Off += %s = initial remaining count of the copy loop", delta)
		case "WriteBlock":
			// Off += n with n the returned byte count (R-STALELEN decides that n is right)
			detail = fmt.Sprintf("Off += %s (the returned n)", delta)
		}
		c.check(okRet && okGrow, key, st.Pos(), "Off advanced by exactly the bytes appended and that count is returned ("+detail+")",
			fmt.Sprintf("Off is not advanced by exactly the appended byte count that is returned (returned ok=%v, appended ok=%v; %s)", okRet, okGrow, detail))
	}
}

// ---------------------------------------------------------------- R-COUNTS-AT-END

func ruleCountsAtEnd(c *Ctx) {
	db := c.decBuf()
	fn := c.method(db, "WriteBlock")
	if fn == nil {
		c.fail("lz.(*DecoderBuffer).WriteBlock", token.NoPos, "method not found")
		return
	}
	fi := c.info(fn)
	name := fnName(fn)
	var rets []*ssa.Return
	for _, b := range fn.Blocks {
		if r, ok := b.Instrs[len(b.Instrs)-1].(*ssa.Return); ok && len(r.Results) == 4 {
			rets = append(rets, r)
		}
	}
	if len(rets) == 0 {
		c.fail(name+":merge", fn.Pos(), "no return (n, k, l, err) found")
		return
	}
	// the loop over the sequences: header condition idx < len(…Sequences)
	var seqLoop *Loop
	var idx ssa.Value
	for _, l := range fi.loops {
		iff, ok := l.Header.Instrs[len(l.Header.Instrs)-1].(*ssa.If)
		if !ok {
			continue
		}
		bo, ok := iff.Cond.(*ssa.BinOp)
		if !ok || bo.Op != token.LSS {
			continue
		}
		for a := range fi.lin(bo.Y).t {
			if strings.HasPrefix(a, "len(") && strings.Contains(a, "Sequences") && len(fi.lin(bo.Y).t) == 1 {
				seqLoop, idx = l, bo.X
			}
		}
	}
	isSeqLen := func(l Lin) bool {
		for a := range l.t {
			if strings.HasPrefix(a, "len(") && strings.Contains(a, "Sequences") && len(l.t) == 1 && l.c == 0 && l.t[a] == 1 {
				return true
			}
		}
		return false
	}
	okK, okL := seqLoop != nil, true
	detailL := ""
	for _, ret := range rets {
		if seqLoop == nil {
			break
		}
		// k: on every feasible way into the returned value — decided inside the sequence loop: the
		// current index; otherwise len(Sequences). The ways are the paths through the merge φs of k
		// (sibling φs, nil-ness of err included, take the same edges; contradictory paths are dropped).
		hdr := seqLoop.Header
		body := hdr.Succs[0]
		bound := fi.lin(hdr.Instrs[len(hdr.Instrs)-1].(*ssa.If).Cond.(*ssa.BinOp).Y)
		for _, cs := range fi.expandCases(fi.lin(ret.Results[1]), nil, ret.Block()) {
			if fi.proveLE0(linConst(1), cs.Conds, cs.Eqs, map[string]bool{}, 1) {
				continue // infeasible combination of edges
			}
			at := ret.Block()
			if n := len(cs.Preds); n > 0 {
				at = cs.Preds[n-1]
			}
			inBody := at == body || body.Dominates(at)
			v := cs.L
			eq := func(x, y Lin, conds []Cond) bool {
				return x.eq(y) || (fi.proveLE0(x.sub(y), conds, cs.Eqs, map[string]bool{}, 0) && fi.proveLE0(y.sub(x), conds, cs.Eqs, map[string]bool{}, 0))
			}
			switch {
			case inBody:
				if !eq(v, fi.lin(idx), cs.Conds) {
					okK = false
				}
			case isSeqLen(v):
			case v.eq(fi.lin(idx)):
				// the index variable itself is returned (`for k = 0; k < len; k++` with breaks): on the
				// regular exit it must equal len(Sequences) — exit condition plus counting invariant
				if !eq(v, bound, append(append([]Cond{}, cs.Conds...), fi.edgeConds(hdr, hdr.Succs[1])...)) {
					okK = false
				}
			default:
				if !eq(v, bound, cs.Conds) {
					okK = false
				}
			}
		}
		// l = len(Literals at entry) − len(Literals at exit)
		ll := fi.lin(ret.Results[2])
		var entryLit, exitLit string
		for a, co := range ll.t {
			if strings.HasPrefix(a, "len(") && strings.Contains(a, "Literals") {
				if co == 1 && !strings.Contains(a, "@") {
					entryLit = a
				}
				if co == -1 {
					exitLit = a
				}
			}
		}
		if !(entryLit != "" && exitLit != "" && len(ll.t) == 2 && ll.c == 0) {
			okL = false
			detailL = ll.String()
		}
	}
	ret := rets[len(rets)-1]
	c.check(okK, name+":k", ret.Pos(), "k = index of the failing sequence on exits from the sequence loop, len(Sequences) after the loop",
		"k is not the index of the failing sequence / len(Sequences) on every exit (or no loop over the sequences was found)")
	if !okL {
		// the other representation: blk.Literals is never re-sliced and l is a cursor into it
		if okC, nAdv := c.literalCursor(fi, rets, seqLoop); okC {
			okL = true
			for i := 0; i < nAdv; i++ {
				c.ok(fmt.Sprintf("%s:cursor-advance#%d", name, i+1), ret.Pos(), "literal bytes are appended from the cursor and the cursor advances by exactly their count")
			}
		}
	}
	c.check(okL, name+":l", ret.Pos(), "l = literal bytes consumed: len(Literals at entry) − len(Literals remaining), or a cursor that advances by exactly what is appended", "l is not the difference between the literal bytes offered and the literal bytes remaining ("+detailL+")")
	// the remaining-literals header advances by exactly what is appended
	n := 0
	for _, b := range fn.Blocks {
		for _, in := range b.Instrs {
			st, ok := in.(*ssa.Store)
			if !ok {
				continue
			}
			_, p, okp := pathStr(st.Addr)
			if !okp || p != "Literals" {
				continue
			}
			sl, ok := st.Val.(*ssa.Slice)
			if !ok {
				continue
			}
			n++
			key := fmt.Sprintf("%s:literals-advance#%d", name, n)
			// appended in the same block: Literals[:x] with x == the new low bound, or all of Literals with [:0]
			okAdv := false
			for _, ap := range blkAppends(b, "Data") {
				src, isSl := ap.Call.Args[1].(*ssa.Slice)
				switch {
				case sl.Low != nil && sl.High == nil && isSl && src.Low == nil && src.High != nil && fi.lin(src.High).eq(fi.lin(sl.Low)):
					okAdv = true
				case sl.Low == nil && sl.High != nil && isConstZero(sl.High) && !isSl:
					// appended the whole remaining literals
					if _, sp, ok := pathStr(ap.Call.Args[1]); ok && sp == "Literals" {
						okAdv = true
					}
				}
			}
			c.check(okAdv, key, st.Pos(), "remaining literals advance by exactly the bytes appended in the same block",
				"the remaining-literals header does not advance by exactly the literal bytes appended to Data in the same block")
		}
	}
}

// literalCursor decides the cursor representation of the literal accounting: every append of literal
// bytes to Data takes blk.Literals[c : c+x] (or blk.Literals[c:]) with c the cursor of that moment; the
// cursor starts at 0, advances by exactly x on every way round the sequence loop, and every returned l is
// the cursor (error exits) or len(Literals) after the rest blk.Literals[c:] was appended.
func (c *Ctx) literalCursor(fi *FuncInfo, rets []*ssa.Return, seqLoop *Loop) (bool, int) {
	fn := fi.fn
	if seqLoop == nil {
		return false, 0
	}
	type litApp struct {
		call *ssa.Call
		sl   *ssa.Slice
	}
	var apps []litApp
	for _, b := range fn.Blocks {
		for _, in := range b.Instrs {
			call := isBuiltinCall(in, "append")
			if call == nil || len(call.Call.Args) != 2 {
				continue
			}
			if p, ok := recvPath(fn, call.Call.Args[0]); !ok || p != "Data" {
				continue
			}
			sl, ok := call.Call.Args[1].(*ssa.Slice)
			if !ok {
				continue
			}
			if _, p, ok := pathStr(sl.X); !ok || p != "Literals" {
				continue
			}
			apps = append(apps, litApp{call, sl})
		}
	}
	if len(apps) == 0 {
		return false, 0
	}
	// the cursor: the loop-carried value the in-loop append starts at
	var P *ssa.Phi
	for _, a := range apps {
		if seqLoop.Blocks[a.call.Block()] && a.sl.Low != nil {
			if ph, ok := stripConv(a.sl.Low).(*ssa.Phi); ok && ph.Block() == seqLoop.Header {
				P = ph
			}
		}
	}
	if P == nil {
		return false, 0
	}
	lp := fi.lin(P)
	nAdv := 0
	for i, e := range P.Edges {
		pred := P.Block().Preds[i]
		if !seqLoop.Blocks[pred] {
			if !isConstZero(e) {
				return false, 0
			}
			continue
		}
		for _, lf := range mergeLeaves(e) {
			l := fi.lin(lf.V)
			if l.eq(lp) {
				continue // an iteration that consumed nothing (cannot happen after an append; harmless)
			}
			good := false
			for _, a := range apps {
				if seqLoop.Blocks[a.call.Block()] && a.sl.Low != nil && a.sl.High != nil && fi.lin(a.sl.Low).eq(lp) &&
					l.eq(lp.add(fi.lin(a.sl.High)).sub(fi.lin(a.sl.Low))) {
					good = true
				}
			}
			if !good {
				return false, 0
			}
			nAdv++
		}
	}
	// every literal append starts at the cursor
	for _, a := range apps {
		lo := linConst(0)
		if a.sl.Low != nil {
			lo = fi.lin(a.sl.Low)
		}
		if !lo.eq(lp) {
			return false, 0
		}
	}
	// the returned l
	for _, r := range rets {
		for _, lf := range mergeLeaves(r.Results[2]) {
			l := fi.lin(lf.V)
			if l.eq(lp) {
				continue
			}
			isLen := false
			for a, co := range l.t {
				if strings.HasPrefix(a, "len(") && strings.Contains(a, "Literals") && co == 1 && len(l.t) == 1 && l.c == 0 {
					isLen = true
				}
			}
			rest := false
			for _, a := range apps {
				if a.sl.High == nil && !seqLoop.Blocks[a.call.Block()] {
					at := r.Block()
					if lf.Pred != nil {
						at = lf.Pred
					}
					if a.call.Block() == at || a.call.Block().Dominates(at) {
						rest = true
					}
				}
			}
			if !(isLen && rest) {
				return false, 0
			}
		}
	}
	return nAdv > 0, nAdv
}

// ---------------------------------------------------------------- R-SUM

func ruleSum(c *Ctx) {
	for _, rl := range c.retryLoops() {
		fn := rl.Fn
		if rl.Inner == nil {
			continue
		}
		callee := rl.Inner.Call.StaticCallee()
		if callee.Name() == "WriteByte" {
			continue
		}
		fi := c.info(fn)
		nres := fn.Signature.Results().Len() - 1
		key := fnName(fn) + ":accumulate"
		good := true
		why := ""
		nret := 0
		calls := append([]*ssa.Call{rl.Inner}, rl.Firsts...)
		for j := 0; j < nres; j++ {
			exOf := map[ssa.Value]*ssa.Call{}
			for _, cl := range calls {
				if ex := extractOf(cl, j); ex != nil {
					exOf[ex] = cl
				} else {
					good = false
					why = "inner count not used"
				}
			}
			// sums: 0, a count of a first attempt, sum + count (added in the block of its call: before any
			// test of the call's error), header φs merging sums
			sums := map[ssa.Value]bool{}
			isSum := func(v ssa.Value) bool {
				v = stripConv(v)
				return sums[v] || isConstZero(v)
			}
			// greatest fixpoint (the accumulator is a loop-carried φ: sum ↔ φ is a cycle): start from all
			// candidates, drop what violates its form until nothing changes
			for ex, cl := range exOf {
				if cl != rl.Inner {
					sums[ex] = true // the first attempt's count taken as the initial sum
				}
			}
			for _, b := range fn.Blocks {
				for _, in := range b.Instrs {
					switch x := in.(type) {
					case *ssa.BinOp:
						if x.Op == token.ADD && isIntType(x.Type()) {
							sums[x] = true
						}
					case *ssa.Phi:
						if isIntType(x.Type()) {
							sums[x] = true
						}
					}
				}
			}
			for changed := true; changed; {
				changed = false
				for v := range sums {
					keep := true
					switch x := v.(type) {
					case *ssa.BinOp:
						keep = false
						for _, pr := range [][2]ssa.Value{{x.X, x.Y}, {x.Y, x.X}} {
							if cl, isEx := exOf[stripConv(pr[1])]; isEx && isSum(pr[0]) && x.Block() == cl.Block() {
								keep = true
							}
						}
					case *ssa.Phi:
						for _, e := range x.Edges {
							if !isSum(e) && e != ssa.Value(x) {
								keep = false
							}
						}
					}
					if !keep {
						delete(sums, v)
						changed = true
					}
				}
			}
			for _, b := range fn.Blocks {
				r, ok := b.Instrs[len(b.Instrs)-1].(*ssa.Return)
				if !ok {
					continue
				}
				// only returns that can follow an inner call
				after := false
				for _, cl := range calls {
					if fi.instrReaches(cl, r) {
						after = true
					}
				}
				if !after {
					continue
				}
				if j == 0 {
					nret++
				}
				for _, lf := range mergeLeaves(r.Results[j]) {
					v := stripConv(lf.V)
					if !isSum(v) {
						good = false
						why = fmt.Sprintf("return value #%d = %s is not the sum of the inner counts so far", j, fi.lin(r.Results[j]))
						continue
					}
					// a return in the iteration of an inner call must already include that call's count
					if rl.Inner.Block().Dominates(b) && rl.Loop.Blocks[rl.Inner.Block()] {
						ex := extractOf(rl.Inner, j)
						if bo, isAdd := v.(*ssa.BinOp); !isAdd || (stripConv(bo.X) != ssa.Value(ex) && stripConv(bo.Y) != ssa.Value(ex)) {
							if ph, isPhi := v.(*ssa.Phi); !isPhi || ph.Block() == rl.Loop.Header {
								good = false
								why = fmt.Sprintf("return value #%d = %s does not include the inner count of this iteration", j, fi.lin(r.Results[j]))
							}
						}
					}
				}
			}
		}
		if nret == 0 {
			good = false
			why = "no return after the inner call"
		}
		c.check(good, key, rl.Inner.Pos(), "every return reports the sum of the inner counts so far (each added once, before the error of its call is tested)", "counts are not accumulated once per iteration before the error test: "+why)
	}
}

// ---------------------------------------------------------------- R-SINGLE-SINK / R-ERR-SURFACE

func ruleSingleSink(c *Ctx) {
	n := 0
	for _, fn := range c.allFuncs {
		if fn.Pkg != c.lz {
			continue
		}
		for _, b := range fn.Blocks {
			for _, in := range b.Instrs {
				call, ok := in.(ssa.CallInstruction)
				if !ok {
					continue
				}
				com := call.Common()
				if !com.IsInvoke() || com.Method.Name() != "Write" {
					continue
				}
				// receiver interface has Write([]byte) (int, error)
				n++
				if !(c.isMethodOf(fn, c.decBuf()) && fn.Name() == "WriteTo") {
					c.fail(fnName(fn)+":writer-call", in.Pos(), "io.Writer.Write is called outside DecoderBuffer.WriteTo: output could be delivered twice or out of order")
				}
			}
		}
	}
	c.check(n == 1, "writer-calls", token.NoPos, "exactly one io.Writer.Write call site (DecoderBuffer.WriteTo)", fmt.Sprintf("%d io.Writer.Write call sites in package lz, expected exactly 1", n))
}

func ruleErrSurface(c *Ctx) {
	db := c.decBuf()
	for _, fn := range c.methodsOf(c.decoder()) {
		fi := c.info(fn)
		n := 0
		for _, b := range fn.Blocks {
			for _, in := range b.Instrs {
				call, ok := in.(*ssa.Call)
				if !ok {
					continue
				}
				callee := call.Call.StaticCallee()
				if callee == nil || callee.Name() != "WriteTo" || !c.isMethodOf(callee, db) {
					continue
				}
				n++
				key := fmt.Sprintf("%s:drain#%d", fnName(fn), n)
				errv := extractOf(call, 1)
				if errv == nil {
					c.fail(key, call.Pos(), "the error of WriteTo is discarded")
					continue
				}
				// some return hands errv to the caller: directly, or on a way into the returned (merged) error
				// variable that is taken unconditionally or under errv != nil
				ok2 := false
				for _, bb := range fn.Blocks {
					r, isR := bb.Instrs[len(bb.Instrs)-1].(*ssa.Return)
					if !isR {
						continue
					}
					for _, lf := range mergeLeaves(r.Results[len(r.Results)-1]) {
						if lf.V != errv {
							continue
						}
						conds := fi.condsAt(bb)
						at := bb
						if lf.Pred != nil {
							conds = append(append([]Cond{}, conds...), fi.edgeConds(lf.Pred, lf.Phi.Block())...)
							at = lf.Pred
						}
						if at == b {
							ok2 = true // returned unconditionally
						}
						for _, cd := range conds {
							if isNilCmp(cd, errv) == +1 {
								ok2 = true
							}
						}
					}
				}
				// and no way to continue the loop with a non-nil error: the block after the test on the nil side
				c.check(ok2, key, call.Pos(), "a non-nil writer error is returned", "the writer's error from WriteTo is not returned to the caller when it is non-nil")
				// nothing else may happen while the error can still be non-nil: every return reached
				// from the drain returns that error unless err == nil is known there, and the loop is
				// continued only under err == nil
				nilKnown := func(bb *ssa.BasicBlock) bool {
					for _, cd := range fi.condsAt(bb) {
						if isNilCmp(cd, errv) == -1 {
							return true
						}
					}
					return false
				}
				var stop *ssa.BasicBlock
				lp := fi.loopOf(b)
				if lp != nil {
					stop = lp.Header
				}
				reach := map[*ssa.BasicBlock]bool{}
				if stop != nil {
					reach = fi.reachAvoid(b, stop)
				} else {
					for bb := range fi.reach[b] {
						reach[bb] = true
					}
				}
				bad := ""
				for bb := range reach {
					if bb == b {
						continue
					}
					if r, isR := bb.Instrs[len(bb.Instrs)-1].(*ssa.Return); isR {
						for _, lf := range mergeLeaves(r.Results[len(r.Results)-1]) {
							if lf.V == errv {
								continue
							}
							if lf.Pred == nil {
								if !nilKnown(bb) {
									bad = fmt.Sprintf("the return at %s can be reached while the writer's error is still non-nil and returns a different error value", c.pos(r.Pos()))
								}
								continue
							}
							// a way into the merged error variable: relevant only when it can be taken after the drain
							if !reach[lf.Pred] && lf.Pred != b {
								continue
							}
							known := nilKnown(bb) || nilKnown(lf.Pred)
							for _, cd := range fi.edgeConds(lf.Pred, lf.Phi.Block()) {
								if isNilCmp(cd, errv) == -1 {
									known = true
								}
							}
							if !known {
								bad = fmt.Sprintf("the return at %s can be reached while the writer's error is still non-nil and returns a different error value", c.pos(r.Pos()))
							}
						}
					}
					if lp != nil {
						for _, sc := range bb.Succs {
							if sc == lp.Header && !nilKnown(bb) {
								bad = "the loop can be continued while the writer's error is non-nil"
							}
						}
					}
				}
				c.check(bad == "", key+":first", call.Pos(), "after a drain nothing is returned or retried before the writer's error was tested", bad+": the writer's error is masked or acted upon too late")
			}
		}
	}
}

func key0(fn *ssa.Function, n int) string { return fmt.Sprintf("%s:Data-store#%d", fnName(fn), n) }

// subtractionsOf: the instructions x − result(call) in fn.
func (c *Ctx) subtractionsOf(fn *ssa.Function, call *ssa.Call) []ssa.Instruction {
	var out []ssa.Instruction
	carriers := c.resultCarriers(c.info(fn), call)
	for _, b := range fn.Blocks {
		for _, in := range b.Instrs {
			if bo, ok := in.(*ssa.BinOp); ok && bo.Op == token.SUB && carriers[stripConv(bo.Y)] {
				out = append(out, bo)
			}
		}
	}
	return out
}

// webSubtractions: the subtractions x − carrier(call) found in the definition web of v (through merges,
// additions, subtractions and conversions).
func (c *Ctx) webSubtractions(fi *FuncInfo, v ssa.Value, call *ssa.Call) []ssa.Instruction {
	carriers := c.resultCarriers(fi, call)
	var out []ssa.Instruction
	seen := map[ssa.Value]bool{}
	var walk func(x ssa.Value)
	walk = func(x ssa.Value) {
		if x == nil || seen[x] {
			return
		}
		seen[x] = true
		switch y := x.(type) {
		case *ssa.Phi:
			for _, e := range y.Edges {
				walk(e)
			}
		case *ssa.BinOp:
			switch y.Op {
			case token.SUB:
				if carriers[stripConv(y.Y)] {
					out = append(out, y)
				}
				walk(y.X)
			case token.ADD:
				walk(y.X)
				walk(y.Y)
			}
		case *ssa.Convert:
			walk(y.X)
		case *ssa.ChangeType:
			walk(y.X)
		}
	}
	walk(v)
	return out
}

// resultCarriers: the values that hold the result of call whenever the call was executed: the call
// itself, conversions of carriers, and merge φs each of whose edges either brings a carrier or comes
// from a block the call cannot reach (δ = φ(0 on the no-compaction path, shrink(…) otherwise)).
func (c *Ctx) resultCarriers(fi *FuncInfo, call *ssa.Call) map[ssa.Value]bool {
	S := map[ssa.Value]bool{call: true}
	for changed := true; changed; {
		changed = false
		for _, b := range fi.fn.Blocks {
			for _, in := range b.Instrs {
				v, ok := in.(ssa.Value)
				if !ok || S[v] {
					continue
				}
				switch x := in.(type) {
				case *ssa.Convert:
					if S[x.X] {
						S[v], changed = true, true
					}
				case *ssa.ChangeType:
					if S[x.X] {
						S[v], changed = true, true
					}
				case *ssa.Extract:
					if S[x.Tuple] && x.Index == 0 {
						S[v], changed = true, true
					}
				case *ssa.Phi:
					// not a loop header
					hdr := false
					for _, p := range b.Preds {
						if b.Dominates(p) {
							hdr = true
						}
					}
					if hdr {
						continue
					}
					all, some := true, false
					for i, e := range x.Edges {
						if S[e] || S[stripConv(e)] {
							some = true
							continue
						}
						p := b.Preds[i]
						// (reached without passing the φ's own block again: a later visit re-assigns the φ)
						if p == call.Block() || c.reachesAvoiding(fi, call, p.Instrs[len(p.Instrs)-1], []ssa.Instruction{b.Instrs[0]}) {
							all = false
						}
					}
					if all && some {
						S[v], changed = true, true
					}
				}
			}
		}
	}
	return S
}

// reachesAvoiding: is there a feasible path from instruction a to instruction b that
// executes none of the instructions in avoid? Feasibility is decided for one kind of correlation only:
// a branch on φ == nil / φ != nil (or on a boolean φ) follows the edge by which the path entered the
// φ's block when that edge brought a value of known nil-ness (resp. a constant): `err = E; break` …
// `if err != nil { goto end }` cannot continue into the next iteration.
func isBoolType(t types.Type) bool {
	b, ok := t.Underlying().(*types.Basic)
	return ok && b.Kind() == types.Bool
}

func (c *Ctx) reachesAvoiding(fi *FuncInfo, a, b ssa.Instruction, avoid []ssa.Instruction) bool {
	blocked := func(blk *ssa.BasicBlock, from, to int) bool { // any avoid instr in blk with from < idx < to
		for _, x := range avoid {
			if x.Block() == blk {
				i := fi.instrIx[x]
				if i > from && i < to {
					return true
				}
			}
		}
		return false
	}
	ab, bb := a.Block(), b.Block()
	if ab == bb && fi.instrIx[a] < fi.instrIx[b] {
		if !blocked(ab, fi.instrIx[a], fi.instrIx[b]) {
			return true
		}
	}
	if blocked(ab, fi.instrIx[a], 1<<30) {
		return false
	}
	// the φ blocks whose φs are branched on
	tracked := map[*ssa.BasicBlock]bool{}
	condPhi := func(blk *ssa.BasicBlock) (*ssa.Phi, bool, bool) { // φ, branch-taken-when-nil / when-true, ok
		iff, ok := blk.Instrs[len(blk.Instrs)-1].(*ssa.If)
		if !ok {
			return nil, false, false
		}
		cd := unNot(Cond{iff.Cond, true})
		if ph, isPhi := cd.V.(*ssa.Phi); isPhi {
			return ph, cd.True, true // succ[0] taken when φ == cd.True
		}
		if bo, isBo := cd.V.(*ssa.BinOp); isBo && (bo.Op == token.EQL || bo.Op == token.NEQ) {
			var ph *ssa.Phi
			if k, isC := bo.Y.(*ssa.Const); isC && k.Value == nil {
				ph, _ = bo.X.(*ssa.Phi)
			} else if k, isC := bo.X.(*ssa.Const); isC && k.Value == nil {
				ph, _ = bo.Y.(*ssa.Phi)
			}
			if ph != nil {
				// succ[0] is taken when (φ is nil) == ((op == EQL) == cd.True)
				return ph, (bo.Op == token.EQL) == cd.True, true
			}
		}
		return nil, false, false
	}
	for _, blk := range fi.fn.Blocks {
		if ph, _, ok := condPhi(blk); ok {
			tracked[ph.Block()] = true
		}
	}
	type state struct {
		b   *ssa.BasicBlock
		sig string
	}
	type item struct {
		b     *ssa.BasicBlock
		taken map[*ssa.BasicBlock]int
	}
	sigOf := func(t map[*ssa.BasicBlock]int) string {
		var ks []int
		for m, k := range t {
			ks = append(ks, m.Index*64+k)
		}
		sort.Ints(ks)
		return fmt.Sprint(ks)
	}
	seen := map[state]bool{}
	var stack []item
	push := func(from, to *ssa.BasicBlock, taken map[*ssa.BasicBlock]int) {
		t2 := taken
		if tracked[to] {
			t2 = map[*ssa.BasicBlock]int{}
			for m, k := range taken {
				t2[m] = k
			}
			for i, p := range to.Preds {
				if p == from {
					t2[to] = i
				}
			}
		}
		st := state{to, sigOf(t2)}
		if seen[st] || len(seen) > 4000 {
			return
		}
		seen[st] = true
		stack = append(stack, item{to, t2})
	}
	succs := func(blk *ssa.BasicBlock, taken map[*ssa.BasicBlock]int) []*ssa.BasicBlock {
		if ph, first, ok := condPhi(blk); ok {
			if k, known := taken[ph.Block()]; known && k < len(ph.Edges) {
				e := ph.Edges[k]
				if kc, isC := e.(*ssa.Const); isC && kc.Value != nil && kc.Value.Kind() == constant.Bool {
					if constant.BoolVal(kc.Value) == first {
						return []*ssa.BasicBlock{blk.Succs[0]}
					}
					return []*ssa.BasicBlock{blk.Succs[1]}
				}
				if l, okN := fi.nilLin(e); okN && l.isConst() && !isBoolType(e.Type()) {
					if (l.c == 1) == first {
						return []*ssa.BasicBlock{blk.Succs[0]}
					}
					return []*ssa.BasicBlock{blk.Succs[1]}
				}
			}
		}
		return blk.Succs
	}
	for _, sc := range succs(ab, nil) {
		push(ab, sc, map[*ssa.BasicBlock]int{})
	}
	for len(stack) > 0 {
		it := stack[len(stack)-1]
		stack = stack[:len(stack)-1]
		x := it.b
		if x == bb {
			if !blocked(x, -1, fi.instrIx[b]) {
				return true
			}
			continue
		}
		if blocked(x, -1, 1<<30) {
			continue
		}
		for _, sc := range succs(x, it.taken) {
			push(x, sc, it.taken)
		}
	}
	return false
}

// ---------------------------------------------------------------- R-DEC-RESET / R-DEC-HEADROOM

func init() {
	reg(&Rule{ID: "R-DEC-RESET", Min: 4,
		Doc: "DecoderBuffer.Reset and Init re-initialise every field of the buffer state that the write/read methods modify (Data emptied, R = 0, Off = 0) on every success path; Decoder.Reset resets its buffer and installs the new writer",
		Run: ruleDecReset})
	reg(&Rule{ID: "R-DEC-HEADROOM", Min: 1,
		Doc: "DecoderConfig.SetDefaults chooses BufferSize ≥ 2·WindowSize when BufferSize is left zero (documented default): after a drain at least WindowSize bytes can be accepted, so every sequence up to the window size fits",
		Run: ruleDecHeadroom})
}

func ruleDecReset(c *Ctx) {
	db := c.decBuf()
	if db == nil {
		c.fail("lz.DecoderBuffer", token.NoPos, "type not found")
		return
	}
	// state = fields of DecoderBuffer (not the config) that any method other than Init/Reset may write
	state := map[string]bool{}
	for _, fn := range c.methodsOf(db) {
		if fn.Name() == "Init" || fn.Name() == "Reset" {
			continue
		}
		for _, k := range c.mayWrite(fn) {
			if !strings.HasPrefix(k, "p0.") || strings.Contains(k, "[*]") {
				continue
			}
			f := strings.TrimPrefix(k, "p0.")
			if strings.Contains(f, ".") || f == "DecoderConfig" {
				continue
			}
			state[f] = true
		}
	}
	var fields []string
	for f := range state {
		fields = append(fields, f)
	}
	sort.Strings(fields)
	if len(fields) < 3 {
		c.fail("lz.DecoderBuffer:state", token.NoPos, "expected the write/read methods to modify at least Data, R and Off; found %v", fields)
	}
	for _, name := range []string{"Reset", "Init"} {
		fn := c.method(db, name)
		if fn == nil {
			c.fail("lz.(*DecoderBuffer)."+name, token.NoPos, "method not found")
			continue
		}
		must := c.mustWrite(fn, nil)
		for _, f := range fields {
			key := fmt.Sprintf("%s:%s", fnName(fn), f)
			if !covered(must, "p0."+f) {
				c.fail(key, fn.Pos(), "state field %s, which the write/read methods modify, is not re-initialised on every success path of %s: a reused decoder buffer keeps its old %s (bytes of the next stream are skipped or emitted twice)", f, name, f)
				continue
			}
			if f == "Data" {
				okE, why := c.emptiedBy(fn, "", "Data")
				c.check(okE, key, fn.Pos(), "Data emptied", "Data is not emptied: "+why)
				continue
			}
			if bad := c.nonZeroStore(fn, "", f); bad != "" {
				c.fail(key, fn.Pos(), "%s stores a non-zero value to %s (%s)", name, f, bad)
			} else {
				c.ok(key, fn.Pos(), "%s = 0 on every success path", f)
			}
		}
	}
	// Decoder.Reset delegates
	if dec := c.decoder(); dec != nil {
		if fn := c.method(dec, "Reset"); fn != nil {
			calls := false
			setsW := false
			target := c.method(db, "Reset")
			for _, b := range fn.Blocks {
				for _, in := range b.Instrs {
					if call, ok := in.(*ssa.Call); ok && call.Call.StaticCallee() == target && target != nil {
						calls = true
					}
					if st, ok := in.(*ssa.Store); ok {
						if f := fieldOfAddr(st.Addr); f != nil && isWriterType(f.Type()) && len(fn.Params) == 2 && st.Val == ssa.Value(fn.Params[1]) {
							setsW = true
						}
					}
				}
			}
			c.check(calls && setsW, fnName(fn)+":delegates", fn.Pos(), "Decoder.Reset resets the buffer and installs the new writer", "Decoder.Reset does not both reset its DecoderBuffer and install the writer argument")
		}
	}
}

func isWriterType(t types.Type) bool {
	n, ok := t.(*types.Named)
	return ok && n.Obj().Pkg() != nil && n.Obj().Pkg().Path() == "io" && n.Obj().Name() == "Writer"
}

func ruleDecHeadroom(c *Ctx) {
	cfgT := c.namedType(c.lz, "DecoderConfig")
	if cfgT == nil {
		c.fail("lz.DecoderConfig", token.NoPos, "type not found")
		return
	}
	fn := c.method(cfgT, "SetDefaults")
	if fn == nil {
		c.fail("lz.(*DecoderConfig).SetDefaults", token.NoPos, "method not found")
		return
	}
	fi := c.info(fn)
	n := 0
	for _, b := range fn.Blocks {
		for _, in := range b.Instrs {
			st, ok := in.(*ssa.Store)
			if !ok {
				continue
			}
			f := fieldOfAddr(st.Addr)
			if f == nil || f.Name() != "BufferSize" {
				continue
			}
			n++
			key := fmt.Sprintf("%s:BufferSize-default#%d", fnName(fn), n)
			v := fi.lin(st.Val)
			// the upper end of the range Verify accepts for BufferSize (a constant compared with the field)
			var maxBS *int64
			if vf := c.method(cfgT, "Verify"); vf != nil {
				for _, vb := range vf.Blocks {
					for _, vin := range vb.Instrs {
						bo, ok := vin.(*ssa.BinOp)
						if !ok {
							continue
						}
						for _, pr := range [][2]ssa.Value{{bo.X, bo.Y}, {bo.Y, bo.X}} {
							if k, isC := constInt(pr[1]); isC && k > 1 {
								if ff := loadedField(stripConv(pr[0])); ff != nil && ff.Name() == "BufferSize" {
									kk := k
									maxBS = &kk
								}
							}
						}
					}
				}
			}
			good, inRange := true, maxBS != nil
			cases := fi.topCases(v, b)
			if len(cases) == 0 {
				good, inRange = false, false
			}
			for _, cs := range cases {
				le := func(l Lin) bool { return fi.proveLE0(l, cs.Conds, cs.Eqs, map[string]bool{}, 0) }
				atMax := maxBS != nil && cs.L.isConst() && cs.L.c == *maxBS
				twice := false
				for _, w := range fi.atomsWithSuffix(".WindowSize") {
					if le(linAtom(w).scale(2).sub(cs.L)) {
						twice = true
					}
				}
				if !twice && !atMax {
					good = false
				}
				if maxBS != nil && !le(cs.L.addc(-*maxBS)) {
					inRange = false
				}
			}
			c.check(good, key, st.Pos(), "default BufferSize ≥ 2·WindowSize (or the largest BufferSize Verify accepts)", "the default BufferSize "+v.String()+" is not shown to be ≥ 2·WindowSize: with the default configuration a valid sequence of up to WindowSize bytes can be refused for good (ErrFullBuffer) once the window is full")
			c.check(inRange, key+":in-range", st.Pos(), "the default BufferSize is within the range Verify accepts", "the default BufferSize "+v.String()+" can exceed the largest BufferSize that Verify accepts: for a WindowSize that parsers accept (2^31 and above) the default Decoder cannot be created at all")
		}
	}
	if n == 0 {
		c.fail(fnName(fn)+":BufferSize-default", fn.Pos(), "SetDefaults does not set BufferSize")
	}
	// the default must be allowed to apply: in DecoderBuffer.Init no field of the caller's
	// configuration is stored before SetDefaults ran on it
	db := c.decBuf()
	if init := c.method(db, "Init"); init != nil {
		ifi := c.info(init)
		var sd *ssa.Call
		for _, b := range init.Blocks {
			for _, in := range b.Instrs {
				if call, ok := in.(*ssa.Call); ok && call.Call.StaticCallee() == fn {
					sd = call
				}
			}
		}
		if sd == nil {
			c.fail(fnName(init)+":defaults-first", init.Pos(), "Init does not call DecoderConfig.SetDefaults")
		} else {
			early := ""
			for _, b := range init.Blocks {
				for _, in := range b.Instrs {
					st, ok := in.(*ssa.Store)
					if !ok {
						continue
					}
					fa, ok := st.Addr.(*ssa.FieldAddr)
					if !ok || fa.X != sd.Call.Args[0] {
						continue
					}
					if !ifi.instrReaches(sd, st) || ifi.instrReaches(st, sd) {
						early = c.pos(st.Pos())
					}
				}
			}
			c.check(early == "", fnName(init)+":defaults-first", sd.Pos(), "no field of the configuration is stored before SetDefaults",
				"Init stores a configuration field (at "+early+") before SetDefaults: a BufferSize left zero no longer gets the default 2·WindowSize (a reused buffer's capacity is taken instead) and valid sequences up to the window size can be refused")
		}
	}
	// BufferSize only grows after initialisation: every store of the field alone is made under old < new
	nSt := 0
	for _, m := range c.methodsOf(db) {
		mfi := c.info(m)
		per := 0
		for _, b := range m.Blocks {
			for _, in := range b.Instrs {
				st, ok := in.(*ssa.Store)
				if !ok {
					continue
				}
				f := fieldOfAddr(st.Addr)
				if f == nil || f.Name() != "BufferSize" {
					continue
				}
				if _, isFA := st.Addr.(*ssa.FieldAddr); !isFA {
					continue
				}
				nSt++
				per++
				key := fmt.Sprintf("%s:BufferSize-store#%d", fnName(m), per)
				nv := mfi.lin(st.Val)
				grows := false
				for _, a := range mfi.atomsWithSuffix(".BufferSize") {
					if mfi.proveAt(linAtom(a).sub(nv), b, nil) {
						grows = true
					}
				}
				c.check(grows, key, st.Pos(), "BufferSize is only raised (old ≤ new at the store)",
					"BufferSize is stored with "+nv.String()+" without old ≤ new being established: the buffer limit can drop below 2·WindowSize in mid-stream and valid sequences are refused")
			}
		}
	}
	if nSt == 0 {
		c.add("info", "lz.DecoderBuffer:BufferSize-store", token.NoPos, "no field store to BufferSize outside whole-value initialisation")
	}
}

// ---------------------------------------------------------------- R-STALECAP

func init() {
	reg(&Rule{ID: "R-STALECAP", Min: 2,
		Doc: "a value computed from DecoderBuffer.BufferSize before a call that may store BufferSize (the compaction function adopts cap(Data)) is not used in a comparison after that call: free-space tests after the call re-read BufferSize",
		Run: ruleStaleCap})
}

func ruleStaleCap(c *Ctx) {
	db := c.decBuf()
	n := 0
	for _, fn := range c.methodsOf(db) {
		fi := c.info(fn)
		per := 0
		for _, b := range fn.Blocks {
			for _, in := range b.Instrs {
				call, ok := in.(*ssa.Call)
				if !ok || call.Call.StaticCallee() == nil {
					continue
				}
				writes := false
				for _, k := range c.mayWrite(call.Call.StaticCallee()) {
					if strings.HasPrefix(k, "p0.") && lastField(k) == "BufferSize" {
						writes = true
					}
				}
				if !writes {
					continue
				}
				n++
				per++
				key := fmt.Sprintf("%s:call#%d", fnName(fn), per)
				bad := ""
				for _, b2 := range fn.Blocks {
					for _, in2 := range b2.Instrs {
						cmp, isB := in2.(*ssa.BinOp)
						if !isB {
							continue
						}
						switch cmp.Op {
						case token.LSS, token.LEQ, token.GTR, token.GEQ, token.EQL, token.NEQ:
						default:
							continue
						}
						if !isIntType(cmp.X.Type()) || !fi.instrReaches(call, cmp) {
							continue
						}
						// the comparison must not be re-reachable only via a re-computation: look at its operands' atoms
						for _, side := range []ssa.Value{cmp.X, cmp.Y} {
							for a := range fi.lin(side).t {
								ld, isLd := fi.atomValue(a).(*ssa.UnOp)
								if !isLd || ld.Op != token.MUL {
									continue
								}
								f := fieldOfAddr(ld.X)
								if f == nil || f.Name() != "BufferSize" {
									continue
								}
								// the atom denotes BufferSize as loaded by ld: stale if that load precedes the call
								// on a path to the comparison and cannot follow it
								if fi.instrReaches(ld, call) && c.reachesAvoiding(fi, call, cmp, []ssa.Instruction{ld}) {
									bad = fmt.Sprintf("the comparison at %s uses BufferSize as read at %s, before the call at %s that may change it", c.pos(cmp.Pos()), c.pos(ld.Pos()), c.pos(call.Pos()))
								}
							}
						}
					}
				}
				c.check(bad == "", key, call.Pos(), "no comparison after this call uses a BufferSize value read before it",
					bad+": when the call adopts a larger capacity as BufferSize the free space is under-estimated and a sequence that fits is refused with ErrFullBuffer")
			}
		}
	}
	if n == 0 {
		c.fail("stalecap", token.NoPos, "no call that may store BufferSize found in the DecoderBuffer methods")
	}
}
