package main

import (
	"fmt"
	"go/token"
	"go/types"
	"os"
	"sort"
	"strings"

	"golang.org/x/tools/go/ssa"
)

// ---------------------------------------------------------------- R-REJECT-EXACT
//
// R-OFFGUARD and R-VALIDATE-FIRST look at the rejections of DecoderBuffer.WriteMatch / WriteBlock from the side of
// what gets through (every copy is dominated by the guards, nothing is appended before a rejection). Two things
// they do not see, and a sweep of one-token changes found both: a guard that rejects *more* than the malformed
// (`MatchLen >= 0` for `> 0` refuses every literal-only sequence; `>= WindowSize` for `>` refuses a match of exactly
// the window length; a free-space test with `>=` turns an exact fit into "MatchLen out of range"), and a rejection
// that forgets to say so (the error assignment deleted: the call stops in front of the malformed sequence and
// returns nil). Decided here:
//
//  :valid-passes   at every origin of a validity error (the guards measure LitLen/MatchLen/Offset against each other,
//                  the literals and the window) the branch conditions contradict "the item is valid":
//                  LitLen ≤ len(Literals) ∧ Offset ≤ WindowSize ∧ Offset ≤ len(Data)[+LitLen] ∧ (Offset ≥ 1 ∨
//                  (Offset = 0 ∧ MatchLen = 0)), for the values current at that point.
//  :only-oversize  at every origin of a capacity error other than ErrFullBuffer (the "MatchLen out of range" of an
//                  item that cannot be placed) the conditions contradict need ≤ WindowSize, and they contradict
//                  need + len(Data) ≤ BufferSize: only an item that is larger than the window AND does not fit now
//                  is given up (that region is the known finding D10; everything outside it is a new violation).
//  :nil-means-done a nil error leaves WriteMatch/WriteBlock only behind the last append to Data outside the loops
//                  (the match copy / the trailing literals): a way that stops earlier carries a non-nil error.

func init() {
	reg(&Rule{ID: "R-REJECT-EXACT", Min: 6,
		Doc: "DecoderBuffer.WriteMatch/WriteBlock reject exactly the malformed: at every origin of a validity error the branch conditions contradict the validity of the item; a non-ErrFullBuffer capacity error is raised only for an item larger than the window that does not fit now; a nil error is returned only behind the final append",
		Run: ruleRejectExact})
	reg(&Rule{ID: "R-DEC-INDEX", Min: 1,
		Doc: "every element access Data[i] in a method of DecoderBuffer is dominated by 0 ≤ i and i < len(Data)",
		Run: ruleDecIndex})
}

// refute: conds ∧ hyps is contradictory; when an integer φ occurs in the facts, once more per incoming edge with
// the φ replaced by the edge's value and the edge's own conditions added (all edges must be refuted).
func (fi *FuncInfo) refute(conds []Cond, hyps []Fact, depth int) bool {
	// what is known about the values the facts mention (results of the byte-compare helpers, min/max, shifts of
	// bit counts): a refutation has no goal whose atoms would pull these in
	{
		av := fi.atomValues()
		seen := map[ssa.Value]bool{}
		var vals []ssa.Value
		for _, f := range append(append([]Fact{}, fi.factsOf(conds)...), hyps...) {
			for a := range f.L.t {
				if v, ok := av[a]; ok && !seen[v] {
					seen[v] = true
					vals = append(vals, v)
				}
			}
		}
		if len(vals) > 0 && len(vals) < 40 {
			hyps = append(append([]Fact{}, hyps...), fi.valueFacts(vals)...)
		}
	}
	if fi.proveLE0(linConst(1), conds, hyps, map[string]bool{}, 0) {
		return true
	}
	if depth >= 2 {
		return false
	}
	facts := append(append([]Fact{}, fi.factsOf(conds)...), hyps...)
	for _, b := range fi.fn.Blocks {
		for _, in := range b.Instrs {
			ph, ok := in.(*ssa.Phi)
			if !ok {
				break
			}
			if !isIntType(ph.Type()) {
				continue
			}
			used := false
			for _, f := range facts {
				if f.L.t[ph.Name()] != 0 {
					used = true
				}
			}
			if !used {
				continue
			}
			all := true
			for ei, e := range ph.Edges {
				p := b.Preds[ei]
				var fs []Fact
				for _, f := range facts {
					l := f.L
					if co := l.t[ph.Name()]; co != 0 {
						l = l.sub(linAtom(ph.Name()).scale(co)).add(fi.lin(e).scale(co))
					}
					fs = append(fs, Fact{l, f.Op})
				}
				cs := append(append([]Cond{}, fi.condsAt(p)...), fi.edgeConds(p, b)...)
				if !fi.refute(cs, fs, depth+1) {
					all = false
					break
				}
			}
			if all {
				return true
			}
		}
	}
	return false
}

// flagWays: the condition lists under which block b is reached, with every condition on a merged boolean
// (a flag computed on several ways: ok := a || b, the result variable of an inlined predicate) replaced, way by
// way, by the conditions under which the flag gets the deciding value.
func (fi *FuncInfo) flagWays(b *ssa.BasicBlock) [][]Cond {
	// the ways into b: at b itself when several edges enter it, otherwise at the nearest merge above b whose
	// conditions b does not inherit (a short-circuit "a || b" in front of a further test) — two levels of merges
	var start [][]Cond
	var up func(x *ssa.BasicBlock, tail []Cond, depth int)
	up = func(x *ssa.BasicBlock, tail []Cond, depth int) {
		// tail: the conditions established between x and b (they hold whichever way x was entered)
		m := x
		for len(m.Preds) == 1 && m.Preds[0] != m {
			m = m.Preds[0]
		}
		if len(m.Preds) < 2 || depth >= 2 || len(start) > 24 {
			start = append(start, append(append([]Cond{}, fi.condsAt(x)...), tail...))
			return
		}
		// what x knows beyond m
		own := condsMinus(fi.condsAt(x), fi.condsAt(m))
		for _, p := range m.Preds {
			if m.Dominates(p) {
				continue // a back edge: the way round a loop is not a way in
			}
			t2 := append(append([]Cond{}, condsMinus(fi.edgeConds(p, m), fi.condsAt(p))...), own...)
			t2 = append(t2, tail...)
			up(p, t2, depth+1)
		}
	}
	up(b, nil, 0)
	var out [][]Cond
	var expand func(cs []Cond, depth int)
	expand = func(cs []Cond, depth int) {
		if depth < 4 && len(out) < 32 {
			for i, cd := range cs {
				u := unNot(cd)
				ph, ok := u.V.(*ssa.Phi)
				if !ok || !isBool(ph.Type()) {
					continue
				}
				rest := append(append([]Cond{}, cs[:i]...), cs[i+1:]...)
				for ei, e := range ph.Edges {
					p := ph.Block().Preds[ei]
					w := append(append([]Cond{}, rest...), fi.edgeConds(p, ph.Block())...)
					if k, isK := e.(*ssa.Const); isK {
						if (k.Value != nil && k.Value.String() == "true") != u.True {
							continue
						}
					} else {
						w = append(w, Cond{e, u.True})
					}
					expand(w, depth+1)
				}
				return
			}
		}
		out = append(out, cs)
	}
	for _, cs := range start {
		expand(cs, 0)
	}
	return out
}

func ruleRejectExact(c *Ctx) {
	db := c.decBuf()
	for _, name := range []string{"WriteBlock", "WriteMatch"} {
		fn := c.method(db, name)
		if fn == nil {
			c.fail("lz.(*DecoderBuffer)."+name, token.NoPos, "method not found")
			continue
		}
		fi := c.info(fn)
		fi.computeWriters()
		classes := c.classifyErrors(fn)
		recvField := func(fname string) func(f *types.Var, ld *ssa.UnOp) bool {
			return func(f *types.Var, ld *ssa.UnOp) bool {
				p, ok := recvPath(fn, ld.X)
				return ok && f.Name() == fname && lastField(p) == fname
			}
		}
		nOrig := map[string]int{}
		for _, b := range fn.Blocks {
			for _, in := range b.Instrs {
				x, ok := in.(*ssa.UnOp)
				if !ok {
					continue
				}
				label := errGlobalName(x)
				if label == "" || label == "ErrFullBuffer" {
					continue
				}
				nOrig[label]++
				key := fmt.Sprintf("%s:%s#%d", fnName(fn), label, nOrig[label])
				ways := fi.flagWays(b)
				refuteAll := func(hyps []Fact) bool {
					for _, w := range ways {
						if !fi.refute(w, hyps, 0) {
							if os.Getenv("LZDBG6") != "" {
								fmt.Fprintf(os.Stderr, "DBG reject %s: way %v hyps %v\n", key, factStrings(fi.factsOf(w)), factStrings(hyps))
							}
							return false
						}
					}
					return len(ways) > 0
				}
				// the item: a sequence copied into a local as a whole (WriteBlock) or the parameters (WriteMatch)
				var lit, mat, off, need Lin
				var lenLits []Lin
				haveItem := false
				if name == "WriteMatch" && len(fn.Params) == 3 {
					mat, off = fi.lin(fn.Params[1]), fi.lin(fn.Params[2])
					lit = linConst(0)
					need = mat
					lenLits = []Lin{linConst(0)}
					haveItem = true
				} else {
					for _, sb := range fn.Blocks {
						for _, sin := range sb.Instrs {
							st, ok := sin.(*ssa.Store)
							if !ok {
								continue
							}
							al, isA := st.Addr.(*ssa.Alloc)
							if !isA || !isNamedStruct(al.Type().(*types.Pointer).Elem(), "Seq") || !fi.instrDominates(st, x) {
								continue
							}
							r := rootName(al)
							lit, mat, off = linAtom(r+".LitLen"), linAtom(r+".MatchLen"), linAtom(r+".Offset")
							need = lit.add(mat)
							haveItem = true
						}
					}
					for _, ld := range fi.currentLoads(x, func(f *types.Var, ld *ssa.UnOp) bool { return f.Name() == "Literals" }) {
						lenLits = append(lenLits, fi.lenOf(ld))
					}
					// what remains of the literals is what the literal copy of this iteration slices from: for
					// append(Data, Literals[lo:hi]...) in the loop of this exit it is len(Literals) − lo (a cursor
					// into the literals instead of re-slicing them)
					{
						for _, ab := range fn.Blocks {
							for _, ain := range ab.Instrs {
								ap := isBuiltinCall(ain, "append")
								if ap == nil || len(ap.Call.Args) != 2 {
									continue
								}
								sl, isSl := ap.Call.Args[1].(*ssa.Slice)
								if !isSl || sl.Low == nil {
									continue
								}
								base, isLd := sl.X.(*ssa.UnOp)
								if !isLd || base.Op != token.MUL {
									continue
								}
								if f := fieldOfAddr(base.X); f == nil || f.Name() != "Literals" {
									continue
								}
								if l1, l2 := fi.loopOf(ab), fi.loopOf(b); l1 == nil || (l2 != nil && l1 != l2) {
									continue
								}
								lenLits = append(lenLits, fi.lenOf(base).sub(fi.lin(sl.Low)))
							}
						}
					}
				}
				if !haveItem || len(lenLits) == 0 {
					c.fail(key, x.Pos(), "the item rejected here is not recognised (no sequence local / parameters, or no current read of the literals)")
					continue
				}
				// the window, the data and the capacity as they are at this exit: reads that reach it with no writer
				// of the field in between (a read that lies on some ways only constrains those ways only)
				var ws, ls, bss []Lin
				for _, lb := range fn.Blocks {
					for _, lin := range lb.Instrs {
						ld, isLd := lin.(*ssa.UnOp)
						if !isLd || ld.Op != token.MUL {
							continue
						}
						f := fieldOfAddr(ld.X)
						if f == nil || !fi.instrReaches(ld, x) || fi.writerBetween(ld, x, fi.writers[f]) {
							continue
						}
						switch {
						case recvField("WindowSize")(f, ld):
							ws = appendLin(ws, fi.lin(ld))
						case recvField("Data")(f, ld):
							ls = appendLin(ls, fi.lenOf(ld))
						case recvField("BufferSize")(f, ld):
							bss = appendLin(bss, fi.lin(ld))
						}
					}
				}
				switch classes[label] {
				case "validity":
					okV := false
					for _, w := range ws {
						for _, l := range ls {
							for _, ll := range lenLits {
								common := []Fact{{lit.sub(ll), LE}, {off.sub(w), LE}, {off.sub(l).sub(lit), LE}}
								caseA := append(append([]Fact{}, common...), Fact{linConst(1).sub(off), LE})
								caseB := append(append([]Fact{}, common...), Fact{off, EQ}, Fact{mat, EQ})
								if refuteAll(caseA) && refuteAll(caseB) {
									okV = true
								}
							}
						}
					}
					if len(ws) == 0 || len(ls) == 0 {
						// a guard on the literals alone needs neither the window nor the data
						for _, ll := range lenLits {
							common := []Fact{{lit.sub(ll), LE}}
							caseA := append(append([]Fact{}, common...), Fact{linConst(1).sub(off), LE})
							caseB := append(append([]Fact{}, common...), Fact{off, EQ}, Fact{mat, EQ})
							if refuteAll(caseA) && refuteAll(caseB) {
								okV = true
							}
						}
					}
					c.check(okV, key+":valid-passes", x.Pos(), "rejected only when the item is malformed: the conditions of this exit contradict LitLen ≤ len(Literals) ∧ Offset ≤ min(WindowSize, bytes before the match) ∧ (Offset ≥ 1 ∨ Offset = MatchLen = 0)",
						fmt.Sprintf("%s can be answered for a valid item: the branch conditions of this exit do not contradict LitLen ≤ len(Literals) ∧ Offset ≤ min(WindowSize, bytes before the match) ∧ (Offset ≥ 1 ∨ Offset = MatchLen = 0) — a guard that is one step too wide (≥ for >) refuses literal-only sequences or boundary offsets that every parser may emit", label))
				case "capacity":
					okW, okF := false, false
					for _, w := range ws {
						if refuteAll([]Fact{{need.sub(w), LE}}) {
							okW = true
						}
					}
					for _, l := range ls {
						for _, bs := range bss {
							if refuteAll([]Fact{{need.add(l).sub(bs), LE}}) {
								okF = true
							}
						}
					}
					c.check(okW && okF, key+":only-oversize", x.Pos(), "given up only when the item is larger than the window and does not fit now",
						fmt.Sprintf("%s can be answered for an item that is not larger than the window (%v) or that fits into the buffer as it is (%v): the known limitation D10 is about items larger than WindowSize that do not fit; a test that is one step too wide refuses a match of exactly WindowSize bytes, or an exact fit, which a Decoder with the default BufferSize must accept", label, !okW, !okF))
				default:
					c.fail(key, x.Pos(), "error %s is not classified", label)
				}
			}
		}
		// a nil error only behind the final append
		var anchor *ssa.Store
		for _, b := range fn.Blocks {
			if fi.loopOf(b) != nil {
				continue
			}
			for _, in := range b.Instrs {
				st, ok := in.(*ssa.Store)
				if !ok {
					continue
				}
				if p, okp := recvPath(fn, st.Addr); !okp || p != "Data" {
					continue
				}
				if vi, isI := st.Val.(ssa.Instruction); !isI || isBuiltinCall(vi, "append") == nil {
					continue
				}
				if anchor == nil || fi.instrDominates(anchor, st) {
					anchor = st
				}
			}
		}
		key := fnName(fn) + ":nil-means-done"
		if anchor == nil {
			c.fail(key, fn.Pos(), "no final append to Data outside the loops found")
			continue
		}
		bad := ""
		nNil := 1
		// the error results in play: the φs the returned errors are merged from
		web := map[ssa.Value]bool{}
		var grow func(v ssa.Value)
		grow = func(v ssa.Value) {
			if ph, ok := v.(*ssa.Phi); ok && !web[ph] {
				web[ph] = true
				for _, e := range ph.Edges {
					grow(e)
				}
			}
		}
		for _, b := range fn.Blocks {
			if r, ok := b.Instrs[len(b.Instrs)-1].(*ssa.Return); ok && len(r.Results) > 0 && isErrorType(r.Results[len(r.Results)-1].Type()) {
				grow(r.Results[len(r.Results)-1])
			}
		}
		// search: from the entry, with the error "nil so far", to a return that hands out that error, without
		// passing the final append. A test of a merged error against nil is followed on its nil side only while the
		// error is known to be nil; entering a merge with one of the package's error values ends the way (that way
		// reports the rejection); entering it with anything else makes the error unknown.
		type state struct {
			b   *ssa.BasicBlock
			nil bool
		}
		seen := map[state]bool{}
		stack := []state{{fn.Blocks[0], true}}
		for len(stack) > 0 && bad == "" {
			st := stack[len(stack)-1]
			stack = stack[:len(stack)-1]
			if seen[st] || st.b == anchor.Block() {
				continue
			}
			seen[st] = true
			last := st.b.Instrs[len(st.b.Instrs)-1]
			if r, ok := last.(*ssa.Return); ok {
				if len(r.Results) == 0 {
					continue
				}
				e := r.Results[len(r.Results)-1]
				if !isErrorType(e.Type()) || errGlobalName(e) != "" {
					continue
				}
				if k, isK := e.(*ssa.Const); (isK && k.Value == nil) || web[e] {
					bad = fmt.Sprintf("the return at %s can be reached with a nil error on a way that does not pass the final append to Data (%s): a call that stops in front of an item reports success", c.pos(r.Pos()), c.pos(anchor.Pos()))
				}
				continue
			}
			succs := st.b.Succs
			if iff, ok := last.(*ssa.If); ok && st.nil {
				u := unNot(Cond{iff.Cond, true})
				if bo, isBo := u.V.(*ssa.BinOp); isBo && (bo.Op == token.EQL || bo.Op == token.NEQ) {
					var other ssa.Value
					if k, isK := bo.Y.(*ssa.Const); isK && k.Value == nil {
						other = bo.X
					} else if k, isK := bo.X.(*ssa.Const); isK && k.Value == nil {
						other = bo.Y
					}
					if other != nil && web[other] {
						isNilTrue := (bo.Op == token.EQL) == u.True
						if isNilTrue {
							succs = st.b.Succs[:1]
						} else {
							succs = st.b.Succs[1:]
						}
					}
				}
			}
			for _, sc := range succs {
				ns := state{sc, st.nil}
				// the value a merged error gets on this edge
				stop := false
				for _, in := range sc.Instrs {
					ph, ok := in.(*ssa.Phi)
					if !ok {
						break
					}
					if !web[ph] {
						continue
					}
					for pi, p := range sc.Preds {
						if p != st.b {
							continue
						}
						v := ph.Edges[pi]
						switch {
						case errGlobalName(v) != "":
							stop = true
						case web[v]:
						default:
							if k, isK := v.(*ssa.Const); !isK || k.Value != nil {
								ns.nil = false
							}
						}
					}
				}
				if !stop {
					stack = append(stack, ns)
				}
			}
		}
		c.check(bad == "" && nNil > 0, key, anchor.Pos(), "a nil error is returned only behind the final append to Data", "a rejection that is not reported: "+bad+" — the caller's counts say where the call stopped, but with a nil error nobody looks at them (C05: a malformed sequence is rejected with an error)")
	}
}

func appendLin(l []Lin, x Lin) []Lin {
	for _, y := range l {
		if y.eq(x) {
			return l
		}
	}
	return append(l, x)
}

// ---------------------------------------------------------------- R-DEC-INDEX

func ruleDecIndex(c *Ctx) {
	db := c.decBuf()
	fns := c.methodsOf(db)
	sort.Slice(fns, func(i, j int) bool { return fns[i].Name() < fns[j].Name() })
	n := 0
	for _, fn := range fns {
		if fn.Blocks == nil {
			continue
		}
		fi := c.info(fn)
		per := 0
		for _, b := range fn.Blocks {
			for _, in := range b.Instrs {
				ia, ok := in.(*ssa.IndexAddr)
				if !ok {
					continue
				}
				ld, ok := ia.X.(*ssa.UnOp)
				if !ok || ld.Op != token.MUL {
					continue
				}
				if p, okp := recvPath(fn, ld.X); !okp || p != "Data" {
					continue
				}
				// only element reads/writes (an IndexAddr that is loaded from or stored to)
				n++
				per++
				key := fmt.Sprintf("%s:index#%d", fnName(fn), per)
				idx := fi.lin(ia.Index)
				lo := fi.proveAt(idx.scale(-1), b, nil)
				hi := fi.proveAt(idx.sub(fi.lenOf(ld)).addc(1), b, nil)
				c.check(lo && hi, key, ia.Pos(), "0 ≤ "+idx.String()+" < len(Data) at the access",
					fmt.Sprintf("Data[%s] is not proved to lie inside the data (0 ≤ i: %v, i < len(Data): %v): an argument at the boundary makes the decoder panic or read outside its data", idx, lo, hi))
			}
		}
	}
	if n == 0 {
		c.fail("lz.DecoderBuffer:index", token.NoPos, "no element access to Data found in the methods of DecoderBuffer")
	}
	_ = strings.TrimSpace
}
