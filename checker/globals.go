package main

import (
	"go/types"
	"strings"

	"golang.org/x/tools/go/ssa"
)

// immutableElem: values of this type cannot be used to reach mutable storage (basic values, strings, functions, and
// structs/arrays of those). Function values are included: a package-level function literal has no free variables,
// and what it does to package-level state is judged where it does it.
func immutableElem(t types.Type, depth int) bool {
	if depth > 4 {
		return false
	}
	switch u := t.Underlying().(type) {
	case *types.Basic:
		return u.Kind() != types.UnsafePointer
	case *types.Signature:
		return true
	case *types.Array:
		return immutableElem(u.Elem(), depth+1)
	case *types.Struct:
		for i := 0; i < u.NumFields(); i++ {
			if !immutableElem(u.Field(i).Type(), depth+1) {
				return false
			}
		}
		return true
	}
	return false
}

// readOnlyGlobal decides whether the package-level variable g is a lookup table: its type is a basic value, or a
// map, slice or array whose elements are immutable values; outside the package initialiser every reference to g is a
// load, and the loaded value is only read (map lookup, index, len, range). The returned string says what prevents
// the classification.
func (c *Ctx) readOnlyGlobal(g *ssa.Global) (bool, string) {
	t := g.Type().(*types.Pointer).Elem()
	switch u := t.Underlying().(type) {
	case *types.Map:
		if !immutableElem(u.Elem(), 0) || !immutableElem(u.Key(), 0) {
			return false, "elements can reach mutable storage"
		}
	case *types.Slice:
		if !immutableElem(u.Elem(), 0) {
			return false, "elements can reach mutable storage"
		}
	default:
		if !immutableElem(t, 0) {
			return false, "the value can reach mutable storage"
		}
	}
	isInit := func(fn *ssa.Function) bool {
		for f := fn; f != nil; f = f.Parent() {
			if f.Parent() == nil {
				return f.Name() == "init" || strings.HasPrefix(f.Name(), "init#")
			}
		}
		return false
	}
	var readOnly func(v ssa.Value, depth int) (bool, string)
	readOnly = func(v ssa.Value, depth int) (bool, string) {
		if depth > 4 || v.Referrers() == nil {
			return false, "use too deep to follow"
		}
		for _, r := range *v.Referrers() {
			switch x := r.(type) {
			case *ssa.DebugRef:
			case *ssa.Lookup:
				if x.X != v {
					return false, "used as a map key"
				}
			case *ssa.Index:
				if x.X != v {
					return false, "used as an index"
				}
			case *ssa.Range:
			case *ssa.IndexAddr:
				if x.X != v {
					return false, "used as an index"
				}
				for _, rr := range *x.Referrers() {
					if u, ok := rr.(*ssa.UnOp); ok && u.X == x {
						continue
					}
					if _, ok := rr.(*ssa.DebugRef); ok {
						continue
					}
					return false, "element address taken for something other than a load"
				}
			case *ssa.Call:
				if b, ok := x.Call.Value.(*ssa.Builtin); ok && (b.Name() == "len" || b.Name() == "cap") {
					continue
				}
				if _, isBasic := v.Type().Underlying().(*types.Basic); isBasic {
					continue
				}
				return false, "passed to " + x.Call.Value.Name()
			case *ssa.BinOp, *ssa.If, *ssa.Convert, *ssa.ChangeType, *ssa.Return, *ssa.Phi, *ssa.MakeInterface, *ssa.Store:
				if _, isBasic := v.Type().Underlying().(*types.Basic); isBasic {
					if st, ok := x.(*ssa.Store); ok && st.Addr == v {
						return false, "stored through"
					}
					continue
				}
				return false, "flows into " + r.String()
			default:
				return false, "used by " + r.String()
			}
		}
		return true, ""
	}
	for _, fn := range c.allFuncs {
		if fn.Pkg != g.Pkg || isInit(fn) {
			continue
		}
		for _, b := range fn.Blocks {
			for _, in := range b.Instrs {
				for _, op := range in.Operands(nil) {
					if op == nil || *op != ssa.Value(g) {
						continue
					}
					ld, ok := in.(*ssa.UnOp)
					if !ok {
						return false, fnName(fn) + ": " + in.String() + " is not a load"
					}
					if ok, why := readOnly(ld, 0); !ok {
						return false, fnName(fn) + ": " + why
					}
				}
			}
		}
	}
	return true, ""
}

// globalMapEntries: the constant-keyed entries the package initialiser puts into the map stored in g (composite
// literal), nil when the initialisation has another shape.
func (c *Ctx) globalMapEntries(g *ssa.Global) map[string]ssa.Value {
	init := g.Pkg.Func("init")
	if init == nil {
		return nil
	}
	var m ssa.Value
	for _, b := range init.Blocks {
		for _, in := range b.Instrs {
			if st, ok := in.(*ssa.Store); ok && st.Addr == ssa.Value(g) {
				if m != nil {
					return nil
				}
				m = st.Val
			}
		}
	}
	if _, ok := m.(*ssa.MakeMap); !ok {
		return nil
	}
	res := map[string]ssa.Value{}
	for _, r := range *m.Referrers() {
		switch x := r.(type) {
		case *ssa.MapUpdate:
			s, ok := constString(x.Key)
			if !ok {
				return nil
			}
			if _, dup := res[s]; dup {
				return nil
			}
			res[s] = x.Value
		case *ssa.Store, *ssa.DebugRef:
		default:
			return nil
		}
	}
	return res
}
