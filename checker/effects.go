package main

// A4: access-path effect summaries (may-write, must-write) and A5: call
// reachability.

import (
	"fmt"
	"go/token"
	"go/types"
	"sort"
	"strings"

	"golang.org/x/tools/go/ssa"
)

// WSite is an original store/copy/append instruction behind a summarised write.
type WSite struct {
	Fn *ssa.Function
	In ssa.Instruction
}

// Effects of one function. Keys are "p<i>.path", "fv<i>.path", "g:<pkg.name>.path",
// or "?" for a store whose root cannot be named.
type Effects struct {
	may     map[string][]WSite
	fields  map[*types.Var]bool
	calls   map[*ssa.Function]bool // static callees (incl. closures created)
	invokes []ssa.CallInstruction  // dynamic calls
}

func rootKey(fn *ssa.Function, r ssa.Value) (string, bool) {
	switch x := r.(type) {
	case *ssa.Parameter:
		for i, p := range fn.Params {
			if p == x {
				return fmt.Sprintf("p%d", i), true
			}
		}
	case *ssa.FreeVar:
		for i, p := range fn.FreeVars {
			if p == x {
				return fmt.Sprintf("fv%d", i), true
			}
		}
	case *ssa.Global:
		return "g:" + x.Pkg.Pkg.Name() + "." + x.Name(), true
	case *ssa.Alloc:
		return "local", true
	}
	return "", false
}

func joinPath(a, b string) string {
	if a == "" {
		return b
	}
	if b == "" {
		return a
	}
	return a + "." + b
}

// writeKey names the location written through address/slice value v (+suffix).
func writeKey(fn *ssa.Function, v ssa.Value, suffix string) string {
	r, p, ok := pathStr(v)
	if !ok {
		// results of calls / makes are fresh or unknown
		switch stripSlices(v).(type) {
		case *ssa.MakeSlice, *ssa.MakeMap, *ssa.MakeChan:
			return "local"
		}
		return "?"
	}
	rk, ok := rootKey(fn, r)
	if !ok {
		return "?"
	}
	if rk == "local" && strings.Contains(joinPath(p, suffix), "[*]") {
		// a local copy of a by-value struct parameter still shares the
		// caller's backing arrays: element writes are writes to the parameter
		if al, ok := r.(*ssa.Alloc); ok {
			for _, ref := range *al.Referrers() {
				if st, ok := ref.(*ssa.Store); ok && st.Addr == al {
					if pk, ok := rootKey(fn, st.Val); ok && pk != "local" {
						return joinPath(pk, joinPath(p, suffix))
					}
				}
			}
		}
	}
	if rk == "local" {
		// a local alloc that holds a pointer/slice loaded from elsewhere is
		// followed one step: pi := &bh.indexes[h] is a value, not an alloc, so
		// allocs are genuinely local unless they are heap cells of closures.
		return "local"
	}
	return joinPath(rk, joinPath(p, suffix))
}

func stripSlices(v ssa.Value) ssa.Value {
	for {
		switch x := v.(type) {
		case *ssa.Slice:
			v = x.X
		case *ssa.ChangeType:
			v = x.X
		default:
			return v
		}
	}
}

func (c *Ctx) effects() map[*ssa.Function]*Effects {
	if c.eff != nil {
		return c.eff
	}
	c.eff = map[*ssa.Function]*Effects{}
	for _, fn := range c.allFuncs {
		c.eff[fn] = &Effects{may: map[string][]WSite{}, fields: map[*types.Var]bool{}, calls: map[*ssa.Function]bool{}}
	}
	// local effects
	for _, fn := range c.allFuncs {
		e := c.eff[fn]
		addW := func(k string, in ssa.Instruction) {
			if k == "local" {
				return
			}
			e.may[k] = append(e.may[k], WSite{fn, in})
		}
		for _, b := range fn.Blocks {
			for _, in := range b.Instrs {
				switch x := in.(type) {
				case *ssa.Store:
					if st, ok := x.Val.Type().Underlying().(*types.Struct); ok {
						k := writeKey(fn, x.Addr, "")
						if k != "local" && k != "?" {
							g := map[string]bool{}
							addStructKeys(g, k, st)
							for kk := range g {
								if !isStructKey(st, strings.TrimPrefix(kk, k+".")) {
									addW(kk, in)
								}
							}
						} else {
							addW(k, in)
						}
					} else {
						addW(writeKey(fn, x.Addr, ""), in)
					}
					if f := fieldOfAddr(x.Addr); f != nil {
						e.fields[f] = true
						markNested(e.fields, f.Type())
					} else if st := derefStruct(x.Addr.Type()); st != nil {
						if _, isAlloc := x.Addr.(*ssa.Alloc); !isAlloc {
							for i := 0; i < st.NumFields(); i++ {
								e.fields[st.Field(i)] = true
								markNested(e.fields, st.Field(i).Type())
							}
						}
					}
				case *ssa.MapUpdate:
					addW(writeKey(fn, x.Map, "[*]"), in)
				case ssa.CallInstruction:
					com := x.Common()
					if bi, ok := com.Value.(*ssa.Builtin); ok {
						switch bi.Name() {
						case "copy":
							addW(writeKey(fn, com.Args[0], "[*]"), in)
						case "append":
							// may write into spare capacity of the first argument
							addW(writeKey(fn, com.Args[0], "[*]"), in)
						case "clear":
							addW(writeKey(fn, com.Args[0], "[*]"), in)
						}
						continue
					}
					if callee := com.StaticCallee(); callee != nil {
						if _, ok := c.eff[callee]; ok {
							e.calls[callee] = true
						}
					} else {
						e.invokes = append(e.invokes, x)
					}
				case *ssa.MakeClosure:
					if cf, ok := x.Fn.(*ssa.Function); ok {
						e.calls[cf] = true
					}
				}
			}
		}
	}
	// propagate to fixpoint
	for changed := true; changed; {
		changed = false
		for _, fn := range c.allFuncs {
			e := c.eff[fn]
			for _, b := range fn.Blocks {
				for _, in := range b.Instrs {
					var callee *ssa.Function
					var args []ssa.Value
					var bindings []ssa.Value
					switch x := in.(type) {
					case ssa.CallInstruction:
						com := x.Common()
						callee = com.StaticCallee()
						args = com.Args
						if mc, ok := com.Value.(*ssa.MakeClosure); ok {
							bindings = mc.Bindings
						}
					case *ssa.MakeClosure:
						callee, _ = x.Fn.(*ssa.Function)
						bindings = x.Bindings
						args = nil
					}
					if callee == nil {
						continue
					}
					ce, ok := c.eff[callee]
					if !ok {
						continue
					}
					for f := range ce.fields {
						if !e.fields[f] {
							e.fields[f] = true
							changed = true
						}
					}
					for k, sites := range ce.may {
						nk := substKey(fn, k, args, bindings)
						if nk == "local" {
							continue
						}
						if _, ok := e.may[nk]; !ok {
							changed = true
						}
						e.may[nk] = mergeSites(e.may[nk], sites)
					}
				}
			}
		}
	}
	return c.eff
}

func markNested(m map[*types.Var]bool, t types.Type) {
	st, ok := t.Underlying().(*types.Struct)
	if !ok {
		return
	}
	for i := 0; i < st.NumFields(); i++ {
		m[st.Field(i)] = true
		markNested(m, st.Field(i).Type())
	}
}

func mergeSites(a, b []WSite) []WSite {
	for _, s := range b {
		dup := false
		for _, t := range a {
			if t == s {
				dup = true
				break
			}
		}
		if !dup {
			a = append(a, s)
		}
	}
	return a
}

// substKey rewrites a callee-relative key into the caller's terms.
func substKey(caller *ssa.Function, k string, args, bindings []ssa.Value) string {
	if strings.HasPrefix(k, "g:") || k == "?" {
		return k
	}
	head, rest := k, ""
	if i := strings.Index(k, "."); i >= 0 {
		head, rest = k[:i], k[i+1:]
	}
	var v ssa.Value
	var idx int
	if n, _ := fmt.Sscanf(head, "p%d", &idx); n == 1 && strings.HasPrefix(head, "p") {
		if idx < len(args) {
			v = args[idx]
		}
	} else if n, _ := fmt.Sscanf(head, "fv%d", &idx); n == 1 {
		if idx < len(bindings) {
			v = bindings[idx]
		}
	}
	if v == nil {
		return "?"
	}
	// A free-variable binding is the address of the captured variable: the
	// callee's fv path starts at that address already.
	return writeKey(caller, v, rest)
}

func (c *Ctx) fieldWrites(fn *ssa.Function) map[*types.Var]bool {
	if e, ok := c.effects()[fn]; ok {
		return e.fields
	}
	return nil
}

// mayWrite returns the sorted may-write keys of fn.
func (c *Ctx) mayWrite(fn *ssa.Function) []string {
	e := c.effects()[fn]
	if e == nil {
		return nil
	}
	var ks []string
	for k := range e.may {
		ks = append(ks, k)
	}
	sort.Strings(ks)
	return ks
}

// reachable returns all source functions reachable from the roots through
// static calls, closures, and (for interface calls) every lz/suffix method of
// that name whose receiver implements the interface.
func (c *Ctx) reachable(roots ...*ssa.Function) map[*ssa.Function]bool {
	eff := c.effects()
	seen := map[*ssa.Function]bool{}
	var stack []*ssa.Function
	for _, r := range roots {
		if r != nil {
			stack = append(stack, r)
		}
	}
	for len(stack) > 0 {
		f := stack[len(stack)-1]
		stack = stack[:len(stack)-1]
		if seen[f] {
			continue
		}
		seen[f] = true
		e := eff[f]
		if e == nil {
			continue
		}
		for g := range e.calls {
			stack = append(stack, g)
		}
		for _, inv := range e.invokes {
			com := inv.Common()
			if com.IsInvoke() {
				for _, g := range c.implementations(com.Method) {
					stack = append(stack, g)
				}
			}
		}
	}
	return seen
}

// implementations: methods of lz/suffix types that can be the target of an
// interface method call (CHA restricted to the analysed packages).
func (c *Ctx) implementations(m *types.Func) []*ssa.Function {
	var out []*ssa.Function
	recv := m.Type().(*types.Signature).Recv()
	if recv == nil {
		return nil
	}
	iface, ok := recv.Type().Underlying().(*types.Interface)
	if !ok {
		return nil
	}
	for _, pkg := range []*ssa.Package{c.lz, c.suffix} {
		scope := pkg.Pkg.Scope()
		for _, n := range scope.Names() {
			tn, ok := scope.Lookup(n).(*types.TypeName)
			if !ok {
				continue
			}
			named, ok := tn.Type().(*types.Named)
			if !ok {
				continue
			}
			if _, isIface := named.Underlying().(*types.Interface); isIface {
				continue
			}
			for _, t := range []types.Type{types.NewPointer(named), named} {
				if types.Implements(t, iface) {
					if fn := c.method(named, m.Name()); fn != nil {
						out = append(out, fn)
					}
					break
				}
			}
		}
	}
	return out
}

// ---------------------------------------------------------------- must-write

// mustWrite computes the set of locations (keys relative to fn) that are
// written on every path from entry to each "success" return, where a return
// is a failure return when its last result is an error that is provably
// non-nil (dominated by err != nil, or a fresh error / error variable).
// Edges contradicting `assume` (cond value → polarity) are pruned.
// Loop bodies of range/counting loops are treated as executed.
func (c *Ctx) mustWrite(fn *ssa.Function, assume func(*ssa.If) (taken int)) map[string]bool {
	return c.mustWrite0(fn, assume, map[*ssa.Function]bool{})
}

func (c *Ctx) mustWrite0(fn *ssa.Function, assume func(*ssa.If) int, stack map[*ssa.Function]bool) map[string]bool {
	if fn.Blocks == nil || stack[fn] {
		return map[string]bool{}
	}
	if _, own := c.effects()[fn]; !own {
		return map[string]bool{} // library code: no summary
	}
	if assume == nil {
		if r, ok := c.mustMemo[fn]; ok {
			return r
		}
	}
	stack[fn] = true
	defer delete(stack, fn)
	fi := c.info(fn)
	gen := map[*ssa.BasicBlock]map[string]bool{}
	for _, b := range fn.Blocks {
		g := map[string]bool{}
		for _, in := range b.Instrs {
			switch x := in.(type) {
			case *ssa.Store:
				k := writeKey(fn, x.Addr, "")
				// a store to one element counts as "all elements written" only when it sits in a
				// loop over the whole, unsliced container (for i := range X { X[i] = … })
				if ia, isIA := x.Addr.(*ssa.IndexAddr); isIA && strings.HasSuffix(k, "[*]") && !fullRangeStore(fi, ia) {
					continue
				}
				if fa, isFA := x.Addr.(*ssa.FieldAddr); isFA {
					if ia, isIA := fa.X.(*ssa.IndexAddr); isIA && strings.Contains(k, "[*]") && !fullRangeStore(fi, ia) {
						continue
					}
				}
				g[k] = true
				// storing a whole struct writes every nested field
				if st, ok := x.Val.Type().Underlying().(*types.Struct); ok && k != "local" {
					addStructKeys(g, k, st)
				}
			case ssa.CallInstruction:
				com := x.Common()
				if bi, ok := com.Value.(*ssa.Builtin); ok {
					if bi.Name() == "clear" {
						// clear(X) writes all elements only for the unsliced container
						if _, isSl := com.Args[0].(*ssa.Slice); !isSl {
							g[writeKey(fn, com.Args[0], "[*]")] = true
						}
					}
					continue
				}
				callee := com.StaticCallee()
				if callee == nil || callee.Blocks == nil {
					continue
				}
				var bindings []ssa.Value
				if mc, ok := com.Value.(*ssa.MakeClosure); ok {
					bindings = mc.Bindings
				}
				for k := range c.mustWrite0(callee, c.calleeAssume(fi, x, callee), stack) {
					g[substKey(fn, k, com.Args, bindings)] = true
				}
			}
		}
		delete(g, "local")
		delete(g, "?")
		gen[b] = g
	}
	// loop bodies are treated as executed: what is must-written at every
	// latch of a loop (computed by the same dataflow inside the body) is
	// credited to the loop header. Iterate because loops nest.
	solve := func() map[*ssa.BasicBlock]map[string]bool { return nil }
	_ = solve
	// forward must dataflow
	// an edge taken under err != nil from which only `return …, err` (that very value) can be reached
	// belongs to failure paths: `if err == nil { reinitialise }; return err`
	failEdge := func(p, s *ssa.BasicBlock) bool {
		iff, ok := p.Instrs[len(p.Instrs)-1].(*ssa.If)
		if !ok || p.Succs[0] == p.Succs[1] {
			return false
		}
		cd := unNot(Cond{iff.Cond, p.Succs[0] == s})
		bo, ok := cd.V.(*ssa.BinOp)
		if !ok || (bo.Op != token.EQL && bo.Op != token.NEQ) {
			return false
		}
		var v ssa.Value
		if k, isC := bo.Y.(*ssa.Const); isC && k.Value == nil {
			v = bo.X
		} else if k, isC := bo.X.(*ssa.Const); isC && k.Value == nil {
			v = bo.Y
		}
		if v == nil || !isErrorType(v.Type()) || isNilCmp(Cond{iff.Cond, p.Succs[0] == s}, v) != +1 {
			return false
		}
		nret := 0
		for bb := range fi.reach[s] {
			if r, isR := bb.Instrs[len(bb.Instrs)-1].(*ssa.Return); isR {
				nret++
				if len(r.Results) == 0 || r.Results[len(r.Results)-1] != v {
					return false
				}
			}
		}
		if r, isR := s.Instrs[len(s.Instrs)-1].(*ssa.Return); isR {
			nret++
			if len(r.Results) == 0 || r.Results[len(r.Results)-1] != v {
				return false
			}
		}
		return nret > 0
	}
	pruned := func(p, s *ssa.BasicBlock) bool {
		if failEdge(p, s) {
			return true
		}
		if assume == nil {
			return false
		}
		iff, ok := p.Instrs[len(p.Instrs)-1].(*ssa.If)
		if !ok {
			return false
		}
		t := assume(iff)
		if t == 0 {
			return false
		}
		if t > 0 {
			return p.Succs[1] == s && p.Succs[0] != s
		}
		return p.Succs[0] == s && p.Succs[1] != s
	}
	out := map[*ssa.BasicBlock]map[string]bool{}
	var universe map[string]bool
	universe = map[string]bool{}
	for _, g := range gen {
		for k := range g {
			universe[k] = true
		}
	}
	for _, b := range fn.Blocks {
		o := map[string]bool{}
		for k := range universe {
			o[k] = true
		}
		out[b] = o
	}
	for round := 0; round < 4; round++ {
		if round > 0 {
			grew := false
			for _, l := range fi.loops {
				var m map[string]bool
				for _, la := range l.Latches {
					if m == nil {
						m = map[string]bool{}
						for k := range out[la] {
							m[k] = true
						}
					} else {
						for k := range m {
							if !out[la][k] {
								delete(m, k)
							}
						}
					}
				}
				for k := range m {
					if !gen[l.Header][k] {
						gen[l.Header][k] = true
						grew = true
					}
				}
			}
			if !grew {
				break
			}
			for _, b := range fn.Blocks {
				o := map[string]bool{}
				for k := range universe {
					o[k] = true
				}
				out[b] = o
			}
		}
		for changed := true; changed; {
			changed = false
			for _, b := range fn.Blocks {
				var in map[string]bool
				if b == fn.Blocks[0] {
					in = map[string]bool{}
				} else {
					first := true
					for _, p := range b.Preds {
						if pruned(p, b) {
							continue
						}
						if first {
							in = map[string]bool{}
							for k := range out[p] {
								in[k] = true
							}
							first = false
						} else {
							for k := range in {
								if !out[p][k] {
									delete(in, k)
								}
							}
						}
					}
					if in == nil { // unreachable under the assumption
						continue
					}
				}
				for k := range gen[b] {
					in[k] = true
				}
				if len(in) != len(out[b]) {
					out[b] = in
					changed = true
				}
			}
		}
	}
	// intersect over success returns
	var res map[string]bool
	for _, b := range fn.Blocks {
		r, ok := b.Instrs[len(b.Instrs)-1].(*ssa.Return)
		if !ok {
			continue
		}
		if c.isFailureReturn(fi, r) {
			continue
		}
		// unreachable under assumption / only over failure edges?
		if !c.reachableUnder(fn, b, pruned) {
			continue
		}
		if res == nil {
			res = map[string]bool{}
			for k := range out[b] {
				res[k] = true
			}
		} else {
			for k := range res {
				if !out[b][k] {
					delete(res, k)
				}
			}
		}
	}
	if res == nil {
		res = map[string]bool{}
	}
	if assume == nil && len(stack) == 1 {
		if c.mustMemo == nil {
			c.mustMemo = map[*ssa.Function]map[string]bool{}
		}
		c.mustMemo[fn] = res
	}
	return res
}

func addStructKeys(g map[string]bool, prefix string, st *types.Struct) {
	for i := 0; i < st.NumFields(); i++ {
		f := st.Field(i)
		k := joinPath(prefix, f.Name())
		g[k] = true
		if s2, ok := f.Type().Underlying().(*types.Struct); ok {
			addStructKeys(g, k, s2)
		}
	}
}

func (c *Ctx) reachableUnder(fn *ssa.Function, target *ssa.BasicBlock, pruned func(p, s *ssa.BasicBlock) bool) bool {
	seen := map[*ssa.BasicBlock]bool{}
	stack := []*ssa.BasicBlock{fn.Blocks[0]}
	for len(stack) > 0 {
		b := stack[len(stack)-1]
		stack = stack[:len(stack)-1]
		if seen[b] {
			continue
		}
		seen[b] = true
		if b == target {
			return true
		}
		for _, s := range b.Succs {
			if !pruned(b, s) {
				stack = append(stack, s)
			}
		}
	}
	return false
}

// isFailureReturn: the last result is an error that is provably non-nil.
func (c *Ctx) isFailureReturn(fi *FuncInfo, r *ssa.Return) bool {
	if len(r.Results) == 0 {
		return false
	}
	last := r.Results[len(r.Results)-1]
	if !isErrorType(last.Type()) {
		return false
	}
	return c.nonNilError(fi, last, r.Block(), map[ssa.Value]bool{})
}

func isErrorType(t types.Type) bool {
	n, ok := t.(*types.Named)
	return ok && n.Obj().Pkg() == nil && n.Obj().Name() == "error"
}

func (c *Ctx) nonNilError(fi *FuncInfo, v ssa.Value, at *ssa.BasicBlock, seen map[ssa.Value]bool) bool {
	if seen[v] {
		return true
	}
	seen[v] = true
	switch x := v.(type) {
	case *ssa.Const:
		return false // nil
	case *ssa.UnOp:
		if x.Op == token.MUL {
			if _, ok := x.X.(*ssa.Global); ok {
				return true // package-level error variable
			}
		}
	case *ssa.MakeInterface:
		return true
	case *ssa.Call:
		if callee := x.Call.StaticCallee(); callee != nil && callee.Pkg != nil {
			p := callee.Pkg.Pkg.Path()
			if (p == "fmt" && callee.Name() == "Errorf") || (p == "errors" && callee.Name() == "New") {
				return true
			}
		}
	case *ssa.Phi:
		all := true
		for i, e := range x.Edges {
			if !c.nonNilErrorEdge(fi, e, x.Block().Preds[i], x.Block(), seen) {
				all = false
			}
		}
		if all {
			return true
		}
	}
	// dominated by v != nil
	for _, cd := range fi.condsAt(at) {
		if isNilCmp(cd, v) == +1 {
			return true
		}
	}
	return false
}

func (c *Ctx) nonNilErrorEdge(fi *FuncInfo, v ssa.Value, pred, blk *ssa.BasicBlock, seen map[ssa.Value]bool) bool {
	for _, cd := range fi.edgeConds(pred, blk) {
		if isNilCmp(cd, v) == +1 {
			return true
		}
	}
	return c.nonNilError(fi, v, pred, seen)
}

// isNilCmp: +1 if cond establishes v != nil, -1 if v == nil, 0 otherwise.
func isNilCmp(cd Cond, v ssa.Value) int {
	cd = unNot(cd)
	bo, ok := cd.V.(*ssa.BinOp)
	if !ok || (bo.Op != token.EQL && bo.Op != token.NEQ) {
		return 0
	}
	isNil := func(x ssa.Value) bool {
		k, ok := x.(*ssa.Const)
		return ok && k.Value == nil
	}
	var other ssa.Value
	if bo.X == v && isNil(bo.Y) {
		other = bo.Y
	} else if bo.Y == v && isNil(bo.X) {
		other = bo.X
	}
	if other == nil {
		return 0
	}
	ne := bo.Op == token.NEQ
	if !cd.True {
		ne = !ne
	}
	if ne {
		return +1
	}
	return -1
}

// isStructKey: does the dotted field path rel inside st denote a struct-typed field?
func isStructKey(st *types.Struct, rel string) bool {
	parts := strings.Split(rel, ".")
	cur := st
	for i, p := range parts {
		found := false
		for j := 0; j < cur.NumFields(); j++ {
			if cur.Field(j).Name() == p {
				found = true
				s2, ok := cur.Field(j).Type().Underlying().(*types.Struct)
				if i == len(parts)-1 {
					return ok
				}
				if !ok {
					return false
				}
				cur = s2
				break
			}
		}
		if !found {
			return false
		}
	}
	return false
}

// calleeAssume: when the caller proves an integer argument ≥ 1 at the call,
// the callee's early exits on "param == 0" are pruned.
func (c *Ctx) calleeAssume(fi *FuncInfo, call ssa.CallInstruction, callee *ssa.Function) func(*ssa.If) int {
	nz := map[*ssa.Parameter]bool{}
	args := call.Common().Args
	for i, p := range callee.Params {
		if i >= len(args) || !isIntType(p.Type()) {
			continue
		}
		if fi.proveAt(linConst(1).sub(fi.lin(args[i])), call.Block(), nil) {
			nz[p] = true
		}
	}
	if len(nz) == 0 {
		return nil
	}
	return func(iff *ssa.If) int {
		cd := unNot(Cond{iff.Cond, true})
		bo, ok := cd.V.(*ssa.BinOp)
		if !ok || (bo.Op != token.EQL && bo.Op != token.NEQ) {
			return 0
		}
		var p *ssa.Parameter
		if pp, ok := bo.X.(*ssa.Parameter); ok && isConstZero(bo.Y) {
			p = pp
		} else if pp, ok := bo.Y.(*ssa.Parameter); ok && isConstZero(bo.X) {
			p = pp
		}
		if p == nil || !nz[p] {
			return 0
		}
		pol := -1 // param == 0 is false
		if bo.Op == token.NEQ {
			pol = +1
		}
		if !cd.True {
			pol = -pol
		}
		return pol
	}
}

// fullRangeStore: ia indexes an unsliced container value X with the index of a
// loop that runs over all of X (range form: phi from −1, index phi+1, bound
// len(X); or counting form from 0 to len(X)).
func fullRangeStore(fi *FuncInfo, ia *ssa.IndexAddr) bool {
	if _, isSl := ia.X.(*ssa.Slice); isSl {
		return false
	}
	l := fi.loopOf(ia.Block())
	for ; l != nil; l = outerOf(fi, l) {
		iff, ok := l.Header.Instrs[len(l.Header.Instrs)-1].(*ssa.If)
		if !ok {
			continue
		}
		stay := l.Blocks[l.Header.Succs[0]]
		fs := fi.factsOf([]Cond{{iff.Cond, stay}})
		if len(fs) != 1 || fs[0].Op != LE {
			continue
		}
		idx := fi.lin(ia.Index)
		lx := fi.lenOf(ia.X)
		for _, in := range l.Header.Instrs {
			ph, isPhi := in.(*ssa.Phi)
			if !isPhi || !isIntType(ph.Type()) {
				continue
			}
			var initL Lin
			step := false
			for k, e := range ph.Edges {
				if l.Blocks[ph.Block().Preds[k]] {
					step = fi.lin(e).eq(fi.lin(ph).addc(1))
				} else {
					initL = fi.lin(e)
				}
			}
			if !step {
				continue
			}
			p := fi.lin(ph)
			// range form
			if idx.eq(p.addc(1)) && initL.isConst() && initL.c == -1 && fs[0].L.eq(p.addc(2).sub(lx)) {
				return true
			}
			// counting form
			if idx.eq(p) && initL.isConst() && initL.c == 0 && fs[0].L.eq(p.addc(1).sub(lx)) {
				return true
			}
		}
	}
	return false
}

// outerOf: the smallest loop strictly containing l.
func outerOf(fi *FuncInfo, l *Loop) *Loop {
	var best *Loop
	for _, o := range fi.loops {
		if o == l || !o.Blocks[l.Header] || len(o.Blocks) <= len(l.Blocks) {
			continue
		}
		if best == nil || len(o.Blocks) < len(best.Blocks) {
			best = o
		}
	}
	return best
}
