package main

// Rules over package suffix.
//
// C10: the LCP-interval stack scan behind suffix.Segments (R-SEG-*).
// C09: narrow structural clauses of Sort/LCP/InvertSA (R-TEXT-RO,
//      R-LCP-INPUTS, R-INVERT).
//
// The scan is found by role (A9): the function reachable from
// suffix.Segments that invokes its function-typed parameter; its stack is
// the slice whose last element is read into the "top" item, pushed by append
// and popped by re-slicing to len-1.

import (
	"fmt"
	"go/token"
	"go/types"
	"sort"

	"golang.org/x/tools/go/ssa"
)

type segScan struct {
	seg    *ssa.Function // suffix.Segments
	fn     *ssa.Function // the function that invokes the callback
	fi     *FuncInfo
	cb     *ssa.Call // callback invocation
	cbM    ssa.Value // first argument (stripped of conversions): load of top.n
	cbSeg  *ssa.Slice
	topPtr ssa.Value // pointer the top item's fields are read through
	stack  ssa.Value // slice value whose last element is the top item
	nF, jF int       // field indexes of the lcp value and of the left boundary
	itemT  types.Type
	jv     ssa.Value // high bound of the callback segment: the scan position
	minLen ssa.Value // value of minLen inside fn
	maxLen ssa.Value
	sa     ssa.Value
	lcp    ssa.Value

	pushes []*segPush
	pops   []*ssa.Slice
	err    string
}

type segPush struct {
	app  *ssa.Call
	n, j ssa.Value
	blk  *ssa.BasicBlock
}

// paramIn maps parameter idx of Segments to the corresponding value inside
// fn (fn == Segments: the parameter itself; otherwise through the unique
// static call site in Segments, conversions stripped).
func (c *Ctx) paramIn(seg, fn *ssa.Function, idx int) (ssa.Value, *ssa.Call) {
	if idx >= len(seg.Params) {
		return nil, nil
	}
	if seg == fn {
		return seg.Params[idx], nil
	}
	var site *ssa.Call
	for _, b := range seg.Blocks {
		for _, in := range b.Instrs {
			if call, ok := in.(*ssa.Call); ok && call.Call.StaticCallee() == fn {
				if site != nil {
					return nil, nil // more than one call site: not handled
				}
				site = call
			}
		}
	}
	if site == nil {
		return nil, nil
	}
	for i, a := range site.Call.Args {
		if stripConv(a) == ssa.Value(seg.Params[idx]) && i < len(fn.Params) {
			return fn.Params[i], site
		}
	}
	return nil, site
}

// topRef resolves the pointer through which an item's fields are read to the
// stack slice it was taken from, checking that it is the LAST element.
func (fi *FuncInfo) topRef(ptr ssa.Value) (stack ssa.Value, ok bool) {
	var ia *ssa.IndexAddr
	switch x := ptr.(type) {
	case *ssa.IndexAddr:
		ia = x
	case *ssa.Alloc:
		// local copy: exactly one whole-value store of a load of stack[len-1]
		var st *ssa.Store
		nst := 0
		for _, ref := range *x.Referrers() {
			if s, isSt := ref.(*ssa.Store); isSt && s.Addr == ssa.Value(x) {
				st = s
				nst++
			}
		}
		if nst > 1 {
			// a variable that is re-loaded from the top after every pop (top = stack[len(stack)-1] before
			// the pop loop and at the end of its body): every store reads the last element of a stack
			// value, and those values are exactly what one φ of the stack merges — that φ is the stack
			// the variable mirrors
			bases := map[ssa.Value]bool{}
			for _, ref := range *x.Referrers() {
				s, isSt := ref.(*ssa.Store)
				if !isSt || s.Addr != ssa.Value(x) {
					continue
				}
				ld, isLd := s.Val.(*ssa.UnOp)
				if !isLd || ld.Op != token.MUL {
					return nil, false
				}
				ia2, isIA := ld.X.(*ssa.IndexAddr)
				if !isIA || !fi.lin(ia2.Index).eq(fi.lenOf(ia2.X).addc(-1)) {
					return nil, false
				}
				if _, isSlice := ia2.X.Type().Underlying().(*types.Slice); !isSlice {
					return nil, false
				}
				bases[ia2.X] = true
			}
			for _, ph := range fi.phis {
				if len(ph.Edges) != len(bases) {
					continue
				}
				all := true
				for _, e := range ph.Edges {
					if !bases[e] {
						all = false
					}
				}
				if all {
					return ph, true
				}
			}
			return nil, false
		}
		if st == nil {
			return nil, false
		}
		ld, isLd := st.Val.(*ssa.UnOp)
		if !isLd || ld.Op != token.MUL {
			return nil, false
		}
		ia, _ = ld.X.(*ssa.IndexAddr)
		if ia == nil {
			// a copy of a copy (the item handed on to a helper's parameter): follow, as long as the
			// intermediate copy is not modified in between (single store each)
			if src, isAlloc := ld.X.(*ssa.Alloc); isAlloc && src != x {
				return fi.topRef(src)
			}
		}
	}
	if ia == nil {
		return nil, false
	}
	if _, isSlice := ia.X.Type().Underlying().(*types.Slice); !isSlice {
		return nil, false
	}
	if !fi.lin(ia.Index).eq(fi.lenOf(ia.X).addc(-1)) {
		return nil, false
	}
	return ia.X, true
}

// fieldLoad: v (conversions stripped) is a load of field f through ptr.
func fieldLoad(v ssa.Value) (ptr ssa.Value, field int, ok bool) {
	v = stripConv(v)
	switch x := v.(type) {
	case *ssa.UnOp:
		if x.Op == token.MUL {
			if fa, isFA := x.X.(*ssa.FieldAddr); isFA {
				return fa.X, fa.Field, true
			}
		}
	case *ssa.Field:
		// value-typed extraction from a loaded struct
		if ld, isLd := x.X.(*ssa.UnOp); isLd && ld.Op == token.MUL {
			return ld.X, x.Field, true
		}
	}
	return nil, 0, false
}

// uniqueFieldLoadIn walks the operand tree of v (calls, phis, arithmetic)
// and returns the single struct-field load it depends on.
func uniqueFieldLoadIn(v ssa.Value) (ptr ssa.Value, field int, ok bool) {
	seen := map[ssa.Value]bool{}
	n := 0
	var walk func(x ssa.Value, d int)
	walk = func(x ssa.Value, d int) {
		if x == nil || seen[x] || d > 6 {
			return
		}
		seen[x] = true
		if p, f, isFL := fieldLoad(x); isFL {
			if n == 0 || (p == ptr && f == field) {
				ptr, field = p, f
			}
			n++
			return
		}
		if in, isIn := x.(ssa.Instruction); isIn {
			for _, op := range in.Operands(nil) {
				if *op != nil {
					walk(*op, d+1)
				}
			}
		}
	}
	walk(v, 0)
	return ptr, field, n >= 1 && ptr != nil
}

func (c *Ctx) segScan() *segScan {
	s := &segScan{}
	if c.suffix == nil {
		s.err = "package suffix not loaded"
		return s
	}
	s.seg = c.suffix.Func("Segments")
	if s.seg == nil || len(s.seg.Params) != 5 {
		s.err = "suffix.Segments(sa, lcp, minLen, maxLen, f) not found"
		return s
	}
	// the callback invocation
	var fns []*ssa.Function
	for fn := range c.reachable(s.seg) {
		if fn.Pkg == c.suffix {
			fns = append(fns, fn)
		}
	}
	sort.Slice(fns, func(i, j int) bool { return fns[i].String() < fns[j].String() })
	cbT := s.seg.Params[4].Type()
	for _, fn := range fns {
		for _, b := range fn.Blocks {
			for _, in := range b.Instrs {
				call, ok := in.(*ssa.Call)
				if !ok || call.Call.IsInvoke() {
					continue
				}
				if p, isParam := call.Call.Value.(*ssa.Parameter); isParam && types.Identical(p.Type(), cbT) {
					if v, _ := c.paramIn(s.seg, fn, 4); v != ssa.Value(p) {
						continue
					}
					if s.cb != nil {
						s.err = "more than one callback invocation: the scan is no longer a single LCP-interval stack"
						return s
					}
					s.cb, s.fn = call, fn
				}
			}
		}
	}
	if s.cb == nil {
		s.err = "no invocation of Segments' callback parameter found in package suffix"
		return s
	}
	s.fi = c.info(s.fn)
	s.sa, _ = c.paramIn(s.seg, s.fn, 0)
	s.lcp, _ = c.paramIn(s.seg, s.fn, 1)
	s.minLen, _ = c.paramIn(s.seg, s.fn, 2)
	s.maxLen, _ = c.paramIn(s.seg, s.fn, 3)
	if s.sa == nil || s.lcp == nil || s.minLen == nil || s.maxLen == nil {
		s.err = "the scan function does not receive sa, lcp, minLen, maxLen of Segments as parameters"
		return s
	}
	if len(s.cb.Call.Args) != 2 {
		s.err = "callback is not invoked with (m, segment)"
		return s
	}
	ptr, nf, ok := fieldLoad(s.cb.Call.Args[0])
	if !ok {
		// the length may be wrapped (min(top.n, maxLen), a phi): find the unique field load it depends on
		ptr, nf, ok = uniqueFieldLoadIn(s.cb.Call.Args[0])
	}
	if !ok {
		s.err = "callback length argument is not read from a stack item"
		return s
	}
	s.cbM = stripConv(s.cb.Call.Args[0])
	s.topPtr, s.nF = ptr, nf
	// a copy of the copy (item handed to a helper's parameter): the rules talk about the first copy
	for {
		al, isAl := s.topPtr.(*ssa.Alloc)
		if !isAl {
			break
		}
		var st *ssa.Store
		nst := 0
		for _, ref := range *al.Referrers() {
			if x, isSt := ref.(*ssa.Store); isSt && x.Addr == ssa.Value(al) {
				st = x
				nst++
			}
		}
		if nst != 1 {
			break
		}
		ld, isLd := st.Val.(*ssa.UnOp)
		if !isLd || ld.Op != token.MUL {
			break
		}
		src, isAlloc := ld.X.(*ssa.Alloc)
		if !isAlloc || src == al {
			break
		}
		s.topPtr = src
	}
	ptr = s.topPtr
	stack, ok := s.fi.topRef(ptr)
	if !ok {
		s.err = "the item passed to the callback is not the last element of a slice (stack top)"
		return s
	}
	s.stack = stack
	s.itemT = stack.Type().Underlying().(*types.Slice).Elem()
	sl, ok := s.cb.Call.Args[1].(*ssa.Slice)
	if !ok || sl.X != s.sa || sl.Low == nil || sl.High == nil {
		s.err = "callback segment is not sa[left:j]"
		return s
	}
	s.cbSeg = sl
	p2, jf, ok := fieldLoad(sl.Low)
	if ok && p2 != ptr {
		if st2, ok2 := s.fi.topRef(p2); ok2 && st2 == stack {
			p2 = ptr
		}
	}
	if !ok || p2 != ptr || jf == nf {
		s.err = "callback segment's low bound is not the left boundary stored in the same stack item"
		return s
	}
	s.jF = jf
	s.jv = sl.High
	// pushes and pops
	for _, b := range s.fn.Blocks {
		for _, in := range b.Instrs {
			switch x := in.(type) {
			case *ssa.Call:
				bi, isB := x.Call.Value.(*ssa.Builtin)
				if !isB || bi.Name() != "append" || !types.Identical(x.Type(), stack.Type()) {
					continue
				}
				p := &segPush{app: x, blk: b}
				p.n, p.j = s.pushedFields(x)
				s.pushes = append(s.pushes, p)
			case *ssa.Slice:
				if types.Identical(x.X.Type(), stack.Type()) && x.Low == nil && x.High != nil &&
					s.fi.lin(x.High).eq(s.fi.lenOf(x.X).addc(-1)) {
					s.pops = append(s.pops, x)
				}
			}
		}
	}
	return s
}

// pushedFields resolves append(stack, item{n, j}) to the two field values.
func (s *segScan) pushedFields(app *ssa.Call) (n, j ssa.Value) {
	if len(app.Call.Args) != 2 {
		return
	}
	sl, ok := app.Call.Args[1].(*ssa.Slice)
	if !ok {
		return
	}
	arr, ok := sl.X.(*ssa.Alloc)
	if !ok {
		return
	}
	var item ssa.Value
	cnt := 0
	for _, ref := range *arr.Referrers() {
		if ia, isIA := ref.(*ssa.IndexAddr); isIA {
			for _, u := range *ia.Referrers() {
				if st, isSt := u.(*ssa.Store); isSt && st.Addr == ssa.Value(ia) {
					item = st.Val
					cnt++
				}
			}
		}
	}
	if cnt != 1 {
		return
	}
	ld, ok := item.(*ssa.UnOp)
	if !ok || ld.Op != token.MUL {
		return
	}
	lit, ok := ld.X.(*ssa.Alloc)
	if !ok {
		return
	}
	for _, ref := range *lit.Referrers() {
		fa, isFA := ref.(*ssa.FieldAddr)
		if !isFA {
			continue
		}
		for _, u := range *fa.Referrers() {
			if st, isSt := u.(*ssa.Store); isSt && st.Addr == ssa.Value(fa) {
				switch fa.Field {
				case s.nF:
					n = st.Val
				case s.jF:
					j = st.Val
				}
			}
		}
	}
	return
}

// topNLoads: the distinct linear atoms under which the current top's lcp
// value is read in fn (one per load version).
func (s *segScan) topNLoads() []Lin {
	seen := map[string]bool{}
	var out []Lin
	for _, b := range s.fn.Blocks {
		for _, in := range b.Instrs {
			v, ok := in.(ssa.Value)
			if !ok {
				continue
			}
			p, f, isFL := fieldLoad(v)
			// … also read straight from the stack: stack[len(stack)-1].n
			direct := false
			if isFL && f == s.nF {
				if ia, isIA := p.(*ssa.IndexAddr); isIA && types.Identical(ia.X.Type(), s.stack.Type()) && s.fi.lin(ia.Index).eq(s.fi.lenOf(ia.X).addc(-1)) {
					direct = true
				}
			}
			if isFL && (p == s.topPtr || direct) && f == s.nF {
				if _, isU := v.(*ssa.UnOp); !isU {
					if _, isF := v.(*ssa.Field); !isF {
						continue
					}
				}
				l := s.fi.lin(v)
				if !seen[l.key()] {
					seen[l.key()] = true
					out = append(out, l)
				}
			}
		}
	}
	return out
}

// preFacts: facts about the scan's parameters established at its call site
// (R-SEG-PRE proves them there): 0 ≤ minLen ≤ maxLen, len(sa) = len(lcp) ≥ 1.
func (s *segScan) preFacts() []Fact {
	fi := s.fi
	mn, mx := fi.lin(s.minLen), fi.lin(s.maxLen)
	return []Fact{
		{mn.scale(-1), LE},
		{mn.sub(mx), LE},
		{fi.lenOf(s.sa).sub(fi.lenOf(s.lcp)), EQ},
		{linConst(1).sub(fi.lenOf(s.sa)), LE},
	}
}

func init() {
	reg(&Rule{ID: "R-SEG-PRE", Min: 5,
		Doc: "suffix.Segments starts the scan only under 0 ≤ minLen ≤ maxLen and len(sa) = len(lcp) ≥ 1, and returns without scanning only when maxLen < minLen or the suffix array is empty",
		Run: ruleSegPre})
	reg(&Rule{ID: "R-SEG-BOUNDS", Min: 4,
		Doc: "the callback is invoked only under top.n ≥ minLen; every lcp value pushed on the interval stack is ≤ maxLen (clamp) and the stack starts with one zero item, so every reported m lies in [minLen, maxLen]",
		Run: ruleSegBounds})
	reg(&Rule{ID: "R-SEG-LEFT", Min: 2,
		Doc: "the left boundary of a pushed interval is j−1 on pop-free paths and the left boundary of the interval popped last otherwise (LCP-interval stack invariant)",
		Run: ruleSegLeft})
	reg(&Rule{ID: "R-SEG-ORDER", Min: 5,
		Doc: "three-way split on the incoming lcp value n against the top: n > top.n pushes, n = top.n leaves the stack unchanged, n < top.n reports the top (iff top.n ≥ minLen) and then pops it — children before parents, one report per interval",
		Run: ruleSegOrder})
	reg(&Rule{ID: "R-SEG-SCAN", Min: 5,
		Doc: "the scan position runs from 1 in steps of 1; the incoming value is lcp[j] clamped by maxLen while j < len(lcp) and a negative sentinel afterwards; the scan returns only when the stack has been emptied; the reported segment is sa[top.left:j]",
		Run: ruleSegScan})
}

func (c *Ctx) segOrFail(key string) *segScan {
	s := c.segScan()
	if s.err != "" {
		pos := token.NoPos
		if s.seg != nil {
			pos = s.seg.Pos()
		}
		c.fail(key+":anchor", pos, "unresolved anchor: %s", s.err)
		return nil
	}
	return s
}

// ---------------------------------------------------------------- R-SEG-PRE

func ruleSegPre(c *Ctx) {
	s := c.segOrFail("suffix.Segments")
	if s == nil {
		return
	}
	seg := s.seg
	fi := c.info(seg)
	var at *ssa.BasicBlock
	var pos token.Pos
	if s.fn == seg {
		at, pos = s.cb.Block(), s.cb.Pos()
	} else {
		_, site := c.paramIn(seg, s.fn, 0)
		if site == nil {
			c.fail("suffix.Segments:scan-call", seg.Pos(), "the scan function %s is not called exactly once from Segments", fnName(s.fn))
			return
		}
		at, pos = site.Block(), site.Pos()
	}
	sa, lcp, mn, mx := seg.Params[0], seg.Params[1], fi.lin(seg.Params[2]), fi.lin(seg.Params[3])
	lsa, llcp := fi.lenOf(sa), fi.lenOf(lcp)
	c.check(fi.proveLE(mn.scale(-1), at, nil), "suffix.Segments:pre:minLen≥0", pos,
		"scan is dominated by 0 ≤ minLen", "scan is not dominated by 0 ≤ minLen (facts: "+factStrings(fi.factsAt(at))+")")
	c.check(fi.proveLE(mn.sub(mx), at, nil), "suffix.Segments:pre:minLen≤maxLen", pos,
		"scan is dominated by minLen ≤ maxLen", "scan is not dominated by minLen ≤ maxLen (facts: "+factStrings(fi.factsAt(at))+")")
	c.check(fi.proveLE(linConst(1).sub(lsa), at, nil), "suffix.Segments:pre:nonempty", pos,
		"scan is dominated by len(sa) ≥ 1", "scan of an empty suffix array is possible: len(sa) ≥ 1 is not established before the scan, which slices sa[0:1] (facts: "+factStrings(fi.factsAt(at))+")")
	c.check(fi.proveLE(lsa.sub(llcp), at, nil) && fi.proveLE(llcp.sub(lsa), at, nil), "suffix.Segments:pre:len(sa)=len(lcp)", pos,
		"scan is dominated by len(sa) = len(lcp)", "scan is not dominated by len(sa) = len(lcp)")
	// the argument checks stop nothing that C10 allows: at every panic of Segments the branch conditions contradict
	// 0 ≤ minLen ≤ maxLen ≤ MaxInt32 ∧ len(sa) = len(lcp) ("for every text and 0 ≤ minLen ≤ maxLen … nothing panics")
	np := 0
	for _, b := range seg.Blocks {
		pn, isP := b.Instrs[len(b.Instrs)-1].(*ssa.Panic)
		if !isP {
			continue
		}
		np++
		valid := []Fact{{mn.scale(-1), LE}, {mn.sub(mx), LE}, {mx.addc(-(1<<31 - 1)), LE}, {lsa.sub(llcp), EQ}}
		okP := true
		for _, w := range fi.flagWays(b) {
			if !fi.refute(w, valid, 0) {
				okP = false
			}
		}
		c.check(okP, fmt.Sprintf("suffix.Segments:accepts#%d", np), pn.Pos(), "this argument check fails only for arguments C10 excludes",
			"Segments can panic for arguments with 0 ≤ minLen ≤ maxLen ≤ MaxInt32 and len(sa) = len(lcp): a range test that is one step too narrow (0 < minLen) turns the legal minLen = 0 into a panic")
	}
	// early returns
	n := 0
	for _, b := range seg.Blocks {
		ret, ok := b.Instrs[len(b.Instrs)-1].(*ssa.Return)
		if !ok {
			continue
		}
		if b == at || at.Dominates(b) || fi.reach[at][b] {
			continue
		}
		n++
		key := fmt.Sprintf("suffix.Segments:early-return#%d", n)
		if len(b.Preds) == 0 {
			c.fail(key, ret.Pos(), "Segments returns unconditionally without scanning")
			continue
		}
		good := true
		for _, p := range b.Preds {
			cs := fi.edgeConds(p, b)
			if len(b.Preds) == 1 {
				cs = append(cs, fi.condsAt(b)...)
			}
			h := map[string]bool{}
			if fi.proveLE0(mx.sub(mn).addc(1), cs, nil, h, 0) || fi.proveLE0(lsa, cs, nil, map[string]bool{}, 0) {
				continue
			}
			good = false
			c.fail(key, ret.Pos(), "Segments can return without scanning although minLen ≤ maxLen and the suffix array is not empty (edge from block %d, facts %s): groups are not reported", p.Index, factStrings(fi.factsOf(cs)))
			break
		}
		if good {
			c.ok(key, ret.Pos(), "returns without scanning only under maxLen < minLen or len(sa) = 0")
		}
	}
	if n == 0 {
		c.fail("suffix.Segments:early-return", seg.Pos(), "Segments has no return for maxLen < minLen / empty input before the scan")
	}
}

// ---------------------------------------------------------------- R-SEG-BOUNDS

func ruleSegBounds(c *Ctx) {
	s := c.segOrFail("suffix.scan")
	if s == nil {
		return
	}
	fi := s.fi
	name := fnName(s.fn)
	pre := s.preFacts()
	mn, mx := fi.lin(s.minLen), fi.lin(s.maxLen)
	c.check(fi.proveLE(mn.sub(fi.lin(s.cbM)), s.cb.Block(), nil), name+":callback:m≥minLen", s.cb.Pos(),
		"callback is dominated by top.n ≥ minLen", "callback can be invoked with m < minLen: top.n ≥ minLen does not dominate the call (facts: "+factStrings(fi.factsAt(s.cb.Block()))+")")
	if len(s.pushes) == 0 {
		c.fail(name+":push", s.fn.Pos(), "no push (append to the interval stack) found")
	}
	allPush := true
	for i, p := range s.pushes {
		key := fmt.Sprintf("%s:push#%d:n≤maxLen", name, i+1)
		if p.n == nil {
			c.fail(key, p.app.Pos(), "cannot resolve the lcp value of the pushed item")
			allPush = false
			continue
		}
		if fi.proveAt(fi.lin(p.n).sub(mx), p.blk, pre) {
			c.ok(key, p.app.Pos(), "pushed value %s ≤ maxLen on every path (clamp / sentinel)", fi.lin(p.n))
		} else {
			c.fail(key, p.app.Pos(), "the lcp value %s pushed on the interval stack is not bounded by maxLen on every path: a group would be reported with m > maxLen", fi.lin(p.n))
			allPush = false
		}
	}
	// initial stack: a freshly made slice (zero items) and no element stores
	init, why := s.initialStackZero()
	c.check(init, name+":stack-init", s.fn.Pos(), "the stack starts as a freshly allocated slice of zero items and is modified only by append / re-slice", why)
	if allPush && init {
		c.ok(name+":callback:m≤maxLen", s.cb.Pos(), "every item on the stack carries n ≤ maxLen (pushes and the zero root item, 0 ≤ minLen ≤ maxLen), so m ≤ maxLen at the callback")
	} else {
		c.fail(name+":callback:m≤maxLen", s.cb.Pos(), "m ≤ maxLen at the callback is not established (see push / stack-init obligations)")
	}
}

// initialStackZero: walking the stack value back through phis reaches only
// appends, pops and exactly one allocation whose elements are never stored to
// directly.
func (s *segScan) initialStackZero() (bool, string) {
	seen := map[ssa.Value]bool{}
	var allocs []ssa.Value
	var walk func(v ssa.Value) bool
	walk = func(v ssa.Value) bool {
		if seen[v] {
			return true
		}
		seen[v] = true
		switch x := v.(type) {
		case *ssa.Phi:
			for _, e := range x.Edges {
				if !walk(e) {
					return false
				}
			}
			return true
		case *ssa.Call:
			if bi, ok := x.Call.Value.(*ssa.Builtin); ok && bi.Name() == "append" {
				return walk(x.Call.Args[0])
			}
		case *ssa.Slice:
			if a, ok := x.X.(*ssa.Alloc); ok && a.Heap {
				allocs = append(allocs, a)
				// no store into the new array
				for _, ref := range *a.Referrers() {
					if ref != ssa.Instruction(x) {
						return false
					}
				}
				return true
			}
			return walk(x.X)
		case *ssa.MakeSlice:
			allocs = append(allocs, x)
			return true
		}
		return false
	}
	if !walk(s.stack) {
		return false, "the interval stack does not originate from a fresh allocation modified only by append and re-slice: the zero root item is not guaranteed"
	}
	if len(allocs) != 1 {
		return false, fmt.Sprintf("the interval stack has %d allocation sites, expected one", len(allocs))
	}
	// element stores through IndexAddr on a stack-typed slice
	for _, b := range s.fn.Blocks {
		for _, in := range b.Instrs {
			if st, ok := in.(*ssa.Store); ok {
				if ia, isIA := st.Addr.(*ssa.IndexAddr); isIA && types.Identical(ia.X.Type(), s.stack.Type()) {
					return false, "an element of the interval stack is overwritten in place"
				}
				if fa, isFA := st.Addr.(*ssa.FieldAddr); isFA {
					if ia, isIA := fa.X.(*ssa.IndexAddr); isIA && types.Identical(ia.X.Type(), s.stack.Type()) {
						return false, "a field of a stack element is overwritten in place"
					}
				}
			}
		}
	}
	return true, ""
}

// ---------------------------------------------------------------- R-SEG-LEFT

func ruleSegLeft(c *Ctx) {
	s := c.segOrFail("suffix.scan")
	if s == nil {
		return
	}
	fi := s.fi
	name := fnName(s.fn)
	if len(s.pops) != 1 {
		c.fail(name+":pop", s.fn.Pos(), "expected exactly one pop (stack[:len-1]) in the scan, found %d", len(s.pops))
		return
	}
	pop := s.pops[0]
	inner := fi.loopOf(pop.Block())
	if inner == nil {
		c.fail(name+":pop", pop.Pos(), "the pop is not inside a loop: several intervals closing at one position cannot be handled")
		return
	}
	jm1 := fi.lin(s.jv).addc(-1)
	for i, p := range s.pushes {
		key := fmt.Sprintf("%s:push#%d:left", name, i+1)
		if p.j == nil {
			c.fail(key, p.app.Pos(), "cannot resolve the left boundary of the pushed item")
			continue
		}
		v := p.j
		phi, isPhi := v.(*ssa.Phi)
		if !isPhi || !inner.Blocks[phi.Block()] {
			if fi.lin(v).eq(jm1) {
				c.fail(key, p.app.Pos(), "the pushed interval always starts at j−1: after intervals were popped at this position the enclosing interval must inherit the left boundary of the interval closed last, otherwise its group is reported incompletely")
			} else {
				c.fail(key, p.app.Pos(), "left boundary %s of the pushed interval is neither j−1 nor inherited from the popped interval", fi.lin(v))
			}
			continue
		}
		okAll := true
		nEntry, nBack := 0, 0
		for k, e := range phi.Edges {
			pred := phi.Block().Preds[k]
			afterPop := pred == pop.Block() || pop.Block().Dominates(pred)
			if inner.Blocks[pred] && phi.Block() == inner.Header {
				// back edge of the pop loop
				nBack++
				ptr, f, isFL := fieldLoad(e)
				if !(afterPop && isFL && ptr == s.topPtr && f == s.jF) {
					okAll = false
					c.fail(key, p.app.Pos(), "on the path through a pop (edge from block %d) the left boundary carried to the next push is %s, not the left boundary of the popped interval", pred.Index, fi.lin(e))
					break
				}
			} else {
				nEntry++
				if !fi.lin(e).eq(jm1) {
					okAll = false
					c.fail(key, p.app.Pos(), "on the pop-free path (edge from block %d) the left boundary is %s, expected j−1 = %s", pred.Index, fi.lin(e), jm1)
					break
				}
			}
		}
		if okAll && (nEntry == 0 || nBack == 0) {
			okAll = false
			c.fail(key, p.app.Pos(), "left boundary phi has %d pop-free and %d popped incoming values; both kinds are required", nEntry, nBack)
		}
		if okAll {
			c.ok(key, p.app.Pos(), "left boundary = j−1 on pop-free paths, = popped.left after a pop")
		}
	}
	// the popped item whose boundary is inherited is the one reported
	st, ok := fi.topRef(s.topPtr)
	c.check(ok && st == pop.X, name+":pop:same-item", pop.Pos(), "the item reported to the callback, the item whose boundary is inherited and the item popped are the same stack top",
		"the pop removes a different item than the one reported / inherited from")
}

// ---------------------------------------------------------------- R-SEG-ORDER

func ruleSegOrder(c *Ctx) {
	s := c.segOrFail("suffix.scan")
	if s == nil {
		return
	}
	fi := s.fi
	name := fnName(s.fn)
	if len(s.pops) != 1 || len(s.pushes) == 0 {
		c.fail(name+":shape", s.fn.Pos(), "expected one pop and at least one push, found %d / %d", len(s.pops), len(s.pushes))
		return
	}
	pop := s.pops[0]
	tops := s.topNLoads()
	var ncur ssa.Value
	for _, p := range s.pushes {
		if p.n != nil {
			ncur = p.n
		}
	}
	if ncur == nil {
		c.fail(name+":shape", s.fn.Pos(), "cannot resolve the incoming lcp value")
		return
	}
	n := fi.lin(ncur)
	proveTop := func(mk func(top Lin) Lin, conds []Cond) bool {
		for _, t := range tops {
			if fi.proveLE0(mk(t), conds, nil, map[string]bool{}, 0) {
				return true
			}
		}
		return false
	}
	// push only under n > top.n
	for i, p := range s.pushes {
		key := fmt.Sprintf("%s:push#%d:guard", name, i+1)
		ok := proveTop(func(t Lin) Lin { return t.sub(n).addc(1) }, fi.condsAt(p.blk))
		c.check(ok && p.app.Call.Args[0] == s.stack, key, p.app.Pos(), "push onto the current stack only under n > top.n",
			"the push is not dominated by n > top.n for the current top (facts: "+factStrings(fi.factsAt(p.blk))+")")
	}
	// pop only under n < top.n
	c.check(proveTop(func(t Lin) Lin { return n.sub(t).addc(1) }, fi.condsAt(pop.Block())) && pop.X == s.stack,
		name+":pop:guard", pop.Pos(), "pop only under n < top.n",
		"the pop is not dominated by n < top.n (facts: "+factStrings(fi.factsAt(pop.Block()))+")")
	// report precedes the pop of the same item and nothing else happens in between
	bad := ""
	ra := fi.reachAvoid(s.cb.Block(), pop.Block())
	for b := range ra {
		if b == s.cb.Block() && !fi.reach[s.cb.Block()][s.cb.Block()] {
			continue
		}
		for _, p := range s.pushes {
			if p.blk == b {
				bad = "a push"
			}
		}
		if _, isRet := b.Instrs[len(b.Instrs)-1].(*ssa.Return); isRet {
			bad = "a return"
		}
		if l := fi.loopOf(pop.Block()); l != nil && b == l.Header && b != pop.Block() {
			bad = "the next iteration"
		}
	}
	if fi.instrIx[s.cb] > fi.instrIx[ssa.Instruction(pop)] && s.cb.Block() == pop.Block() {
		bad = "the report after the pop"
	}
	c.check(bad == "", name+":report-then-pop", s.cb.Pos(), "every path from the callback reaches the pop of the reported item first (children are reported before the enclosing interval is touched)",
		"after the callback control can reach "+bad+" without popping the reported interval")
	// report iff top.n ≥ minLen: every edge into the pop that bypasses the callback carries top.n < minLen
	mn := fi.lin(s.minLen)
	okIff := true
	detail := ""
	var edges [][2]*ssa.BasicBlock
	// collect edges entering the region {pop block} from blocks from which the callback was not executed
	for _, p := range pop.Block().Preds {
		edges = append(edges, [2]*ssa.BasicBlock{p, pop.Block()})
	}
	if pop.Block() == s.cb.Block() {
		edges = nil
		for _, p := range pop.Block().Preds {
			_ = p
		}
	}
	for _, e := range edges {
		p := e[0]
		if p == s.cb.Block() || s.cb.Block().Dominates(p) {
			continue
		}
		cs := fi.edgeConds(p, e[1])
		if !proveTop(func(t Lin) Lin { return t.sub(mn).addc(1) }, cs) {
			okIff = false
			detail = fmt.Sprintf("edge from block %d (facts %s)", p.Index, factStrings(fi.factsOf(cs)))
		}
	}
	c.check(okIff, name+":report-iff", s.cb.Pos(), "an interval is popped without a report only under top.n < minLen",
		"an interval with top.n ≥ minLen can be popped without being reported: "+detail)
	// n == top.n: stack unchanged on the way to the next position
	// every stack-typed phi outside the pop loop: operands coming out of the scan body are a push result or the unchanged stack under n = top.n
	inner := fi.loopOf(pop.Block())
	nEq := 0
	okEq := true
	detail = ""
	for _, phi := range fi.phis {
		if !types.Identical(phi.Type(), s.stack.Type()) || phi == s.stack {
			continue
		}
		if inner != nil && inner.Blocks[phi.Block()] {
			continue
		}
		for k, e := range phi.Edges {
			pred := phi.Block().Preds[k]
			if inner == nil || !inner.Blocks[pred] {
				// edges from outside the pop loop: initial stack or forwarded phis
				isPush := false
				for _, p := range s.pushes {
					if ssa.Value(p.app) == e {
						isPush = true
					}
				}
				if isPush || e != s.stack {
					continue
				}
			}
			isPush := false
			for _, p := range s.pushes {
				if ssa.Value(p.app) == e {
					isPush = true
				}
			}
			if isPush {
				continue
			}
			if e == s.stack {
				nEq++
				cs := fi.edgeConds(pred, phi.Block())
				// (one level of path sensitivity: the pop loop may be left through a short-circuit
				// condition whose alternatives only merge at the exit)
				both := func(mk func(t Lin) Lin) bool {
					if proveTop(mk, cs) {
						return true
					}
					var goals []Lin
					for _, t := range tops {
						goals = append(goals, mk(t))
					}
					extra := fi.factsOf(fi.edgeLast(pred, phi.Block()))
					return fi.proveAny(goals, pred, extra)
				}
				eq := both(func(t Lin) Lin { return n.sub(t) }) && both(func(t Lin) Lin { return t.sub(n) })
				if !eq {
					okEq = false
					detail = fmt.Sprintf("edge from block %d leaves the stack unchanged although n = top.n is not established (facts %s)", pred.Index, factStrings(fi.factsOf(cs)))
				}
				continue
			}
			if _, isPhi := e.(*ssa.Phi); isPhi {
				continue
			}
			okEq = false
			detail = fmt.Sprintf("edge from block %d carries %s to the next scan position: neither a push nor the unchanged stack", pred.Index, e.Name())
		}
	}
	c.check(okEq && nEq > 0, name+":equal-keeps", s.fn.Pos(), "on n = top.n the scan moves on with the stack unchanged (one report per interval)",
		"n = top.n handling: "+detail+fmt.Sprintf(" (unchanged-stack edges found: %d)", nEq))
}

// ---------------------------------------------------------------- R-SEG-SCAN

func ruleSegScan(c *Ctx) {
	s := c.segOrFail("suffix.scan")
	if s == nil {
		return
	}
	fi := s.fi
	name := fnName(s.fn)
	// induction of the scan position
	jphi, ok := s.jv.(*ssa.Phi)
	if !ok {
		c.fail(name+":position", s.cbSeg.Pos(), "the segment's high bound is not the loop position")
		return
	}
	okInit, okStep := true, true
	nIn, nBack := 0, 0
	for k, e := range jphi.Edges {
		pred := jphi.Block().Preds[k]
		if jphi.Block().Dominates(pred) {
			nBack++
			// resolve forwarding phis in the latch
			if !fi.lin(e).eq(fi.lin(jphi).addc(1)) {
				okStep = false
			}
		} else {
			nIn++
			if k0, isC := constInt(e); !isC || k0 != 1 {
				okInit = false
			}
		}
	}
	c.check(okInit && nIn > 0, name+":position:start", jphi.Pos(), "the scan starts at position 1 (lcp[0] belongs to no pair)", "the scan position does not start at 1")
	c.check(okStep && nBack > 0, name+":position:step", jphi.Pos(), "the scan position advances by exactly 1", "the scan position does not advance by exactly 1 on every back edge")
	// incoming value
	var ncur ssa.Value
	for _, p := range s.pushes {
		if p.n != nil {
			ncur = p.n
		}
	}
	nphi, ok := ncur.(*ssa.Phi)
	if !ok {
		c.fail(name+":incoming", s.fn.Pos(), "the incoming lcp value is not a merge of lcp[j] / maxLen / sentinel")
		return
	}
	mx := fi.lin(s.maxLen)
	llcp := fi.lenOf(s.lcp)
	j := fi.lin(jphi)
	kinds := map[string]int{}
	okAll := true
	detail := ""
	var lcpLoad ssa.Value
	// every way into the merged value (the clamp may be a merge of its own, nested in the sentinel merge)
	for _, lf := range mergeLeaves(nphi) {
		e, pred := lf.V, lf.Pred
		if pred == nil {
			okAll = false
			detail = "the incoming value is not a merge"
			continue
		}
		cs := fi.edgeConds(pred, lf.Phi.Block())
		h := func() map[string]bool { return map[string]bool{} }
		if kc, isC := constInt(e); isC {
			if kc < 0 && fi.proveLE0(llcp.sub(j), cs, nil, h(), 0) {
				kinds["sentinel"]++
				continue
			}
			okAll = false
			detail = fmt.Sprintf("constant %d on edge from block %d is not a negative sentinel taken exactly when j ≥ len(lcp)", kc, pred.Index)
			continue
		}
		if ld, isLd := e.(*ssa.UnOp); isLd && ld.Op == token.MUL {
			if ia, isIA := ld.X.(*ssa.IndexAddr); isIA && ia.X == s.lcp && fi.lin(ia.Index).eq(j) {
				lcpLoad = ld
				if fi.proveLE0(j.addc(1).sub(llcp), fi.condsAt(ia.Block()), nil, h(), 0) &&
					fi.proveLE0(fi.lin(ld).sub(mx), cs, nil, h(), 0) {
					kinds["lcp[j]"]++
					continue
				}
				okAll = false
				detail = fmt.Sprintf("lcp[j] on edge from block %d is not guarded by j < len(lcp) and lcp[j] ≤ maxLen", pred.Index)
				continue
			}
		}
		if e == s.maxLen || fi.lin(e).eq(mx) {
			// clamp: taken when lcp[j] > maxLen
			okc := false
			for _, b := range s.fn.Blocks {
				for _, in := range b.Instrs {
					if ld, isLd := in.(*ssa.UnOp); isLd && ld.Op == token.MUL {
						if ia, isIA := ld.X.(*ssa.IndexAddr); isIA && ia.X == s.lcp && fi.lin(ia.Index).eq(j) {
							if fi.proveLE0(mx.sub(fi.lin(ld)).addc(1), cs, nil, h(), 0) {
								okc = true
							}
						}
					}
				}
			}
			if okc {
				kinds["clamp"]++
				continue
			}
			okAll = false
			detail = fmt.Sprintf("maxLen on edge from block %d is not taken exactly when lcp[j] > maxLen", pred.Index)
			continue
		}
		okAll = false
		detail = fmt.Sprintf("incoming value %s on edge from block %d is none of lcp[j], maxLen, sentinel", fi.lin(e), pred.Index)
	}
	_ = lcpLoad
	c.check(okAll && kinds["sentinel"] == 1 && kinds["lcp[j]"] >= 1, name+":incoming", nphi.Pos(),
		fmt.Sprintf("incoming value = lcp[j] (j < len(lcp), ≤ maxLen) / maxLen (clamp) / negative sentinel at the end: %v", kinds),
		"incoming lcp value: "+detail+fmt.Sprintf(" (found %v)", kinds))
	// returns only with an empty stack, right after a pop
	nRet := 0
	okRet := true
	detail = ""
	if len(s.pops) == 1 {
		pop := s.pops[0]
		for _, b := range s.fn.Blocks {
			ret, isRet := b.Instrs[len(b.Instrs)-1].(*ssa.Return)
			if !isRet {
				continue
			}
			// only returns that end the scan: reachable from the position loop (the scan may be written
			// inside Segments itself, whose argument checks return before any interval is open)
			if jl := fi.loopOf(jphi.Block()); jl != nil && !fi.reach[jl.Header][b] && b != jl.Header {
				continue
			}
			nRet++
			cs := fi.condsAt(b)
			if len(b.Preds) == 1 {
				cs = fi.edgeConds(b.Preds[0], b)
				cs = append(cs, fi.condsAt(b)...)
			}
			lp := fi.lenOf(pop)
			// … or the return is taken under len(stack) = 0 for the stack of this iteration (pop loop
			// `for len(stack) > 0 && …` followed by the emptiness test)
			emptyNow := false
			if st, isV := s.stack.(ssa.Value); isV && st != nil {
				emptyNow = fi.proveLE0(fi.lenOf(st), cs, nil, map[string]bool{}, 0)
			}
			if !emptyNow && !(pop.Block().Dominates(b) && fi.proveLE0(lp, cs, nil, map[string]bool{}, 0)) {
				okRet = false
				detail = fmt.Sprintf("return at %s is not dominated by a pop that emptied the stack", c.pos(ret.Pos()))
			}
		}
	} else {
		okRet = false
		detail = "pop not found"
	}
	c.check(okRet && nRet > 0, name+":exit", s.fn.Pos(), "the scan returns only after the stack was emptied (all open intervals reported)",
		"the scan can stop with open intervals: "+detail)
	// segment = sa[top.left : j], item and position of this iteration
	c.check(s.cbSeg.Max == nil, name+":segment", s.cbSeg.Pos(), "reported segment is sa[top.left:j]", "reported segment has an unexpected capacity bound")
}

// ======================================================================
// C09 (narrow): R-TEXT-RO, R-LCP-INPUTS, R-KASAI, R-INVERT
// ======================================================================

func init() {
	reg(&Rule{ID: "R-TEXT-RO", Min: 1,
		Doc: "no function of package suffix stores into, copies into or appends to a []byte, and byte slices are passed outside the package only to read-only library functions: the text t is never modified",
		Run: ruleTextRO})
	reg(&Rule{ID: "R-LCP-INPUTS", Min: 5,
		Doc: "suffix.LCP reaches its core only with len(sa) = len(sainv) = len(lcp) = len(t); a supplied sa/sainv is used only when its length matches, otherwise a fresh one is filled by Sort(t, ·) / InvertSA(sa, ·) before use",
		Run: ruleLcpInputs})
	reg(&Rule{ID: "R-KASAI", Min: 5,
		Doc: "the LCP core follows the Kasai/phi recurrence: over all text positions i with rank k = sainv[i]: k = 0 stores lcp[0] = 0 and restarts l; otherwise j = sa[k−1], l += matchLen(t[i+l:], t[j+l:]), lcp[k] = l, then l = max(l−1, 0)",
		Run: ruleKasai})
	reg(&Rule{ID: "R-INVERT", Min: 2,
		Doc: "InvertSA stores sainv[sa[j]] = j for every index j and rejects slices of different length",
		Run: ruleInvert})
}

func ruleTextRO(c *Ctx) {
	n := 0
	bad := 0
	for _, fn := range c.allFuncs {
		if fn.Pkg != c.suffix {
			continue
		}
		n++
		for _, b := range fn.Blocks {
			for _, in := range b.Instrs {
				switch x := in.(type) {
				case *ssa.Store:
					var base ssa.Value
					switch a := x.Addr.(type) {
					case *ssa.IndexAddr:
						base = a.X
					}
					if base != nil && isByteSeq(base.Type()) {
						bad++
						c.fail(fmt.Sprintf("%s:byte-store#%d", fnName(fn), bad), x.Pos(), "store into an element of a byte slice: package suffix must not modify the text")
					}
				case *ssa.Call:
					if bi, ok := x.Call.Value.(*ssa.Builtin); ok {
						if (bi.Name() == "copy" || bi.Name() == "append") && len(x.Call.Args) > 0 && isByteSeq(x.Call.Args[0].Type()) {
							bad++
							c.fail(fmt.Sprintf("%s:byte-%s#%d", fnName(fn), bi.Name(), bad), x.Pos(), "%s with a byte-slice destination: package suffix must not modify (or alias-extend) the text", bi.Name())
						}
						continue
					}
					callee := x.Call.StaticCallee()
					passes := false
					for _, a := range x.Call.Args {
						if isByteSeq(a.Type()) {
							passes = true
						}
					}
					if !passes {
						continue
					}
					if callee == nil {
						bad++
						c.fail(fmt.Sprintf("%s:byte-escape#%d", fnName(fn), bad), x.Pos(), "a byte slice is passed to a dynamically dispatched call; read-only use cannot be decided")
						continue
					}
					if callee.Pkg == c.suffix {
						continue // analysed itself
					}
					pk := ""
					if callee.Pkg != nil {
						pk = callee.Pkg.Pkg.Path()
					}
					if pk == "bytes" && (callee.Name() == "Equal" || callee.Name() == "Compare" || callee.Name() == "HasPrefix") {
						continue
					}
					bad++
					c.fail(fmt.Sprintf("%s:byte-escape#%d", fnName(fn), bad), x.Pos(), "a byte slice is passed to %s.%s, which is not in the list of read-only library functions", pk, callee.Name())
				}
			}
		}
	}
	if bad == 0 {
		c.ok("suffix:text-read-only", token.NoPos, "%d functions of package suffix: no store / copy / append with a byte-slice destination, byte slices leave the package only to bytes.Equal/Compare", n)
	}
}

func isByteSeq(t types.Type) bool {
	switch u := t.Underlying().(type) {
	case *types.Slice:
		b, ok := u.Elem().Underlying().(*types.Basic)
		return ok && b.Kind() == types.Uint8
	case *types.Pointer:
		if a, ok := u.Elem().Underlying().(*types.Array); ok {
			b, ok := a.Elem().Underlying().(*types.Basic)
			return ok && b.Kind() == types.Uint8
		}
	}
	return false
}

func ruleLcpInputs(c *Ctx) {
	fn := c.suffix.Func("LCP")
	if fn == nil || len(fn.Params) != 4 {
		c.fail("suffix.LCP", token.NoPos, "suffix.LCP(t, sa, sainv, lcp) not found")
		return
	}
	fi := c.info(fn)
	t, saP, invP, lcpP := fn.Params[0], fn.Params[1], fn.Params[2], fn.Params[3]
	// the core: the static callee of package suffix that receives t and lcp
	var core *ssa.Call
	for _, b := range fn.Blocks {
		for _, in := range b.Instrs {
			if call, ok := in.(*ssa.Call); ok && call.Call.StaticCallee() != nil && call.Call.StaticCallee().Pkg == c.suffix && len(call.Call.Args) == 4 &&
				call.Call.Args[0] == ssa.Value(t) && call.Call.Args[3] == ssa.Value(lcpP) {
				core = call
			}
		}
	}
	if core == nil {
		c.fail("suffix.LCP:core", fn.Pos(), "no call of the LCP core with (t, sa, sainv, lcp)")
		return
	}
	sa, inv := core.Call.Args[1], core.Call.Args[2]
	lt := fi.lenOf(t)
	eqAt := func(a, b Lin) bool {
		return fi.proveAt(a.sub(b), core.Block(), nil) && fi.proveAt(b.sub(a), core.Block(), nil)
	}
	c.check(eqAt(fi.lenOf(sa), lt), "suffix.LCP:len(sa)", core.Pos(), "core reached only with len(sa) = len(t)", "the LCP core can be reached with len(sa) ≠ len(t)")
	c.check(eqAt(fi.lenOf(inv), fi.lenOf(sa)), "suffix.LCP:len(sainv)", core.Pos(), "core reached only with len(sainv) = len(sa)", "the LCP core can be reached with len(sainv) ≠ len(sa)")
	c.check(eqAt(fi.lenOf(lcpP), lt), "suffix.LCP:len(lcp)", core.Pos(), "core reached only with len(lcp) = len(t)", "the LCP core can be reached with len(lcp) ≠ len(t)")
	// provenance of sa: the parameter (length matches) or a fresh slice passed to Sort(t, ·)
	srt := c.suffix.Func("Sort")
	invF := c.suffix.Func("InvertSA")
	prov := func(v ssa.Value, param *ssa.Parameter, filler *ssa.Function, first ssa.Value, what string) {
		key := "suffix.LCP:" + what + ":provenance"
		leaves := phiLeaves(v)
		good := true
		detail := ""
		for _, lf := range leaves {
			if lf.V == ssa.Value(param) {
				continue
			}
			mk, isMk := lf.V.(*ssa.MakeSlice)
			if !isMk {
				good = false
				detail = "value is neither the parameter nor a fresh slice"
				continue
			}
			filled := false
			for _, ref := range *mk.Referrers() {
				if call, ok := ref.(*ssa.Call); ok && call.Call.StaticCallee() == filler && filler != nil && len(call.Call.Args) == 2 &&
					call.Call.Args[1] == ssa.Value(mk) && call.Call.Args[0] == first &&
					(lf.Pred == nil || call.Block() == lf.Pred || call.Block().Dominates(lf.Pred)) {
					filled = true
				}
			}
			if !filled {
				good = false
				detail = "the freshly allocated " + what + " is not filled by " + what + "'s constructor before use"
			}
		}
		c.check(good, key, core.Pos(), what+" is the caller's (length-checked) or freshly computed from the same text / suffix array", detail)
	}
	prov(sa, saP, srt, t, "sa")
	prov(inv, invP, invF, sa, "sainv")
}

func ruleKasai(c *Ctx) {
	lcpFn := c.suffix.Func("LCP")
	if lcpFn == nil {
		c.fail("suffix.lcp-core", token.NoPos, "suffix.LCP not found")
		return
	}
	var core *ssa.Function
	for _, b := range lcpFn.Blocks {
		for _, in := range b.Instrs {
			if call, ok := in.(*ssa.Call); ok && call.Call.StaticCallee() != nil && call.Call.StaticCallee().Pkg == c.suffix && len(call.Call.Args) == 4 && call.Call.Args[0] == ssa.Value(lcpFn.Params[0]) {
				core = call.Call.StaticCallee()
			}
		}
	}
	if core == nil || len(core.Params) != 4 {
		c.fail("suffix.lcp-core", lcpFn.Pos(), "LCP core not found")
		return
	}
	fi := c.info(core)
	name := fnName(core)
	t, sa, inv, lcp := core.Params[0], core.Params[1], core.Params[2], core.Params[3]
	if len(fi.loops) != 1 {
		c.fail(name+":loop", core.Pos(), "expected a single loop over the text positions, found %d", len(fi.loops))
		return
	}
	L := fi.loops[0]
	// rank k = sainv[i], i the loop index covering 0 … len(sainv)−1
	var kLoad *ssa.UnOp
	var iIdx ssa.Value
	for b := range L.Blocks {
		for _, in := range b.Instrs {
			if ld, ok := in.(*ssa.UnOp); ok && ld.Op == token.MUL {
				if ia, isIA := ld.X.(*ssa.IndexAddr); isIA && ia.X == ssa.Value(inv) {
					kLoad, iIdx = ld, ia.Index
				}
			}
		}
	}
	if kLoad == nil {
		c.fail(name+":rank", core.Pos(), "the loop does not read the rank sainv[i]")
		return
	}
	// coverage of i
	cov := false
	for _, in := range L.Header.Instrs {
		ph, ok := in.(*ssa.Phi)
		if !ok || !isIntType(ph.Type()) {
			continue
		}
		iff, isIf := L.Header.Instrs[len(L.Header.Instrs)-1].(*ssa.If)
		if !isIf {
			continue
		}
		stay := L.Blocks[L.Header.Succs[0]]
		fs := fi.factsOf([]Cond{{iff.Cond, stay}})
		if len(fs) != 1 || fs[0].Op != LE {
			continue
		}
		var initL Lin
		step := true
		nb := 0
		for k, e := range ph.Edges {
			if L.Blocks[ph.Block().Preds[k]] {
				nb++
				if !fi.lin(e).eq(fi.lin(ph).addc(1)) {
					step = false
				}
			} else {
				initL = fi.lin(e)
			}
		}
		if !step || nb == 0 {
			continue
		}
		li := fi.lenOf(inv)
		ii := fi.lin(iIdx)
		if ii.eq(fi.lin(ph).addc(1)) && initL.isConst() && initL.c == -1 && fs[0].L.eq(fi.lin(ph).addc(2).sub(li)) {
			cov = true
		}
		if ii.eq(fi.lin(ph)) && initL.isConst() && initL.c == 0 && fs[0].L.eq(fi.lin(ph).addc(1).sub(li)) {
			cov = true
		}
	}
	c.check(cov, name+":positions", kLoad.Pos(), "the loop visits every text position i = 0 … len(sainv)−1 and reads k = sainv[i]", "the loop does not visit every text position 0 … len(sainv)−1")
	// rank 0: lcp[0] = 0
	zero := false
	for b := range L.Blocks {
		for _, in := range b.Instrs {
			st, ok := in.(*ssa.Store)
			if !ok {
				continue
			}
			ia, isIA := st.Addr.(*ssa.IndexAddr)
			if !isIA || ia.X != ssa.Value(lcp) || !isConstZero(st.Val) {
				continue
			}
			// index 0 (constant, or k under k == 0), block dominated by k == 0
			k := fi.lin(kLoad)
			idx0 := isConstZero(ia.Index) || fi.lin(ia.Index).eq(k)
			if idx0 && fi.proveLE(k, b, nil) && fi.proveLE(k.scale(-1), b, nil) {
				zero = true
			}
		}
	}
	if !zero {
		// or unconditionally before the loop
		for _, b := range core.Blocks {
			if L.Blocks[b] {
				continue
			}
			for _, in := range b.Instrs {
				if st, ok := in.(*ssa.Store); ok {
					if ia, isIA := st.Addr.(*ssa.IndexAddr); isIA && ia.X == ssa.Value(lcp) && isConstZero(st.Val) && isConstZero(ia.Index) && b.Dominates(L.Header) {
						zero = true
					}
				}
			}
		}
	}
	c.check(zero, name+":lcp[0]", core.Pos(), "lcp[0] = 0 is stored (rank-0 branch)", "lcp[0] is never set to 0: LCP leaves a stale value in slot 0 of a reused buffer")
	// general step
	var ml *ssa.Call
	for b := range L.Blocks {
		for _, in := range b.Instrs {
			if call, ok := in.(*ssa.Call); ok && call.Call.StaticCallee() != nil && call.Call.StaticCallee().Pkg == c.suffix && len(call.Call.Args) == 2 &&
				isByteSeq(call.Call.Args[0].Type()) && isByteSeq(call.Call.Args[1].Type()) && isIntType(call.Type()) {
				ml = call
			}
		}
	}
	if ml == nil {
		c.fail(name+":compare", core.Pos(), "no common-prefix computation in the loop")
		return
	}
	a0, ok0 := ml.Call.Args[0].(*ssa.Slice)
	a1, ok1 := ml.Call.Args[1].(*ssa.Slice)
	shape := ok0 && ok1 && a0.X == ssa.Value(t) && a1.X == ssa.Value(t) && a0.High == nil && a1.High == nil && a0.Low != nil && a1.Low != nil
	var lphi ssa.Value
	var jLoad *ssa.UnOp
	if shape {
		// lows are i + l and j + l for the same l; j = sa[k−1]
		i := fi.lin(iIdx)
		for _, pr := range [][2]*ssa.Slice{{a0, a1}, {a1, a0}} {
			d := fi.lin(pr[0].Low).sub(i) // = l
			if len(d.t) != 1 || d.c != 0 {
				continue
			}
			rest := fi.lin(pr[1].Low).sub(d) // = j
			av := fi.atomValues()
			for a := range d.t {
				lphi = av[a]
			}
			if len(rest.t) == 1 && rest.c == 0 {
				for a := range rest.t {
					if ld, ok := av[a].(*ssa.UnOp); ok && ld.Op == token.MUL {
						if ia, isIA := ld.X.(*ssa.IndexAddr); isIA && ia.X == ssa.Value(sa) && fi.lin(ia.Index).eq(fi.lin(kLoad).addc(-1)) {
							jLoad = ld
						}
					}
				}
			}
		}
	}
	c.check(shape && jLoad != nil && lphi != nil, name+":compare", ml.Pos(), "compares t[i+l:] with t[j+l:], j = sa[k−1]", "the common prefix is not computed between t[i+l:] and t[sa[k−1]+l:] for the carried l")
	if lphi == nil {
		return
	}
	// lcp[k] = l + matchLen
	lnew := fi.lin(lphi).add(fi.lin(ml))
	stored := false
	for b := range L.Blocks {
		for _, in := range b.Instrs {
			if st, ok := in.(*ssa.Store); ok {
				if ia, isIA := st.Addr.(*ssa.IndexAddr); isIA && ia.X == ssa.Value(lcp) && fi.lin(ia.Index).eq(fi.lin(kLoad)) && fi.lin(st.Val).eq(lnew) {
					stored = true
				}
			}
		}
	}
	c.check(stored, name+":store", ml.Pos(), "lcp[k] = l + matchLen(…)", "lcp[k] is not set to the carried l plus the newly matched length")
	// carried l: l_new − 1 under l_new > 0, l_new (= 0) or 0 otherwise, 0 after rank 0
	ph, isPhi := lphi.(*ssa.Phi)
	carry := isPhi && ph.Block() == L.Header
	if carry {
		// one carried value on one control-flow edge; merges inside the loop body (the
		// post block of a counting loop collects the continue paths) are split per edge
		var edgeOK func(e ssa.Value, pred, blk *ssa.BasicBlock, depth int) bool
		edgeOK = func(e ssa.Value, pred, blk *ssa.BasicBlock, depth int) bool {
			if p2, isP := e.(*ssa.Phi); isP && depth < 4 && p2.Block() != L.Header && L.Blocks[p2.Block()] && p2.Block() == pred {
				for k2, e2 := range p2.Edges {
					if !edgeOK(e2, p2.Block().Preds[k2], p2.Block(), depth+1) {
						return false
					}
				}
				return true
			}
			cs := fi.edgeConds(pred, blk)
			el := fi.lin(e)
			switch {
			case el.eq(lnew.addc(-1)):
				// requires l_new ≥ 1
				return fi.proveLE0(linConst(1).sub(lnew), cs, nil, map[string]bool{}, 0)
			case el.eq(lnew):
				return fi.proveLE0(lnew, cs, nil, map[string]bool{}, 0)
			case el.isConst() && el.c == 0:
				// after rank 0 (restart) or when l_new ≤ 0
				k0 := fi.lin(kLoad)
				r0 := fi.proveLE0(k0, cs, nil, map[string]bool{}, 0) && fi.proveLE0(k0.scale(-1), cs, nil, map[string]bool{}, 0)
				return r0 || fi.proveLE0(lnew, cs, nil, map[string]bool{}, 0)
			}
			return false
		}
		for k, e := range ph.Edges {
			pred := ph.Block().Preds[k]
			if !L.Blocks[pred] {
				if !isConstZero(e) {
					carry = false
				}
				continue
			}
			if !edgeOK(e, pred, ph.Block(), 0) {
				carry = false
			}
		}
	}
	c.check(carry, name+":carry", ml.Pos(), "the carried length is max(l−1, 0), restarted at 0 after the rank-0 suffix", "the carried length is not max(l − 1, 0) (restart 0 after rank 0): the recurrence lcp(phi) ≥ l − 1 is not followed")
}

func ruleInvert(c *Ctx) {
	fn := c.suffix.Func("InvertSA")
	if fn == nil || len(fn.Params) != 2 {
		c.fail("suffix.InvertSA", token.NoPos, "suffix.InvertSA(sa, sainv) not found")
		return
	}
	fi := c.info(fn)
	sa, inv := fn.Params[0], fn.Params[1]
	okSt := false
	var at *ssa.BasicBlock
	var srcIA *ssa.IndexAddr
	for _, b := range fn.Blocks {
		for _, in := range b.Instrs {
			st, ok := in.(*ssa.Store)
			if !ok {
				continue
			}
			ia, isIA := st.Addr.(*ssa.IndexAddr)
			if !isIA || ia.X != ssa.Value(inv) {
				continue
			}
			ld, isLd := stripConv(ia.Index).(*ssa.UnOp)
			if !isLd || ld.Op != token.MUL {
				continue
			}
			ia2, isIA2 := ld.X.(*ssa.IndexAddr)
			if !isIA2 || ia2.X != ssa.Value(sa) {
				continue
			}
			if fi.lin(st.Val).eq(fi.lin(ia2.Index)) {
				okSt = true
				at = b
				srcIA = ia2
			}
		}
	}
	c.check(okSt, "suffix.InvertSA:store", fn.Pos(), "sainv[sa[j]] = j", "InvertSA does not store sainv[sa[j]] = j")
	cov := false
	if at != nil && srcIA != nil {
		if l := fi.loopOf(at); l != nil {
			// the loop visits every index of sa (range form or counting form)
			cov = fullRangeStore(fi, srcIA)
			lens := fi.proveAt(fi.lenOf(sa).sub(fi.lenOf(inv)), l.Header, nil) && fi.proveAt(fi.lenOf(inv).sub(fi.lenOf(sa)), l.Header, nil)
			cov = cov && lens
		}
	}
	c.check(cov, "suffix.InvertSA:all", fn.Pos(), "every index of sa is inverted, under len(sa) = len(sainv)", "InvertSA does not cover every index of sa under len(sa) = len(sainv)")
}
