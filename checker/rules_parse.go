package main

// Rules over the seven Parse methods: emission sites, window / minimum
// length guards, tiling, block clamp, empty-buffer discipline, W advance,
// nil-block branch.  (C01 C02 C03 C14 and parts of C12/C19.)

import (
	"fmt"
	"go/token"
	"go/types"
	"os"
	"sort"
	"strings"

	"golang.org/x/tools/go/ssa"
)

// Emit is one emission site: a Seq value that is appended to blk.Sequences.
type Emit struct {
	P        *Parser
	Fn       *ssa.Function
	Alloc    *ssa.Alloc
	LitLen   ssa.Value
	MatchLen ssa.Value
	Offset   ssa.Value
	Aux      ssa.Value
	Block    *ssa.BasicBlock
	Key      string
	Pos      token.Pos
}

func stripConv(v ssa.Value) ssa.Value {
	for {
		switch x := v.(type) {
		case *ssa.Convert:
			if isIntType(x.Type()) && isIntType(x.X.Type()) {
				v = x.X
				continue
			}
		case *ssa.ChangeType:
			v = x.X
			continue
		}
		return v
	}
}

func (c *Ctx) seqType() *types.Named { return c.namedType(c.lz, "Seq") }

// emits finds the emission sites in the functions reachable from each Parse.
func (c *Ctx) emits() []*Emit {
	seq := c.seqType()
	var out []*Emit
	for _, p := range c.parsers() {
		if p.Parse == nil {
			continue
		}
		var fns []*ssa.Function
		for fn := range c.reachable(p.Parse) {
			fns = append(fns, fn)
		}
		sort.Slice(fns, func(i, j int) bool { return fns[i].String() < fns[j].String() })
		for _, fn := range fns {
			var sites []*Emit
			for _, b := range fn.Blocks {
				for _, in := range b.Instrs {
					al, ok := in.(*ssa.Alloc)
					if !ok || !types.Identical(al.Type().(*types.Pointer).Elem(), seq) {
						continue
					}
					e := &Emit{P: p, Fn: fn, Alloc: al, Pos: al.Pos()}
					for _, ref := range *al.Referrers() {
						fa, ok := ref.(*ssa.FieldAddr)
						if !ok {
							continue
						}
						name := derefStruct(fa.X.Type()).Field(fa.Field).Name()
						for _, u := range *fa.Referrers() {
							st, ok := u.(*ssa.Store)
							if !ok || st.Addr != fa {
								continue
							}
							switch name {
							case "LitLen":
								e.LitLen = st.Val
							case "MatchLen":
								e.MatchLen = st.Val
							case "Offset":
								e.Offset = st.Val
								e.Block = st.Block()
							case "Aux":
								e.Aux = st.Val
							}
						}
					}
					if e.Offset == nil && e.MatchLen == nil {
						continue
					}
					if e.Block == nil {
						e.Block = al.Block()
					}
					sites = append(sites, e)
				}
			}
			sort.Slice(sites, func(i, j int) bool { return sites[i].Pos < sites[j].Pos })
			for i, e := range sites {
				e.Key = fmt.Sprintf("%s:emit#%d", fnName(fn), i+1)
			}
			out = append(out, sites...)
		}
	}
	return out
}

// atomsWithSuffix: atoms occurring in the facts/conds at a block whose base
// name (version stripped) ends with suffix.
func (fi *FuncInfo) atomsWithSuffix(suffix string) []string {
	set := map[string]bool{}
	for _, b := range fi.fn.Blocks {
		for _, in := range b.Instrs {
			if ld, ok := in.(*ssa.UnOp); ok && ld.Op == token.MUL && isIntType(ld.Type()) {
				l := fi.lin(ld)
				for a := range l.t {
					base := a
					if i := strings.Index(base, "@"); i >= 0 {
						base = base[:i]
					}
					if strings.HasSuffix(base, suffix) {
						set[a] = true
					} else if !strings.HasPrefix(base, "len(") && !strings.HasPrefix(base, "cap(") {
						// a private copy of the configuration field of that name
						if n := fi.fieldNameOfAtom(a); n != "" && strings.EqualFold("."+n, suffix) {
							set[a] = true
						}
					}
				}
			}
		}
	}
	var out []string
	for a := range set {
		out = append(out, a)
	}
	sort.Strings(out)
	return out
}

// isFieldFlow: the operand is read from a struct field (OSAP's edge values)
// rather than computed at the site.
func isFieldFlow(v ssa.Value) bool {
	v = stripConv(v)
	switch x := v.(type) {
	case *ssa.Field:
		if ld, ok := x.X.(*ssa.UnOp); ok && ld.Op == token.MUL {
			if al, isAlloc := ld.X.(*ssa.Alloc); isAlloc && computedLocal(al, 0) {
				return false
			}
		}
		return true
	case *ssa.UnOp:
		if x.Op == token.MUL {
			if r, p, ok := pathStr(x.X); ok {
				if al, isAlloc := r.(*ssa.Alloc); isAlloc && p != "" {
					return !computedLocal(al, 0)
				}
			}
		}
	}
	return false
}

// computedLocal: the local struct is filled in at the site, field by field (or copied from a local that is): a
// record the function computes, not one it reads back from a table.
func computedLocal(al *ssa.Alloc, depth int) bool {
	if al.Referrers() == nil || depth > 3 {
		return false
	}
	for _, r := range *al.Referrers() {
		switch x := r.(type) {
		case *ssa.FieldAddr:
			if x.Referrers() == nil {
				continue
			}
			for _, u := range *x.Referrers() {
				if st, ok := u.(*ssa.Store); ok && st.Addr == ssa.Value(x) {
					return true
				}
			}
		case *ssa.Store:
			if x.Addr != ssa.Value(al) {
				continue
			}
			if ld, ok := x.Val.(*ssa.UnOp); ok && ld.Op == token.MUL {
				if src, isAlloc := ld.X.(*ssa.Alloc); isAlloc && src != al && computedLocal(src, depth+1) {
					return true
				}
			}
		}
	}
	return false
}

func init() {
	reg(&Rule{ID: "R-WINGUARD", Min: 8,
		Doc: "the Offset operand of every emission site is dominated by 0 < o and o ≤ cfg.WindowSize (phi operands: guarded at each defining edge, initial pair excluded by the paired MatchLen phi)",
		Run: ruleWinGuard})
	reg(&Rule{ID: "R-MINLEN", Min: 8,
		Doc: "the MatchLen operand of every emission site is bounded below by the parser's minimum match length (min(3,inputLen) or MinMatchLen) on every path",
		Run: ruleMinLen})
	reg(&Rule{ID: "R-AUX", Min: 8,
		Doc: "no emission site and no other non-test code of package lz stores to Seq.Aux",
		Run: ruleAux})
	reg(&Rule{ID: "R-LITPAIR", Min: 9,
		Doc: "LitLen is len(q) of exactly the slice q appended to blk.Literals in the same block as the Seq append",
		Run: ruleLitPair})
	reg(&Rule{ID: "R-TILE", Min: 16,
		Doc: "literal slice is p[cursor:H]; the cursor's next value is H+MatchLen of the emitted Seq; epilogue appends p[cursor:] or stops at cursor only under NoTrailingLiterals ∧ len(Sequences)>0",
		Run: ruleTile})
	reg(&Rule{ID: "R-CLAMP-N", Min: 7,
		Doc: "block length n₀ = min(len(Data)−W, BlockSize) in every Parse",
		Run: ruleClampN})
	reg(&Rule{ID: "R-EMPTY", Min: 14,
		Doc: "ErrEmptyBuffer is returned with n=0 exactly on n₀==0, on both the nil and non-nil side; block truncated first on the non-nil side",
		Run: ruleEmpty})
	reg(&Rule{ID: "R-ADVANCE", Min: 14,
		Doc: "every success return of Parse is preceded on all paths by a store W := W_before + n with n the returned count",
		Run: ruleAdvance})
	reg(&Rule{ID: "R-NIL-NOEMIT", Min: 7,
		Doc: "on the blk==nil edge no instruction dereferences blk",
		Run: ruleNilNoEmit})
	reg(&Rule{ID: "R-WWRITERS", Min: 1,
		Doc: "ParserBuffer.W is stored only by Parse methods, Shrink, Reset and Init",
		Run: ruleWWriters})
	reg(&Rule{ID: "R-BLOCKLEN", Min: 1,
		Doc: "Block.Len sums len(Literals) and every MatchLen",
		Run: ruleBlockLen})
}

// ---------------------------------------------------------------- R-WINGUARD

func (c *Ctx) winAtoms(fi *FuncInfo) []string { return fi.atomsWithSuffix(".WindowSize") }

// guardedWindow: 1 ≤ o ≤ W provable with the given conditions.
func (c *Ctx) guardedWindow(fi *FuncInfo, o Lin, conds []Cond) (bool, string) {
	lo := fi.proveLE0(linConst(1).sub(o), conds, nil, map[string]bool{}, 0)
	if !lo {
		return false, "0 < o not established"
	}
	for _, w := range c.winAtoms(fi) {
		if fi.proveLE0(o.sub(linAtom(w)), conds, nil, map[string]bool{}, 0) {
			return true, "0 < o ∧ o ≤ " + w
		}
	}
	return false, "o ≤ WindowSize not established"
}

// pairSafe: simultaneous descent through the phi webs of offset and length.
// A leaf offset must be window-guarded on its defining edge, unless the
// paired length leaf is a constant < 1 (the initial "no candidate" pair).
func (c *Ctx) pairSafe(fi *FuncInfo, vo, vk ssa.Value, conds []Cond, seen map[[2]ssa.Value]bool, why *string) bool {
	key := [2]ssa.Value{vo, vk}
	if seen[key] {
		return true
	}
	seen[key] = true
	if ok, _ := c.guardedWindow(fi, fi.lin(vo), conds); ok {
		return true
	}
	po, ok1 := vo.(*ssa.Phi)
	pk, ok2 := vk.(*ssa.Phi)
	if ok1 && ok2 && po.Block() == pk.Block() {
		for i := range po.Edges {
			cs := append(append([]Cond{}, conds...), fi.edgeConds(po.Block().Preds[i], po.Block())...)
			if !c.pairSafe(fi, po.Edges[i], pk.Edges[i], cs, seen, why) {
				return false
			}
		}
		return true
	}
	if ok1 && !ok2 {
		// length is not a phi here: offset phi must be safe on all edges on its own
		for i := range po.Edges {
			cs := append(append([]Cond{}, conds...), fi.edgeConds(po.Block().Preds[i], po.Block())...)
			if !c.pairSafe(fi, po.Edges[i], vk, cs, seen, why) {
				return false
			}
		}
		return true
	}
	if k, ok := constInt(vk); ok && k < 1 {
		return true // initial pair; excluded at the site by MatchLen ≥ 1
	}
	*why = fmt.Sprintf("offset value %s (= %s) paired with length %s is not window-guarded where it is defined", vo.Name(), fi.lin(vo), vk.Name())
	return false
}

func ruleWinGuard(c *Ctx) {
	for _, e := range c.emits() {
		fi := c.info(e.Fn)
		if e.Offset == nil {
			c.fail(e.Key, e.Pos, "Seq literal without an Offset operand")
			continue
		}
		if isFieldFlow(e.Offset) {
			c.fieldFlowWindow(e)
			continue
		}
		o := stripConv(e.Offset)
		conds := fi.condsAt(e.Block)
		if ok, how := c.guardedWindow(fi, fi.lin(o), conds); ok {
			c.ok(e.Key, e.Pos, "Offset %s: %s", fi.lin(o), how)
			continue
		}
		// phi step: guard at each definition, initial pair excluded by MatchLen ≥ 1
		k := stripConv(e.MatchLen)
		var why string
		if _, isPhi := o.(*ssa.Phi); isPhi && c.pairSafe(fi, o, k, conds, map[[2]ssa.Value]bool{}, &why) &&
			fi.proveLE0(linConst(1).sub(fi.lin(k)), conds, nil, map[string]bool{}, 0) {
			c.ok(e.Key, e.Pos, "Offset %s: every non-initial incoming value is window-guarded where assigned; the initial pair is excluded by MatchLen ≥ 1", o.Name())
			continue
		}
		_, how := c.guardedWindow(fi, fi.lin(o), conds)
		if why != "" {
			how = why
		}
		c.fail(e.Key, e.Pos, "Offset operand %s = %s of the emitted Seq: %s on every path (dominating facts: %s)", o.Name(), fi.lin(o), how, factStrings(fi.factsAt(e.Block)))
	}
}

func factStrings(fs []Fact) string {
	var ss []string
	for _, f := range fs {
		ss = append(ss, f.String())
	}
	return "{" + strings.Join(ss, "; ") + "}"
}

// fieldFlowWindow handles parsers whose Seq operands are read from stored
// records (OSAP: edge{m,o} / opt{m,o,c}).  Every store to a field named like
// the offset field, in any function reachable from Parse, must store (a) a
// value that is window-guarded at the store, (b) a value loaded from such a
// field, or (c) constant 0; and the emission must be guarded by o != 0.
func (c *Ctx) fieldFlowWindow(e *Emit) {
	fi := c.info(e.Fn)
	// emission guarded by o != 0
	o := stripConv(e.Offset)
	nz := false
	for _, cd := range fi.condsAt(e.Block) {
		cd = unNot(cd)
		if bo, ok := cd.V.(*ssa.BinOp); ok && (bo.Op == token.EQL || bo.Op == token.NEQ) {
			if k, isC := constInt(bo.Y); isC && k == 0 && sameFieldRead(bo.X, o) {
				if (bo.Op == token.NEQ) == cd.True {
					nz = true
				}
			}
		}
	}
	c.check(nz, e.Key+":nonzero", e.Pos, "emission is dominated by Offset != 0", "emission of a stored record is not dominated by a test Offset != 0 (literal steps carry Offset 0)")
	offField := fieldNameOfRead(o)
	n := 0
	for _, st := range c.recordFieldStores(e.P, offField) {
		n++
		sfi := c.info(st.Parent())
		v := stripConv(st.Val)
		key := fmt.Sprintf("%s:store-%s#%d", fnName(st.Parent()), offField, n)
		switch {
		case isConstZero(v):
			c.ok(key, st.Pos(), "stores constant 0 (literal step)")
		case isFieldRead(v, offField):
			c.ok(key, st.Pos(), "copies a stored offset")
		default:
			// the lower bound 1 ≤ o is the emission's o != 0 test together with
			// the unsigned field type; the upper bound must hold at the store
			conds := sfi.condsAt(st.Block())
			upper := ""
			for _, w := range c.winAtoms(sfi) {
				if sfi.proveLE0(sfi.lin(v).sub(linAtom(w)), conds, nil, map[string]bool{}, 0) {
					upper = w
				}
			}
			unsigned := false
			if b, ok := st.Val.Type().Underlying().(*types.Basic); ok && b.Info()&types.IsUnsigned != 0 {
				unsigned = true
			}
			if upper != "" && unsigned {
				c.ok(key, st.Pos(), "stored offset %s ≤ %s (unsigned; non-zero is tested at the emission)", sfi.lin(v), upper)
			} else {
				c.fail(key, st.Pos(), "value %s stored to record field %q is neither bounded by WindowSize at the store, nor a copy of a stored offset, nor 0", sfi.lin(v), offField)
			}
		}
	}
	if n == 0 {
		c.fail(e.Key+":stores", e.Pos, "no store to record field %q found", offField)
	}
}

func isConstZero(v ssa.Value) bool { k, ok := constInt(v); return ok && k == 0 }

func fieldNameOfRead(v ssa.Value) string {
	switch x := v.(type) {
	case *ssa.Field:
		return x.X.Type().Underlying().(*types.Struct).Field(x.Field).Name()
	case *ssa.UnOp:
		if fa, ok := x.X.(*ssa.FieldAddr); ok {
			return derefStruct(fa.X.Type()).Field(fa.Field).Name()
		}
	}
	return ""
}

func isFieldRead(v ssa.Value, name string) bool {
	return fieldNameOfRead(stripConv(v)) == name && name != ""
}

func sameFieldRead(a, b ssa.Value) bool {
	a, b = stripConv(a), stripConv(b)
	if a == b {
		return true
	}
	ra, pa, ok1 := pathStr(addrOf(a))
	rb, pb, ok2 := pathStr(addrOf(b))
	return ok1 && ok2 && ra == rb && pa == pb
}

func addrOf(v ssa.Value) ssa.Value {
	if u, ok := v.(*ssa.UnOp); ok && u.Op == token.MUL {
		return u.X
	}
	return v
}

// recordFieldStores: stores to any struct field called name (of an
// unexported record type of package lz, not lz.Seq) in functions reachable
// from the parser's Parse, plus composite-literal stores.
func (c *Ctx) recordFieldStores(p *Parser, name string) []*ssa.Store {
	var out []*ssa.Store
	var fns []*ssa.Function
	for fn := range c.reachable(p.Parse) {
		fns = append(fns, fn)
	}
	sort.Slice(fns, func(i, j int) bool { return fns[i].String() < fns[j].String() })
	seq := c.seqType()
	for _, fn := range fns {
		for _, b := range fn.Blocks {
			for _, in := range b.Instrs {
				st, ok := in.(*ssa.Store)
				if !ok {
					continue
				}
				fa, ok := st.Addr.(*ssa.FieldAddr)
				if !ok {
					continue
				}
				stt := derefStruct(fa.X.Type())
				if stt.Field(fa.Field).Name() != name {
					continue
				}
				if pt, ok := fa.X.Type().Underlying().(*types.Pointer); ok && types.Identical(pt.Elem(), seq) {
					continue
				}
				if !isIntType(stt.Field(fa.Field).Type()) {
					continue
				}
				out = append(out, st)
			}
		}
	}
	return out
}

// ---------------------------------------------------------------- R-MINLEN

// minLenValues: values of fn that are the parser's minimum match length:
// loads of a config MinMatchLen, or a value m with m ≥ 3 or m ≥ inputLen on
// each defining edge (so m ≥ min(3, inputLen)).
func (c *Ctx) minLenCandidates(fi *FuncInfo) []ssa.Value {
	if c.minLenMemo == nil {
		c.minLenMemo = map[*FuncInfo][]ssa.Value{}
	}
	if r, ok := c.minLenMemo[fi]; ok {
		return r
	}
	r := c.minLenCandidates0(fi)
	c.minLenMemo[fi] = r
	return r
}

func (c *Ctx) minLenCandidates0(fi *FuncInfo) []ssa.Value {
	var out []ssa.Value
	ils := fi.atomsWithSuffix(".inputLen")
	for _, b := range fi.fn.Blocks {
		for _, in := range b.Instrs {
			switch x := in.(type) {
			case *ssa.UnOp:
				if x.Op == token.MUL && isIntType(x.Type()) {
					l := fi.lin(x)
					if len(l.t) == 1 && l.c == 0 {
						for a := range l.t {
							if strings.HasSuffix(strings.SplitN(a, "@", 2)[0], ".MinMatchLen") {
								out = append(out, x)
							}
						}
					}
				}
			case *ssa.Phi:
				if !isIntType(x.Type()) || len(x.Edges) != 2 {
					continue
				}
				// cheap prefilter: each incoming value is a small constant or an input-length load
				pre := true
				for _, e := range x.Edges {
					le := fi.lin(e)
					if le.isConst() {
						continue
					}
					if fi.atomIsField(le, "InputLen") {
						continue
					}
					if _, ok := atomEndsWith(le, ".InputLen"); ok {
						continue
					}
					pre = false
				}
				if !pre {
					continue
				}
				good := true
				for i, e := range x.Edges {
					cs := fi.edgeConds(b.Preds[i], b)
					le := fi.lin(e)
					ok := fi.proveLE0(linConst(3).sub(le), cs, nil, map[string]bool{}, 0)
					if !ok {
						for _, il := range ils {
							if fi.proveLE0(linAtom(il).sub(le), cs, nil, map[string]bool{}, 0) {
								ok = true
								break
							}
						}
					}
					if !ok {
						good = false
						break
					}
				}
				if good && len(ils) > 0 {
					out = append(out, x)
				}
			}
		}
	}
	return out
}

func ruleMinLen(c *Ctx) {
	for _, e := range c.emits() {
		fi := c.info(e.Fn)
		if e.MatchLen == nil {
			c.fail(e.Key, e.Pos, "Seq literal without a MatchLen operand")
			continue
		}
		if isFieldFlow(e.MatchLen) {
			c.fieldFlowMinLen(e)
			continue
		}
		k := stripConv(e.MatchLen)
		conds := fi.condsAt(e.Block)
		done := false
		for _, m := range c.minLenCandidates(fi) {
			if fi.proveLE0(fi.lin(m).sub(fi.lin(k)), conds, nil, map[string]bool{}, 0) {
				c.ok(e.Key, e.Pos, "MatchLen %s ≥ %s (%s) on every path", k.Name(), m.Name(), describeMin(fi, m))
				done = true
				break
			}
		}
		if !done {
			c.fail(e.Key, e.Pos, "MatchLen operand %s = %s is not bounded below by the minimum match length (min(3,inputLen) resp. MinMatchLen) on every path to the emission (facts: %s)", k.Name(), fi.lin(k), factStrings(fi.factsAt(e.Block)))
		}
	}
}

func describeMin(fi *FuncInfo, m ssa.Value) string {
	if _, ok := m.(*ssa.Phi); ok {
		return "≥ min(3, inputLen)"
	}
	return fi.lin(m).String()
}

// fieldFlowMinLen (OSAP): every store to the record's length field is the
// callback's m (bounded by Segments' contract), a loop variable that starts
// at MinMatchLen and only grows, a copy, or constant 1 paired with offset 0.
func (c *Ctx) fieldFlowMinLen(e *Emit) {
	mField := fieldNameOfRead(stripConv(e.MatchLen))
	oField := fieldNameOfRead(stripConv(e.Offset))
	n := 0
	for _, st := range c.recordFieldStores(e.P, mField) {
		n++
		sfi := c.info(st.Parent())
		v := stripConv(st.Val)
		key := fmt.Sprintf("%s:store-%s#%d", fnName(st.Parent()), mField, n)
		switch {
		case isFieldRead(v, mField):
			c.ok(key, st.Pos(), "copies a stored length")
		case isParamOfCallback(v):
			c.assumed(key, st.Pos(), "length is the callback argument m of suffix.Segments (minLen ≤ m ≤ maxLen by R-SEG-BOUNDS, C10); Segments is called with MinMatchLen (R-MAXLEN)")
		default:
			if k, ok := constInt(v); ok {
				// literal step: must be paired with offset 0 in the same record
				if c.pairedZeroOffset(st, oField) {
					c.ok(key, st.Pos(), "constant %d paired with Offset 0 (literal step, not emitted)", k)
				} else {
					c.fail(key, st.Pos(), "constant length %d stored without Offset 0 in the same record", k)
				}
				continue
			}
			ok := false
			for _, mm := range sfi.atomsWithSuffix(".MinMatchLen") {
				if sfi.proveLE0(linAtom(mm).sub(sfi.lin(v)), sfi.condsAt(st.Block()), nil, map[string]bool{}, 0) {
					ok = true
					c.ok(key, st.Pos(), "stored length %s ≥ %s", sfi.lin(v), mm)
					break
				}
			}
			if !ok {
				c.fail(key, st.Pos(), "length %s stored to record field %q is not bounded below by MinMatchLen", sfi.lin(v), mField)
			}
		}
	}
	if n == 0 {
		c.fail(e.Key+":stores", e.Pos, "no store to record field %q found", mField)
	}
}

func isParamOfCallback(v ssa.Value) bool {
	p, ok := v.(*ssa.Parameter)
	return ok && p.Parent().Parent() != nil // parameter of an anonymous function
}

// pairedZeroOffset: the record whose length field st writes gets offset 0.
func (c *Ctx) pairedZeroOffset(st *ssa.Store, oField string) bool {
	fa := st.Addr.(*ssa.FieldAddr)
	for _, ref := range *fa.X.Referrers() {
		fa2, ok := ref.(*ssa.FieldAddr)
		if !ok || derefStruct(fa2.X.Type()).Field(fa2.Field).Name() != oField {
			continue
		}
		for _, u := range *fa2.Referrers() {
			if s2, ok := u.(*ssa.Store); ok && s2.Addr == fa2 && isConstZero(stripConv(s2.Val)) {
				return true
			}
		}
	}
	return false
}

// ---------------------------------------------------------------- R-AUX

func ruleAux(c *Ctx) {
	for _, e := range c.emits() {
		c.check(e.Aux == nil || isConstZero(e.Aux), e.Key, e.Pos, "Aux left zero", "emission site stores a non-zero value to Seq.Aux")
	}
	seq := c.seqType()
	for _, fn := range c.allFuncs {
		if fn.Pkg != c.lz {
			continue
		}
		for _, b := range fn.Blocks {
			for _, in := range b.Instrs {
				st, ok := in.(*ssa.Store)
				if !ok {
					continue
				}
				fa, ok := st.Addr.(*ssa.FieldAddr)
				if !ok {
					continue
				}
				if pt, ok := fa.X.Type().Underlying().(*types.Pointer); ok && types.Identical(pt.Elem(), seq) {
					if derefStruct(fa.X.Type()).Field(fa.Field).Name() == "Aux" && !isConstZero(st.Val) {
						c.fail(fnName(fn)+":aux-store", st.Pos(), "store to Seq.Aux")
					}
				}
			}
		}
	}
}

// ---------------------------------------------------------------- R-LITPAIR

// blkAppend finds, in block b, a call append(load(<blk>.field), x...) whose
// result is stored back to the same field; returns the appended value.
func blkAppends(b *ssa.BasicBlock, field string) []*ssa.Call {
	var out []*ssa.Call
	for _, in := range b.Instrs {
		call, ok := in.(*ssa.Call)
		if !ok {
			continue
		}
		bi, ok := call.Call.Value.(*ssa.Builtin)
		if !ok || bi.Name() != "append" || len(call.Call.Args) != 2 {
			continue
		}
		_, p, ok := pathStr(call.Call.Args[0])
		if !ok || p != field {
			continue
		}
		out = append(out, call)
	}
	return out
}

func ruleLitPair(c *Ctx) {
	for _, e := range c.emits() {
		if e.LitLen == nil {
			c.fail(e.Key, e.Pos, "Seq literal without a LitLen operand")
			continue
		}
		ll := stripConv(e.LitLen)
		call, ok := ll.(*ssa.Call)
		var q ssa.Value
		if ok {
			if bi, isB := call.Call.Value.(*ssa.Builtin); isB && bi.Name() == "len" {
				q = call.Call.Args[0]
			}
		}
		if q == nil {
			c.fail(e.Key, e.Pos, "LitLen operand %s is not len(q) of a literal slice", ll.Name())
			continue
		}
		found := false
		for _, ap := range blkAppends(e.Block, "Literals") {
			if ap.Call.Args[1] == q {
				found = true
			}
		}
		seqApp := len(blkAppends(e.Block, "Sequences")) > 0
		switch {
		case !found:
			c.fail(e.Key, e.Pos, "the slice %s whose length is stored in LitLen is not the slice appended to blk.Literals in the emission block", q.Name())
		case !seqApp:
			c.fail(e.Key, e.Pos, "Seq value is not appended to blk.Sequences in the block that appends its literals")
		default:
			c.ok(e.Key, e.Pos, "LitLen = len(%s) and append(blk.Literals, %s...) in the emission block", q.Name(), q.Name())
		}
	}
}

// ---------------------------------------------------------------- R-TILE

// phiLeaves collects the non-phi values flowing into v through phi nodes,
// with the edge (pred block) on which they enter.
type leaf struct {
	V    ssa.Value
	Pred *ssa.BasicBlock
	Phi  *ssa.Phi
}

func phiLeaves(v ssa.Value) []leaf {
	var out []leaf
	seen := map[*ssa.Phi]bool{}
	var walk func(p *ssa.Phi)
	walk = func(p *ssa.Phi) {
		if seen[p] {
			return
		}
		seen[p] = true
		for i, e := range p.Edges {
			if q, ok := e.(*ssa.Phi); ok {
				walk(q)
			} else {
				out = append(out, leaf{e, p.Block().Preds[i], p})
			}
		}
	}
	if p, ok := v.(*ssa.Phi); ok {
		walk(p)
	} else {
		out = append(out, leaf{V: v})
	}
	return out
}

// mergeLeaves is phiLeaves over control merges only: a φ at a loop header (its block dominates
// one of its predecessors) is a leaf — it stands for "the value of this iteration".
func mergeLeaves(v ssa.Value) []leaf {
	var out []leaf
	seen := map[*ssa.Phi]bool{}
	isHeader := func(p *ssa.Phi) bool {
		for _, q := range p.Block().Preds {
			if p.Block().Dominates(q) {
				return true
			}
		}
		return false
	}
	var walk func(p *ssa.Phi)
	walk = func(p *ssa.Phi) {
		if seen[p] {
			return
		}
		seen[p] = true
		for i, e := range p.Edges {
			if q, ok := e.(*ssa.Phi); ok && !isHeader(q) {
				walk(q)
			} else {
				out = append(out, leaf{e, p.Block().Preds[i], p})
			}
		}
	}
	if p, ok := v.(*ssa.Phi); ok && !isHeader(p) {
		walk(p)
	} else {
		out = append(out, leaf{V: v})
	}
	return out
}

// cursorBehindScan: the invariant cursor ≤ H by induction over the scan loop: H is the loop's position variable (a
// header φ), the cursor is a header φ of the same loop, cursor ≤ position holds on entry, and on every back edge
// the new position is ≥ the new cursor under the hypothesis that the old position was ≥ the old cursor.
func (c *Ctx) cursorBehindScan(fi *FuncInfo, e *Emit, q *ssa.Slice) bool {
	sl := c.scanOf(e)
	if sl == nil || sl.P == nil {
		// a loop that walks a precomputed path (the optimizing parser): position and cursor are both header φs
		// of the loop the emission stands in, and H is the position itself
		hp, ok1 := stripConv(q.High).(*ssa.Phi)
		cp, ok2 := stripConv(q.Low).(*ssa.Phi)
		if !ok1 || !ok2 || hp.Block() != cp.Block() {
			return false
		}
		l := fi.loopOf(hp.Block())
		if l == nil || l.Header != hp.Block() {
			return false
		}
		inv := Fact{linAtom(cp.Name()).sub(linAtom(hp.Name())), LE}
		for i, p := range l.Header.Preds {
			goal := fi.lin(cp.Edges[i]).sub(fi.lin(hp.Edges[i]))
			if !l.Blocks[p] {
				if !fi.proveLE0(goal, fi.condsAt(p), nil, map[string]bool{}, 0) {
					return false
				}
				continue
			}
			conds := fi.edgeConds(p, l.Header)
			if !fi.proveLE0(goal, conds, []Fact{inv}, map[string]bool{}, 0) && !fi.refute(conds, []Fact{{goal.scale(-1).addc(1), LE}, inv}, 0) {
				return false
			}
		}
		return true
	}
	// invariants of the scan loops in front of this one (same function): a later loop starts where an earlier one
	// stopped, with that loop's position and cursor
	var earlier []Fact
	scans, _ := c.scanLoops()
	for _, s2 := range scans {
		if s2.Fn != sl.Fn || s2 == sl || s2.P == nil || s2.L.Header.Index >= sl.L.Header.Index || len(s2.Emits) == 0 {
			continue
		}
		if q2 := c.literalSliceOf(s2.Emits[0]); q2 != nil {
			if inv, ok := c.scanInvariant(fi, s2, q2, nil); ok {
				earlier = append(earlier, inv)
			}
		}
	}
	inv, ok := c.scanInvariant(fi, sl, q, earlier)
	if !ok {
		return false
	}
	// with the invariant at the header, cursor ≤ H at the emission (H is the position, or the position minus a
	// backward extension that a common-suffix helper bounds by the literals in front of it)
	goal := fi.lin(q.Low).sub(fi.lin(q.High))
	hyps := append([]Fact{inv}, earlier...)
	okG := fi.proveAt(goal, e.Block, hyps) || fi.proveByCases(goal, e.Block, hyps) ||
		fi.refute(fi.condsAt(e.Block), append([]Fact{{goal.scale(-1).addc(1), LE}}, hyps...), 0)
	if !okG && os.Getenv("LZDBG7") != "" {
		fmt.Fprintf(os.Stderr, "DBG cursor≤H %s: invariant %s proved, goal %s ≤ 0 not proved at block %d; facts %s\n", e.Key, inv, goal, e.Block.Index, factStrings(fi.factsAt(e.Block)))
	}
	return okG
}

// literalSliceOf: the slice p[cursor:H] whose length is the LitLen of the emission.
func (c *Ctx) literalSliceOf(e *Emit) *ssa.Slice {
	call, _ := stripConv(e.LitLen).(*ssa.Call)
	if call == nil || len(call.Call.Args) != 1 {
		return nil
	}
	q, _ := call.Call.Args[0].(*ssa.Slice)
	if q == nil || q.Low == nil || q.High == nil {
		return nil
	}
	return q
}

// scanInvariant proves cursor ≤ position at the header of scan loop sl by induction (extra: facts that may be
// used on the entry edges) and returns it as a fact over the two header φs.
func (c *Ctx) scanInvariant(fi *FuncInfo, sl *ScanLoop, q *ssa.Slice, extra []Fact) (Fact, bool) {
	e := sl.Emits[0]
	l := sl.L
	hp := sl.P
	// the cursor's header φ in the scan loop: q.Low itself, or the φ of the header its web runs through
	var cp *ssa.Phi
	if p, ok := stripConv(q.Low).(*ssa.Phi); ok && p.Block() == l.Header {
		cp = p
	} else {
		for _, in := range l.Header.Instrs {
			p, ok := in.(*ssa.Phi)
			if !ok {
				break
			}
			if p == hp || !isIntType(p.Type()) {
				continue
			}
			for _, lf := range phiLeaves(q.Low) {
				if lf.V == ssa.Value(p) {
					cp = p
				}
			}
		}
	}
	if cp == nil || hp.Block() != l.Header {
		return Fact{}, false
	}
	inv := Fact{linAtom(cp.Name()).sub(linAtom(hp.Name())), LE}
	for i, p := range l.Header.Preds {
		nh, nc := fi.lin(hp.Edges[i]), fi.lin(cp.Edges[i])
		goal := nc.sub(nh)
		if !l.Blocks[p] {
			if !fi.proveLE0(goal, fi.condsAt(p), extra, map[string]bool{}, 0) && !fi.refute(fi.condsAt(p), append([]Fact{{goal.scale(-1).addc(1), LE}}, extra...), 0) {
				if os.Getenv("LZDBG7") != "" {
					fmt.Fprintf(os.Stderr, "DBG cursor≤H %s: base case %s ≤ 0 fails on entry edge from block %d\n", e.Key, goal, p.Index)
				}
				return Fact{}, false
			}
			continue
		}
		conds := fi.edgeConds(p, l.Header)
		if fi.proveLE0(goal, conds, []Fact{inv}, map[string]bool{}, 0) {
			continue
		}
		// the edge values may themselves be merged (position behind the re-index loop, clipped cursor)
		if !fi.refute(conds, []Fact{{goal.scale(-1).addc(1), LE}, inv}, 0) {
			if os.Getenv("LZDBG7") != "" {
				fmt.Fprintf(os.Stderr, "DBG cursor≤H %s: step %s ≤ 0 fails on back edge from block %d (conds %s)\n", e.Key, goal, p.Index, factStrings(fi.factsOf(conds)))
			}
			return Fact{}, false
		}
	}
	return inv, true
}

func ruleTile(c *Ctx) {
	byFn := map[*ssa.Function][]*Emit{}
	var order []*ssa.Function
	for _, e := range c.emits() {
		if _, ok := byFn[e.Fn]; !ok {
			order = append(order, e.Fn)
		}
		byFn[e.Fn] = append(byFn[e.Fn], e)
	}
	for _, fn := range order {
		fi := c.info(fn)
		sites := byFn[fn]
		var cursor ssa.Value
		nextOK := map[*Emit]bool{}
		for _, e := range sites {
			// literal slice q = X[cursor:H]
			ll := stripConv(e.LitLen)
			call, _ := ll.(*ssa.Call)
			var q *ssa.Slice
			if call != nil && len(call.Call.Args) == 1 {
				q, _ = call.Call.Args[0].(*ssa.Slice)
			}
			if q == nil || q.Low == nil || q.High == nil {
				c.fail(e.Key+":slice", e.Pos, "literal run is not a two-bound slice p[cursor:H] of the block data")
				continue
			}
			if cursor == nil {
				cursor = q.Low
			}
			// all sites of one loop nest share the cursor web
			h := fi.lin(q.High)
			next := h.add(fi.lin(stripConv(e.MatchLen)))
			// find a leaf of the cursor web that is defined after this site and equals H+MatchLen
			found := false
			var got []string
			for _, lf := range phiLeaves(q.Low) {
				if lf.Pred == nil {
					continue
				}
				if !(e.Block == lf.Pred || e.Block.Dominates(lf.Pred)) {
					continue
				}
				l := fi.lin(lf.V)
				got = append(got, l.String())
				if l.eq(next) {
					found = true
				}
			}
			nextOK[e] = found
			// the literal slice is well-formed: cursor ≤ H at the emission. It holds because the scan position is
			// moved to the new cursor after every emission (and only forward otherwise); a scan that goes on inside
			// the match it has just emitted slices p[cursor:H] with cursor > H
			{
				goal := fi.lin(q.Low).sub(h)
				okLe := fi.proveAt(goal, e.Block, nil) || fi.proveByCases(goal, e.Block, nil) || c.cursorBehindScan(fi, e, q)
				c.check(okLe, e.Key+":cursor≤H", e.Pos, "the literal slice is well-formed: cursor ≤ H at the emission",
					fmt.Sprintf("cursor %s ≤ H %s is not established at the emission: when the scan position is not moved behind a match (or moved back), the next emission slices the literals with a low bound above the high bound and panics, or repeats bytes", fi.lin(q.Low), h))
			}
			if found {
				c.ok(e.Key+":cursor", e.Pos, "literals = %s[%s:%s]; next cursor = %s = H + MatchLen", q.X.Name(), fi.lin(q.Low), h, next)
			} else {
				c.fail(e.Key+":cursor", e.Pos, "after this emission the literal cursor becomes %v, expected H + MatchLen = %s (H = %s is the high bound of the literal slice, MatchLen the emitted length): bytes would be skipped or repeated", got, next, h)
			}
		}
		if cursor == nil {
			continue
		}
		// cursor web leaves: initial W, or H+MatchLen of some site
		p := sites[0].P
		for i, lf := range phiLeaves(cursor) {
			if lf.Pred == nil {
				continue
			}
			l := fi.lin(lf.V)
			isW := false
			if len(l.t) == 1 && l.c == 0 {
				for a := range l.t {
					if strings.HasSuffix(strings.SplitN(a, "@", 2)[0], ".W") {
						isW = true
					}
				}
			}
			if isW {
				continue
			}
			matched := false
			for _, e := range sites {
				ll := stripConv(e.LitLen)
				call, _ := ll.(*ssa.Call)
				if call == nil {
					continue
				}
				q, _ := call.Call.Args[0].(*ssa.Slice)
				if q == nil || q.High == nil {
					continue
				}
				if l.eq(fi.lin(q.High).add(fi.lin(stripConv(e.MatchLen)))) && (e.Block == lf.Pred || e.Block.Dominates(lf.Pred)) {
					matched = true
				}
			}
			if !matched {
				c.fail(fmt.Sprintf("%s:cursor-leaf#%d", fnName(fn), i), lf.V.Pos(), "the literal cursor is assigned %s, which is neither the initial W nor H+MatchLen of an emission that precedes the assignment", l)
			}
		}
		// epilogue: only in the Parse method itself
		if fn != p.Parse {
			continue
		}
		c.tileEpilogue(p, fi, cursor)
	}
	c.literalAppendsClipped()
}

// literalAppendsClipped: every literal run appended to blk.Literals by a Parse method ends at or before the block
// end W₀ + n₀ (W₀ the position at entry, n₀ the clamped block length of R-CLAMP-N): literals taken from behind the
// block end make the block longer than the n that is reported.
func (c *Ctx) literalAppendsClipped() {
	for _, p := range c.parsers() {
		fn := p.Parse
		if fn == nil {
			continue
		}
		fi := c.info(fn)
		n0, _ := c.blockLenValue(fi)
		var w0 string
		for _, a := range fi.atomsWithSuffix(".W") {
			if !strings.Contains(a, "@") {
				w0 = a
			}
		}
		if n0 == nil || w0 == "" {
			continue // reported by R-CLAMP-N / R-ADVANCE
		}
		end := linAtom(w0).add(fi.lin(n0))
		bp := blockParam(fn)
		idx := 0
		for _, b := range fn.Blocks {
			for _, in := range b.Instrs {
				st, ok := in.(*ssa.Store)
				if !ok {
					continue
				}
				fa, ok := st.Addr.(*ssa.FieldAddr)
				if !ok || fa.X != ssa.Value(bp) || fieldOfAddr(st.Addr) == nil || fieldOfAddr(st.Addr).Name() != "Literals" {
					continue
				}
				app := isBuiltinCall(valueInstr(st.Val), "append")
				if app == nil || len(app.Call.Args) != 2 {
					continue
				}
				src, ok := app.Call.Args[1].(*ssa.Slice)
				if !ok {
					continue
				}
				idx++
				key := fmt.Sprintf("%s:literal-append#%d", fnName(fn), idx)
				dp := false
				for _, e := range c.emitsIn(fn) {
					if e.Block == b && isFieldFlow(e.MatchLen) {
						dp = true
					}
				}
				if dp {
					// lengths read from a DP table: bounded by R-BLOCKCLIP's dp-store obligations
					continue
				}
				var up Lin
				if src.High != nil {
					up = fi.lin(src.High)
					if ld, ok := src.High.(*ssa.UnOp); ok && ld.Op == token.MUL {
						if rs := fi.uniqueReachingStore(ld); rs != nil {
							up = fi.lin(rs.Val)
						}
					}
				} else {
					up = fi.lenOf(src.X)
				}
				if fi.proveAt(up.sub(end), b, nil) {
					c.ok(key, st.Pos(), "the appended literals end at %s ≤ W₀ + n₀ = %s", up, end)
				} else {
					c.fail(key, st.Pos(), "the literals appended here end at %s, which is not bounded by the block end W₀ + n₀ = %s: bytes behind the block would be emitted and Block.Len() would exceed the n returned", up, end)
				}
			}
		}
	}
}

// tileEpilogue checks the final position: the store to W takes φ(cursor |
// NoTrailingLiterals ∧ len(Sequences)>0, len(p) | after append(blk.Literals, p[cursor:]…)).
func (c *Ctx) tileEpilogue(p *Parser, fi *FuncInfo, cursor ssa.Value) {
	key := fnName(fi.fn) + ":epilogue"
	// final W store = the last store to a path ending in .W in a block that returns
	var st *ssa.Store
	for _, b := range fi.fn.Blocks {
		for _, in := range b.Instrs {
			if s, ok := in.(*ssa.Store); ok {
				if _, pth, ok := pathStr(s.Addr); ok && lastField(pth) == "W" {
					if _, isRet := b.Instrs[len(b.Instrs)-1].(*ssa.Return); isRet && len(c.emitsIn(fi.fn)) > 0 {
						// choose the store in the block reached after the emission loops
						if st == nil || s.Pos() > st.Pos() {
							st = s
						}
					}
				}
			}
		}
	}
	if st == nil {
		c.fail(key, fi.fn.Pos(), "no final store to W found")
		return
	}
	phi, ok := stripConv(st.Val).(*ssa.Phi)
	if !ok {
		c.fail(key, st.Pos(), "final position is not a merge of the two epilogue cases")
		return
	}
	cursorLeaves := map[ssa.Value]bool{cursor: true}
	if cp, ok := cursor.(*ssa.Phi); ok {
		var collect func(p *ssa.Phi)
		seen := map[*ssa.Phi]bool{}
		collect = func(p *ssa.Phi) {
			if seen[p] {
				return
			}
			seen[p] = true
			cursorLeaves[p] = true
			for _, rr := range *p.Referrers() {
				if q, ok := rr.(*ssa.Phi); ok {
					collect(q)
				}
			}
		}
		collect(cp)
	}
	nTrail, nCut := 0, 0
	for i, ev := range phi.Edges {
		pred := phi.Block().Preds[i]
		v := stripConv(ev)
		if cursorLeaves[v] {
			// cut at the cursor: requires both conditions
			conds := fi.edgeConds(pred, phi.Block())
			hasFlag, hasSeq := false, false
			for _, cd := range conds {
				cd = unNot(cd)
				bo, ok := cd.V.(*ssa.BinOp)
				if !ok {
					continue
				}
				if and, ok := bo.X.(*ssa.BinOp); ok && and.Op == token.AND && cd.True == (bo.Op == token.NEQ) && isConstZero(bo.Y) {
					if isFlagsParam(and.X) || isFlagsParam(and.Y) {
						if k, ok := constInt(and.Y); ok && k == 1 {
							hasFlag = true
						} else if k, ok := constInt(and.X); ok && k == 1 {
							hasFlag = true
						}
					}
				}
			}
			for _, f := range fi.factsOf(conds) {
				if f.Op == LE && len(f.L.t) == 1 {
					for a, co := range f.L.t {
						if strings.HasPrefix(a, "len("+blockParamName(fi.fn)+".Sequences") && co == -1 && f.L.c >= 1 {
							hasSeq = true
						}
					}
				}
				// len(blk.Sequences) != 0 (a length is never negative)
				if f.Op == NE && len(f.L.t) == 1 && f.L.c == 0 {
					for a := range f.L.t {
						if strings.HasPrefix(a, "len("+blockParamName(fi.fn)+".Sequences") {
							hasSeq = true
						}
					}
				}
			}
			nCut++
			c.check(hasFlag && hasSeq, key+":cut", st.Pos(),
				"stopping at the literal cursor is reachable only under flags&NoTrailingLiterals != 0 ∧ len(blk.Sequences) > 0",
				fmt.Sprintf("the epilogue stops at the literal cursor (dropping trailing bytes from the block) on an edge not guarded by both flags&NoTrailingLiterals != 0 and len(blk.Sequences) > 0 (flag=%v, seq=%v)", hasFlag, hasSeq))
			continue
		}
		// trailing literals: value must be len(p) with p[cursor:] appended in pred
		nTrail++
		okApp := false
		var pv ssa.Value
		for _, ap := range blkAppends(pred, "Literals") {
			if sl, ok := ap.Call.Args[1].(*ssa.Slice); ok && sl.High == nil && sl.Low != nil && cursorLeaves[stripConv(sl.Low)] {
				okApp = true
				pv = sl.X
			}
		}
		if !okApp {
			c.fail(key+":trail", st.Pos(), "the epilogue edge that sets the final position to %s does not append p[cursor:] to blk.Literals", fi.lin(v))
			continue
		}
		c.check(fi.lin(v).eq(fi.lenOf(pv)), key+":trail", st.Pos(),
			"trailing literals p[cursor:] appended and final position = len(p)",
			fmt.Sprintf("after appending p[cursor:] the final position is %s, expected len(p) = %s", fi.lin(v), fi.lenOf(pv)))
	}
	if nTrail == 0 {
		c.fail(key+":trail", st.Pos(), "no epilogue edge appends the trailing literals")
	}
	_ = nCut
}

func isFlagsParam(v ssa.Value) bool {
	p, ok := v.(*ssa.Parameter)
	return ok && p.Name() == "flags" || ok && isIntType(p.Type()) && p.Parent().Signature.Params().Len() == 2
}

func (c *Ctx) emitsIn(fn *ssa.Function) []*Emit {
	var out []*Emit
	for _, e := range c.emits() {
		if e.Fn == fn {
			out = append(out, e)
		}
	}
	return out
}

// ---------------------------------------------------------------- Parse prologue helpers

// ParseShape captures the role values of a Parse method.
type ParseShape struct {
	P       *Parser
	Fi      *FuncInfo
	Blk     *ssa.Parameter
	N0      ssa.Value // clamped block length
	NilBlk  *ssa.BasicBlock
	NonNil  *ssa.BasicBlock
	WAtom   string // atom of the entry load of W
	LenAtom string
}

func (c *Ctx) parseShape(p *Parser) *ParseShape {
	fn := p.Parse
	if fn == nil || len(fn.Params) < 2 {
		return nil
	}
	fi := c.info(fn)
	sh := &ParseShape{P: p, Fi: fi, Blk: fn.Params[1]}
	// the branch on blk == nil
	for _, b := range fn.Blocks {
		iff, ok := b.Instrs[len(b.Instrs)-1].(*ssa.If)
		if !ok {
			continue
		}
		bo, ok := iff.Cond.(*ssa.BinOp)
		if !ok || (bo.Op != token.EQL && bo.Op != token.NEQ) {
			continue
		}
		isNil := func(v ssa.Value) bool { k, ok := v.(*ssa.Const); return ok && k.Value == nil }
		if (bo.X == sh.Blk && isNil(bo.Y)) || (bo.Y == sh.Blk && isNil(bo.X)) {
			if bo.Op == token.EQL {
				sh.NilBlk, sh.NonNil = b.Succs[0], b.Succs[1]
			} else {
				sh.NilBlk, sh.NonNil = b.Succs[1], b.Succs[0]
			}
			break
		}
	}
	return sh
}

// ---------------------------------------------------------------- R-CLAMP-N

// blockLenValue finds the value n₀ with n₀ ≤ len(Data)-W, n₀ ≤ BlockSize and
// n₀ ∈ {len(Data)-W, BlockSize}: a two-edge phi (or helper/builtin min).
func (c *Ctx) blockLenValue(fi *FuncInfo) (ssa.Value, string) {
	var datas, ws, bss []string
	datas = nil
	for _, b := range fi.fn.Blocks {
		for _, in := range b.Instrs {
			v, ok := in.(ssa.Value)
			if !ok || !isIntType(v.Type()) {
				continue
			}
			for a := range fi.lin(v).t {
				base := strings.SplitN(a, "@", 2)[0]
				switch {
				case strings.HasPrefix(base, "len(") && strings.HasSuffix(base, ".Data)") && !strings.Contains(a, "@"):
					datas = appendUniq(datas, a)
				case strings.HasSuffix(base, ".W") && !strings.Contains(a, "@"):
					ws = appendUniq(ws, a)
				case strings.HasSuffix(base, ".BlockSize"):
					bss = appendUniq(bss, a)
				}
			}
		}
	}
	for _, b := range fi.fn.Blocks {
		for _, in := range b.Instrs {
			v, ok := in.(ssa.Value)
			if !ok || !isIntType(v.Type()) {
				continue
			}
			_, isPhi := v.(*ssa.Phi)
			_, isCall := v.(*ssa.Call)
			if !isPhi && !isCall {
				continue
			}
			for _, d := range datas {
				for _, w := range ws {
					rem := linAtom(d).sub(linAtom(w))
					for _, bs := range bss {
						lv := fi.lin(v)
						if !fi.proveLE(lv.sub(rem), b, nil) || !fi.proveLE(lv.sub(linAtom(bs)), b, nil) {
							continue
						}
						// attained: each defining edge carries one of the two
						if ph, ok := v.(*ssa.Phi); ok {
							good := true
							for _, e := range ph.Edges {
								le := fi.lin(e)
								if !le.eq(rem) && !le.eq(linAtom(bs)) {
									good = false
								}
							}
							if !good {
								continue
							}
						}
						return v, fmt.Sprintf("min(%s, %s)", rem, bs)
					}
				}
			}
		}
	}
	return nil, ""
}

func appendUniq(s []string, x string) []string {
	for _, y := range s {
		if y == x {
			return s
		}
	}
	return append(s, x)
}

func ruleClampN(c *Ctx) {
	for _, p := range c.parsers() {
		fi := c.info(p.Parse)
		key := fnName(p.Parse) + ":block-length"
		v, how := c.blockLenValue(fi)
		if v == nil {
			c.fail(key, p.Parse.Pos(), "no value recognised as min(len(Data)−W, BlockSize): the block length is not clamped to both the unparsed data and BlockSize")
			continue
		}
		c.ok(key, v.Pos(), "n₀ = %s = %s", v.Name(), how)
	}
}

// ---------------------------------------------------------------- R-EMPTY

func isLoadOfGlobal(v ssa.Value, name string) bool {
	u, ok := v.(*ssa.UnOp)
	if !ok || u.Op != token.MUL {
		return false
	}
	g, ok := u.X.(*ssa.Global)
	return ok && g.Name() == name
}

func ruleEmpty(c *Ctx) {
	for _, p := range c.parsers() {
		fi := c.info(p.Parse)
		fn := p.Parse
		n0, _ := c.blockLenValue(fi)
		sh := c.parseShape(p)
		if n0 == nil || sh == nil || sh.NilBlk == nil {
			c.fail(fnName(fn)+":empty", fn.Pos(), "cannot locate block length or the blk==nil branch")
			continue
		}
		ln := fi.lin(n0)
		// the blocks reachable with a non-nil block before both truncations have happened
		unS, _ := c.untruncatedReach(fi, sh.Blk, "Sequences")
		unL, _ := c.untruncatedReach(fi, sh.Blk, "Literals")
		// a return belongs to a side unless the opposite answer of the blk == nil test dominates it
		onSide := func(b *ssa.BasicBlock, side string) bool {
			for _, cd := range fi.condsAt(b) {
				switch isNilCmp(cd, sh.Blk) {
				case -1:
					if side == "non-nil" {
						return false
					}
				case +1:
					if side == "nil" {
						return false
					}
				}
			}
			return true
		}
		// n₀ == 0 / n₀ ≠ 0 known at b (dominating, or on every way into b)
		known := func(b *ssa.BasicBlock, zero bool) bool {
			test := func(conds []Cond) bool {
				for _, f := range fi.factsOf(conds) {
					if zero && f.Op == EQ && (f.L.eq(ln) || f.L.eq(ln.scale(-1))) {
						return true
					}
					if !zero && f.Op == NE && (f.L.eq(ln) || f.L.eq(ln.scale(-1))) {
						return true
					}
					if !zero && f.Op == LE && f.L.eq(ln.scale(-1).addc(1)) {
						return true
					}
				}
				return false
			}
			if test(fi.condsAt(b)) {
				return true
			}
			if len(b.Preds) > 1 {
				for _, w := range fi.waysInto(b) {
					if !test(w) {
						return false
					}
				}
				return true
			}
			return false
		}
		for _, side := range []string{"nil", "non-nil"} {
			key := fmt.Sprintf("%s:empty-%s", fnName(fn), side)
			// every ErrEmptyBuffer return that can be taken on this side: n=0 and under n0==0
			var emptyRets []*ssa.Return
			for _, b := range fn.Blocks {
				r, ok := b.Instrs[len(b.Instrs)-1].(*ssa.Return)
				if !ok || len(r.Results) != 2 || !onSide(b, side) {
					continue
				}
				if isLoadOfGlobal(r.Results[1], "ErrEmptyBuffer") {
					emptyRets = append(emptyRets, r)
				}
			}
			if len(emptyRets) == 0 {
				c.fail(key, fn.Pos(), "no return of ErrEmptyBuffer on the %s-block side", side)
				continue
			}
			for _, r := range emptyRets {
				okZero := isConstZero(r.Results[0])
				eq0 := known(r.Block(), true)
				stores := true
				if side == "non-nil" {
					// with a non-nil block the return is not reached before both truncations
					stores = !unS[r.Block()] && !unL[r.Block()]
				}
				switch {
				case !okZero:
					c.fail(key, r.Pos(), "ErrEmptyBuffer is returned with a count other than constant 0")
				case !eq0:
					c.fail(key, r.Pos(), "return of ErrEmptyBuffer is not dominated by n₀ == 0 (n₀ = %s)", ln)
				case !stores:
					c.fail(key, r.Pos(), "block is not emptied (Sequences[:0], Literals[:0]) before ErrEmptyBuffer is returned")
				default:
					c.ok(key, r.Pos(), "(0, ErrEmptyBuffer) exactly under n₀ == 0")
				}
			}
			// every other return on this side must be under n0 != 0
			for _, b := range fn.Blocks {
				r, ok := b.Instrs[len(b.Instrs)-1].(*ssa.Return)
				if !ok || len(r.Results) != 2 || isLoadOfGlobal(r.Results[1], "ErrEmptyBuffer") || !onSide(b, side) {
					continue
				}
				if !known(b, false) {
					c.fail(fmt.Sprintf("%s:nonempty-%s", fnName(fn), side), r.Pos(), "a return other than ErrEmptyBuffer is reachable with n₀ == 0 on the %s-block side", side)
				}
			}
		}
	}
}

// truncatedBefore: stores blk.Sequences = …[:0] and blk.Literals = …[:0] dominate b.
func (c *Ctx) truncatedBefore(fi *FuncInfo, blk *ssa.Parameter, b *ssa.BasicBlock) bool {
	got := map[string]bool{}
	for _, bb := range fi.fn.Blocks {
		if !(bb == b || bb.Dominates(b)) {
			continue
		}
		for _, in := range bb.Instrs {
			st, ok := in.(*ssa.Store)
			if !ok {
				continue
			}
			r, p, ok := pathStr(st.Addr)
			if !ok || r != blk {
				continue
			}
			if sl, ok := st.Val.(*ssa.Slice); ok && sl.High != nil && isConstZero(sl.High) {
				got[p] = true
			}
		}
	}
	return got["Sequences"] && got["Literals"]
}

// ---------------------------------------------------------------- R-ADVANCE

func ruleAdvance(c *Ctx) {
	for _, p := range c.parsers() {
		fn := p.Parse
		fi := c.info(fn)
		sh := c.parseShape(p)
		// the entry value of W: atom without version
		var w0 string
		for _, a := range fi.atomsWithSuffix(".W") {
			if !strings.Contains(a, "@") {
				w0 = a
			}
		}
		idx := 0
		for _, b := range fn.Blocks {
			r, ok := b.Instrs[len(b.Instrs)-1].(*ssa.Return)
			if !ok || len(r.Results) != 2 {
				continue
			}
			if c.isFailureReturn(fi, r) {
				continue
			}
			idx++
			side := "normal"
			if sh != nil && sh.NilBlk != nil && (b == sh.NilBlk || sh.NilBlk.Dominates(b)) {
				side = "nil-branch"
			}
			key := fmt.Sprintf("%s:%s-return#%d", fnName(fn), side, idx)
			if side == "nil-branch" {
				key = fmt.Sprintf("%s:nil-branch", fnName(fn))
			}
			// last store to W on every path: look for a store in a block dominating b
			var st *ssa.Store
			for _, bb := range fn.Blocks {
				if !(bb == b || bb.Dominates(b)) {
					continue
				}
				for _, in := range bb.Instrs {
					if s, ok := in.(*ssa.Store); ok {
						if _, pth, ok := pathStr(s.Addr); ok && lastField(pth) == "W" {
							if st == nil || fi.instrReaches(st, s) {
								st = s
							}
						}
					}
				}
			}
			if st == nil {
				c.fail(key, r.Pos(), "success return (n, nil) without a store to W on every path: the returned count is not consumed (W stays where it was)")
				continue
			}
			if w0 == "" {
				c.fail(key, r.Pos(), "entry value of W not found")
				continue
			}
			nv := fi.lin(r.Results[0])
			want := fi.lin(st.Val).sub(linAtom(w0))
			if nv.eq(want) {
				c.ok(key, r.Pos(), "returns n = %s and stores W = %s = W_before + n", nv, fi.lin(st.Val))
			} else {
				c.fail(key, r.Pos(), "returned count %s differs from the W advance %s (stored W = %s)", nv, want, fi.lin(st.Val))
			}
		}
	}
}

// ---------------------------------------------------------------- R-NIL-NOEMIT

func ruleNilNoEmit(c *Ctx) {
	for _, p := range c.parsers() {
		fn := p.Parse
		sh := c.parseShape(p)
		key := fnName(fn) + ":nil-branch"
		if sh == nil || sh.NilBlk == nil {
			c.fail(key, fn.Pos(), "no blk == nil branch: a nil block would be dereferenced")
			continue
		}
		// every use of blk is under blk != nil: a dominating test (any of them — the function may test
		// more than once), or such a test on every way into the block of the use
		fi := c.info(fn)
		nonNilAt := func(b *ssa.BasicBlock) bool {
			has := func(conds []Cond) bool {
				for _, cd := range conds {
					if isNilCmp(cd, sh.Blk) == +1 {
						return true
					}
				}
				return false
			}
			if has(fi.condsAt(b)) {
				return true
			}
			if len(b.Preds) > 1 {
				for _, w := range fi.waysInto(b) {
					if !has(w) {
						return false
					}
				}
				return true
			}
			return false
		}
		bad := false
		for _, ref := range *sh.Blk.Referrers() {
			in := ref
			if bo, ok := in.(*ssa.BinOp); ok && (bo.Op == token.EQL || bo.Op == token.NEQ) {
				continue
			}
			b := in.Block()
			if !nonNilAt(b) {
				onNil := false
				for _, cd := range fi.condsAt(b) {
					if isNilCmp(cd, sh.Blk) == -1 {
						onNil = true
					}
				}
				if onNil {
					c.fail(key, in.Pos(), "blk is used on the blk == nil edge")
				} else {
					c.fail(key, in.Pos(), "blk is used before/outside the blk != nil edge")
				}
				bad = true
			}
		}
		if !bad {
			c.ok(key, fn.Pos(), "all %d uses of blk are dominated by blk != nil", len(*sh.Blk.Referrers())-1)
		}
	}
}

// ---------------------------------------------------------------- R-WWRITERS

func ruleWWriters(c *Ctx) {
	allowed := map[*ssa.Function]string{}
	for _, p := range c.parsers() {
		allowed[p.Parse] = "Parse"
	}
	pb := c.namedType(c.lz, "ParserBuffer")
	for _, n := range []string{"Shrink", "Reset", "Init"} {
		if f := c.method(pb, n); f != nil {
			allowed[f] = n
		}
	}
	n := 0
	for _, fn := range c.allFuncs {
		for _, b := range fn.Blocks {
			for _, in := range b.Instrs {
				st, ok := in.(*ssa.Store)
				if !ok {
					continue
				}
				f := fieldOfAddr(st.Addr)
				isW := f != nil && f.Name() == "W" && f.Pkg() == c.lzT && isFieldOf(pb, f)
				whole := false
				if !isW {
					if pt, ok := st.Addr.Type().Underlying().(*types.Pointer); ok && types.Identical(pt.Elem(), pb) {
						if _, isAlloc := st.Addr.(*ssa.Alloc); !isAlloc {
							whole = true
						}
					}
				}
				if !isW && !whole {
					continue
				}
				n++
				if _, ok := allowed[fn]; ok {
					continue
				}
				c.fail(fnName(fn)+":W-store", st.Pos(), "ParserBuffer.W is written outside Parse/Shrink/Reset/Init")
			}
		}
	}
	c.ok("W-writers", token.NoPos, "%d stores to ParserBuffer.W, all in Parse methods, Shrink, Reset, Init", n)
}

func isFieldOf(named *types.Named, f *types.Var) bool {
	st, ok := named.Underlying().(*types.Struct)
	if !ok {
		return false
	}
	for i := 0; i < st.NumFields(); i++ {
		if st.Field(i) == f {
			return true
		}
	}
	return false
}

// ---------------------------------------------------------------- R-BLOCKLEN

func ruleBlockLen(c *Ctx) {
	blk := c.namedType(c.lz, "Block")
	fn := c.method(blk, "Len")
	key := "lz.(*Block).Len"
	if fn == nil {
		c.fail(key, token.NoPos, "Block.Len not found")
		return
	}
	fi := c.info(fn)
	// the result phi web: initial len(Literals), plus MatchLen per range iteration
	var ret *ssa.Return
	for _, b := range fn.Blocks {
		if r, ok := b.Instrs[len(b.Instrs)-1].(*ssa.Return); ok {
			ret = r
		}
	}
	if ret == nil || len(fi.loops) != 1 {
		c.fail(key, fn.Pos(), "expected a single loop over the sequences")
		return
	}
	okInit, okStep := false, false
	for _, lf := range phiLeaves(ret.Results[0]) {
		l := fi.lin(lf.V)
		if len(l.t) == 1 && l.c == 0 {
			for a := range l.t {
				if strings.HasPrefix(a, "len(") && strings.Contains(a, "Literals") {
					okInit = true
				}
			}
		}
		if bo, ok := lf.V.(*ssa.BinOp); ok && bo.Op == token.ADD {
			for _, side := range []ssa.Value{bo.X, bo.Y} {
				if isFieldRead(side, "MatchLen") {
					okStep = true
				}
			}
		}
	}
	c.check(okInit && okStep, key, fn.Pos(), "n = len(Literals) + Σ MatchLen over all sequences", "Block.Len is not len(Literals) plus the sum of MatchLen")
}

// blockParamName: the name of the *Block parameter of a Parse-like function.
func blockParamName(fn *ssa.Function) string {
	for _, p := range fn.Params {
		if pt, ok := p.Type().(*types.Pointer); ok {
			if n, ok := pt.Elem().(*types.Named); ok && n.Obj().Name() == "Block" {
				return p.Name()
			}
		}
	}
	return "blk"
}

// ---------------------------------------------------------------- R-BLOCK-FRESH

func init() {
	reg(&Rule{ID: "R-BLOCK-FRESH", Min: 14,
		Doc: "on the blk != nil side, every return of Parse is preceded on all paths by a truncating store to both blk.Sequences and blk.Literals (X = X[:0] or append(X[:0], …)): a reused Block never keeps content of an earlier call",
		Run: ruleBlockFresh})
}

// truncating: v is X[:0] of the block field, or an append chain rooted at such a slice.
func truncatingValue(v ssa.Value, field string, depth int) bool {
	if depth > 6 {
		return false
	}
	switch x := v.(type) {
	case *ssa.Slice:
		if x.Low == nil && x.High != nil {
			if k, isC := constInt(x.High); isC && k == 0 {
				if _, p, ok := pathStr(x.X); ok && lastField(p) == field {
					return true
				}
			}
		}
	case *ssa.Call:
		if bi, ok := x.Call.Value.(*ssa.Builtin); ok && bi.Name() == "append" {
			return truncatingValue(x.Call.Args[0], field, depth+1)
		}
	}
	return false
}

func ruleBlockFresh(c *Ctx) {
	for _, p := range c.parsers() {
		fn := p.Parse
		if fn == nil {
			continue
		}
		fi := c.info(fn)
		bp := blockParam(fn)
		if bp == nil {
			c.fail(fnName(fn)+":block", fn.Pos(), "no *Block parameter")
			continue
		}
		for _, field := range []string{"Sequences", "Literals"} {
			seen, ntrunc := c.untruncatedReach(fi, bp, field)
			key := fmt.Sprintf("%s:fresh:%s", fnName(fn), field)
			bad := ""
			for b := range seen {
				r, ok := b.Instrs[len(b.Instrs)-1].(*ssa.Return)
				if !ok {
					continue
				}
				// returns on the blk == nil side are exempt
				nilSide := false
				for _, cd := range fi.condsAt(b) {
					if isNilCmp(cd, bp) == -1 {
						nilSide = true
					}
				}
				if nilSide {
					continue
				}
				bad = c.pos(r.Pos())
			}
			c.check(bad == "" && ntrunc > 0, key, fn.Pos(), "blk."+field+" is truncated on every path to a return that can be taken with a non-nil block",
				"the return at "+bad+" can be reached without blk."+field+" having been truncated by this call: a reused Block keeps sequences or literals of an earlier call (the block then expands to more than the n bytes reported)")
		}
	}
}

// untruncatedReach: the blocks that can be reached from the entry with a non-nil block — edges taken
// under blk == nil are not followed — without passing a truncating store to blk.<field>
// (X = X[:0] or append(X[:0], …)); and the number of truncating blocks found.
func (c *Ctx) untruncatedReach(fi *FuncInfo, bp *ssa.Parameter, field string) (map[*ssa.BasicBlock]bool, int) {
	fn := fi.fn
	trunc := map[*ssa.BasicBlock]bool{}
	for _, b := range fn.Blocks {
		for _, in := range b.Instrs {
			st, ok := in.(*ssa.Store)
			if !ok {
				continue
			}
			fa, ok := st.Addr.(*ssa.FieldAddr)
			if !ok || fa.X != ssa.Value(bp) || derefStruct(fa.X.Type()).Field(fa.Field).Name() != field {
				continue
			}
			if truncatingValue(st.Val, field, 0) {
				trunc[b] = true
			}
		}
	}
	nilEdge := func(b, s *ssa.BasicBlock) bool {
		iff, ok := b.Instrs[len(b.Instrs)-1].(*ssa.If)
		if !ok || b.Succs[0] == b.Succs[1] {
			return false
		}
		side := isNilCmp(Cond{iff.Cond, b.Succs[0] == s}, bp)
		return side == -1
	}
	seen := map[*ssa.BasicBlock]bool{}
	var stack []*ssa.BasicBlock
	if !trunc[fn.Blocks[0]] {
		stack = append(stack, fn.Blocks[0])
		seen[fn.Blocks[0]] = true
	}
	for len(stack) > 0 {
		b := stack[len(stack)-1]
		stack = stack[:len(stack)-1]
		for _, s := range b.Succs {
			if seen[s] || trunc[s] || nilEdge(b, s) {
				continue
			}
			seen[s] = true
			stack = append(stack, s)
		}
	}
	return seen, len(trunc)
}

func blockParam(fn *ssa.Function) *ssa.Parameter {
	for _, p := range fn.Params {
		if pt, ok := p.Type().(*types.Pointer); ok {
			if n, ok := pt.Elem().(*types.Named); ok && n.Obj().Name() == "Block" {
				return p
			}
		}
	}
	return nil
}

// atomIsField: l is a single atom (coefficient 1, no constant) that reads the
// named configuration field or a private copy of it.
func (fi *FuncInfo) atomIsField(l Lin, name string) bool {
	if len(l.t) != 1 || l.c != 0 {
		return false
	}
	for a, co := range l.t {
		if co != 1 {
			return false
		}
		base := strings.SplitN(a, "@", 2)[0]
		if strings.HasSuffix(base, "."+name) || strings.EqualFold(lastField(base), name) && strings.HasSuffix(strings.ToLower(base), "."+strings.ToLower(name)) {
			return true
		}
		if n := fi.fieldNameOfAtom(a); n != "" && strings.EqualFold(n, name) {
			return true
		}
	}
	return false
}
